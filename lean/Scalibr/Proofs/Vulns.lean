import Scalibr.Spec.Vulns
namespace Scalibr.Vulns

/-! ### the (version, kind) order: the code's comparator, the specification's order, and a numeric key -/

/-- lexicographic (version, kind) as one number -/
def key (e : Ev) : Nat := 3 * e.v + eventOrder e.k

theorem evLt_iff (a b : Ev) : evLt a b = true ↔ key a < key b := by
  unfold evLt key
  cases a.k <;> cases b.k <;> simp [eventOrder] <;> omega

theorem evLt_false_iff (a b : Ev) : evLt a b = false ↔ key b ≤ key a := by
  have := evLt_iff a b
  cases h : evLt a b <;> simp [h] at this ⊢ <;> omega

/-- the code's tie-break is the specification's order of kinds on one version -/
theorem evLt_eq_osvBefore : evLt = osvBefore := by
  funext a b
  unfold evLt osvBefore
  cases a.k <;> cases b.k <;> simp [eventOrder, kindBefore]

theorem sortEvents_eq_osvOrder (es : List Ev) : sortEvents es = osvOrder es := by
  unfold sortEvents osvOrder; rw [evLt_eq_osvBefore]

theorem osvBefore_iff (a b : Ev) : osvBefore a b = true ↔ key a < key b := by
  rw [← evLt_eq_osvBefore]; exact evLt_iff a b

/-! comparator facts: the precondition of `slices.SortFunc`, and: two events the comparator cannot separate are equal -/
theorem evLt_asymm (a b : Ev) : evLt a b = true → evLt b a = false := by
  rw [evLt_iff, evLt_false_iff]; omega
theorem evLt_trans (a b c : Ev) : evLt b a = false → evLt c b = false → evLt c a = false := by
  simp only [evLt_false_iff]; omega
theorem evLt_sep (a b : Ev) : evLt a b = false → evLt b a = false → a = b := by
  simp only [evLt_false_iff]
  obtain ⟨ak, av⟩ := a
  obtain ⟨bk, bv⟩ := b
  unfold key
  cases ak <;> cases bk <;> simp [eventOrder] <;> omega

theorem key_v_le (a b : Ev) (h : key a < key b) : a.v ≤ b.v := by
  obtain ⟨ak, av⟩ := a
  obtain ⟨bk, bv⟩ := b
  unfold key at h
  cases ak <;> cases bk <;> simp [eventOrder] at h ⊢ <;> omega

/-! ### the code's decision in recursive form -/

/-- recursive form of the code's decision -/
def dec (prev : Option Kind) : List Ev → Nat → Bool
  | [], _ => isIntro prev
  | e :: es, q => if e.v < q then dec (some e.k) es q
                  else if e.v = q then exactScan (e :: es) q else isIntro prev

/-- index form with an explicit "event before the list" -/
def codeDecisionP (prev : Option Kind) (es : List Ev) (q : Nat) : Bool :=
  let idx := idxOf es q
  let prevK := if idx = 0 then prev else (es[idx-1]?).map (·.k)
  match es[idx]? with
  | some e => if e.v = q then exactScan (es.drop idx) q else isIntro prevK
  | none => isIntro prevK

theorem codeDecision_eq_P (es : List Ev) (q : Nat) : codeDecision es q = codeDecisionP none es q := by
  unfold codeDecision codeDecisionP
  by_cases h : idxOf es q = 0
  · simp only [h, isIntro]
    cases es[0]? <;> simp
  · have hb : (idxOf es q != 0) = true := by simp [h]
    simp only [hb, Bool.true_and, h, if_false]
    cases es[idxOf es q]? <;> rfl

theorem idxOf_cons_lt (e : Ev) (es : List Ev) (q : Nat) (h : e.v < q) :
    idxOf (e :: es) q = idxOf es q + 1 := by
  simp [idxOf, List.takeWhile, h]

theorem idxOf_cons_ge (e : Ev) (es : List Ev) (q : Nat) (h : ¬ e.v < q) :
    idxOf (e :: es) q = 0 := by
  simp [idxOf, List.takeWhile, h]

theorem codeDecisionP_eq_dec (prev : Option Kind) (es : List Ev) (q : Nat) :
    codeDecisionP prev es q = dec prev es q := by
  induction es generalizing prev with
  | nil => simp [codeDecisionP, dec, idxOf]
  | cons e es ih =>
    by_cases h : e.v < q
    · have hi := idxOf_cons_lt e es q h
      rw [dec, if_pos h, ← ih (some e.k)]
      unfold codeDecisionP
      simp only [hi]
      by_cases h0 : idxOf es q = 0
      · simp [h0]
      · have : idxOf es q + 1 - 1 = (idxOf es q - 1) + 1 := by omega
        simp [h0, this]
    · have hi := idxOf_cons_ge e es q h
      rw [dec, if_neg h]
      unfold codeDecisionP
      simp [hi]

/-! ### the code's decision is the OSV loop on ordered well-formed events -/

theorem foldl_gt (q : Nat) (es : List Ev) (acc : Bool) (h : ∀ e ∈ es, q < e.v) :
    es.foldl (step q) acc = acc := by
  induction es generalizing acc with
  | nil => rfl
  | cons e es ih =>
    have he : q < e.v := h e (by simp)
    have : step q acc e = acc := by
      unfold step; cases e.k <;> simp <;> omega
    simp [List.foldl, this]
    exact ih acc (fun x hx => h x (by simp [hx]))

theorem WFfrom_lb (ei : Bool) (lo : Ev) (es : List Ev) (h : WFfrom ei (some lo) es = true) :
    ∀ e ∈ es, key lo < key e := by
  induction es generalizing ei lo with
  | nil => intro e he; cases he
  | cons x xs ih =>
    simp only [WFfrom, Bool.and_eq_true] at h
    obtain ⟨⟨h1, _⟩, h3⟩ := h
    have h1' := (osvBefore_iff lo x).mp h1
    intro e he
    simp at he
    rcases he with rfl | he
    · exact h1'
    · have := ih (!ei) x h3 e he; omega

theorem exactScan_cons_eq (e : Ev) (es : List Ev) (q : Nat) (h : e.v = q) :
    exactScan (e :: es) q = (inclusive e || exactScan es q) := by
  simp [exactScan, List.takeWhile, h]

theorem exactScan_cons_ne (e : Ev) (es : List Ev) (q : Nat) (h : ¬ e.v = q) :
    exactScan (e :: es) q = false := by
  simp [exactScan, List.takeWhile, h]

/-- after an `introduced` on the queried version the only further event of that version is its `last_affected` -/
theorem exactScan_after_intro (e : Ev) (es : List Ev) (hk : e.k = .intro) (hlb : ∀ x ∈ es, key e < key x) :
    es.takeWhile (fun x => x.v = e.v) = [] ∨ exactScan es e.v = true := by
  cases es with
  | nil => left; rfl
  | cons x r =>
    by_cases hx : x.v = e.v
    · right
      rw [exactScan_cons_eq x r e.v hx]
      have := hlb x (by simp)
      unfold key at this
      rw [hk, hx] at this
      have hxk : x.k = .last := by
        cases hxk : x.k <;> simp [hxk, eventOrder] at this ⊢ <;> omega
      simp [inclusive, hxk]
    · left; simp [List.takeWhile, hx]

/-- the OSV loop over ordered well-formed events none of which is below the queried version: it leaves the state alone
when no event is on that version, and otherwise answers what the code's exact-hit loop answers -/
theorem fold_ge (q : Nat) : ∀ (es : List Ev) (prev : Option Kind) (lo : Option Ev),
    WFfrom (!isIntro prev) lo es = true → (∀ x ∈ es, q ≤ x.v) →
    es.foldl (step q) (isIntro prev) =
      if es.takeWhile (fun x => x.v = q) = [] then isIntro prev else exactScan es q := by
  intro es
  induction es with
  | nil => intros; simp
  | cons e rest ih =>
    intro prev lo hwf hge
    simp only [WFfrom, Bool.and_eq_true] at hwf
    obtain ⟨⟨_, hk⟩, hrest⟩ := hwf
    have hlb := WFfrom_lb _ e rest hrest
    by_cases hq : e.v = q
    · have htw : (e :: rest).takeWhile (fun x => x.v = q) ≠ [] := by simp [List.takeWhile, hq]
      rw [if_neg htw, exactScan_cons_eq e rest q hq, List.foldl_cons]
      cases hek : e.k with
      | intro =>
        have hp : isIntro prev = false := by cases hp : isIntro prev <;> simp_all
        have hs : step q (isIntro prev) e = isIntro (some .intro) := by
          unfold step; simp [hek, hq, isIntro]
        rw [hs]
        rw [hp] at hrest
        have := ih (some .intro) (some e) (by simpa [isIntro] using hrest) (fun x hx => hge x (by simp [hx]))
        rw [this]
        rcases exactScan_after_intro e rest hek hlb with h | h
        · rw [hq] at h; simp [h, isIntro, inclusive, hek]
        · rw [hq] at h; simp [h, inclusive, hek, isIntro]
      | fixed =>
        have hp : isIntro prev = true := by cases hp : isIntro prev <;> simp_all
        have hs : step q (isIntro prev) e = isIntro (some .fixed) := by
          unfold step; simp [hek, hq, isIntro]
        rw [hs]
        rw [hp] at hrest
        have := ih (some .fixed) (some e) (by simpa [isIntro] using hrest) (fun x hx => hge x (by simp [hx]))
        rw [this]
        by_cases h : rest.takeWhile (fun x => x.v = q) = []
        · simp [h, isIntro, inclusive, hek, exactScan]
        · simp [h, inclusive, hek]
      | last =>
        have hp : isIntro prev = true := by cases hp : isIntro prev <;> simp_all
        have hs : step q (isIntro prev) e = true := by
          unfold step; simp [hek, hq, hp]
        rw [hs, foldl_gt q rest true]
        · simp [inclusive, hek]
        · intro x hx
          have h3 : eventOrder x.k < 3 := by cases x.k <;> simp [eventOrder]
          have hl : eventOrder Kind.last = 2 := rfl
          have := hlb x hx
          unfold key at this
          rw [hek, hl] at this
          omega
    · have htw : (e :: rest).takeWhile (fun x => x.v = q) = [] := by simp [List.takeWhile, hq]
      rw [if_pos htw]
      apply foldl_gt
      intro x hx
      have he : q < e.v := by have := hge e (by simp); omega
      rcases List.mem_cons.mp hx with rfl | hx
      · exact he
      · have := key_v_le e x (hlb x hx); omega

theorem dec_eq_fold (prev : Option Kind) (lo : Option Ev) (es : List Ev) (q : Nat)
    (hwf : WFfrom (!isIntro prev) lo es = true) :
    dec prev es q = es.foldl (step q) (isIntro prev) := by
  induction es generalizing prev lo with
  | nil => simp [dec]
  | cons e es ih =>
    by_cases h1 : e.v < q
    · simp only [WFfrom, Bool.and_eq_true] at hwf
      obtain ⟨⟨_, hk⟩, hrest⟩ := hwf
      simp only [dec, List.foldl, h1, if_true]
      have hstep : step q (isIntro prev) e = isIntro (some e.k) := by
        unfold step isIntro; cases hek : e.k <;> simp <;> omega
      rw [hstep]
      apply ih (some e.k) (some e)
      have : (!isIntro (some e.k)) = (!(!isIntro prev)) := by
        cases hp : isIntro prev <;> simp [hp] at hk ⊢ <;> (cases hek : e.k <;> simp_all [isIntro])
      rw [this]; exact hrest
    · have hlb : ∀ x ∈ es, key e < key x := by
        simp only [WFfrom, Bool.and_eq_true] at hwf
        exact WFfrom_lb _ e es hwf.2
      have hge : ∀ x ∈ e :: es, q ≤ x.v := by
        intro x hx
        rcases List.mem_cons.mp hx with rfl | hx
        · omega
        · have := key_v_le e x (hlb x hx); omega
      rw [fold_ge q (e :: es) prev lo hwf hge]
      simp only [dec, h1, if_false]
      by_cases h2 : e.v = q
      · simp [h2, List.takeWhile]
      · simp [h2, List.takeWhile]

theorem codeDecision_eq_osvScan (es : List Ev) (q : Nat) (h : WFsorted es = true) :
    codeDecision es q = osvScan es q := by
  rw [codeDecision_eq_P, codeDecisionP_eq_dec]
  unfold WFsorted at h; unfold osvScan
  have := dec_eq_fold none none es q (by simpa [isIntro] using h)
  simpa [isIntro] using this

/-! ### the OSV loop on ordered events is the order-free reading `osvDecl` — for every event list -/

/-- `c` closes whatever is open (the loop's view) -/
def closes (q : Nat) (c : Ev) : Bool := (c.k = .fixed && c.v ≤ q) || (c.k = .last && c.v < q)

/-- `c` closes the interval opened by `i` (the specification's view) -/
def closesFor (i : Ev) (q : Nat) (c : Ev) : Bool :=
  (c.k = .fixed && i.v < c.v && c.v ≤ q) || (c.k = .last && i.v ≤ c.v && c.v < q)

/-- `osvDecl` with its two quantifiers over (possibly) different lists -/
def declOn (all : List Ev) (q : Nat) (l : List Ev) : Bool :=
  l.any fun i => i.k = .intro && i.v ≤ q && !(all.any (closesFor i q))

theorem osvDecl_eq (es : List Ev) (q : Nat) : osvDecl es q = declOn es q es := by
  unfold osvDecl declOn closesFor; rfl

theorem any_congr_mem {α : Type} : ∀ (l : List α) (f g : α → Bool), (∀ x ∈ l, f x = g x) → l.any f = l.any g
  | [], _, _, _ => rfl
  | x :: xs, f, g, h => by
    rw [List.any_cons, List.any_cons, h x (by simp), any_congr_mem xs f g (fun y hy => h y (by simp [hy]))]

/-- an `introduced` event `i` and a later event `c` in (version, kind) order: `c` closes `i`'s interval iff it closes at all -/
theorem closesFor_of_before (i c : Ev) (q : Nat) (hi : i.k = .intro) (h : key i ≤ key c) :
    closesFor i q c = closes q c := by
  unfold closesFor closes
  unfold key at h; rw [hi] at h
  cases hc : c.k <;> simp [hc, eventOrder] at h ⊢ <;> (intros; omega)

/-- an `introduced` event `i` is never closed by an event `e` before it in (version, kind) order, nor by itself -/
theorem closesFor_of_after (i e : Ev) (q : Nat) (hi : i.k = .intro) (h : key e ≤ key i) :
    closesFor i q e = false := by
  unfold closesFor
  unfold key at h; rw [hi] at h
  cases he : e.k <;> simp [he, eventOrder] at h ⊢ <;> (intros; omega)

/-- the loop over events in (version, kind) order, from any accumulated state -/
theorem fold_eq_decl (q : Nat) : ∀ (es : List Ev) (acc : Bool), es.Pairwise (fun a b => key a ≤ key b) →
    es.foldl (step q) acc = (declOn es q es || (acc && !(es.any (closes q))))
  | [], acc, _ => by simp [declOn]
  | e :: es, acc, h => by
    obtain ⟨hlb, h2⟩ := List.pairwise_cons.mp h
    have ih := fold_eq_decl q es (step q acc e) h2
    rw [List.foldl_cons, ih]
    have hd : declOn (e :: es) q (e :: es) =
        ((e.k = .intro && e.v ≤ q && !(es.any (closes q))) || declOn es q es) := by
      unfold declOn
      rw [List.any_cons]
      congr 1
      · -- for i = e: not closed by itself; the later events close it iff they close at all
        by_cases hk : e.k = .intro
        · rw [List.any_cons, closesFor_of_after e e q hk (Nat.le_refl _), Bool.false_or,
            any_congr_mem es (closesFor e q) (closes q) (fun c hc => closesFor_of_before e c q hk (hlb c hc))]
        · simp [hk]
      · -- for i ∈ es: `e` comes before `i`, so it cannot close `i`'s interval
        apply any_congr_mem
        intro i hi
        by_cases hk : i.k = .intro
        · rw [List.any_cons, closesFor_of_after i e q hk (hlb i hi), Bool.false_or]
        · simp [hk]
    rw [hd, List.any_cons]
    cases hk : e.k <;> simp only [step, hk, closes] <;>
      by_cases hq : e.v ≤ q <;> by_cases hq' : e.v < q <;>
      simp_all <;> (try omega) <;> (cases acc <;> cases declOn es q es <;> cases es.any (closes q) <;> simp_all)

theorem declOn_perm (q : Nat) (a b : List Ev) (h : a.Perm b) : declOn a q a = declOn b q b := by
  unfold declOn
  have h1 : ∀ i : Ev, (a.any (closesFor i q)) = (b.any (closesFor i q)) := fun i => h.any_eq
  simp only [h1]
  exact h.any_eq

theorem sortEvents_pairwise (es : List Ev) : (sortEvents es).Pairwise (fun a b => key a ≤ key b) := by
  have := isort_pairwise evLt evLt_asymm evLt_trans es
  refine this.imp ?_
  intro a b h
  exact (evLt_false_iff b a).mp h

/-- the OSV loop over the ordered events = the order-free reading, for EVERY event list (well formed or not) -/
theorem osvRange_eq_osvDecl (es : List Ev) (q : Nat) : osvRange es q = osvDecl es q := by
  unfold osvRange osvScan
  rw [← sortEvents_eq_osvOrder, osvDecl_eq, declOn_perm q es (sortEvents es) (isort_perm evLt es).symm,
    fold_eq_decl q (sortEvents es) false (sortEvents_pairwise es)]
  simp

/-! ### sorting with two comparators that agree on the list; sorting commutes with a key map -/

theorem insertBy_mapK {α κ} (lt : κ → κ → Bool) (k : α → κ) (x : α) (l : List α) :
    (insertBy (fun a b => lt (k a) (k b)) x l).map k = insertBy lt (k x) (l.map k) := by
  induction l with
  | nil => rfl
  | cons y ys ih =>
    simp only [insertBy, List.map_cons]
    split <;> simp [ih]

theorem isort_mapK {α κ} (lt : κ → κ → Bool) (k : α → κ) (l : List α) :
    (isort (fun a b => lt (k a) (k b)) l).map k = isort lt (l.map k) := by
  unfold isort
  suffices ∀ acc : List α, (l.foldl (fun acc x => insertBy (fun a b => lt (k a) (k b)) x acc) acc).map k
      = (l.map k).foldl (fun acc x => insertBy lt x acc) (acc.map k) from this []
  induction l with
  | nil => intro acc; rfl
  | cons x xs ih => intro acc; simp only [List.foldl, List.map_cons]; rw [ih, insertBy_mapK]

theorem insertBy_congr_mem {α} (lt1 lt2 : α → α → Bool) (x : α) : ∀ (l : List α),
    (∀ b ∈ l, lt1 x b = lt2 x b) → insertBy lt1 x l = insertBy lt2 x l
  | [], _ => rfl
  | y :: ys, h => by
    simp only [insertBy, h y (by simp)]
    split
    · rfl
    · rw [insertBy_congr_mem lt1 lt2 x ys (fun b hb => h b (by simp [hb]))]

theorem isort_congr_mem {α} (lt1 lt2 : α → α → Bool) (l : List α)
    (h : ∀ a ∈ l, ∀ b ∈ l, lt1 a b = lt2 a b) : isort lt1 l = isort lt2 l := by
  unfold isort
  suffices ∀ (xs acc : List α), (∀ a ∈ xs, a ∈ l) → (∀ a ∈ acc, a ∈ l) →
      xs.foldl (fun acc x => insertBy lt1 x acc) acc = xs.foldl (fun acc x => insertBy lt2 x acc) acc from
    this l [] (fun _ h => h) (by simp)
  intro xs
  induction xs with
  | nil => intros; rfl
  | cons x xs ih =>
    intro acc hx ha
    simp only [List.foldl]
    have hxl : x ∈ l := hx x (by simp)
    rw [insertBy_congr_mem lt1 lt2 x acc (fun b hb => h x hxl b (ha b hb))]
    apply ih
    · intro a h1; exact hx a (by simp [h1])
    · intro a h1
      have := (insertBy_perm lt2 x acc).mem_iff.mp h1
      rcases List.mem_cons.mp this with rfl | h2
      · exact hxl
      · exact ha a h2


end Scalibr.Vulns
