import Scalibr.Spec.Vulns
namespace Scalibr.Vulns

/-- recursive form of the code's decision -/
def dec (prev : Option Kind) : List Ev → Nat → Bool
  | [], _ => isIntro prev
  | e :: es, q => if e.v < q then dec (some e.k) es q
                  else if e.v = q then (e.k = .intro || e.k = .last) else isIntro prev

/-- index form with an explicit "event before the list" -/
def codeDecisionP (prev : Option Kind) (es : List Ev) (q : Nat) : Bool :=
  let idx := idxOf es q
  let prevK := if idx = 0 then prev else (es[idx-1]?).map (·.k)
  match es[idx]? with
  | some e => if e.v = q then (e.k = .intro || e.k = .last) else isIntro prevK
  | none => isIntro prevK

theorem codeDecision_eq_P (es : List Ev) (q : Nat) : codeDecision es q = codeDecisionP none es q := by
  unfold codeDecision codeDecisionP
  by_cases h : idxOf es q = 0
  · simp only [h, isIntro]
    cases es[0]? <;> simp
  · have hb : (idxOf es q != 0) = true := by simp [h]
    simp only [hb, Bool.true_and, h, if_false]
    cases es[idxOf es q]? <;> rfl

theorem idxOf_cons_lt (e : Ev) (es : List Ev) (q : Nat) (h : e.v < q) :
    idxOf (e :: es) q = idxOf es q + 1 := by
  simp [idxOf, List.takeWhile, h]

theorem idxOf_cons_ge (e : Ev) (es : List Ev) (q : Nat) (h : ¬ e.v < q) :
    idxOf (e :: es) q = 0 := by
  simp [idxOf, List.takeWhile, h]

theorem codeDecisionP_eq_dec (prev : Option Kind) (es : List Ev) (q : Nat) :
    codeDecisionP prev es q = dec prev es q := by
  induction es generalizing prev with
  | nil => simp [codeDecisionP, dec, idxOf]
  | cons e es ih =>
    by_cases h : e.v < q
    · have hi := idxOf_cons_lt e es q h
      rw [dec, if_pos h, ← ih (some e.k)]
      unfold codeDecisionP
      simp only [hi]
      by_cases h0 : idxOf es q = 0
      · simp [h0]
      · have : idxOf es q + 1 - 1 = (idxOf es q - 1) + 1 := by omega
        simp [h0, this]
    · have hi := idxOf_cons_ge e es q h
      rw [dec, if_neg h]
      unfold codeDecisionP
      simp [hi]

theorem foldl_gt (q : Nat) (es : List Ev) (acc : Bool) (h : ∀ e ∈ es, q < e.v) :
    es.foldl (step q) acc = acc := by
  induction es generalizing acc with
  | nil => rfl
  | cons e es ih =>
    have he : q < e.v := h e (by simp)
    have : step q acc e = acc := by
      unfold step; cases e.k <;> simp <;> omega
    simp [List.foldl, this]
    exact ih acc (fun x hx => h x (by simp [hx]))

theorem WFfrom_lb (ei : Bool) (lo : Nat) (es : List Ev) (h : WFfrom ei (some lo) es = true) :
    ∀ e ∈ es, lo < e.v := by
  induction es generalizing ei lo with
  | nil => intro e he; cases he
  | cons x xs ih =>
    simp [WFfrom] at h
    obtain ⟨⟨h1, _⟩, h3⟩ := h
    intro e he
    simp at he
    rcases he with rfl | he
    · exact h1
    · have := ih (!ei) x.v h3 e he; omega

theorem dec_eq_fold (prev : Option Kind) (lo : Option Nat) (es : List Ev) (q : Nat)
    (hwf : WFfrom (!isIntro prev) lo es = true) :
    dec prev es q = es.foldl (step q) (isIntro prev) := by
  induction es generalizing prev lo with
  | nil => simp [dec]
  | cons e es ih =>
    simp only [WFfrom, Bool.and_eq_true] at hwf
    obtain ⟨⟨_, hk⟩, hrest⟩ := hwf
    have hgt : ∀ x ∈ es, e.v < x.v := WFfrom_lb _ e.v es hrest
    simp only [dec, List.foldl]
    by_cases h1 : e.v < q
    · simp only [h1, if_true]
      have hstep : step q (isIntro prev) e = isIntro (some e.k) := by
        unfold step isIntro; cases hek : e.k <;> simp <;> omega
      rw [hstep]
      apply ih (some e.k) (some e.v)
      have : (!isIntro (some e.k)) = (!(!isIntro prev)) := by
        cases hp : isIntro prev <;> simp [hp] at hk ⊢ <;> (cases hek : e.k <;> simp_all [isIntro])
      rw [this]; exact hrest
    · simp only [h1, if_false]
      by_cases h2 : e.v = q
      · simp only [h2, if_true]
        have hrest' : es.foldl (step q) (step q (isIntro prev) e) = step q (isIntro prev) e :=
          foldl_gt q es _ (fun x hx => by have := hgt x hx; omega)
        rw [hrest']
        unfold step
        cases hek : e.k <;> simp [h2]
        · cases hp : isIntro prev <;> simp_all
      · simp only [h2, if_false]
        have hq : q < e.v := by omega
        have h0 : step q (isIntro prev) e = isIntro prev := by unfold step; cases e.k <;> simp <;> omega
        rw [h0]
        exact (foldl_gt q es _ (fun x hx => by have := hgt x hx; omega)).symm

theorem codeDecision_eq_osvScan (es : List Ev) (q : Nat) (h : WFsorted es = true) :
    codeDecision es q = osvScan es q := by
  rw [codeDecision_eq_P, codeDecisionP_eq_dec]
  unfold WFsorted at h; unfold osvScan
  have := dec_eq_fold none none es q (by simpa [isIntro] using h)
  simpa [isIntro] using this

/-! comparator facts: the precondition of `slices.SortFunc` -/
theorem evLt_asymm (a b : Ev) : evLt a b = true → evLt b a = false := by
  unfold evLt; simp; omega
theorem evLt_trans (a b c : Ev) : evLt b a = false → evLt c b = false → evLt c a = false := by
  unfold evLt; simp; omega

/-! ### the declarative reading (`osvDecl`) of the OSV evaluation loop -/

def closes (q : Nat) (c : Ev) : Bool := (c.k = .fixed && c.v ≤ q) || (c.k = .last && c.v < q)

/-- `osvDecl` with its two quantifiers over (possibly) different lists -/
def declOn (all : List Ev) (q : Nat) (l : List Ev) : Bool :=
  l.any fun i => i.k = .intro && i.v ≤ q && !(all.any fun c => i.v < c.v && closes q c)

theorem osvDecl_eq (es : List Ev) (q : Nat) : osvDecl es q = declOn es q es := by
  unfold osvDecl declOn closes; rfl

/-- strictly increasing versions -/
def Incr : Option Nat → List Ev → Prop
  | _, [] => True
  | lo, e :: es => (match lo with | none => True | some l => l < e.v) ∧ Incr (some e.v) es

theorem incr_of_WFfrom : ∀ (ei : Bool) (lo : Option Nat) (es : List Ev), WFfrom ei lo es = true → Incr lo es
  | _, _, [], _ => trivial
  | ei, lo, e :: es, h => by
    simp only [WFfrom, Bool.and_eq_true] at h
    refine ⟨?_, incr_of_WFfrom (!ei) (some e.v) es h.2⟩
    cases lo with
    | none => trivial
    | some l => simpa using h.1.1

theorem incr_lb : ∀ (lo : Nat) (es : List Ev), Incr (some lo) es → ∀ c ∈ es, lo < c.v
  | _, [], _, c, hc => by simp at hc
  | lo, e :: es, h, c, hc => by
    obtain ⟨h1, h2⟩ := h
    simp only [] at h1
    rcases List.mem_cons.mp hc with rfl | hc
    · exact h1
    · have := incr_lb e.v es h2 c hc; omega

theorem any_congr_mem {α : Type} : ∀ (l : List α) (f g : α → Bool), (∀ x ∈ l, f x = g x) → l.any f = l.any g
  | [], _, _, _ => rfl
  | x :: xs, f, g, h => by
    rw [List.any_cons, List.any_cons, h x (by simp), any_congr_mem xs f g (fun y hy => h y (by simp [hy]))]

/-- the fold over an increasing list, from any accumulated state -/
theorem fold_eq_decl (q : Nat) : ∀ (lo : Option Nat) (es : List Ev) (acc : Bool), Incr lo es →
    es.foldl (step q) acc = (declOn es q es || (acc && !(es.any (closes q))))
  | _, [], acc, _ => by simp [declOn]
  | lo, e :: es, acc, h => by
    obtain ⟨_, h2⟩ := h
    have hlb := incr_lb e.v es h2
    have ih := fold_eq_decl q (some e.v) es (step q acc e) h2
    rw [List.foldl_cons, ih]
    -- decompose the declarative reading of `e :: es`
    have hself : (e.v < e.v) = False := by simp
    have hd : declOn (e :: es) q (e :: es) =
        ((e.k = .intro && e.v ≤ q && !(es.any (closes q))) || declOn es q es) := by
      unfold declOn
      rw [List.any_cons]
      congr 1
      · -- for i = e: the closing event is in `es`, all of which are above `e`
        congr 1
        congr 1
        rw [List.any_cons]
        simp only [Nat.lt_irrefl, decide_false, Bool.false_and, Bool.false_or]
        apply any_congr_mem
        intro c hc
        simp [hlb c hc]
      · -- for i ∈ es: `e` is below `i`, so it cannot close
        apply any_congr_mem
        intro i hi
        rw [List.any_cons]
        have : ¬ i.v < e.v := by have := hlb i hi; omega
        simp [this]
    rw [hd, List.any_cons]
    cases hk : e.k <;> simp only [step, hk, closes] <;>
      by_cases hq : e.v ≤ q <;> by_cases hq' : e.v < q <;>
      simp_all <;> (try omega) <;> (cases acc <;> cases declOn es q es <;> cases es.any (closes q) <;> simp_all)

theorem declOn_perm (q : Nat) (a b : List Ev) (h : a.Perm b) : declOn a q a = declOn b q b := by
  unfold declOn
  have h1 : ∀ i : Ev, (a.any fun c => i.v < c.v && closes q c) = (b.any fun c => i.v < c.v && closes q c) :=
    fun i => h.any_eq
  simp only [h1]
  exact h.any_eq


/-! ### sorting with two comparators that agree on the list; sorting commutes with a key map -/

theorem insertBy_mapK {α κ} (lt : κ → κ → Bool) (k : α → κ) (x : α) (l : List α) :
    (insertBy (fun a b => lt (k a) (k b)) x l).map k = insertBy lt (k x) (l.map k) := by
  induction l with
  | nil => rfl
  | cons y ys ih =>
    simp only [insertBy, List.map_cons]
    split <;> simp [ih]

theorem isort_mapK {α κ} (lt : κ → κ → Bool) (k : α → κ) (l : List α) :
    (isort (fun a b => lt (k a) (k b)) l).map k = isort lt (l.map k) := by
  unfold isort
  suffices ∀ acc : List α, (l.foldl (fun acc x => insertBy (fun a b => lt (k a) (k b)) x acc) acc).map k
      = (l.map k).foldl (fun acc x => insertBy lt x acc) (acc.map k) from this []
  induction l with
  | nil => intro acc; rfl
  | cons x xs ih => intro acc; simp only [List.foldl, List.map_cons]; rw [ih, insertBy_mapK]

theorem insertBy_congr_mem {α} (lt1 lt2 : α → α → Bool) (x : α) : ∀ (l : List α),
    (∀ b ∈ l, lt1 x b = lt2 x b) → insertBy lt1 x l = insertBy lt2 x l
  | [], _ => rfl
  | y :: ys, h => by
    simp only [insertBy, h y (by simp)]
    split
    · rfl
    · rw [insertBy_congr_mem lt1 lt2 x ys (fun b hb => h b (by simp [hb]))]

theorem isort_congr_mem {α} (lt1 lt2 : α → α → Bool) (l : List α)
    (h : ∀ a ∈ l, ∀ b ∈ l, lt1 a b = lt2 a b) : isort lt1 l = isort lt2 l := by
  unfold isort
  suffices ∀ (xs acc : List α), (∀ a ∈ xs, a ∈ l) → (∀ a ∈ acc, a ∈ l) →
      xs.foldl (fun acc x => insertBy lt1 x acc) acc = xs.foldl (fun acc x => insertBy lt2 x acc) acc from
    this l [] (fun _ h => h) (by simp)
  intro xs
  induction xs with
  | nil => intros; rfl
  | cons x xs ih =>
    intro acc hx ha
    simp only [List.foldl]
    have hxl : x ∈ l := hx x (by simp)
    rw [insertBy_congr_mem lt1 lt2 x acc (fun b hb => h x hxl b (ha b hb))]
    apply ih
    · intro a h1; exact hx a (by simp [h1])
    · intro a h1
      have := (insertBy_perm lt2 x acc).mem_iff.mp h1
      rcases List.mem_cons.mp this with rfl | h2
      · exact hxl
      · exact ha a h2


end Scalibr.Vulns
