import Scalibr.Spec.Vulns
namespace Scalibr.Vulns

/-- recursive form of the code's decision -/
def dec (prev : Option Kind) : List Ev → Nat → Bool
  | [], _ => isIntro prev
  | e :: es, q => if e.v < q then dec (some e.k) es q
                  else if e.v = q then (e.k = .intro || e.k = .last) else isIntro prev

/-- index form with an explicit "event before the list" -/
def codeDecisionP (prev : Option Kind) (es : List Ev) (q : Nat) : Bool :=
  let idx := idxOf es q
  let prevK := if idx = 0 then prev else (es[idx-1]?).map (·.k)
  match es[idx]? with
  | some e => if e.v = q then (e.k = .intro || e.k = .last) else isIntro prevK
  | none => isIntro prevK

theorem codeDecision_eq_P (es : List Ev) (q : Nat) : codeDecision es q = codeDecisionP none es q := by
  unfold codeDecision codeDecisionP
  by_cases h : idxOf es q = 0
  · simp only [h, isIntro]
    cases es[0]? <;> simp
  · have hb : (idxOf es q != 0) = true := by simp [h]
    simp only [hb, Bool.true_and, h, if_false]
    cases es[idxOf es q]? <;> rfl

theorem idxOf_cons_lt (e : Ev) (es : List Ev) (q : Nat) (h : e.v < q) :
    idxOf (e :: es) q = idxOf es q + 1 := by
  simp [idxOf, List.takeWhile, h]

theorem idxOf_cons_ge (e : Ev) (es : List Ev) (q : Nat) (h : ¬ e.v < q) :
    idxOf (e :: es) q = 0 := by
  simp [idxOf, List.takeWhile, h]

theorem codeDecisionP_eq_dec (prev : Option Kind) (es : List Ev) (q : Nat) :
    codeDecisionP prev es q = dec prev es q := by
  induction es generalizing prev with
  | nil => simp [codeDecisionP, dec, idxOf]
  | cons e es ih =>
    by_cases h : e.v < q
    · have hi := idxOf_cons_lt e es q h
      rw [dec, if_pos h, ← ih (some e.k)]
      unfold codeDecisionP
      simp only [hi]
      by_cases h0 : idxOf es q = 0
      · simp [h0]
      · have : idxOf es q + 1 - 1 = (idxOf es q - 1) + 1 := by omega
        simp [h0, this]
    · have hi := idxOf_cons_ge e es q h
      rw [dec, if_neg h]
      unfold codeDecisionP
      simp [hi]

theorem foldl_gt (q : Nat) (es : List Ev) (acc : Bool) (h : ∀ e ∈ es, q < e.v) :
    es.foldl (step q) acc = acc := by
  induction es generalizing acc with
  | nil => rfl
  | cons e es ih =>
    have he : q < e.v := h e (by simp)
    have : step q acc e = acc := by
      unfold step; cases e.k <;> simp <;> omega
    simp [List.foldl, this]
    exact ih acc (fun x hx => h x (by simp [hx]))

theorem WFfrom_lb (ei : Bool) (lo : Nat) (es : List Ev) (h : WFfrom ei (some lo) es = true) :
    ∀ e ∈ es, lo < e.v := by
  induction es generalizing ei lo with
  | nil => intro e he; cases he
  | cons x xs ih =>
    simp [WFfrom] at h
    obtain ⟨⟨h1, _⟩, h3⟩ := h
    intro e he
    simp at he
    rcases he with rfl | he
    · exact h1
    · have := ih (!ei) x.v h3 e he; omega

theorem dec_eq_fold (prev : Option Kind) (lo : Option Nat) (es : List Ev) (q : Nat)
    (hwf : WFfrom (!isIntro prev) lo es = true) :
    dec prev es q = es.foldl (step q) (isIntro prev) := by
  induction es generalizing prev lo with
  | nil => simp [dec]
  | cons e es ih =>
    simp only [WFfrom, Bool.and_eq_true] at hwf
    obtain ⟨⟨_, hk⟩, hrest⟩ := hwf
    have hgt : ∀ x ∈ es, e.v < x.v := WFfrom_lb _ e.v es hrest
    simp only [dec, List.foldl]
    by_cases h1 : e.v < q
    · simp only [h1, if_true]
      have hstep : step q (isIntro prev) e = isIntro (some e.k) := by
        unfold step isIntro; cases hek : e.k <;> simp <;> omega
      rw [hstep]
      apply ih (some e.k) (some e.v)
      have : (!isIntro (some e.k)) = (!(!isIntro prev)) := by
        cases hp : isIntro prev <;> simp [hp] at hk ⊢ <;> (cases hek : e.k <;> simp_all [isIntro])
      rw [this]; exact hrest
    · simp only [h1, if_false]
      by_cases h2 : e.v = q
      · simp only [h2, if_true]
        have hrest' : es.foldl (step q) (step q (isIntro prev) e) = step q (isIntro prev) e :=
          foldl_gt q es _ (fun x hx => by have := hgt x hx; omega)
        rw [hrest']
        unfold step
        cases hek : e.k <;> simp [h2]
        · cases hp : isIntro prev <;> simp_all
      · simp only [h2, if_false]
        have hq : q < e.v := by omega
        have h0 : step q (isIntro prev) e = isIntro prev := by unfold step; cases e.k <;> simp <;> omega
        rw [h0]
        exact (foldl_gt q es _ (fun x hx => by have := hgt x hx; omega)).symm

theorem codeDecision_eq_osvScan (es : List Ev) (q : Nat) (h : WFsorted es = true) :
    codeDecision es q = osvScan es q := by
  rw [codeDecision_eq_P, codeDecisionP_eq_dec]
  unfold WFsorted at h; unfold osvScan
  have := dec_eq_fold none none es q (by simpa [isIntro] using h)
  simpa [isIntro] using this

/-! comparator facts: the precondition of `slices.SortFunc` -/
theorem evLt_asymm (a b : Ev) : evLt a b = true → evLt b a = false := by
  unfold evLt; simp; omega
theorem evLt_trans (a b c : Ev) : evLt b a = false → evLt c b = false → evLt c a = false := by
  unfold evLt; simp; omega

end Scalibr.Vulns
