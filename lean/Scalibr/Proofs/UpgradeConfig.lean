import Scalibr.Spec.UpgradeConfig
namespace Scalibr.Upgrade

theorem lastIndexOf_none (c : Char) (w : List Char) (h : c ∉ w) : lastIndexOf c w = none := by
  induction w with
  | nil => rfl
  | cons x xs ih =>
    simp only [List.mem_cons, not_or] at h
    simp [lastIndexOf, ih h.2, Ne.symm h.1]

/-- the last colon of `pkg:word` is the one in front of the word, whatever the package name holds -/
theorem lastIndexOf_sep (pkg w : List Char) (h : ':' ∉ w) : lastIndexOf ':' (pkg ++ ':' :: w) = some pkg.length := by
  induction pkg with
  | nil => simp [lastIndexOf, lastIndexOf_none ':' w h]
  | cons x xs ih => simp [lastIndexOf, ih]

theorem parseEntry_render (e : Entry) (h : WFentry e) :
    parseEntry (render e) = (levelOfWord e.word).map fun l => (e.pkg, l) := by
  unfold render
  split
  · rename_i hb
    simp only [parseEntry, lastIndexOf_none ':' e.word h, hb.2]
  · simp only [parseEntry, lastIndexOf_sep e.pkg e.word h]
    have h1 : (e.pkg ++ ':' :: e.word).take e.pkg.length = e.pkg := by simp
    have h2 : (e.pkg ++ ':' :: e.word).drop (e.pkg.length + 1) = e.word := by
      rw [show e.pkg ++ ':' :: e.word = (e.pkg ++ [':']) ++ e.word by simp]
      rw [List.drop_left' (by simp)]
    rw [h1, h2]

theorem configFromStrings_snoc (ss : List (List Char)) (s : List Char) :
    configFromStrings (ss ++ [s]) =
      match parseEntry s with | some e => e :: configFromStrings ss | none => configFromStrings ss := by
  unfold configFromStrings
  rw [List.foldl_append]
  rfl

theorem lastLevel_snoc (es : List Entry) (e : Entry) (p : List Char) :
    lastLevel (es ++ [e]) p =
      if e.pkg = p then (match levelOfWord e.word with | some l => some l | none => lastLevel es p) else lastLevel es p := by
  unfold lastLevel
  rw [List.foldl_append]
  rfl

def lookup (cfg : List (List Char × Nat)) (p : List Char) : Option Nat := (cfg.find? (·.1 = p)).map (·.2)

theorem configGet_lookup (cfg : List (List Char × Nat)) (p : List Char) :
    configGet cfg p = (lookup cfg p).getD ((lookup cfg []).getD 0) := by
  unfold configGet lookup
  cases cfg.find? (·.1 = p) <;> cases cfg.find? (·.1 = []) <;> rfl

theorem lookup_rev (es : List Entry) (hwf : ∀ e ∈ es, WFentry e) (p : List Char) :
    lookup (configFromStrings (es.reverse.map render)) p = lastLevel es.reverse p := by
  induction es with
  | nil => rfl
  | cons e es ih =>
    have ih := ih (fun x hx => hwf x (by simp [hx]))
    rw [List.reverse_cons, List.map_append, List.map_singleton, configFromStrings_snoc, lastLevel_snoc,
      parseEntry_render e (hwf e (by simp))]
    cases hl : levelOfWord e.word with
    | none => simp only [Option.map]; rw [ih]; split <;> rfl
    | some l =>
      simp only [Option.map]
      by_cases hp : e.pkg = p
      · simp [lookup, hp]
      · simp only [hp, if_false]
        rw [← ih]
        simp [lookup, List.find?, hp]

theorem lookup_strings (es : List Entry) (hwf : ∀ e ∈ es, WFentry e) (p : List Char) :
    lookup (configFromStrings (es.map render)) p = lastLevel es p := by
  have := lookup_rev es.reverse (fun e he => hwf e (List.mem_reverse.mp he)) p
  simpa using this

theorem configGet_strings (es : List Entry) (hwf : ∀ e ∈ es, WFentry e) (p : List Char) :
    configGet (configFromStrings (es.map render)) p = intended es p := by
  rw [configGet_lookup, lookup_strings es hwf p, lookup_strings es hwf []]
  unfold intended
  cases lastLevel es p <;> cases lastLevel es [] <;> rfl

end Scalibr.Upgrade
