import Scalibr.Model.PomTokens
namespace Scalibr.PomTok

theorem writeString_simple (values : Str → Option Str) (f : Nat) (ts : List Tok) (hf : ts.length < f)
    (hs : simple values ts = true) : writeString values f ts = ts := by
  induction f generalizing ts with
  | zero => omega
  | succ f ih =>
    cases ts with
    | nil => simp [writeString]
    | cons t ts =>
      simp only [List.length_cons] at hf
      cases t with
      | start n a =>
        unfold writeString
        unfold simple at hs
        cases hv : values n with
        | none =>
          simp only [hv] at hs ⊢
          rw [ih ts (by omega) hs]
        | some v =>
          simp only [hv] at hs ⊢
          by_cases he : v = []
          · simp only [he, if_true] at hs ⊢
            cases ts with
            | nil => simp at hs
            | cons t2 r =>
              cases t2 with
              | stop m =>
                simp only [Bool.and_eq_true, decide_eq_true_eq] at hs
                obtain ⟨hm, hr⟩ := hs
                subst hm
                simp only [skipElem, List.nil_append, List.length_cons] at hf ⊢
                rw [ih r (by omega) hr]
              | start _ _ => simp at hs
              | text _ => simp at hs
              | comment _ => simp at hs
              | other _ => simp at hs
          · simp only [he, if_false] at hs ⊢
            cases ts with
            | nil => simp at hs
            | cons t2 r1 =>
              cases t2 with
              | text s =>
                cases r1 with
                | nil => simp at hs
                | cons t3 r =>
                  cases t3 with
                  | stop m =>
                    simp only [Bool.and_eq_true, decide_eq_true_eq] at hs
                    obtain ⟨⟨hsv, hm⟩, hr⟩ := hs
                    subst hsv; subst hm
                    simp only [skipElem, List.length_cons, List.cons_append, List.nil_append] at hf ⊢
                    rw [ih r (by omega) hr]
                  | start _ _ => simp at hs
                  | text _ => simp at hs
                  | comment _ => simp at hs
                  | other _ => simp at hs
              | start _ _ => simp at hs
              | stop _ => simp at hs
              | comment _ => simp at hs
              | other _ => simp at hs
      | stop n => simp only [writeString]; simp only [simple] at hs; rw [ih ts (by omega) hs]
      | text s => simp only [writeString]; simp only [simple] at hs; rw [ih ts (by omega) hs]
      | comment s => simp only [writeString]; simp only [simple] at hs; rw [ih ts (by omega) hs]
      | other s => simp only [writeString]; simp only [simple] at hs; rw [ih ts (by omega) hs]

theorem write_simple (values : Str → Option Str) (ts : List Tok) (hs : simple values ts = true) :
    write values ts = ts := writeString_simple values _ ts (by omega) hs


/-- adequacy of the loop bound: any two bounds above the number of tokens give the same result, so `write`'s
`length + 1` never cuts the output short -/
theorem writeString_fuel (values : Str → Option Str) (f g : Nat) (ts : List Tok) (hf : ts.length < f) (hg : ts.length < g) :
    writeString values f ts = writeString values g ts := by
  induction f generalizing g ts with
  | zero => omega
  | succ f ih =>
    cases g with
    | zero => omega
    | succ g =>
      cases ts with
      | nil => simp [writeString]
      | cons t ts =>
        simp only [List.length_cons] at hf hg
        cases t with
        | start n a =>
          unfold writeString
          cases values n with
          | none => simp only; rw [ih g ts (by omega) (by omega)]
          | some v =>
            simp only
            have := skipElem_length 0 ts
            rw [ih g (skipElem 0 ts) (by omega) (by omega)]
        | stop n => simp only [writeString]; rw [ih g ts (by omega) (by omega)]
        | text s => simp only [writeString]; rw [ih g ts (by omega) (by omega)]
        | comment s => simp only [writeString]; rw [ih g ts (by omega) (by omega)]
        | other s => simp only [writeString]; rw [ih g ts (by omega) (by omega)]

end Scalibr.PomTok
