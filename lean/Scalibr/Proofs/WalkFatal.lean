/-
C09, "fatal only on request": with `ErrorOnFSErrors` (and no inode limit, cancellation or extractor
panic) a walk fails with a filesystem error exactly when it is told about a filesystem failure
(`traversalFault`, defined on the tree without reference to the engine), for every tree, fault plan and
option combination.
-/
import Scalibr.Proofs.WalkSpec
import Scalibr.Proofs.WalkTop
namespace Scalibr.Walk

/-- errors are fatal; no limit, no cancellation, extractors do not panic -/
def FatalCfg (c : Cfg) : Prop :=
  c.maxInodes = 0 ∧ c.errorOnFSErrors = true ∧ c.cancelBefore = false ∧ c.cancelAt = none ∧
  ∀ e p, (c.extract e p).panics = false

/-- "keeps going": no error, stacks untouched, context live -/
structure Cont (s s' : St) : Prop where
  gis : s'.gis = s.gis
  giDirs : s'.giDirs = s.giDirs
  cancelled : s'.cancelled = false

theorem cont_iff (s s' : St) : Cont s s' ↔ (s'.gis = s.gis ∧ s'.giDirs = s.giDirs ∧ s'.cancelled = false) :=
  ⟨fun h => ⟨h.gis, h.giDirs, h.cancelled⟩, fun ⟨a, b, c⟩ => ⟨a, b, c⟩⟩

theorem Cont.trans {a b d : St} (h1 : Cont a b) (h2 : Cont b d) : Cont a d :=
  ⟨h2.gis.trans h1.gis, h2.giDirs.trans h1.giDirs, h2.cancelled⟩

theorem prologue_fatal (c : Cfg) (hb : FatalCfg c) (s : St) (hc : s.cancelled = false) :
    (prologue c s).2 = none ∧ Cont s (prologue c s).1 := by
  obtain ⟨hm, _, _, _, _⟩ := hb
  unfold prologue
  simp [hm, hc, cont_iff]

theorem fserrCall_fatal (c : Cfg) (hb : FatalCfg c) (s : St) (hc : s.cancelled = false) :
    (fserrCall c s).2 = .fs := by
  have hp := prologue_fatal c hb s hc
  have he := hb.2.1
  unfold fserrCall
  generalize prologue c s = r at hp ⊢
  obtain ⟨s1, e1⟩ := r
  simp only [] at hp
  rw [hp.1]
  simp [he]

theorem runExtractor_fatal (c : Cfg) (hb : FatalCfg c) (f : Faults) (s : St) (hc : s.cancelled = false)
    (e : Nat) (p : Path) (sz : Nat) :
    (runExtractor c f s e p sz).2 = false ∧ Cont s (runExtractor c f s e p sz).1 := by
  obtain ⟨_, _, _, hca, hx⟩ := hb
  unfold runExtractor
  by_cases h1 : f.openFail p = true
  · simp [h1, cont_iff, hc]
  · by_cases h2 : f.fileStatFail p = true
    · simp [h1, h2, cont_iff, hc]
    · simp only [h1, h2, hca, hx e p]
      simp
      split <;> split <;> simp [cont_iff, hc]

/-- the loop over extractors: fails exactly when the size of a file some extractor requires cannot be
determined (first required extractor, size not yet checked) -/
theorem extractLoop_fatal (c : Cfg) (hb : FatalCfg c) (f : Faults) (p : Path) (size : Nat) :
    ∀ (es : List Nat) (s : St) (chk : Bool), s.cancelled = false → (chk = true → f.statFail p = false ∨ c.maxFileSize = 0) →
      let bad := es.any (fun e => c.required e p) && decide (c.maxFileSize > 0) && !chk && f.statFail p
      (extractLoop c f p size s es chk).2 = (if bad then some .fs else none) ∧
      (bad = false → Cont s (extractLoop c f p size s es chk).1) := by
  intro es
  induction es with
  | nil => intro s chk hc _; simp [extractLoop, cont_iff, hc]
  | cons e rest ih =>
    intro s chk hc hchk
    have heo := hb.2.1
    simp only [extractLoop, List.any_cons]
    by_cases hreq : c.required e p = true
    · simp only [hreq, if_true, Bool.true_or, Bool.true_and]
      have hr := runExtractor_fatal c hb f s hc e p size
      generalize runExtractor c f s e p size = x at hr ⊢
      obtain ⟨s1, pan⟩ := x
      obtain ⟨hpan, hcont⟩ := hr
      simp only [] at hpan hcont
      subst hpan
      by_cases hcond : (decide (c.maxFileSize > 0) && !chk) = true
      · simp only [hcond, if_true, Bool.true_and]
        by_cases hst : f.statFail p = true
        · simp [hst, heo]
        · simp only [hst, Bool.false_eq_true, if_false]
          by_cases hgt : size > c.maxFileSize
          · simp [hgt, cont_iff, hc]
          · simp only [hgt, if_false, Bool.false_eq_true]
            have := ih s1 true hcont.cancelled (fun _ => Or.inl (by simpa using hst))
            simp only [Bool.not_true, Bool.and_false, Bool.false_and, Bool.false_eq_true, if_false] at this
            exact ⟨this.1, fun _ => hcont.trans (this.2 trivial)⟩
      · simp only [hcond, Bool.false_eq_true, if_false]
        have hcond' : (decide (c.maxFileSize > 0) && !chk) = false := by simpa using hcond
        simp only [hcond', Bool.false_and, Bool.false_eq_true, if_false]
        have := ih s1 chk hcont.cancelled hchk
        -- the rest of the loop cannot fail either: the size was already checked, or there is no limit
        have hbad : (rest.any (fun e => c.required e p) && decide (c.maxFileSize > 0) && !chk && f.statFail p) = false := by
          cases hck : chk with
          | true => simp
          | false =>
            simp only [hck, Bool.not_false, Bool.and_true, decide_eq_false_iff_not] at hcond'
            have : decide (c.maxFileSize > 0) = false := by simpa using hcond'
            simp [this]
        simp only [hbad, Bool.false_eq_true, if_false] at this
        exact ⟨this.1, fun _ => hcont.trans (this.2 trivial)⟩
    · simp only [hreq, Bool.false_eq_true, if_false, Bool.false_or]
      exact ih s chk hc hchk

end Scalibr.Walk

namespace Scalibr.Walk

theorem handleLeaf_fatal (c : Cfg) (hb : FatalCfg c) (f : Faults) (G : List GiEntry) (s : St) (p : Path) (k : Kind) (sz : Nat)
    (hc : s.cancelled = false) (hg : c.useGitignore = true → s.gis = G) :
    (handleLeaf c f s p k sz).2 = (if traversalFault c f G p (.file k sz) then some .fs else none) ∧
    (traversalFault c f G p (.file k sz) = false → Cont s (handleLeaf c f s p k sz).1) := by
  unfold handleLeaf traversalFault
  rw [← gi_guard_congr c s.gis G (tokens p) false hg]
  by_cases hk : (k = .special || (k = .symlink && !c.readSymlinks)) = true
  · simp only [hk, if_true, Bool.not_true, Bool.false_and, Bool.false_eq_true, if_false]
    exact ⟨by trivial, fun _ => ⟨rfl, rfl, hc⟩⟩
  · simp only [hk, Bool.false_eq_true, if_false, Bool.not_false, Bool.true_and]
    by_cases hgi : (c.useGitignore && stackMatch c s.gis (tokens p) false) = true
    · simp only [hgi, if_true, Bool.not_true, Bool.false_and, Bool.false_eq_true, if_false]
      exact ⟨by trivial, fun _ => ⟨rfl, rfl, hc⟩⟩
    · simp only [hgi, Bool.false_eq_true, if_false, Bool.not_false, Bool.true_and]
      have := extractLoop_fatal c hb f p sz (List.range c.nExt) s false hc (by simp)
      simpa using this

/-- the gitignore part of `handleFile` when errors are fatal -/
theorem pushGi_fatal (c : Cfg) (hb : FatalCfg c) (hd : DomainLaw c.giMatch) (f : Faults) (s : St) (p : Path) (gi : Option PatSet) :
    (c.useGitignore = false ∧ pushGi c f s p gi = (s, none)) ∨
    (c.useGitignore = true ∧ excludedDir c s.gis p = false ∧ f.openFail (p ++ [".gitignore"]) = true ∧
      pushGi c f s p gi = (s, some .fs)) ∨
    (c.useGitignore = true ∧ (pushGi c f s p gi).2 = none ∧
      (pushGi c f s p gi).1.giDirs = s.giDirs ++ [p] ∧ (pushGi c f s p gi).1.cancelled = s.cancelled ∧
      shouldSkipDir c (pushGi c f s p gi).1.gis p = excludedDir c s.gis p ∧
      ∃ x, (pushGi c f s p gi).1.gis = s.gis ++ [x] ∧
        (excludedDir c s.gis p = false → f.openFail (p ++ [".gitignore"]) = false ∧ x = giEntryOf f ⟨p, gi, 0⟩)) := by
  have he := hb.2.1
  unfold pushGi
  cases hu : c.useGitignore with
  | false => left; simp
  | true =>
    right
    simp only [if_true]
    by_cases h1 : shouldSkipDir c s.gis p = true
    · right
      simp only [h1, if_true]
      have hex : excludedDir c s.gis p = true := by rw [← shouldSkipDir_eq_excluded]; exact h1
      refine ⟨by trivial, by trivial, by trivial, by trivial, ?_, none, by trivial, ?_⟩
      · rw [shouldSkipDir_eq_excluded, excluded_push_none]
      · intro h; rw [hex] at h; cases h
    · have hex : excludedDir c s.gis p = false := by rw [← shouldSkipDir_eq_excluded]; simpa using h1
      simp only [h1, Bool.false_eq_true, if_false]
      by_cases h2 : f.openFail (p ++ [".gitignore"]) = true
      · left
        simp only [h2, if_true, he]
        exact ⟨by trivial, hex, by trivial, by trivial⟩
      · right
        simp only [h2, Bool.false_eq_true, if_false]
        refine ⟨by trivial, by trivial, by trivial, by trivial, ?_, _, rfl, ?_⟩
        · rw [shouldSkipDir_eq_excluded, excluded_push_own c hd]
        · intro _; exact ⟨by simpa using h2, by unfold giEntryOf; simp [h2]⟩

theorem cont_of_same {s s' : St} (h : SameStack s s') (hc : s'.cancelled = false) : Cont s s' := ⟨h.1, h.2, hc⟩

mutual
theorem walkNode_fatal (c : Cfg) (hb : FatalCfg c) (hd : DomainLaw c.giMatch) (f : Faults) (G : List GiEntry) (p : Path) :
    ∀ (n : Node) (s : St), s.cancelled = false → (c.useGitignore = true → s.gis = G) →
      (∀ d ∈ s.giDirs, d.length < p.length) →
      (walkNode c f s p n).2 = (if traversalFault c f G p n then .fs else .none) ∧
      (traversalFault c f G p n = false → Cont s (walkNode c f s p n).1)
  | .file k size, s, hc, hg, _ => by
    simp only [walkNode]
    have hp := prologue_fatal c hb s hc
    generalize prologue c s = x at hp ⊢
    obtain ⟨s1, e1⟩ := x
    obtain ⟨he1, hc1⟩ := hp
    simp only [] at he1 hc1
    subst he1
    simp only []
    have hl := handleLeaf_fatal c hb f G s1 p k size hc1.cancelled (fun hu => by rw [hc1.gis]; exact hg hu)
    generalize handleLeaf c f s1 p k size = y at hl ⊢
    obtain ⟨s2, e2⟩ := y
    simp only [] at hl
    refine ⟨?_, fun h => hc1.trans (hl.2 h)⟩
    rw [hl.1]
    split <;> rfl
  | .dir gi es, s, hc, hg, hshort => by
    have hx : NoExtractorPanic c := hb.2.2.2.2
    simp only [walkNode, traversalFault]
    have hp := prologue_fatal c hb s hc
    generalize prologue c s = x at hp ⊢
    obtain ⟨s1, e1⟩ := x
    obtain ⟨he1, hc1⟩ := hp
    simp only [] at he1 hc1
    subst he1
    simp only []
    have hshort1 : ∀ d ∈ s1.giDirs, d.length < p.length := by rw [hc1.giDirs]; exact hshort
    have hexc : excludedDir c s1.gis p = excludedDir c G p :=
      excluded_congr c _ _ p (fun hu => by rw [hc1.gis]; exact hg hu)
    rcases pushGi_fatal c hb hd f s1 p gi with ⟨hu, hpg⟩ | ⟨hu, hex, hgo, hpg⟩ | ⟨hu, he2, hd2, hcan2, hskip, x, hx2, hxe⟩
    · -- gitignore handling off
      rw [hpg]
      simp only [popOnExit_nogi c hu, hu, Bool.false_and, Bool.false_or, Bool.false_eq_true, if_false]
      rw [shouldSkipDir_eq_excluded, hexc]
      by_cases hsk : excludedDir c G p = true
      · simp only [hsk, if_true]
        exact ⟨rfl, fun _ => hc1⟩
      · simp only [hsk, Bool.false_eq_true, if_false]
        by_cases hop : f.openFail p = true
        · simp only [hop, if_true, Bool.true_or]
          exact ⟨fserrCall_fatal c hb s1 hc1.cancelled, fun h => by cases h⟩
        · simp only [hop, Bool.false_eq_true, if_false, Bool.false_or]
          have hw := walkEntries_fatal c hb hd f G p es 0 s1 hc1.cancelled (fun h => by rw [hu] at h; cases h)
            (fun d hd => by have := hshort1 d hd; omega)
          exact ⟨hw.1, fun h => hc1.trans (hw.2 h)⟩
    · -- unreadable .gitignore of a directory that is entered: returned before anything is pushed
      rw [hpg]
      simp only []
      rw [popOnExit_nopush c s1 p .fs hshort1]
      rw [hexc] at hex
      simp [hex, hu, hgo]
    · generalize pushGi c f s1 p gi = y at he2 hd2 hcan2 hskip hx2 ⊢
      obtain ⟨s2, e2⟩ := y
      simp only [] at he2 hd2 hcan2 hskip hx2
      subst he2
      simp only []
      rw [hskip, hexc]
      have hc2 : s2.cancelled = false := by rw [hcan2]; exact hc1.cancelled
      by_cases hsk : excludedDir c G p = true
      · simp only [hsk, if_true]
        have := popOnExit_pushed c hu s1 s2 p .none x hx2 hd2
        refine ⟨this.2, fun _ => hc1.trans (cont_of_same this.1 ?_)⟩
        rw [(popOnExit_frame c s2 p .none).2]; exact hc2
      · have hexf : excludedDir c G p = false := by simpa using hsk
        have ⟨hgo, hxeq⟩ := hxe (by rw [hexc]; exact hexf)
        simp only [hsk, Bool.false_eq_true, if_false, hu, hgo, Bool.and_false, Bool.false_or, if_true]
        by_cases hop : f.openFail p = true
        · simp only [hop, if_true, Bool.true_or]
          have hf := fserrCall_fatal c hb s2 hc2
          have hs := (fserrCall_same c s2).1
          generalize fserrCall c s2 = z at hf hs ⊢
          obtain ⟨s3, e3⟩ := z
          simp only [] at hf
          subst hf
          have := popOnExit_pushed c hu s1 s3 p .fs x (by rw [hs.1, hx2]) (by rw [hs.2, hd2])
          exact ⟨this.2, fun h => by cases h⟩
        · simp only [hop, Bool.false_eq_true, if_false, Bool.false_or]
          have hshort2 : ∀ d ∈ s2.giDirs, d.length < p.length + 1 := by
            intro d hdm
            rw [hd2] at hdm
            rcases List.mem_append.mp hdm with hdm | hdm
            · have := hshort1 d hdm; omega
            · simp at hdm; subst hdm; omega
          have hw := walkEntries_fatal c hb hd f (G ++ [giEntryOf f ⟨p, gi, 0⟩]) p es 0 s2 hc2
            (fun h => by rw [hx2, hc1.gis, hg h, hxeq]) hshort2
          have hs := (walkEntries_stack c hx f p es 0 s2 hshort2).1
          generalize walkEntries c f s2 p es 0 = z at hw hs ⊢
          obtain ⟨s3, e3⟩ := z
          simp only [] at hw
          have := popOnExit_pushed c hu s1 s3 p e3 x (by rw [hs.1, hx2]) (by rw [hs.2, hd2])
          refine ⟨by rw [this.2]; exact hw.1, fun h => hc1.trans (cont_of_same this.1 ?_)⟩
          rw [(popOnExit_frame c s3 p e3).2]; exact (hw.2 h).cancelled
theorem walkEntries_fatal (c : Cfg) (hb : FatalCfg c) (hd : DomainLaw c.giMatch) (f : Faults) (G : List GiEntry) (p : Path) :
    ∀ (es : List (String × Node)) (k : Nat) (s : St), s.cancelled = false → (c.useGitignore = true → s.gis = G) →
      (∀ d ∈ s.giDirs, d.length < p.length + 1) →
      (walkEntries c f s p es k).2 = (if traversalFaultL c f G p es k then .fs else .none) ∧
      (traversalFaultL c f G p es k = false → Cont s (walkEntries c f s p es k).1)
  | [], k, s, hc, _, _ => by
    simp only [walkEntries, traversalFaultL]
    by_cases hr : f.readEntryFail p k = true
    · simp only [hr, if_true]
      exact ⟨fserrCall_fatal c hb s hc, fun h => by cases h⟩
    · simp only [hr, Bool.false_eq_true, if_false]
      exact ⟨by trivial, fun _ => ⟨rfl, rfl, hc⟩⟩
  | (name, n) :: rest, k, s, hc, hg, hshort => by
    simp only [walkEntries, traversalFaultL]
    by_cases hr : f.readEntryFail p k = true
    · simp only [hr, if_true, Bool.true_or]
      exact ⟨fserrCall_fatal c hb s hc, fun h => by cases h⟩
    · simp only [hr, Bool.false_eq_true, if_false, Bool.false_or]
      have hw := walkNode_fatal c hb hd f G (p ++ [name]) n s hc hg (by intro d hd; have := hshort d hd; simp; omega)
      generalize walkNode c f s (p ++ [name]) n = z at hw ⊢
      obtain ⟨s1, e1⟩ := z
      simp only [] at hw
      by_cases htf : traversalFault c f G (p ++ [name]) n = true
      · simp only [htf, if_true] at hw
        simp [htf, hw.1]
      · simp only [htf, Bool.false_eq_true, if_false] at hw
        have hc1 := hw.2 trivial
        simp only [htf, hw.1, ne_eq, not_true_eq_false, if_false, Bool.false_or]
        have hw2 := walkEntries_fatal c hb hd f G p rest (k+1) s1 hc1.cancelled
          (fun h => by rw [hc1.gis]; exact hg h) (by rw [hc1.giDirs]; exact hshort)
        exact ⟨hw2.1, fun h => hc1.trans (hw2.2 h)⟩
end

end Scalibr.Walk

namespace Scalibr.Walk

theorem walkFrom_fatal (c : Cfg) (hb : FatalCfg c) (hd : DomainLaw c.giMatch) (f : Faults) (G : List GiEntry)
    (root : Node) (p : Path) (s : St) (hc : s.cancelled = false) (hg : c.useGitignore = true → s.gis = G)
    (hgd : s.giDirs = []) :
    let tf := f.statFail p || match lookup root p with
      | none => true
      | some n => traversalFault c f G p n
    (walkFrom c f s root p).2 = (if tf then .fs else .none) ∧ (tf = false → Cont s (walkFrom c f s root p).1) := by
  unfold walkFrom
  by_cases hs : f.statFail p = true
  · simp only [hs, if_true, Bool.true_or]
    exact ⟨fserrCall_fatal c hb s hc, fun h => by cases h⟩
  · simp only [hs, Bool.false_eq_true, if_false, Bool.false_or]
    cases hl : lookup root p with
    | none => exact ⟨fserrCall_fatal c hb s hc, fun h => by cases h⟩
    | some n => exact walkNode_fatal c hb hd f G p n s hc hg (by rw [hgd]; simp)

theorem traversalFault_file_nogi (c : Cfg) (f : Faults) (p : Path) (k : Kind) (sz : Nat) :
    traversalFault c f [] p (.file k sz) = traversalFault { c with useGitignore := false } f [] p (.file k sz) := by
  unfold traversalFault stackMatch; simp

theorem walkRequested_fatal (c : Cfg) (hb : FatalCfg c) (hd : DomainLaw c.giMatch) (f : Faults) (root : Node) (p : Path)
    (s : St) (hi : Idle s) :
    (walkRequested c f s root p).2 = (if traversalFaultRequested c f root p then .fs else .none) ∧
    (traversalFaultRequested c f root p = false → Idle (walkRequested c f s root p).1) := by
  have heo := hb.2.1
  unfold walkRequested traversalFaultRequested
  by_cases hs : f.statFail p = true
  · simp only [hs, if_true]
    exact ⟨fserrCall_fatal c hb s hi.cancelled, fun h => by cases h⟩
  · simp only [hs, Bool.false_eq_true, if_false]
    cases hl : lookup root p with
    | none => exact ⟨fserrCall_fatal c hb s hi.cancelled, fun h => by cases h⟩
    | some n =>
      cases n with
      | file k sz =>
        simp only []
        have hp := prologue_fatal c hb s hi.cancelled
        generalize prologue c s = x at hp ⊢
        obtain ⟨s1, e1⟩ := x
        obtain ⟨he1, hc1⟩ := hp
        simp only [] at he1 hc1
        subst he1
        simp only []
        have hl2 := handleLeaf_fatal c hb f [] s1 p (statKind k) sz hc1.cancelled (fun _ => by rw [hc1.gis, hi.gis])
        rw [traversalFault_file_nogi] at hl2
        generalize handleLeaf c f s1 p (statKind k) sz = y at hl2 ⊢
        obtain ⟨s2, e2⟩ := y
        simp only [] at hl2
        refine ⟨?_, fun h => ?_⟩
        · rw [hl2.1]; split <;> rfl
        · have := hc1.trans (hl2.2 h)
          exact ⟨this.gis.trans hi.gis, this.giDirs.trans hi.giDirs, this.cancelled⟩
      | dir gi es =>
        simp only []
        cases hu : c.useGitignore with
        | true =>
          simp only [if_true, heo, Bool.and_true]
          by_cases hfail : (parentGis f root p).2 = true
          · simp [hfail]
          · simp only [hfail, Bool.false_eq_true, if_false, Bool.false_or]
            have hw := walkFrom_fatal c hb hd f (parentGis f root p).1 root p { s with gis := (parentGis f root p).1 }
              hi.cancelled (fun _ => rfl) hi.giDirs
            simp only [hs, hl, Bool.false_or] at hw
            generalize walkFrom c f { s with gis := (parentGis f root p).1 } root p = z at hw ⊢
            obtain ⟨s3, e3⟩ := z
            simp only [] at hw
            exact ⟨hw.1, fun h => ⟨rfl, by have := (hw.2 h).giDirs; simpa [hi.giDirs] using this, (hw.2 h).cancelled⟩⟩
        | false =>
          simp only [Bool.false_eq_true, if_false]
          have hw := walkFrom_fatal c hb hd f [] root p s hi.cancelled (fun h => by rw [hu] at h; cases h) hi.giDirs
          simp only [hs, hl, Bool.false_or] at hw
          generalize walkFrom c f s root p = z at hw ⊢
          obtain ⟨s3, e3⟩ := z
          simp only [] at hw
          exact ⟨hw.1, fun h => ⟨rfl, by have := (hw.2 h).giDirs; simpa [hi.giDirs] using this, (hw.2 h).cancelled⟩⟩

theorem walkPaths_fatal (c : Cfg) (hb : FatalCfg c) (hd : DomainLaw c.giMatch) (f : Faults) (root : Node) :
    ∀ (ps : List Path) (s : St), Idle s →
      (walkPaths c f root s ps).2 = (if ps.any (traversalFaultRequested c f root) then .fs else .none) ∧
      (ps.any (traversalFaultRequested c f root) = false → Idle (walkPaths c f root s ps).1)
  | [], s, hi => by simp [walkPaths]; exact hi
  | p :: rest, s, hi => by
    simp only [walkPaths, List.any_cons]
    have h1 := walkRequested_fatal c hb hd f root p s hi
    generalize walkRequested c f s root p = x at h1 ⊢
    obtain ⟨s1, e1⟩ := x
    simp only [] at h1
    by_cases htf : traversalFaultRequested c f root p = true
    · simp only [htf, if_true] at h1
      simp [htf, h1.1]
    · simp only [htf, Bool.false_eq_true, if_false] at h1
      simp only [htf, h1.1, ne_eq, not_true_eq_false, if_false, Bool.false_or]
      exact walkPaths_fatal c hb hd f root rest s1 (h1.2 trivial)

theorem runRoot_fatal (c : Cfg) (hb : FatalCfg c) (hd : DomainLaw c.giMatch) (f : Faults) (root : Node) (s : St) (hi : Idle s) :
    (runRoot c f s root).2 = (if traversalFaultRoot c f root then .fs else .none) ∧
    (traversalFaultRoot c f root = false → Idle (runRoot c f s root).1) := by
  unfold runRoot traversalFaultRoot
  simp only []
  have hi' : Idle { s with pkgs := [], errs := [], found := [] } := ⟨hi.gis, hi.giDirs, hi.cancelled⟩
  by_cases hp : c.paths.isEmpty = true
  · simp only [hp, if_true]
    have := walkFrom_fatal c hb hd f [] root [] _ hi'.cancelled (fun _ => hi'.gis) hi'.giDirs
    simp only [lookup] at this
    refine ⟨this.1, fun h => ?_⟩
    have h2 := this.2 h
    exact ⟨h2.gis.trans hi'.gis, h2.giDirs.trans hi'.giDirs, h2.cancelled⟩
  · simp only [hp, Bool.false_eq_true, if_false]
    exact walkPaths_fatal c hb hd f root c.paths _ hi'

theorem runRoots_fatal (c : Cfg) (hb : FatalCfg c) (hd : DomainLaw c.giMatch) :
    ∀ (roots : List (Node × Faults)) (s : St) (acc : List Pkg) (sts : List (Nat × Status)), Idle s →
      (runRoots c s acc sts roots).err = (if traversalFaultScan c roots then .fs else .none)
  | [], s, acc, sts, _ => by simp [runRoots, traversalFaultScan]
  | (r, f) :: rest, s, acc, sts, hi => by
    simp only [runRoots, traversalFaultScan, List.any_cons]
    have h1 := runRoot_fatal c hb hd f r s hi
    generalize runRoot c f s r = x at h1 ⊢
    obtain ⟨s1, e1⟩ := x
    simp only [] at h1
    by_cases htf : traversalFaultRoot c f r = true
    · simp only [htf, if_true] at h1
      simp [htf, h1.1]
    · simp only [htf, Bool.false_eq_true, if_false] at h1
      simp only [htf, h1.1, ne_eq, not_true_eq_false, if_false, Bool.false_or]
      exact runRoots_fatal c hb hd rest s1 _ _ (h1.2 trivial)

/-- **Fatal on request** (whole scan): with `ErrorOnFSErrors`, and no inode limit, cancellation or extractor
panic, the scan fails with a filesystem error exactly when the walk is told about a filesystem failure. -/
theorem run_fatal (c : Cfg) (hb : FatalCfg c) (hd : DomainLaw c.giMatch) (roots : List (Node × Faults)) :
    (run c roots).err = (if traversalFaultScan c roots then .fs else .none) := by
  unfold run
  exact runRoots_fatal c hb hd roots _ [] [] ⟨rfl, rfl, hb.2.2.1⟩

end Scalibr.Walk
