/-
The loader's disk writes (Model/LoadDisk.lean) keep the invariant "nothing outside `D` differs from the start, there is
no symbolic link below `D`, `D` is a directory" (`SafeG` of Proofs/Unpack.lean with `good := False`): every path the
loader hands to the kernel is `D` followed by components without "..", and with no link below `D` physical resolution
of such a path ends below `D` (`resolve_inside`).
-/
import Scalibr.Model.LoadDisk
import Scalibr.Proofs.Unpack
namespace Scalibr.LoadDisk
open Scalibr.GoPath Scalibr.Unpack

/-- no link below `D`, outside untouched -/
abbrev NL (D : Path) (s0 s : FS) : Prop := SafeG (fun _ => False) D s0 s

theorem resolveA_in {D : Path} {s0 s : FS} (hS : NL D s0 s) (cs : List String) (r : Path) (hcs : ".." ∉ cs)
    (h : resolveA D s D cs = .ok r) : isPrefix D r = true :=
  resolve_inside D s (fun p t hp hg => (hS.2.1 p t hp hg).elim) _ D cs r (isPrefix_refl D) hcs h

theorem NL_over {D : Path} {s0 s : FS} (hS : NL D s0 s) {q : Path} (hq : isPrefix D q = true) {c : Nat}
    (hf : s.get q = some (.file c)) (c' : Nat) : NL D s0 (s.put q (.file c')) := by
  obtain ⟨h1, h2, h3⟩ := hS
  refine ⟨?_, ?_, ?_⟩
  · intro p hp
    have : p ≠ q := fun e => by subst e; rw [hq] at hp; cases hp
    simp [FS.put, this, h1 p hp]
  · intro p t hp hg
    by_cases hpq : p = q
    · subst hpq; simp [FS.put] at hg
    · simp [FS.put, hpq] at hg; exact h2 p t hp hg
  · have : D ≠ q := fun e => by subst e; rw [h3] at hf; cases hf
    simp [FS.put, this, h3]

theorem mkdirAllOS_safe {D : Path} {s0 : FS} : ∀ (todo done : List String) (s : FS), NL D s0 s →
    ".." ∉ done → ".." ∉ todo → NL D s0 (mkdirAllOS D s done todo).state := by
  intro todo
  induction todo with
  | nil => intro done s hS _ _; exact hS
  | cons c rest ih =>
    intro done s hS hd ht
    have hc : c ≠ ".." := fun e => ht (by simp [e])
    have hrest : ".." ∉ rest := fun hm => ht (by simp [hm])
    have hdc : ".." ∉ done ++ [c] := by
      intro hm
      rcases List.mem_append.mp hm with hm | hm
      · exact hd hm
      · simp at hm; exact hc hm.symm
    unfold mkdirAllOS
    cases hst : statRel D s (done ++ [c]) with
    | some o =>
      cases o with
      | dir => exact ih _ s hS hdc hrest
      | file cid => exact hS
      | link t => exact hS
    | none =>
      simp only
      cases hres : resolveA D s D done with
      | error e => exact hS
      | ok pp =>
        simp only
        have hpp : isPrefix D pp = true := resolveA_in hS done pp hd hres
        split
        · exact hS
        · rename_i hcond
          have hnone : s.get (pp ++ [c]) = none := by
            simp only [Bool.or_eq_true, not_or, Bool.not_eq_true, Option.isSome_eq_false_iff, Option.isNone_iff_eq_none] at hcond
            exact hcond.2
          exact ih _ _ (Safe_put hS (isPrefix_append D pp c hpp) hnone .dir (fun t h => by cases h)) hdc hrest

theorem mem_dropLast_of {α : Type} {l : List α} {a : α} (h : a ∈ l.dropLast) : a ∈ l := List.dropLast_subset l h

theorem openCreate_safe {D : Path} {s0 s : FS} (hS : NL D s0 s) (rel : List String) (cid : Nat) (hrel : ".." ∉ rel) :
    NL D s0 (openCreate D s rel cid).state := by
  unfold openCreate
  cases hl : rel.getLast? with
  | none => exact hS
  | some name =>
    simp only
    cases hres : resolveA D s D rel.dropLast with
    | error e => exact hS
    | ok pp =>
      simp only
      have hpp : isPrefix D pp = true := resolveA_in hS _ pp (fun hm => hrel (mem_dropLast_of hm)) hres
      split
      · exact hS
      · cases hg : s.get (pp ++ [name]) with
        | none => exact Safe_put hS (isPrefix_append D pp name hpp) hg _ (fun t h => by cases h)
        | some o =>
          cases o with
          | file c => exact NL_over hS (isPrefix_append D pp name hpp) hg cid
          | dir => exact hS
          | link t => exact (hS.2.1 _ t (isPrefix_append D pp name hpp) hg).elim

theorem relOf_no_dotdot {e : TarEntry} {segs : List String} (h : relOf e = some segs) : ".." ∉ segs := by
  unfold relOf at h
  simp only at h
  split at h
  · cases h
  · split at h
    · cases h
    · cases h; exact cleanComps_no_dotdot _ _

theorem MkRes.state_fail (s : FS) : (MkRes.fail s).state = s := rfl

theorem entryStep_safe {D : Path} {s0 s : FS} (hS : NL D s0 s) (layer : String) (hl : layer ≠ "..") (e : TarEntry) (go : Bool) :
    NL D s0 (entryStep D layer s e go).state := by
  unfold entryStep
  cases go with
  | false => exact hS
  | true =>
    simp only [Bool.not_true, Bool.false_eq_true, if_false]
    cases hr : relOf e with
    | none => exact hS
    | some segs =>
      simp only
      have hsegs := relOf_no_dotdot hr
      have hrel : ".." ∉ layer :: segs := by
        intro hm
        rcases List.mem_cons.mp hm with hm | hm
        · exact hl hm.symm
        · exact hsegs hm
      split
      · cases hst : statRel D s (layer :: segs) with
        | some o => exact hS
        | none => exact mkdirAllOS_safe _ [] s hS (by simp) hrel
      · have h1 := mkdirAllOS_safe (D := D) (s0 := s0) (layer :: segs).dropLast [] s hS (by simp)
            (fun hm => hrel (mem_dropLast_of hm))
        cases hm : mkdirAllOS D s [] (layer :: segs).dropLast with
        | ok s1 => rw [hm] at h1; exact openCreate_safe h1 _ _ hrel
        | outside s1 => rw [hm] at h1; exact h1
        | fail s1 => rw [hm] at h1; exact h1
      · exact hS

theorem entries_safe {D : Path} {s0 : FS} (layer : String) (hl : layer ≠ "..") : ∀ (es : List (TarEntry × Bool)) (s : FS),
    NL D s0 s → NL D s0 (entries D layer s es).state := by
  intro es
  induction es with
  | nil => intro s hS; exact hS
  | cons x rest ih =>
    intro s hS
    obtain ⟨e, go⟩ := x
    unfold entries
    have h1 := entryStep_safe hS layer hl e go
    cases hm : entryStep D layer s e go with
    | ok s1 => rw [hm] at h1; exact ih s1 h1
    | outside s1 => rw [hm] at h1; exact h1
    | fail s1 => rw [hm] at h1; exact h1

theorem layerRun_safe {D : Path} {s0 s : FS} (hS : NL D s0 s) (l : LayerIn) (hl : l.name ≠ "..") :
    NL D s0 (layerRun D s l).state := by
  unfold layerRun
  split
  · exact hS
  · simp only
    apply entries_safe l.name hl
    split
    · exact hS
    · rename_i hnone
      have hnone' : s.get (D ++ [l.name]) = none := by
        cases h : s.get (D ++ [l.name]) with
        | none => rfl
        | some o => rw [h] at hnone; simp at hnone
      exact Safe_put hS (isPrefix_append D D l.name (isPrefix_refl D)) hnone' .dir (fun t h => by cases h)

theorem layers_safe {D : Path} {s0 : FS} : ∀ (ls : List LayerIn) (s : FS), (∀ l ∈ ls, l.name ≠ "..") →
    NL D s0 s → NL D s0 (layers D s ls).state := by
  intro ls
  induction ls with
  | nil => intro s _ hS; exact hS
  | cons l rest ih =>
    intro s hn hS
    unfold layers
    have h1 := layerRun_safe hS l (hn l (by simp))
    cases hm : layerRun D s l with
    | ok s1 => rw [hm] at h1; exact ih s1 (fun l' hl' => hn l' (by simp [hl'])) h1
    | outside s1 => rw [hm] at h1; exact h1
    | fail s1 => rw [hm] at h1; exact h1

end Scalibr.LoadDisk
