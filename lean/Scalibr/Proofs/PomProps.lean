import Scalibr.Spec.PomProps
namespace Scalibr.Pom

theorem indexOf_drop (sub s : Str) (i : Nat) (h : indexOf sub s = some i) :
    ∃ t, s.drop i = sub ++ t := by
  induction s generalizing i with
  | nil =>
    simp only [indexOf] at h
    split at h
    · injection h with h; subst h; rename_i hs; exact ⟨[], by simp [hs]⟩
    · cases h
  | cons c cs ih =>
    simp only [indexOf] at h
    split at h
    · injection h with h; subst h
      rename_i hp
      rw [List.isPrefixOf_iff_prefix] at hp
      obtain ⟨t, ht⟩ := hp
      exact ⟨t, by simp [ht]⟩
    · cases hj : indexOf sub cs with
      | none => simp [hj] at h
      | some j =>
        simp only [hj, Option.map, Option.some.injEq] at h
        subst h
        obtain ⟨t, ht⟩ := ih j hj
        exact ⟨t, by simpa using ht⟩

theorem indexOf_bound (sub s : Str) (i : Nat) (h : indexOf sub s = some i) : i ≤ s.length := by
  induction s generalizing i with
  | nil =>
    simp only [indexOf] at h
    split at h
    · injection h with h; subst h; simp
    · cases h
  | cons c cs ih =>
    simp only [indexOf] at h
    split at h
    · injection h with h; subst h; simp
    · cases hj : indexOf sub cs with
      | none => simp [hj] at h
      | some j =>
        simp only [hj, Option.map, Option.some.injEq] at h
        subst h
        have := ih j hj
        simp; omega

theorem indexOf_le (sub s : Str) (i : Nat) (h : indexOf sub s = some i) :
    i + sub.length ≤ s.length := by
  obtain ⟨t, ht⟩ := indexOf_drop sub s i h
  have h1 : (s.drop i).length = sub.length + t.length := by rw [ht]; simp
  have h2 : (s.drop i).length = s.length - i := by simp
  have := indexOf_bound sub s i h
  omega

/-- the first occurrence of a single character, seen from any earlier position -/
theorem indexOf_char_drop (c : Char) (s : Str) (e k : Nat) (h : indexOf [c] s = some e) (hk : k ≤ e) :
    indexOf [c] (s.drop k) = some (e - k) := by
  induction s generalizing e k with
  | nil =>
    simp [indexOf] at h
  | cons x xs ih =>
    simp only [indexOf] at h
    split at h
    · injection h with h; subst h
      have : k = 0 := by omega
      subst this
      rename_i hp
      simp [indexOf, hp]
    · rename_i hp
      cases hj : indexOf [c] xs with
      | none => simp [hj] at h
      | some j =>
        simp only [hj, Option.map, Option.some.injEq] at h
        subst h
        cases k with
        | zero => simp [indexOf, hp, hj]
        | succ k' =>
          simp only [List.drop_succ_cons]
          have := ih j k' hj (by omega)
          rw [this]; congr 1; omega

theorem slice_some (s : Str) (a b : Nat) (h1 : a ≤ b) (h2 : b ≤ s.length) :
    slice s a b = some ((s.drop a).take (b - a)) := by
  simp [slice, h1, h2]

theorem slice_eq (s : Str) (a b : Nat) (x : Str) (h : slice s a b = some x) :
    x = (s.drop a).take (b - a) ∧ a ≤ b ∧ b ≤ s.length := by
  unfold slice at h
  split at h
  · injection h with h; rename_i hc; exact ⟨h.symm, hc.1, hc.2⟩
  · cases h

/-- `}` cannot sit on the `$` or the `{` of the first placeholder -/
theorem close_after_open (s : Str) (start e : Nat) (hs : indexOf dollarBrace s = some start)
    (he : indexOf closeBrace s = some e) (hle : start ≤ e) : start + 2 ≤ e := by
  obtain ⟨t, ht⟩ := indexOf_drop _ _ _ hs
  obtain ⟨t', ht'⟩ := indexOf_drop _ _ _ he
  by_cases h0 : e = start
  · subst h0; rw [ht] at ht'; simp [dollarBrace, closeBrace] at ht'
  · by_cases h1 : e = start + 1
    · subst h1
      have : s.drop (start + 1) = (s.drop start).drop 1 := by simp [Nat.add_comm]
      rw [this, ht] at ht'
      simp [dollarBrace, closeBrace] at ht'
    · omega

/-! ### no slice is ever out of range -/

theorem aux_total (n : Nat) (s1 s2 : Str) (acc : List (Str × Str)) : aux n s1 s2 acc ≠ .panic := by
  induction n generalizing s1 s2 acc with
  | zero => simp [aux]
  | succ n ih =>
    unfold aux
    cases hs : indexOf dollarBrace s1 with
    | none => simp
    | some start =>
      simp only
      have hsl := indexOf_le _ _ _ hs
      simp only [dollarBrace, List.length_cons, List.length_nil] at hsl
      by_cases hlen : s2.length < start
      · simp [hlen]
      · simp only [hlen, if_false]
        rw [slice_some s1 0 start (by omega) (by omega), slice_some s2 0 start (by omega) (by omega)]
        simp only
        split
        · simp
        · cases he : indexOf closeBrace s1 with
          | none => simp
          | some e =>
            simp only
            have hel := indexOf_le _ _ _ he
            simp only [closeBrace, List.length_cons, List.length_nil] at hel
            by_cases hes : e < start
            · simp [hes]
            · simp only [hes, if_false]
              have h2 := close_after_open s1 start e hs he (by omega)
              rw [slice_some s1 (e + 1) s1.length (by omega) (by omega)]
              simp only
              cases hn : indexOf dollarBrace ((s1.drop (e + 1)).take (s1.length - (e + 1))) with
              | none =>
                simp only
                split
                · simp
                · rename_i hl
                  have hrl : ((s1.drop (e + 1)).take (s1.length - (e + 1))).length = s1.length - (e + 1) := by simp
                  rw [hrl] at hl ⊢
                  rw [slice_some s2 (s2.length - (s1.length - (e + 1))) s2.length (by omega) (by omega)]
                  simp only
                  split
                  · rw [slice_some s1 (start + 2) e (by omega) (by omega),
                      slice_some s2 start (s2.length - (s1.length - (e + 1))) (by omega) (by omega)]
                    simp only
                    split <;> simp
                  · simp
              | some next =>
                simp only
                have hnl := indexOf_le _ _ _ hn
                have hrl : ((s1.drop (e + 1)).take (s1.length - (e + 1))).length = s1.length - (e + 1) := by simp
                rw [hrl] at hnl
                simp only [dollarBrace, List.length_cons, List.length_nil] at hnl
                rw [slice_some s1 (e + 1) (e + 1 + next) (by omega) (by omega),
                  slice_some s2 start s2.length (by omega) (by omega)]
                simp only
                cases hm : indexOf ((s1.drop (e + 1)).take (e + 1 + next - (e + 1))) ((s2.drop start).take (s2.length - start)) with
                | none => simp
                | some m =>
                  simp only
                  by_cases hm0 : m > 0
                  · simp only [hm0, if_true]
                    have hml := indexOf_le _ _ _ hm
                    have : ((s2.drop start).take (s2.length - start)).length = s2.length - start := by simp
                    rw [this] at hml
                    rw [slice_some s1 (start + 2) e (by omega) (by omega),
                      slice_some s2 start (start + m) (by omega) (by omega),
                      slice_some s2 (start + m) s2.length (by omega) (by omega)]
                    simp only
                    split
                    · exact ih _ _ _
                    · simp
                  · simp [hm0]

/-- adequacy of the recursion bound: with more fuel than `s1` is long the bound is never hit -/
theorem aux_fuel (n : Nat) (s1 s2 : Str) (acc : List (Str × Str)) (hn : s1.length < n) : aux n s1 s2 acc ≠ .fuel := by
  induction n generalizing s1 s2 acc with
  | zero => omega
  | succ n ih =>
    unfold aux
    cases hs : indexOf dollarBrace s1 with
    | none => simp
    | some start =>
      simp only
      have hsl := indexOf_le _ _ _ hs
      simp only [dollarBrace, List.length_cons, List.length_nil] at hsl
      by_cases hlen : s2.length < start
      · simp [hlen]
      · simp only [hlen, if_false]
        rw [slice_some s1 0 start (by omega) (by omega), slice_some s2 0 start (by omega) (by omega)]
        simp only
        split
        · simp
        · cases he : indexOf closeBrace s1 with
          | none => simp
          | some e =>
            simp only
            have hel := indexOf_le _ _ _ he
            simp only [closeBrace, List.length_cons, List.length_nil] at hel
            by_cases hes : e < start
            · simp [hes]
            · simp only [hes, if_false]
              have h2 := close_after_open s1 start e hs he (by omega)
              rw [slice_some s1 (e + 1) s1.length (by omega) (by omega)]
              simp only
              cases hn : indexOf dollarBrace ((s1.drop (e + 1)).take (s1.length - (e + 1))) with
              | none =>
                simp only
                split
                · simp
                · rename_i hl
                  have hrl : ((s1.drop (e + 1)).take (s1.length - (e + 1))).length = s1.length - (e + 1) := by simp
                  rw [hrl] at hl ⊢
                  rw [slice_some s2 (s2.length - (s1.length - (e + 1))) s2.length (by omega) (by omega)]
                  simp only
                  split
                  · rw [slice_some s1 (start + 2) e (by omega) (by omega),
                      slice_some s2 start (s2.length - (s1.length - (e + 1))) (by omega) (by omega)]
                    simp only
                    split <;> simp
                  · simp
              | some next =>
                simp only
                have hnl := indexOf_le _ _ _ hn
                have hrl : ((s1.drop (e + 1)).take (s1.length - (e + 1))).length = s1.length - (e + 1) := by simp
                rw [hrl] at hnl
                simp only [dollarBrace, List.length_cons, List.length_nil] at hnl
                rw [slice_some s1 (e + 1) (e + 1 + next) (by omega) (by omega),
                  slice_some s2 start s2.length (by omega) (by omega)]
                simp only
                cases hm : indexOf ((s1.drop (e + 1)).take (e + 1 + next - (e + 1))) ((s2.drop start).take (s2.length - start)) with
                | none => simp
                | some m =>
                  simp only
                  by_cases hm0 : m > 0
                  · simp only [hm0, if_true]
                    have hml := indexOf_le _ _ _ hm
                    have : ((s2.drop start).take (s2.length - start)).length = s2.length - start := by simp
                    rw [this] at hml
                    rw [slice_some s1 (start + 2) e (by omega) (by omega),
                      slice_some s2 start (start + m) (by omega) (by omega),
                      slice_some s2 (start + m) s2.length (by omega) (by omega)]
                    simp only
                    split
                    · apply ih
                      simp only [List.length_take, List.length_drop]
                      omega
                    · simp
                  · simp [hm0]


theorem gen_fuel (s1 s2 : Str) : gen s1 s2 ≠ .fuel := aux_fuel _ _ _ _ (by omega)

theorem gen_total (s1 s2 : Str) : gen s1 s2 ≠ .panic := aux_total _ _ _ _


/-! ### soundness -/

theorem take_full (s : Str) (k : Nat) : (s.drop k).take (s.length - k) = s.drop k := by
  apply List.take_of_length_le; simp

/-- what a successful call did -/
theorem aux_inv (n : Nat) (s1 s2 : Str) (acc ps : List (Str × Str)) (h : aux (n + 1) s1 s2 acc = .ok ps) :
    ∃ start e, indexOf dollarBrace s1 = some start ∧ start ≤ s2.length ∧ s1.take start = s2.take start ∧
      indexOf closeBrace s1 = some e ∧ start + 2 ≤ e ∧ e + 1 ≤ s1.length ∧
      ((indexOf dollarBrace (s1.drop (e + 1)) = none ∧ (s1.drop (e + 1)).length + start ≤ s2.length ∧
          s1.drop (e + 1) = s2.drop (s2.length - (s1.drop (e + 1)).length) ∧
          setPatch acc ((s1.drop (start + 2)).take (e - (start + 2)))
                        ((s2.drop start).take (s2.length - (s1.drop (e + 1)).length - start)) = some ps) ∨
       (∃ m acc', m > 0 ∧ start + m ≤ s2.length ∧
          setPatch acc ((s1.drop (start + 2)).take (e - (start + 2))) ((s2.drop start).take m) = some acc' ∧
          aux n (s1.drop (e + 1)) (s2.drop (start + m)) acc' = .ok ps)) := by
  unfold aux at h
  cases hs : indexOf dollarBrace s1 with
  | none => simp [hs] at h
  | some start =>
    simp only [hs] at h
    have hsl := indexOf_le _ _ _ hs
    simp only [dollarBrace, List.length_cons, List.length_nil] at hsl
    by_cases hlen : s2.length < start
    · simp [hlen] at h
    · simp only [hlen, if_false] at h
      rw [slice_some s1 0 start (by omega) (by omega), slice_some s2 0 start (by omega) (by omega)] at h
      simp only [List.drop_zero, Nat.sub_zero] at h
      by_cases hp : s1.take start = s2.take start
      · simp only [hp, ne_eq, not_true_eq_false, if_false] at h
        cases he : indexOf closeBrace s1 with
        | none => simp [he] at h
        | some e =>
          simp only [he] at h
          have hel := indexOf_le _ _ _ he
          simp only [closeBrace, List.length_cons, List.length_nil] at hel
          by_cases hes : e < start
          · simp [hes] at h
          · simp only [hes, if_false] at h
            have h2 := close_after_open s1 start e hs he (by omega)
            rw [slice_some s1 (e + 1) s1.length (by omega) (by omega), take_full] at h
            simp only at h
            refine ⟨start, e, rfl, by omega, hp, rfl, h2, hel, ?_⟩
            have hrl0 : (s1.drop (e + 1)).length = s1.length - (e + 1) := by simp
            generalize hr : s1.drop (e + 1) = rest at h hrl0 ⊢
            cases hn : indexOf dollarBrace rest with
            | none =>
              left
              rw [hn] at h
              simp only at h
              by_cases hl : s2.length < rest.length + start
              · rw [if_pos hl] at h; cases h
              · rw [if_neg hl] at h
                rw [slice_some s2 (s2.length - rest.length) s2.length (by omega) (by omega)] at h
                simp only at h
                rw [take_full] at h
                by_cases heq : rest = s2.drop (s2.length - rest.length)
                · rw [if_pos heq] at h
                  rw [slice_some s1 (start + 2) e (by omega) (by omega),
                    slice_some s2 start (s2.length - rest.length) (by omega) (by omega)] at h
                  simp only at h
                  cases hsp : setPatch acc ((s1.drop (start + 2)).take (e - (start + 2))) ((s2.drop start).take (s2.length - rest.length - start)) with
                  | none => rw [hsp] at h; cases h
                  | some acc' =>
                    rw [hsp] at h
                    injection h with h
                    exact ⟨rfl, by omega, heq, by rw [h]⟩
                · rw [if_neg heq] at h; cases h
            | some next =>
              right
              rw [hn] at h
              simp only at h
              have hnl := indexOf_le _ _ _ hn
              simp only [dollarBrace, List.length_cons, List.length_nil] at hnl
              have hmid : (s1.drop (e + 1)).take (e + 1 + next - (e + 1)) = rest.take next := by
                rw [hr]; congr 1; omega
              rw [slice_some s1 (e + 1) (e + 1 + next) (by omega) (by omega),
                slice_some s2 start s2.length (by omega) (by omega), take_full, hmid] at h
              simp only at h
              cases hm : indexOf (rest.take next) (s2.drop start) with
              | none => rw [hm] at h; cases h
              | some m =>
                rw [hm] at h
                simp only at h
                by_cases hm0 : m > 0
                · rw [if_pos hm0] at h
                  have hml := indexOf_le _ _ _ hm
                  simp only [List.length_drop] at hml
                  rw [slice_some s1 (start + 2) e (by omega) (by omega),
                    slice_some s2 start (start + m) (by omega) (by omega),
                    slice_some s2 (start + m) s2.length (by omega) (by omega), take_full] at h
                  simp only at h
                  have : start + m - start = m := by omega
                  rw [this] at h
                  cases hsp : setPatch acc ((s1.drop (start + 2)).take (e - (start + 2))) ((s2.drop start).take m) with
                  | none => rw [hsp] at h; cases h
                  | some acc' =>
                    rw [hsp] at h
                    exact ⟨m, acc', hm0, by omega, hsp, h⟩
                · rw [if_neg hm0] at h; cases h
      · simp [hp] at h

/-- the spec's scan finds the same placeholder the code cut out -/
theorem subst_step (σ : Str → Option Str) (F : Nat) (s : Str) (start e : Nat)
    (hs : indexOf dollarBrace s = some start) (he : indexOf closeBrace s = some e) (h2 : start + 2 ≤ e)
    (v : Str) (hv : σ ((s.drop (start + 2)).take (e - (start + 2))) = some v) :
    subst σ (F + 1) s = s.take start ++ v ++ subst σ F (s.drop (e + 1)) := by
  have hc := indexOf_char_drop '}' s e (start + 2) he h2
  simp only [subst, hs]
  have : indexOf closeBrace (s.drop (start + 2)) = some (e - (start + 2)) := hc
  simp only [this, hv, List.drop_drop]
  have : start + 2 + (e - (start + 2) + 1) = e + 1 := by omega
  rw [this]

theorem subst_none (σ : Str → Option Str) (F : Nat) (s : Str) (h : indexOf dollarBrace s = none) :
    subst σ F s = s := by
  cases F with
  | zero => rfl
  | succ F => simp [subst, h]

theorem setPatch_some (acc acc' : List (Str × Str)) (n v : Str) (h : setPatch acc n v = some acc') :
    acc' = acc ++ [(n, v)] := by
  unfold setPatch at h
  split at h
  · split at h
    · cases h
    · injection h with h; exact h.symm
  · injection h with h; exact h.symm

theorem lookupLast_mem (ps : List (Str × Str)) (k w : Str) (h : lookupLast ps k = some w) : (k, w) ∈ ps := by
  unfold lookupLast at h
  cases hf : ps.reverse.find? (·.1 = k) with
  | none => simp [hf] at h
  | some e =>
    simp only [hf, Option.map, Option.some.injEq] at h
    have hm := List.mem_of_find?_eq_some hf
    have hk := List.find?_some hf
    simp only [decide_eq_true_eq] at hk
    obtain ⟨ek, ev⟩ := e
    simp only at hk h; subst hk; subst h
    exact List.mem_reverse.mp hm

theorem lookupLast_none (ps : List (Str × Str)) (k : Str) (h : lookupLast ps k = none) : ∀ p ∈ ps, p.1 ≠ k := by
  unfold lookupLast at h
  cases hf : ps.reverse.find? (·.1 = k) with
  | some e => simp [hf] at h
  | none =>
    rw [List.find?_eq_none] at hf
    intro p hp
    have := hf p (List.mem_reverse.mpr hp)
    simpa using this

theorem setPatch_agree (acc acc' : List (Str × Str)) (n v : Str) (h : setPatch acc n v = some acc')
    (ha : Agree acc) : Agree acc' := by
  have he := setPatch_some acc acc' n v h
  -- every earlier entry for n already carries v
  have hold : ∀ q ∈ acc, q.1 = n → q.2 = v := by
    intro q hq hqn
    unfold setPatch at h
    cases hl : lookupLast acc n with
    | none => exact absurd hqn (lookupLast_none acc n hl q hq)
    | some w =>
      simp only [hl] at h
      split at h
      · cases h
      · rename_i hne
        have hw : w = v := by simpa using hne
        have := ha q hq (n, w) (lookupLast_mem acc n w hl) hqn
        simp only at this; rw [this, hw]
  subst he
  intro p hp q hq hpq
  simp only [List.mem_append, List.mem_singleton] at hp hq
  rcases hp with hp | rfl <;> rcases hq with hq | rfl
  · exact ha p hp q hq hpq
  · exact hold p hp hpq
  · exact (hold q hq hpq.symm).symm
  · rfl

theorem aux_agree (n : Nat) (s1 s2 : Str) (acc ps : List (Str × Str)) (h : aux n s1 s2 acc = .ok ps)
    (ha : Agree acc) : Agree ps := by
  induction n generalizing s1 s2 acc with
  | zero => simp [aux] at h
  | succ n ih =>
    obtain ⟨start, e, _, _, _, _, _, _, hcase⟩ := aux_inv n s1 s2 acc ps h
    rcases hcase with ⟨_, _, _, hsp⟩ | ⟨m, acc', _, _, hsp, hrec⟩
    · exact setPatch_agree _ _ _ _ hsp ha
    · exact ih _ _ _ hrec (setPatch_agree _ _ _ _ hsp ha)

theorem agree_consistent (ps : List (Str × Str)) (h : Agree ps) : Consistent ps := by
  intro p hp
  cases hl : lookupLast ps p.1 with
  | none => exact absurd rfl (lookupLast_none ps p.1 hl p hp)
  | some w =>
    have := h (p.1, w) (lookupLast_mem ps p.1 w hl) p hp rfl
    simp only at this; rw [this]

theorem aux_sound (n : Nat) (s1 s2 : Str) (acc ps : List (Str × Str)) (h : aux n s1 s2 acc = .ok ps) :
    ∃ qs, ps = acc ++ qs ∧ ∀ (σ : Str → Option Str) (F : Nat), s1.length + 1 ≤ F →
      (∀ p ∈ qs, σ p.1 = some p.2) → subst σ F s1 = s2 := by
  induction n generalizing s1 s2 acc with
  | zero => simp [aux] at h
  | succ n ih =>
    obtain ⟨start, e, hs, hsl, hp, he, h2, hel, hcase⟩ := aux_inv n s1 s2 acc ps h
    rcases hcase with ⟨hn, hl, heq, hsp⟩ | ⟨m, acc', hm0, hml, hsp, hrec⟩
    · have hps := setPatch_some _ _ _ _ hsp
      refine ⟨_, hps, ?_⟩
      intro σ F hF hσ
      obtain ⟨F', rfl⟩ : ∃ F', F = F' + 1 := ⟨F - 1, by omega⟩
      rw [subst_step σ F' s1 start e hs he h2 _ (hσ _ List.mem_cons_self), subst_none σ F' _ hn, hp]
      have e1 : s2.take start ++ (s2.drop start).take (s2.length - (s1.drop (e + 1)).length - start) =
          s2.take (s2.length - (s1.drop (e + 1)).length) := by
        have : s2.length - (s1.drop (e + 1)).length = start + (s2.length - (s1.drop (e + 1)).length - start) := by omega
        rw [this, List.take_add]
        congr 2; omega
      rw [e1, heq]
      have : s2.length - (s2.drop (s2.length - (s1.drop (e + 1)).length)).length = s2.length - (s1.drop (e + 1)).length := by
        rw [← heq]
      rw [this, List.take_append_drop]
    · have hacc := setPatch_some _ _ _ _ hsp
      subst hacc
      obtain ⟨qs, hqs, hsub⟩ := ih _ _ _ hrec
      refine ⟨((s1.drop (start + 2)).take (e - (start + 2)), (s2.drop start).take m) :: qs, by rw [hqs]; simp, ?_⟩
      intro σ F hF hσ
      obtain ⟨F', rfl⟩ : ∃ F', F = F' + 1 := ⟨F - 1, by omega⟩
      rw [subst_step σ F' s1 start e hs he h2 _ (hσ _ List.mem_cons_self), hp]
      rw [hsub σ F' (by simp; omega) (fun p hp' => hσ p (by simp [hp']))]
      rw [← List.take_add, List.take_append_drop]

theorem gen_consistent (s1 s2 : Str) (ps : List (Str × Str)) (h : gen s1 s2 = .ok ps) : Consistent ps :=
  agree_consistent ps (aux_agree _ _ _ _ _ h (by intro p hp; cases hp))

theorem gen_sound (s1 s2 : Str) (ps : List (Str × Str)) (h : gen s1 s2 = .ok ps) :
    interpolate (lookupLast ps) s1 = s2 := by
  obtain ⟨qs, hqs, hsub⟩ := aux_sound _ _ _ _ _ h
  simp only [List.nil_append] at hqs
  subst hqs
  exact hsub (lookupLast ps) _ (Nat.le_refl _) (gen_consistent s1 s2 ps h)

end Scalibr.Pom
