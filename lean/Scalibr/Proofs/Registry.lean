/-
Helper lemmas for C19: the filter loop is `List.filter`, the auto-enabling loops keep the invariant
"everything enabled so far validates", and the executable `requiredOKB` decides `requiredOK`.
-/
import Scalibr.Spec.Registry
namespace Scalibr.Registry

/-- the statement of `requiredOK` in terms of the model's `ExtractorFromName` (what the auto-enabling loop consults) -/
def requiredOKModel (fsT stT : Table) (dreq : Caps) (e : String) : Prop :=
  ((∃ x, fromName fsT e = .ok x) ∨ (∃ x, fromName stT e = .ok x)) ∧
  (∀ x, fromName fsT e = .ok x → ∀ caps, satisfied dreq caps = true → satisfied x.req caps = true) ∧
  (∀ x, fromName stT e = .ok x → ∀ caps, satisfied dreq caps = true → satisfied x.req caps = true)

theorem lookup_mem (t : Table) (n : String) (v : List Plugin) (h : t.lookup n = some v) : (n, v) ∈ t := by
  induction t with
  | nil => simp at h
  | cons kv rest ih =>
    obtain ⟨k, w⟩ := kv
    by_cases hk : n = k
    · subst hk; simp at h; subst h; simp
    · have : (n == k) = false := by simpa using hk
      rw [List.lookup_cons, this] at h
      exact List.mem_cons_of_mem _ (ih h)

theorem mem_lookup (t : Table) (n : String) (v : List Plugin) (hk : KeysNodup t) (h : (n, v) ∈ t) : t.lookup n = some v := by
  induction t with
  | nil => cases h
  | cons kv rest ih =>
    obtain ⟨k, w⟩ := kv
    unfold KeysNodup at hk
    simp only [List.map_cons, List.nodup_cons] at hk
    simp only [List.mem_cons, Prod.mk.injEq] at h
    rcases h with ⟨rfl, rfl⟩ | h
    · simp
    · have hne : n ≠ k := by
        intro e; subst e
        exact hk.1 (List.mem_map.2 ⟨(n, v), h, rfl⟩)
      have : (n == k) = false := by simpa using hne
      rw [List.lookup_cons, this]
      exact ih hk.2 h

/-- the model's exact-name lookup only ever returns what the specification calls registered under that name … -/
theorem fromName_ok_registered (t : Table) (n : String) (p : Plugin) (h : fromName t n = .ok p) : RegisteredAs t n p := by
  unfold fromName at h
  cases hl : t.lookup n with
  | none => simp [hl] at h
  | some inits =>
    rw [hl] at h
    match inits, h with
    | [e], h =>
      by_cases hn : e.name = n
      · simp [hn] at h; subst h; exact ⟨lookup_mem t n _ hl, hn⟩
      · simp [hn] at h

/-- … and, keys being distinct, returns it -/
theorem registered_fromName_ok (t : Table) (n : String) (p : Plugin) (hk : KeysNodup t) (h : RegisteredAs t n p) :
    fromName t n = .ok p := by
  unfold fromName
  rw [mem_lookup t n [p] hk h.1]
  simp [h.2]

/-- the specification implies the statement the loop invariant needs -/
theorem requiredOKModel_of_spec (fsT stT : Table) (dreq : Caps) (e : String) (hf : KeysNodup fsT) (hs : KeysNodup stT)
    (h : requiredOK fsT stT dreq e) : requiredOKModel fsT stT dreq e := by
  obtain ⟨hex, h1, h2⟩ := h
  refine ⟨?_, fun x hx => h1 x (fromName_ok_registered _ _ _ hx), fun x hx => h2 x (fromName_ok_registered _ _ _ hx)⟩
  rcases hex with ⟨x, hx⟩ | ⟨x, hx⟩
  · exact Or.inl ⟨x, registered_fromName_ok _ _ _ hf hx⟩
  · exact Or.inr ⟨x, registered_fromName_ok _ _ _ hs hx⟩

theorem mem_allCaps (c : Caps) : c ∈ allCaps := by
  rcases c with ⟨o, n, d, r⟩
  cases o <;> cases n <;> cases d <;> cases r <;> decide

/-- `ValidateRequirements` returns nil exactly when the environment satisfies the requirements -/
theorem validate_eq_satisfied (req caps : Caps) : validate req caps = satisfied req caps := by
  have h : ∀ r ∈ allCaps, ∀ c ∈ allCaps, validate r c = satisfied r c := by decide +kernel
  exact h req (mem_allCaps req) caps (mem_allCaps caps)

theorem filterLoop_eq (caps : Caps) (exs acc : List Plugin) :
    filterLoop caps exs acc = acc ++ exs.filter (fun p => validate p.req caps) := by
  induction exs generalizing acc with
  | nil => simp [filterLoop]
  | cons ex exs ih =>
    unfold filterLoop
    rw [ih]
    by_cases h : validate ex.req caps = true
    · simp [h]
    · simp [h]

/-- invariant of the auto-enabling loops: every enabled extractor validates under `caps` -/
def Good (caps : Caps) (c : Cfg) : Prop :=
  (∀ p ∈ c.fs, satisfied p.req caps = true) ∧ (∀ p ∈ c.st, satisfied p.req caps = true)

theorem enableOne_good (fsT stT : Table) (caps dreq : Caps) (c : Cfg) (e : String)
    (hg : Good caps c) (hd : satisfied dreq caps = true) (hr : requiredOKModel fsT stT dreq e) :
    ∃ c', enableOne fsT stT c e = .ok c' ∧ Good caps c' := by
  obtain ⟨hex, hfs, hst⟩ := hr
  unfold enableOne
  by_cases hc : c.enabled.contains e = true
  · simp only [hc, if_true]; exact ⟨c, rfl, hg⟩
  · simp only [hc, Bool.false_eq_true, if_false]
    cases h1 : fromName fsT e with
    | error a =>
      cases h2 : fromName stT e with
      | error b =>
        rcases hex with ⟨x, hx⟩ | ⟨x, hx⟩
        · rw [h1] at hx; cases hx
        · rw [h2] at hx; cases hx
      | ok y =>
        refine ⟨_, rfl, hg.1, ?_⟩
        intro p hp
        simp only [List.mem_append, List.mem_singleton] at hp
        rcases hp with hp | hp
        · exact hg.2 p hp
        · rw [hp]; exact hst y h2 caps hd
    | ok x =>
      cases h2 : fromName stT e with
      | error b =>
        refine ⟨_, rfl, ?_, hg.2⟩
        intro p hp
        simp only [List.mem_append, List.mem_singleton] at hp
        rcases hp with hp | hp
        · exact hg.1 p hp
        · rw [hp]; exact hfs x h1 caps hd
      | ok y =>
        refine ⟨_, rfl, ?_, ?_⟩
        · intro p hp
          simp only [List.mem_append, List.mem_singleton] at hp
          rcases hp with hp | hp
          · exact hg.1 p hp
          · rw [hp]; exact hfs x h1 caps hd
        · intro p hp
          simp only [List.mem_append, List.mem_singleton] at hp
          rcases hp with hp | hp
          · exact hg.2 p hp
          · rw [hp]; exact hst y h2 caps hd

theorem enableList_good (fsT stT : Table) (caps dreq : Caps) (es : List String) (c : Cfg)
    (hg : Good caps c) (hd : satisfied dreq caps = true) (hr : ∀ e ∈ es, requiredOKModel fsT stT dreq e) :
    ∃ c', enableList fsT stT c es = .ok c' ∧ Good caps c' := by
  induction es generalizing c with
  | nil => exact ⟨c, rfl, hg⟩
  | cons e es ih =>
    obtain ⟨c1, h1, g1⟩ := enableOne_good fsT stT caps dreq c e hg hd (hr e (by simp))
    obtain ⟨c2, h2, g2⟩ := ih c1 g1 (fun e' he' => hr e' (by simp [he']))
    exact ⟨c2, by simp only [enableList, h1, h2], g2⟩

theorem enableDets_good (fsT stT : Table) (caps : Caps) (ds : List Plugin) (c : Cfg)
    (hg : Good caps c) (hd : ∀ d ∈ ds, satisfied d.req caps = true)
    (hr : ∀ d ∈ ds, ∀ e ∈ d.required, requiredOKModel fsT stT d.req e) :
    ∃ c', enableDets fsT stT c ds = .ok c' ∧ Good caps c' := by
  induction ds generalizing c with
  | nil => exact ⟨c, rfl, hg⟩
  | cons d ds ih =>
    obtain ⟨c1, h1, g1⟩ := enableList_good fsT stT caps d.req d.required c hg (hd d (by simp)) (hr d (by simp))
    obtain ⟨c2, h2, g2⟩ := ih c1 g1 (fun d' h' => hd d' (by simp [h'])) (fun d' h' => hr d' (by simp [h']))
    exact ⟨c2, by simp only [enableDets, h1, h2], g2⟩

theorem validateAll_nil (ps : List Plugin) (caps : Caps) (h : ∀ p ∈ ps, satisfied p.req caps = true) :
    validateAll ps caps = [] := by
  unfold validateAll
  rw [List.map_eq_nil_iff, List.filter_eq_nil_iff]
  intro p hp
  simp [validate_eq_satisfied, h p hp]

/-- the executable check decides the declarative statement -/
theorem requiredOKModel_of_B (fsT stT : Table) (dreq : Caps) (e : String) (h : requiredOKB fsT stT dreq e = true) :
    requiredOKModel fsT stT dreq e := by
  unfold requiredOKB at h
  simp only [Bool.and_eq_true, Bool.or_eq_true] at h
  obtain ⟨⟨hex, h1⟩, h2⟩ := h
  refine ⟨?_, ?_, ?_⟩
  · rcases hex with hex | hex
    · left; cases hx : fromName fsT e with
      | ok x => exact ⟨x, rfl⟩
      | error a => rw [hx] at hex; cases hex
    · right; cases hx : fromName stT e with
      | ok x => exact ⟨x, rfl⟩
      | error a => rw [hx] at hex; cases hex
  · intro x hx caps hs
    rw [hx] at h1
    simp only [List.all_eq_true] at h1
    have := h1 caps (mem_allCaps caps)
    simpa [hs] using this
  · intro x hx caps hs
    rw [hx] at h2
    simp only [List.all_eq_true] at h2
    have := h2 caps (mem_allCaps caps)
    simpa [hs] using this

/-- the executable check decides the SPECIFICATION (tables with distinct keys) -/
theorem requiredOK_of_B (fsT stT : Table) (dreq : Caps) (e : String) (hf : KeysNodup fsT) (hs : KeysNodup stT)
    (h : requiredOKB fsT stT dreq e = true) : requiredOK fsT stT dreq e := by
  obtain ⟨hex, h1, h2⟩ := requiredOKModel_of_B fsT stT dreq e h
  refine ⟨?_, fun x hx => h1 x (registered_fromName_ok _ _ _ hf hx), fun x hx => h2 x (registered_fromName_ok _ _ _ hs hx)⟩
  rcases hex with ⟨x, hx⟩ | ⟨x, hx⟩
  · exact Or.inl ⟨x, fromName_ok_registered _ _ _ hx⟩
  · exact Or.inr ⟨x, fromName_ok_registered _ _ _ hx⟩

/-! ### `…FromNames` computes the set union of the single resolutions, nothing twice -/

def InTable (t : Table) (p : Plugin) : Prop := ∃ kv ∈ t, p ∈ kv.2

theorem addAll_spec (t : Table) (hdet : NameDetermines t) (ms : List Plugin) (res : List Plugin)
    (hnd : (res.map (·.name)).Nodup) (hres : ∀ p ∈ res, InTable t p) (hms : ∀ p ∈ ms, InTable t p) :
    ((addAll res ms).map (·.name)).Nodup ∧ (∀ p ∈ addAll res ms, InTable t p) ∧
    ∀ p, p ∈ addAll res ms ↔ p ∈ res ∨ p ∈ ms := by
  induction ms generalizing res with
  | nil => exact ⟨by simpa [addAll] using hnd, by simpa [addAll] using hres, fun p => by simp [addAll]⟩
  | cons e es ih =>
    have he : InTable t e := hms e (by simp)
    have hes : ∀ p ∈ es, InTable t p := fun p hp => hms p (by simp [hp])
    unfold addAll
    by_cases hany : res.any (fun r => r.name == e.name) = true
    · simp only [hany, if_true]
      obtain ⟨r, hr, hname⟩ := List.any_eq_true.1 hany
      have hre : r = e := by
        obtain ⟨kv, hkv, hp⟩ := hres r hr
        obtain ⟨kw, hkw, hq⟩ := he
        exact hdet kv hkv kw hkw r hp e hq (by simpa using hname)
      obtain ⟨i1, i2, i3⟩ := ih res hnd hres hes
      refine ⟨i1, i2, fun p => ?_⟩
      rw [i3 p]
      constructor
      · rintro (h | h)
        · exact Or.inl h
        · exact Or.inr (by simp [h])
      · rintro (h | h)
        · exact Or.inl h
        · simp only [List.mem_cons] at h
          rcases h with rfl | h
          · exact Or.inl (hre ▸ hr)
          · exact Or.inr h
    · simp only [hany, Bool.false_eq_true, if_false]
      have hno : e.name ∉ res.map (·.name) := by
        intro hm
        obtain ⟨r, hr, hn⟩ := List.mem_map.1 hm
        exact hany (List.any_eq_true.2 ⟨r, hr, by simpa using hn⟩)
      have hnd' : ((res ++ [e]).map (·.name)).Nodup := by
        rw [List.map_append, List.nodup_append]
        refine ⟨hnd, by simp, ?_⟩
        intro a ha b hb
        simp only [List.map_cons, List.map_nil, List.mem_singleton] at hb
        rw [hb]; intro hab; exact hno (hab ▸ ha)
      have hres' : ∀ p ∈ res ++ [e], InTable t p := by
        intro p hp
        simp only [List.mem_append, List.mem_singleton] at hp
        rcases hp with hp | rfl
        · exact hres p hp
        · exact he
      obtain ⟨i1, i2, i3⟩ := ih (res ++ [e]) hnd' hres' hes
      refine ⟨i1, i2, fun p => ?_⟩
      rw [i3 p]
      simp only [List.mem_append, List.mem_cons, List.not_mem_nil, or_false]
      constructor
      · rintro ((h | h) | h)
        · exact Or.inl h
        · exact Or.inr (Or.inl h)
        · exact Or.inr (Or.inr h)
      · rintro (h | h | h)
        · exact Or.inl (Or.inl h)
        · exact Or.inl (Or.inr h)
        · exact Or.inr h

theorem fromNamesLoop_spec (t : Table) (hk : KeysNodup t) (hdet : NameDetermines t) (names : List String) (res r : List Plugin)
    (hnd : (res.map (·.name)).Nodup) (hres : ∀ p ∈ res, InTable t p) (h : fromNamesLoop t names res = .ok r) :
    (r.map (·.name)).Nodup ∧ ∀ p, p ∈ r ↔ p ∈ res ∨ ∃ n ∈ names, ListedUnder t n p := by
  induction names generalizing res with
  | nil =>
    simp only [fromNamesLoop] at h
    cases h
    exact ⟨hnd, fun p => by simp⟩
  | cons n ns ih =>
    unfold fromNamesLoop at h
    cases hl : t.lookup n with
    | none => rw [hl] at h; cases h
    | some ms =>
      rw [hl] at h
      have hmem : (n, ms) ∈ t := lookup_mem t n ms hl
      have hms : ∀ p ∈ ms, InTable t p := fun p hp => ⟨(n, ms), hmem, hp⟩
      obtain ⟨a1, a2, a3⟩ := addAll_spec t hdet ms res hnd hres hms
      obtain ⟨i1, i2⟩ := ih (addAll res ms) a1 a2 h
      refine ⟨i1, fun p => ?_⟩
      rw [i2 p, a3 p]
      constructor
      · rintro ((h | h) | ⟨m, hm, hl'⟩)
        · exact Or.inl h
        · exact Or.inr ⟨n, by simp, ms, hmem, h⟩
        · exact Or.inr ⟨m, by simp [hm], hl'⟩
      · rintro (h | ⟨m, hm, ms', hmem', hp⟩)
        · exact Or.inl (Or.inl h)
        · simp only [List.mem_cons] at hm
          rcases hm with rfl | hm
          · have : ms' = ms := by
              have := mem_lookup t m ms' hk hmem'
              rw [hl] at this; cases this; rfl
            exact Or.inl (Or.inr (this ▸ hp))
          · exact Or.inr ⟨m, hm, ms', hmem', hp⟩

/-! ### auto-enabling never enables a name twice -/

theorem fromName_name (t : Table) (e : String) (x : Plugin) (h : fromName t e = .ok x) : x.name = e :=
  (fromName_ok_registered t e x h).2

/-- invariant of the auto-enabling loops: no name twice in either list, and `enabled` is exactly the set of enabled names -/
structure EnInv (c : Cfg) : Prop where
  fsNodup : (c.fs.map (·.name)).Nodup
  stNodup : (c.st.map (·.name)).Nodup
  sound : ∀ n, n ∈ c.fs.map (·.name) ∨ n ∈ c.st.map (·.name) → n ∈ c.enabled
  complete : ∀ n ∈ c.enabled, n ∈ c.fs.map (·.name) ∨ n ∈ c.st.map (·.name)

theorem nodup_append_new (l : List Plugin) (x : Plugin) (h : (l.map (·.name)).Nodup) (hx : x.name ∉ l.map (·.name)) :
    ((l ++ [x]).map (·.name)).Nodup := by
  rw [List.map_append, List.nodup_append]
  refine ⟨h, by simp, ?_⟩
  intro a ha b hb
  simp only [List.map_cons, List.map_nil, List.mem_singleton] at hb
  rw [hb]; intro hab; exact hx (hab ▸ ha)

theorem enableOne_inv (fsT stT : Table) (c c' : Cfg) (e : String) (hi : EnInv c) (h : enableOne fsT stT c e = .ok c') :
    EnInv c' ∧ c.fs <+: c'.fs ∧ c.st <+: c'.st ∧ (∀ n ∈ c.enabled, n ∈ c'.enabled) ∧ e ∈ c'.enabled := by
  unfold enableOne at h
  by_cases hc : c.enabled.contains e = true
  · simp only [hc, if_true, Except.ok.injEq] at h
    subst h
    exact ⟨hi, List.prefix_refl _, List.prefix_refl _, fun n hn => hn, by simpa using hc⟩
  · simp only [hc, Bool.false_eq_true, if_false] at h
    have hne : e ∉ c.enabled := by simpa using hc
    have hnf : e ∉ c.fs.map (·.name) := fun hm => hne (hi.sound e (Or.inl hm))
    have hns : e ∉ c.st.map (·.name) := fun hm => hne (hi.sound e (Or.inr hm))
    cases h1 : fromName fsT e with
    | error a =>
      cases h2 : fromName stT e with
      | error b => simp [h1, h2] at h
      | ok y =>
        simp only [h1, h2, Except.ok.injEq] at h
        subst h
        have hy := fromName_name stT e y h2
        refine ⟨⟨hi.fsNodup, nodup_append_new c.st y hi.stNodup (hy ▸ hns), ?_, ?_⟩, List.prefix_refl _, List.prefix_append _ _,
          fun n hn => by simp [hn], by simp⟩
        · intro n hn
          simp only [List.map_append, List.mem_append, List.map_cons, List.map_nil, List.mem_cons, List.not_mem_nil, or_false] at hn ⊢
          rcases hn with hn | hn | hn
          · exact Or.inr (hi.sound n (Or.inl hn))
          · exact Or.inr (hi.sound n (Or.inr hn))
          · exact Or.inl (hn.trans hy)
        · intro n hn
          simp only [List.mem_cons] at hn
          simp only [List.map_append, List.mem_append, List.map_cons, List.map_nil, List.mem_singleton]
          rcases hn with rfl | hn
          · exact Or.inr (Or.inr hy.symm)
          · rcases hi.complete n hn with h | h
            · exact Or.inl h
            · exact Or.inr (Or.inl h)
    | ok x =>
      have hx := fromName_name fsT e x h1
      cases h2 : fromName stT e with
      | error b =>
        simp only [h1, h2, Except.ok.injEq] at h
        subst h
        refine ⟨⟨nodup_append_new c.fs x hi.fsNodup (hx ▸ hnf), hi.stNodup, ?_, ?_⟩, List.prefix_append _ _, List.prefix_refl _,
          fun n hn => by simp [hn], by simp⟩
        · intro n hn
          simp only [List.map_append, List.mem_append, List.map_cons, List.map_nil, List.mem_cons, List.not_mem_nil, or_false] at hn ⊢
          rcases hn with (hn | hn) | hn
          · exact Or.inr (hi.sound n (Or.inl hn))
          · exact Or.inl (hn.trans hx)
          · exact Or.inr (hi.sound n (Or.inr hn))
        · intro n hn
          simp only [List.mem_cons] at hn
          simp only [List.map_append, List.mem_append, List.map_cons, List.map_nil, List.mem_singleton]
          rcases hn with rfl | hn
          · exact Or.inl (Or.inr hx.symm)
          · rcases hi.complete n hn with h | h
            · exact Or.inl (Or.inl h)
            · exact Or.inr h
      | ok y =>
        have hy := fromName_name stT e y h2
        simp only [h1, h2, Except.ok.injEq] at h
        subst h
        refine ⟨⟨nodup_append_new c.fs x hi.fsNodup (hx ▸ hnf), nodup_append_new c.st y hi.stNodup (hy ▸ hns), ?_, ?_⟩,
          List.prefix_append _ _, List.prefix_append _ _, fun n hn => by simp [hn], by simp⟩
        · intro n hn
          simp only [List.map_append, List.mem_append, List.map_cons, List.map_nil, List.mem_cons, List.not_mem_nil, or_false] at hn ⊢
          rcases hn with (hn | hn) | (hn | hn)
          · exact Or.inr (hi.sound n (Or.inl hn))
          · exact Or.inl (hn.trans hx)
          · exact Or.inr (hi.sound n (Or.inr hn))
          · exact Or.inl (hn.trans hy)
        · intro n hn
          simp only [List.mem_cons] at hn
          simp only [List.map_append, List.mem_append, List.map_cons, List.map_nil, List.mem_singleton]
          rcases hn with rfl | hn
          · exact Or.inl (Or.inr hx.symm)
          · rcases hi.complete n hn with h | h
            · exact Or.inl (Or.inl h)
            · exact Or.inr (Or.inl h)

theorem enableList_inv (fsT stT : Table) (es : List String) (c c' : Cfg) (hi : EnInv c) (h : enableList fsT stT c es = .ok c') :
    EnInv c' ∧ c.fs <+: c'.fs ∧ c.st <+: c'.st ∧ (∀ n ∈ c.enabled, n ∈ c'.enabled) ∧ ∀ e ∈ es, e ∈ c'.enabled := by
  induction es generalizing c with
  | nil => simp only [enableList, Except.ok.injEq] at h; subst h; exact ⟨hi, List.prefix_refl _, List.prefix_refl _, fun n hn => hn, by simp⟩
  | cons e es ih =>
    unfold enableList at h
    cases h1 : enableOne fsT stT c e with
    | error x => rw [h1] at h; cases h
    | ok c1 =>
      rw [h1] at h
      obtain ⟨i1, p1, q1, m1, e1⟩ := enableOne_inv fsT stT c c1 e hi h1
      obtain ⟨i2, p2, q2, m2, e2⟩ := ih c1 i1 h
      refine ⟨i2, p1.trans p2, q1.trans q2, fun n hn => m2 n (m1 n hn), ?_⟩
      intro x hx
      simp only [List.mem_cons] at hx
      rcases hx with rfl | hx
      · exact m2 x e1
      · exact e2 x hx

theorem enableDets_inv (fsT stT : Table) (ds : List Plugin) (c c' : Cfg) (hi : EnInv c) (h : enableDets fsT stT c ds = .ok c') :
    EnInv c' ∧ c.fs <+: c'.fs ∧ c.st <+: c'.st ∧ (∀ n ∈ c.enabled, n ∈ c'.enabled) ∧ ∀ d ∈ ds, ∀ e ∈ d.required, e ∈ c'.enabled := by
  induction ds generalizing c with
  | nil => simp only [enableDets, Except.ok.injEq] at h; subst h; exact ⟨hi, List.prefix_refl _, List.prefix_refl _, fun n hn => hn, by simp⟩
  | cons d ds ih =>
    unfold enableDets at h
    cases h1 : enableList fsT stT c d.required with
    | error x => rw [h1] at h; cases h
    | ok c1 =>
      rw [h1] at h
      obtain ⟨i1, p1, q1, m1, e1⟩ := enableList_inv fsT stT d.required c c1 hi h1
      obtain ⟨i2, p2, q2, m2, e2⟩ := ih c1 i1 h
      refine ⟨i2, p1.trans p2, q1.trans q2, fun n hn => m2 n (m1 n hn), ?_⟩
      intro x hx e he
      simp only [List.mem_cons] at hx
      rcases hx with rfl | hx
      · exact m2 e (e1 e he)
      · exact e2 x hx e he

end Scalibr.Registry
