/-
C04 / C10: the full loader `loadImage` (tar entries with their acceptance verdicts, the extraction directory, load
errors) builds, whenever it succeeds, exactly the trees of `loadCore` on the entries that create nodes (`effective`).
This is the link between the theorems (about `viewOf` / `loadCore`) and what the driver runs.
-/
import Scalibr.Model.OverlayImage
namespace Scalibr.Overlay

theorem processEntry_chains {limit i : Nat} {st st' : LoadSt} {pe : PEntry} (h : processEntry limit i st pe = some st') :
    st'.chains = if pe.act = .accept then processEntryC i st.chains pe.e else st.chains := by
  unfold processEntry at h
  unfold processEntryC
  by_cases hown : ((st.chains.getD i emptyTree).get pe.e.p).isSome
  · rw [if_pos hown] at h; rw [if_pos hown]
    by_cases hu : (pe.act = .accept && upgrades (st.chains.getD i emptyTree) pe.e) = true
    · rw [if_pos hu] at h
      simp only [Bool.and_eq_true, decide_eq_true_eq] at hu
      simp only [Option.map_eq_some_iff] at h
      obtain ⟨d, _, rfl⟩ := h
      rw [if_pos hu.1, if_pos hu.2]
    · rw [if_neg hu] at h
      simp only [Option.some.injEq] at h; subst h
      by_cases ha : pe.act = .accept
      · have : ¬ upgrades (st.chains.getD i emptyTree) pe.e = true := by
          intro hh; apply hu; rw [hh]; simp [ha]
        rw [if_pos ha, if_neg this]
      · rw [if_neg ha]
  · rw [if_neg hown] at h; rw [if_neg hown]
    cases hact : pe.act <;> rw [hact] at h <;> simp only [] at h
    · simp only [Option.map_eq_some_iff] at h
      obtain ⟨d, _, rfl⟩ := h
      simp
    · simp only [Option.map_eq_some_iff] at h
      obtain ⟨d, _, rfl⟩ := h
      simp
    · simp only [Option.some.injEq] at h; subst h; simp
    · cases h
    · simp only [Option.some.injEq] at h; subst h; simp

theorem processEntry_disk {limit i : Nat} {st st' : LoadSt} {pe : PEntry} (h : processEntry limit i st pe = some st') :
    st'.disk = st.disk ∨ diskStep limit st.disk pe = some st'.disk := by
  unfold processEntry at h
  by_cases hown : ((st.chains.getD i emptyTree).get pe.e.p).isSome
  · rw [if_pos hown] at h
    by_cases hu : (pe.act = .accept && upgrades (st.chains.getD i emptyTree) pe.e) = true
    · rw [if_pos hu] at h
      simp only [Option.map_eq_some_iff] at h
      obtain ⟨d, hd, rfl⟩ := h; exact Or.inr hd
    · rw [if_neg hu] at h; simp only [Option.some.injEq] at h; subst h; exact Or.inl rfl
  · rw [if_neg hown] at h
    cases hact : pe.act <;> rw [hact] at h <;> simp only [] at h
    · simp only [Option.map_eq_some_iff] at h
      obtain ⟨d, hd, rfl⟩ := h; exact Or.inr hd
    · simp only [Option.map_eq_some_iff] at h
      obtain ⟨d, hd, rfl⟩ := h; exact Or.inr hd
    · simp only [Option.some.injEq] at h; subst h; exact Or.inl rfl
    · cases h
    · simp only [Option.some.injEq] at h; subst h; exact Or.inl rfl

theorem effective_cons (pe : PEntry) (l : List PEntry) :
    effective (pe :: l) = if pe.act = .accept then pe.e :: effective l else effective l := by
  unfold effective
  by_cases h : pe.act = .accept <;> simp [List.filterMap_cons, h]

theorem foldlM_processEntry_chains (limit i : Nat) : ∀ (l : List PEntry) (st st' : LoadSt),
    l.foldlM (processEntry limit i) st = some st' →
    st'.chains = (effective l).foldl (processEntryC i) st.chains := by
  intro l
  induction l with
  | nil => intro st st' h; simp [List.foldlM] at h; subst h; simp [effective]
  | cons pe l ih =>
    intro st st' h
    rw [List.foldlM_cons] at h
    cases h1 : processEntry limit i st pe with
    | none => rw [h1] at h; simp at h
    | some st1 =>
      rw [h1] at h
      simp only [Option.bind_eq_bind, Option.bind_some] at h
      rw [ih st1 st' h, processEntry_chains h1, effective_cons]
      by_cases ha : pe.act = .accept <;> simp [ha]

theorem processLayer_chains {limit i : Nat} {chains c : List Tree} {l : List PEntry} {d : Disk}
    (h : processLayer limit i chains l = some (c, d)) : c = (effective l).foldl (processEntryC i) chains := by
  unfold processLayer at h
  simp only [Option.map_eq_some_iff] at h
  obtain ⟨st', hf, heq⟩ := h
  have := foldlM_processEntry_chains limit i l ⟨chains, []⟩ st' hf
  simp only [Prod.mk.injEq] at heq
  rw [← heq.1]; exact this

theorem getD_map_effective (layers : List (List PEntry)) (i : Nat) :
    (layers.map effective).getD i [] = effective (layers.getD i []) := by
  rw [List.getD_eq_getElem?_getD, List.getD_eq_getElem?_getD, List.getElem?_map]
  cases layers[i]? <;> simp [effective]

theorem loadLoop_chains (limit : Nat) (layers : List (List PEntry)) : ∀ (i : Nat) (chains : List Tree) (disks : List (Nat × Disk))
    (c : List Tree) (ds : List (Nat × Disk)), loadLoop limit layers i chains disks = some (c, ds) →
    c = loadFrom (layers.map effective) i chains := by
  intro i
  induction i with
  | zero => intro chains disks c ds h; simp [loadLoop] at h; simp [loadFrom, h.1]
  | succ i ih =>
    intro chains disks c ds h
    unfold loadLoop at h
    cases hp : processLayer limit i chains (layers.getD i []) with
    | none => rw [hp] at h; cases h
    | some r =>
      obtain ⟨c1, d1⟩ := r
      rw [hp] at h
      simp only at h
      rw [ih _ _ _ _ h, processLayer_chains hp]
      simp only [loadFrom, getD_map_effective]

/-- **The full loader builds the trees of the lock-step core.** Whenever `loadImage` succeeds (no tar makes
`MkdirAll`/`OpenFile` fail, no link without a target), its chain layers are `loadCore` of the node-creating entries —
and by `loadCore_eq_viewOf` the views the theorems speak about. -/
theorem loadImage_chains (limit : Nat) (layers : List (List PEntry)) (c : List Tree) (ds : List (Nat × Disk))
    (h : loadImage limit layers = some (c, ds)) : c = loadCore (layers.map effective) := by
  unfold loadImage at h
  have := loadLoop_chains limit layers _ _ _ _ _ h
  unfold loadCore
  simpa using this

end Scalibr.Overlay
