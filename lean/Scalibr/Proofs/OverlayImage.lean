/-
C04 / C10: the full loader `loadImage` (tar entries with their acceptance verdicts, the extraction directory, load
errors) builds, whenever it succeeds, exactly the trees of `loadCore` on the entries that create nodes (`effective`).
This is the link between the theorems (about `viewOf` / `loadCore`) and what the driver runs.
-/
import Scalibr.Model.OverlayImage
namespace Scalibr.Overlay

theorem upgrades_tomb (own : Tree) (p : Path) (m : Nat) : upgrades own ⟨p, .link, true, m, 0, 0, []⟩ = false := by
  unfold upgrades
  cases own.get p <;> simp

theorem processEntry_chains {limit i : Nat} {st st' : LoadSt} {pe : PEntry} (h : processEntry limit i st pe = some st') :
    st'.chains = match pe.node? with | some e => processEntryC i st.chains e | none => st.chains := by
  unfold processEntry at h
  by_cases hown : ((st.chains.getD i emptyTree).get pe.e.p).isSome
  · rw [if_pos hown] at h
    cases hact : pe.act with
    | accept =>
      simp only [PEntry.node?, hact]
      unfold processEntryC
      rw [if_pos hown]
      by_cases hu : upgrades (st.chains.getD i emptyTree) pe.e = true
      · have hc : (decide (pe.act = Act.accept) && upgrades (st.chains.getD i emptyTree) pe.e) = true := by
          rw [Bool.and_eq_true]; exact ⟨by simp [hact], hu⟩
        rw [if_pos hc] at h
        simp only [Option.map_eq_some_iff] at h
        obtain ⟨d, _, rfl⟩ := h
        rw [if_pos hu]
      · have hc : ¬ (decide (pe.act = Act.accept) && upgrades (st.chains.getD i emptyTree) pe.e) = true := by
          intro hh; rw [Bool.and_eq_true] at hh; exact hu hh.2
        rw [if_neg hc] at h
        simp only [Option.some.injEq] at h; subst h
        rw [if_neg hu]
    | big =>
      have hc : ¬ (decide (pe.act = Act.accept) && upgrades (st.chains.getD i emptyTree) pe.e) = true := by
        intro hh; rw [Bool.and_eq_true] at hh; have := hh.1; simp [hact] at this
      rw [if_neg hc] at h
      simp only [Option.some.injEq] at h; subst h
      simp only [PEntry.node?, hact]
      unfold processEntryC
      have hown' : ((st.chains.getD i emptyTree).get (⟨pe.e.p, Kind.link, true, pe.e.mode, 0, 0, []⟩ : Entry).p).isSome := hown
      rw [if_pos hown', upgrades_tomb]; simp
    | badlink =>
      have hc : ¬ (decide (pe.act = Act.accept) && upgrades (st.chains.getD i emptyTree) pe.e) = true := by
        intro hh; rw [Bool.and_eq_true] at hh; have := hh.1; simp [hact] at this
      rw [if_neg hc] at h
      simp only [Option.some.injEq] at h; subst h
      simp only [PEntry.node?, hact]
      unfold processEntryC
      have hown' : ((st.chains.getD i emptyTree).get (⟨pe.e.p, Kind.link, true, pe.e.mode, 0, 0, []⟩ : Entry).p).isSome := hown
      rw [if_pos hown', upgrades_tomb]; simp
    | fatal =>
      have hc : ¬ (decide (pe.act = Act.accept) && upgrades (st.chains.getD i emptyTree) pe.e) = true := by
        intro hh; rw [Bool.and_eq_true] at hh; have := hh.1; simp [hact] at this
      rw [if_neg hc] at h
      simp only [Option.some.injEq] at h; subst h
      simp only [PEntry.node?, hact]
    | other =>
      have hc : ¬ (decide (pe.act = Act.accept) && upgrades (st.chains.getD i emptyTree) pe.e) = true := by
        intro hh; rw [Bool.and_eq_true] at hh; have := hh.1; simp [hact] at this
      rw [if_neg hc] at h
      simp only [Option.some.injEq] at h; subst h
      simp only [PEntry.node?, hact]
  · rw [if_neg hown] at h
    cases hact : pe.act <;> rw [hact] at h <;> simp only [] at h <;> simp only [PEntry.node?, hact]
    · simp only [Option.map_eq_some_iff] at h
      obtain ⟨d, _, rfl⟩ := h
      unfold processEntryC; rw [if_neg hown]
    · simp only [Option.map_eq_some_iff] at h
      obtain ⟨d, _, rfl⟩ := h
      unfold processEntryC
      have hown' : ¬ ((st.chains.getD i emptyTree).get (⟨pe.e.p, Kind.link, true, pe.e.mode, 0, 0, []⟩ : Entry).p).isSome := hown
      rw [if_neg hown']
    · simp only [Option.some.injEq] at h; subst h
      unfold processEntryC
      have hown' : ¬ ((st.chains.getD i emptyTree).get (⟨pe.e.p, Kind.link, true, pe.e.mode, 0, 0, []⟩ : Entry).p).isSome := hown
      rw [if_neg hown']
    · cases h
    · simp only [Option.some.injEq] at h; subst h; rfl

theorem processEntry_disk {limit i : Nat} {st st' : LoadSt} {pe : PEntry} (h : processEntry limit i st pe = some st') :
    st'.disk = st.disk ∨ diskStep limit st.disk pe = some st'.disk := by
  unfold processEntry at h
  by_cases hown : ((st.chains.getD i emptyTree).get pe.e.p).isSome
  · rw [if_pos hown] at h
    by_cases hu : (pe.act = .accept && upgrades (st.chains.getD i emptyTree) pe.e) = true
    · rw [if_pos hu] at h
      simp only [Option.map_eq_some_iff] at h
      obtain ⟨d, hd, rfl⟩ := h; exact Or.inr hd
    · rw [if_neg hu] at h; simp only [Option.some.injEq] at h; subst h; exact Or.inl rfl
  · rw [if_neg hown] at h
    cases hact : pe.act <;> rw [hact] at h <;> simp only [] at h
    · simp only [Option.map_eq_some_iff] at h
      obtain ⟨d, hd, rfl⟩ := h; exact Or.inr hd
    · simp only [Option.map_eq_some_iff] at h
      obtain ⟨d, hd, rfl⟩ := h; exact Or.inr hd
    · simp only [Option.some.injEq] at h; subst h; exact Or.inl rfl
    · cases h
    · simp only [Option.some.injEq] at h; subst h; exact Or.inl rfl

theorem effective_cons (pe : PEntry) (l : List PEntry) :
    effective (pe :: l) = match pe.node? with | some e => e :: effective l | none => effective l := by
  unfold effective
  cases h : pe.node? <;> simp [List.filterMap_cons, h]

theorem foldlM_processEntry_chains (limit i : Nat) : ∀ (l : List PEntry) (st st' : LoadSt),
    l.foldlM (processEntry limit i) st = some st' →
    st'.chains = (effective l).foldl (processEntryC i) st.chains := by
  intro l
  induction l with
  | nil => intro st st' h; simp [List.foldlM] at h; subst h; simp [effective]
  | cons pe l ih =>
    intro st st' h
    rw [List.foldlM_cons] at h
    cases h1 : processEntry limit i st pe with
    | none => rw [h1] at h; simp at h
    | some st1 =>
      rw [h1] at h
      simp only [Option.bind_eq_bind, Option.bind_some] at h
      rw [ih st1 st' h, processEntry_chains h1, effective_cons]
      cases pe.node? <;> simp

theorem processLayer_chains {limit i : Nat} {chains c : List Tree} {l : List PEntry} {d : Disk}
    (h : processLayer limit i chains l = some (c, d)) : c = (effective l).foldl (processEntryC i) chains := by
  unfold processLayer at h
  simp only [Option.map_eq_some_iff] at h
  obtain ⟨st', hf, heq⟩ := h
  have := foldlM_processEntry_chains limit i l ⟨chains, []⟩ st' hf
  simp only [Prod.mk.injEq] at heq
  rw [← heq.1]; exact this

theorem getD_map_effective (layers : List (List PEntry)) (i : Nat) :
    (layers.map effective).getD i [] = effective (layers.getD i []) := by
  rw [List.getD_eq_getElem?_getD, List.getD_eq_getElem?_getD, List.getElem?_map]
  cases layers[i]? <;> simp [effective]

theorem loadLoop_chains (limit : Nat) (layers : List (List PEntry)) : ∀ (i : Nat) (chains : List Tree) (disks : List (Nat × Disk))
    (c : List Tree) (ds : List (Nat × Disk)), loadLoop limit layers i chains disks = some (c, ds) →
    c = loadFrom (layers.map effective) i chains := by
  intro i
  induction i with
  | zero => intro chains disks c ds h; simp [loadLoop] at h; simp [loadFrom, h.1]
  | succ i ih =>
    intro chains disks c ds h
    unfold loadLoop at h
    cases hp : processLayer limit i chains (layers.getD i []) with
    | none => rw [hp] at h; cases h
    | some r =>
      obtain ⟨c1, d1⟩ := r
      rw [hp] at h
      simp only at h
      rw [ih _ _ _ _ h, processLayer_chains hp]
      simp only [loadFrom, getD_map_effective]

/-- **The full loader builds the trees of the lock-step core.** Whenever `loadImage` succeeds (no tar makes
`MkdirAll`/`OpenFile` fail, no link without a target), its chain layers are `loadCore` of the node-creating entries —
and by `loadCore_eq_viewOf` the views the theorems speak about. -/
theorem loadImage_chains (limit : Nat) (layers : List (List PEntry)) (c : List Tree) (ds : List (Nat × Disk))
    (h : loadImage limit layers = some (c, ds)) : c = loadCore (layers.map effective) := by
  unfold loadImage at h
  have := loadLoop_chains limit layers _ _ _ _ _ h
  unfold loadCore
  simpa using this

end Scalibr.Overlay
