/-
Helper lemmas for C03_dpkg: `bufio.Reader.ReadLine` on rendered bytes, one field / one stanza through the
`ReadMIMEHeader` model, header lookup under any field order, the record loop over a rendered file.
-/
import Scalibr.Spec.Parsers.Dpkg
import Scalibr.Proofs.Parsers.Layout
import Scalibr.Proofs.Parsers.Apk
import Scalibr.Proofs.Parsers.Gradle
import Scalibr.Proofs.Lockfiles
namespace Scalibr.Parsers.Dpkg
open Scalibr.Parsers

/-! ### A. ReadLine -/

theorem rchunks_line (l s : List Char) (h : '\n' ∉ l) :
    ∀ cur, rchunks (l ++ '\n' :: s) cur = (cur.reverse ++ l, true) :: rchunks s [] := by
  induction l with
  | nil => intro cur; simp [rchunks]
  | cons c l ih =>
    intro cur
    have hc : c ≠ '\n' := by intro e; subst e; simp at h
    have hl : '\n' ∉ l := by intro e; exact h (by simp [e])
    simp only [List.cons_append, rchunks, hc, if_false]
    rw [ih hl]; simp

theorem rchunks_last (l : List Char) (h : '\n' ∉ l) :
    ∀ cur, rchunks l cur = if (cur.reverse ++ l).isEmpty then [] else [(cur.reverse ++ l, false)] := by
  induction l with
  | nil => intro cur; simp [rchunks]
  | cons c l ih =>
    intro cur
    have hc : c ≠ '\n' := by intro e; subst e; simp at h
    have hl : '\n' ∉ l := by intro e; exact h (by simp [e])
    simp only [rchunks, hc, if_false]
    rw [ih hl]; simp

theorem rlines_line (l s : List Char) (h : '\n' ∉ l) : rlines (l ++ '\n' :: s) = dropCR l :: rlines s := by
  simp [rlines, rchunks_line l s h []]

theorem rlines_last (l : List Char) (h : '\n' ∉ l) (hne : l ≠ []) : rlines l = [l] := by
  simp [rlines, rchunks_last l h [], hne]

theorem rlines_nil : rlines [] = [] := by simp [rlines, rchunks]

/-- **byte-to-line lemma for `ReadLine`** -/
theorem rlines_unlines (ls : List Line) (hc : ∀ l ∈ ls, '\n' ∉ l ∧ '\r' ∉ l) :
    ∀ (cr : List Bool) (fin : Bool), endsOK ls fin → rlines (unlines ls cr fin) = ls := by
  induction ls with
  | nil => intro cr fin _; simp [unlines, rlines_nil]
  | cons l ls ih =>
    intro cr fin he
    have hl := hc l (by simp)
    cases ls with
    | nil =>
      cases fin with
      | false =>
        have hne : l ≠ [] := by intro e; apply he rfl; simp [e]
        simp only [unlines, Bool.false_eq_true, if_false, List.append_nil]
        exact rlines_last l hl.1 hne
      | true =>
        simp only [unlines, if_true]
        cases hcr : cr.headD false with
        | false =>
          simp only [eol, Bool.false_eq_true, if_false]
          rw [rlines_line l [] hl.1, rlines_nil, dropCR_noCR l hl.2]
        | true =>
          simp only [eol, if_true]
          have : l ++ ['\r', '\n'] = (l ++ ['\r']) ++ '\n' :: [] := by simp
          rw [this, rlines_line (l ++ ['\r']) [] (by simp [hl.1]), rlines_nil, dropCR_append_CR]
    | cons l' ls' =>
      have he' : endsOK (l' :: ls') fin := by
        intro hf; have := he hf; simpa [List.getLast?_cons_cons] using this
      have ih' := ih (fun x hx => hc x (by simp [hx])) cr.tail fin he'
      simp only [unlines]
      cases hcr : cr.headD false with
      | false =>
        simp only [eol, Bool.false_eq_true, if_false]
        rw [List.append_assoc]
        simp only [List.singleton_append]
        rw [rlines_line l _ hl.1, ih', dropCR_noCR l hl.2]
      | true =>
        simp only [eol, if_true]
        have : l ++ ['\r', '\n'] ++ unlines (l' :: ls') cr.tail fin
             = (l ++ ['\r']) ++ '\n' :: unlines (l' :: ls') cr.tail fin := by simp
        rw [this, rlines_line (l ++ ['\r']) _ (by simp [hl.1]), ih', dropCR_append_CR]

/-! ### B. one field through `stanza` -/

def contText (cs : List Line) : List Char := cs.flatMap fun c => ' ' :: trimST c

def firstLine (f : Field) : Line := f.key ++ ':' :: (f.sep ++ f.value)

/-- the logical line `readContinuedLineSlice` assembles for a field -/
def logical (f : Field) : List Char := firstLine f ++ contText f.cont

theorem stanza_cont (rest : List Line) (h : Hdr) : ∀ (cs : List Line), (∀ c ∈ cs, startsSpTab c = true) →
    ∀ buf : List Char, stanza (cs ++ rest) h (some buf) = stanza rest h (some (buf ++ contText cs)) := by
  intro cs
  induction cs with
  | nil => intro _ buf; simp [contText]
  | cons c cs ih =>
    intro hc buf
    have h1 := hc c (by simp)
    simp only [List.cons_append, stanza, h1, Option.isSome_some, Bool.and_self, if_true, Option.map_some]
    rw [ih (fun x hx => hc x (by simp [hx]))]
    simp [contText, List.append_assoc]

theorem fieldByte_not (c : Char) (h : fieldByte c = true) : c ≠ ' ' ∧ c ≠ '\t' ∧ c ≠ ':' := by
  refine ⟨?_, ?_, ?_⟩ <;> (rintro rfl; revert h; decide)

theorem dropWhile_head (p : Char → Bool) (l : List Char) (h : ∀ c, l.head? = some c → p c = false) : l.dropWhile p = l := by
  cases l with
  | nil => rfl
  | cons c t => simp [List.dropWhile_cons, h c rfl]

theorem trimST_id (l : Line) (h1 : noSpTab l.head?) (h2 : noSpTab l.getLast?) : trimST l = l := by
  have hp : ∀ o : Option Char, noSpTab o → ∀ c, o = some c → isSpTab c = false := by
    intro o ho c hc; subst hc
    unfold isSpTab; simp
    exact ⟨fun e => ho.1 (by rw [e]), fun e => ho.2 (by rw [e])⟩
  unfold trimST
  rw [dropWhile_head isSpTab l (hp _ h1)]
  rw [dropWhile_head isSpTab l.reverse (by rw [List.head?_reverse]; exact hp _ h2)]
  simp

theorem firstLine_props (f : Field) (hw : WFfield f) :
    startsSpTab (firstLine f) = false ∧ (firstLine f).isEmpty = false ∧ (firstLine f).contains ':' = true ∧
    trimST (firstLine f) = firstLine f := by
  obtain ⟨hk, hkb, hsep, hve, hvh, hvl, _⟩ := hw
  obtain ⟨k0, kt, hk0⟩ : ∃ k0 kt, f.key = k0 :: kt := by cases hf : f.key with
    | nil => exact absurd hf hk
    | cons a b => exact ⟨a, b, rfl⟩
  have hk0b : fieldByte k0 = true := by
    have := List.all_eq_true.mp hkb k0 (by rw [hk0]; simp); exact this
  have hn := fieldByte_not k0 hk0b
  refine ⟨?_, ?_, ?_, ?_⟩
  · simp [firstLine, hk0, startsSpTab, isSpTab, hn.1, hn.2.1]
  · simp [firstLine, hk0]
  · simp [firstLine]
  · apply trimST_id
    · simp only [firstLine, hk0, List.cons_append, List.head?_cons]
      exact ⟨by simp [hn.1], by simp [hn.2.1]⟩
    · have : (firstLine f).getLast? = if f.value = [] then some ':' else f.value.getLast? := by
        unfold firstLine
        by_cases hv : f.value = []
        · simp [hv, hve hv]
        · simp only [hv, if_false]
          have e : f.key ++ ':' :: (f.sep ++ f.value) = (f.key ++ ':' :: f.sep) ++ f.value := by simp
          rw [e, List.getLast?_append]
          cases hl : f.value.getLast? with
          | none => simp [List.getLast?_eq_none_iff] at hl; exact absurd hl hv
          | some x => simp
      rw [this]
      split
      · exact ⟨by simp, by simp⟩
      · exact hvl

theorem stanza_field (f : Field) (hw : WFfield f) (rest : List Line) (h : Hdr) (pend : Option (List Char)) :
    stanza (fieldLines f ++ rest) h pend =
      match commit h pend with
      | none => none
      | some h' => stanza rest h' (some (logical f)) := by
  obtain ⟨h1, h2, h3, h4⟩ := firstLine_props f hw
  have hcont : ∀ c ∈ f.cont, startsSpTab c = true := fun c hc => (hw.2.2.2.2.2.2.2.2.1 c hc).1
  show stanza (firstLine f :: (f.cont ++ rest)) h pend = _
  simp only [stanza, h1, Bool.false_and, Bool.false_eq_true, if_false, h2, h3, Bool.not_true]
  cases commit h pend with
  | none => rfl
  | some h' =>
    simp only []
    rw [h4, stanza_cont rest h' f.cont hcont]
    rfl


/-! ### C–D. a run of fields, and what `commit` stores -/

/-- what the header stores for a field: canonical key, value without its leading white space -/
def entry (f : Field) : List Char × List Char :=
  (canonAux true f.key, (f.sep ++ f.value ++ contText f.cont).dropWhile isSpTab)

/-- first value of a key stays -/
def store (h : Hdr) (e : List Char × List Char) : Hdr := if h.any (·.1 = e.1) then h else h ++ [e]

theorem all_trimST (p : Char → Bool) (l : Line) (h : l.all p = true) : (trimST l).all p = true := by
  have h' : ∀ c ∈ l, p c = true := by simpa using h
  have : ∀ c ∈ trimST l, p c = true := by
    intro c hc
    unfold trimST at hc
    have hc1 := List.mem_reverse.mp hc
    have hc2 := (List.dropWhile_sublist _).subset hc1
    have hc3 := List.mem_reverse.mp hc2
    exact h' c ((List.dropWhile_sublist _).subset hc3)
  simpa using this

theorem canonKey_wf (k : List Char) (hne : k ≠ []) (hb : k.all fieldByte = true) : canonKey k = some (canonAux true k) := by
  have hb' : ∀ c ∈ k, fieldByte c = true := by simpa using hb
  have h1 : k.isEmpty = false := by cases k <;> simp_all
  have h2 : k.all (fun c => fieldByte c || c = ' ') = true := by
    simp only [List.all_eq_true]; intro c hc; simp [hb' c hc]
  have h3 : k.contains ' ' = false := by
    simp only [List.contains_eq_mem, decide_eq_false_iff_not]
    intro hm; exact (fieldByte_not ' ' (hb' _ hm)).1 rfl
  unfold canonKey
  rw [h1, h2, h3]; simp

theorem commit_field (f : Field) (hw : WFfield f) (h : Hdr) : commit h (some (logical f)) = some (store h (entry f)) := by
  obtain ⟨hk, hkb, hsep, _, _, _, hval, _, hcont, _⟩ := hw
  have hkb' : ∀ c ∈ f.key, fieldByte c = true := by simpa using hkb
  have hcolon : ':' ∉ f.key := fun hm => (fieldByte_not ':' (hkb' _ hm)).2.2 rfl
  have hcut : cutAt ':' (logical f) = some (f.key, f.sep ++ f.value ++ contText f.cont) := by
    have : logical f = f.key ++ ':' :: (f.sep ++ f.value ++ contText f.cont) := by simp [logical, firstLine]
    rw [this]; exact cutAt_key ':' _ _ hcolon
  have hv : (f.sep ++ f.value ++ contText f.cont).all valueByte = true := by
    simp only [List.all_append, Bool.and_eq_true]
    refine ⟨⟨?_, hval⟩, ?_⟩
    · simp only [List.all_eq_true] at hsep ⊢
      intro c hc; have := hsep c hc
      unfold isSpTab at this; unfold valueByte
      rcases (by simpa using this : c = ' ' ∨ c = '\t') with rfl | rfl <;> decide
    · simp only [List.all_eq_true]
      intro x hx
      simp only [contText, List.mem_flatMap] at hx
      obtain ⟨c, hc, hxc⟩ := hx
      have hcv := (hcont c hc).2.1
      rcases List.mem_cons.mp hxc with rfl | hxc
      · decide
      · exact List.all_eq_true.mp (all_trimST valueByte c hcv) x hxc
  simp only [commit, hcut, canonKey_wf f.key hk hkb, hv, if_true]
  by_cases hc : (h.any fun kv => decide (kv.1 = canonAux true f.key)) = true
  · have : store h (entry f) = h := if_pos hc
    rw [this, if_pos hc]
  · have : store h (entry f) = h ++ [entry f] := if_neg hc
    rw [this, if_neg hc]; rfl

/-- the header after committing a run of fields -/
def hdrFrom (h : Hdr) (fs : List Field) : Hdr := fs.foldl (fun h f => store h (entry f)) h

theorem commit_none (h : Hdr) : commit h none = some h := rfl

/-- a run of rendered fields, then a blank line or the end of the input: one stanza -/
theorem stanza_fields (rest : List Line) (hrest : rest = [] ∨ ∃ t, rest = [] :: t) :
    ∀ (fs : List Field), (∀ f ∈ fs, WFfield f) → ∀ (h : Hdr) (pend : Option (List Char)) (hp : Hdr),
      commit h pend = some hp →
      stanza (fs.flatMap fieldLines ++ rest) h pend = some (hdrFrom hp fs, rest.isEmpty, rest.drop 1) := by
  intro fs
  induction fs with
  | nil =>
    intro _ h pend hp hc
    rcases hrest with rfl | ⟨t, rfl⟩
    · simp [stanza, hc, hdrFrom]
    · simp [stanza, startsSpTab, hc, hdrFrom]
  | cons f fs ih =>
    intro hwf h pend hp hc
    have hf := hwf f (by simp)
    rw [List.flatMap_cons, List.append_assoc, stanza_field f hf, hc]
    simp only []
    rw [ih (fun x hx => hwf x (by simp [hx])) hp (some (logical f)) _ (commit_field f hf hp)]
    rfl

/-! ### E. header lookup -/

theorem get_eq_lookup (h : Hdr) (k : List Char) : get h k = (Lockfiles.lookup h k).getD [] := rfl

theorem any_eq_lookup (h : Hdr) (k : List Char) : h.any (fun kv => decide (kv.1 = k)) = (Lockfiles.lookup h k).isSome := by
  induction h with
  | nil => rfl
  | cons e h ih =>
    rw [Lockfiles.lookup_cons]
    by_cases he : e.1 = k <;> simp [he, ih]

theorem store_eq_addFirst (h : Hdr) (e : List Char × List Char) : store h e = Lockfiles.addFirst h e := by
  unfold store Lockfiles.addFirst
  rw [any_eq_lookup]

theorem hdrFrom_eq (fs : List Field) : ∀ h : Hdr, hdrFrom h fs = Lockfiles.insertFirst (fs.map entry) h := by
  induction fs with
  | nil => intro h; rfl
  | cons f fs ih =>
    intro h
    simp only [hdrFrom, List.foldl_cons, List.map_cons, Lockfiles.insertFirst]
    rw [store_eq_addFirst]
    exact ih _

theorem get_hdr (fs : List Field) (k : List Char) : get (hdrFrom [] fs) k = (Lockfiles.lookup (fs.map entry) k).getD [] := by
  rw [get_eq_lookup, hdrFrom_eq, (Lockfiles.insertFirst_spec (fs.map entry) [] (by simp [Lockfiles.keys])).2 k]
  simp [Lockfiles.lookup_nil]

/-- a key written with one value only is looked up as that value -/
theorem lookup_unique (m : List (List Char × List Char)) (k v : List Char) (hm : (k, v) ∈ m)
    (hu : ∀ e ∈ m, e.1 = k → e.2 = v) : Lockfiles.lookup m k = some v := by
  induction m with
  | nil => simp at hm
  | cons e m ih =>
    rw [Lockfiles.lookup_cons]
    by_cases he : e.1 = k
    · simp [he, hu e (by simp) he]
    · simp only [he, if_false]
      rcases List.mem_cons.mp hm with h | h
      · subst h; exact absurd rfl he
      · exact ih h (fun e' he' => hu e' (List.mem_cons_of_mem _ he'))

theorem lookup_absent (m : List (List Char × List Char)) (k : List Char) (h : ∀ e ∈ m, e.1 ≠ k) : Lockfiles.lookup m k = none := by
  rw [Lockfiles.lookup_eq_none_iff]
  simp only [Lockfiles.keys, List.mem_map]
  rintro ⟨e, he, hk⟩
  exact h e he hk


/-! ### F. the significant keys of a well-formed stanza -/

theorem dropWhile_sep (sep v : List Char) (hs : sep.all isSpTab = true) (hv : noSpTab v.head?) :
    (sep ++ v).dropWhile isSpTab = v := by
  induction sep with
  | nil =>
    apply dropWhile_head
    intro c hc
    simp only [List.nil_append] at hc
    unfold isSpTab; simp
    exact ⟨fun e => hv.1 (by rw [hc, e]), fun e => hv.2 (by rw [hc, e])⟩
  | cons c sep ih =>
    simp only [List.all_cons, Bool.and_eq_true] at hs
    simp [hs.1, ih hs.2]

theorem entry_sig (key sep v : List Char) (K : List Char) (hw : WFfield ⟨key, sep, v, []⟩) (hk : canonKey key = some K) :
    entry ⟨key, sep, v, []⟩ = (K, v) := by
  have h1 := canonKey_wf key hw.1 hw.2.1
  rw [hk] at h1
  have h1' : canonAux true key = K := (Option.some.inj h1).symm
  unfold entry
  simp only [contText, List.flatMap_nil, List.append_nil, h1']
  rw [dropWhile_sep sep v hw.2.2.1 hw.2.2.2.2.1]

theorem extra_key (f : Field) (hw : WFfield f) (hx : extraKeyOK f = true) : (entry f).1 ∉ sigKeys := by
  have h1 := canonKey_wf f.key hw.1 hw.2.1
  unfold extraKeyOK at hx
  rw [h1] at hx
  simpa [entry] using hx

structure SigVals (r : GRec) : Prop where
  pkg : get (hdrFrom [] r.fields) "Package".toList = r.name
  ver : get (hdrFrom [] r.fields) "Version".toList = r.ver
  status : get (hdrFrom [] r.fields) "Status".toList = statusValue r
  source : get (hdrFrom [] r.fields) "Source".toList = r.source.getD []

theorem sig_vals (r : GRec) (hw : WFrec r) : SigVals r := by
  obtain ⟨hperm, hfields, hkP, hkS, hkV, hkSrc, _, _, _, _, _, _, hextras⟩ := hw
  have hmem : ∀ f, f ∈ r.fields ↔ f ∈ sigFields r ++ r.extras := fun f => hperm.mem_iff
  have hP : (⟨r.keyP, r.sepP, r.name, []⟩ : Field) ∈ r.fields := (hmem _).mpr (by simp [sigFields])
  have hS : (⟨r.keyS, r.sepS, statusValue r, []⟩ : Field) ∈ r.fields := (hmem _).mpr (by simp [sigFields])
  have hV : r.ver ≠ [] → (⟨r.keyV, r.sepV, r.ver, []⟩ : Field) ∈ r.fields := fun hv => (hmem _).mpr (by simp [sigFields, verFields, hv])
  have eP := entry_sig r.keyP r.sepP r.name _ (hfields _ hP) hkP
  have eS := entry_sig r.keyS r.sepS (statusValue r) _ (hfields _ hS) hkS
  have eV : r.ver ≠ [] → entry ⟨r.keyV, r.sepV, r.ver, []⟩ = ("Version".toList, r.ver) :=
    fun hv => entry_sig r.keyV r.sepV r.ver _ (hfields _ (hV hv)) hkV
  -- the entry of every field of the stanza
  have hall : ∀ f ∈ r.fields, entry f = ("Package".toList, r.name) ∨ entry f = ("Status".toList, statusValue r) ∨
      (r.ver ≠ [] ∧ entry f = ("Version".toList, r.ver)) ∨ (∃ s, r.source = some s ∧ entry f = ("Source".toList, s)) ∨ (entry f).1 ∉ sigKeys := by
    intro f hf
    rcases List.mem_append.mp ((hmem f).mp hf) with h | h
    · simp only [sigFields, List.mem_append, List.mem_cons, List.not_mem_nil, or_false] at h
      rcases h with ((rfl | rfl) | h) | h
      · exact Or.inl eP
      · exact Or.inr (Or.inl eS)
      · by_cases hv : r.ver = []
        · simp [verFields, hv] at h
        · simp only [verFields, hv, if_false, List.mem_singleton] at h
          subst h
          exact Or.inr (Or.inr (Or.inl ⟨hv, eV hv⟩))
      · cases hs : r.source with
        | none => simp [hs] at h
        | some s =>
          simp only [hs, List.mem_singleton] at h
          subst h
          exact Or.inr (Or.inr (Or.inr (Or.inl ⟨s, rfl, entry_sig r.keySrc [' '] s _ (hfields _ hf) hkSrc⟩)))
    · exact Or.inr (Or.inr (Or.inr (Or.inr (extra_key f (hfields f hf) (hextras f h)))))
  have nP : "Package".toList ∈ sigKeys := by decide
  have nS : "Status".toList ∈ sigKeys := by decide
  have nV : "Version".toList ∈ sigKeys := by decide
  have nSrc : "Source".toList ∈ sigKeys := by decide
  have look : ∀ (K v : List Char), K ∈ sigKeys → (K, v) ∈ r.fields.map entry →
      (∀ f ∈ r.fields, (entry f).1 = K → (entry f).2 = v) → get (hdrFrom [] r.fields) K = v := by
    intro K v _ hm hu
    rw [get_hdr, lookup_unique _ K v hm (by
      intro e he hk
      obtain ⟨f, hf, rfl⟩ := List.mem_map.mp he
      exact hu f hf hk)]
    rfl
  refine ⟨?_, ?_, ?_, ?_⟩
  · apply look _ _ nP (List.mem_map.mpr ⟨_, hP, eP⟩)
    intro f hf hk
    rcases hall f hf with h | h | ⟨_, h⟩ | ⟨s, _, h⟩ | h
    · rw [h]
    · rw [h] at hk; simp at hk
    · rw [h] at hk; simp at hk
    · rw [h] at hk; simp at hk
    · rw [hk] at h; exact absurd nP h
  · by_cases hv : r.ver = []
    · rw [hv, get_hdr, lookup_absent]
      · rfl
      intro e he hk
      obtain ⟨f, hf, rfl⟩ := List.mem_map.mp he
      rcases hall f hf with h | h | ⟨hne, _⟩ | ⟨s, _, h⟩ | h
      · rw [h] at hk; simp at hk
      · rw [h] at hk; simp at hk
      · exact hne hv
      · rw [h] at hk; simp at hk
      · rw [hk] at h; exact absurd nV h
    · apply look _ _ nV (List.mem_map.mpr ⟨_, hV hv, eV hv⟩)
      intro f hf hk
      rcases hall f hf with h | h | ⟨_, h⟩ | ⟨s, _, h⟩ | h
      · rw [h] at hk; simp at hk
      · rw [h] at hk; simp at hk
      · rw [h]
      · rw [h] at hk; simp at hk
      · rw [hk] at h; exact absurd nV h
  · apply look _ _ nS (List.mem_map.mpr ⟨_, hS, eS⟩)
    intro f hf hk
    rcases hall f hf with h | h | ⟨_, h⟩ | ⟨s, _, h⟩ | h
    · rw [h] at hk; simp at hk
    · rw [h]
    · rw [h] at hk; simp at hk
    · rw [h] at hk; simp at hk
    · rw [hk] at h; exact absurd nS h
  · cases hs : r.source with
    | none =>
      rw [get_hdr, lookup_absent]
      intro e he hk
      obtain ⟨f, hf, rfl⟩ := List.mem_map.mp he
      rcases hall f hf with h | h | ⟨_, h⟩ | ⟨s, h0, _⟩ | h
      · rw [h] at hk; simp at hk
      · rw [h] at hk; simp at hk
      · rw [h] at hk; simp at hk
      · rw [hs] at h0; cases h0
      · rw [hk] at h; exact absurd nSrc h
    | some s =>
      have hSrc : (⟨r.keySrc, [' '], s, []⟩ : Field) ∈ r.fields := (hmem _).mpr (by simp [sigFields, hs])
      have eSrc := entry_sig r.keySrc [' '] s _ (hfields _ hSrc) hkSrc
      simp only [Option.getD_some]
      apply look _ _ nSrc (List.mem_map.mpr ⟨_, hSrc, eSrc⟩)
      intro f hf hk
      rcases hall f hf with h | h | ⟨_, h⟩ | ⟨s', h0, h⟩ | h
      · rw [h] at hk; simp at hk
      · rw [h] at hk; simp at hk
      · rw [h] at hk; simp at hk
      · rw [hs] at h0; cases h0; rw [h]
      · rw [hk] at h; exact absurd nSrc h

/-! ### G. the verdict on a well-formed stanza -/

theorem splitSp_word (w rest : List Char) (hw : ' ' ∉ w) :
    ∀ cur, splitSp (w ++ ' ' :: rest) cur = (cur.reverse ++ w) :: splitSp rest [] := by
  induction w with
  | nil => intro cur; simp [splitSp]
  | cons c w ih =>
    intro cur
    have hc : c ≠ ' ' := by intro e; subst e; simp at hw
    have hw' : ' ' ∉ w := by intro e; exact hw (by simp [e])
    simp only [List.cons_append, splitSp, hc, if_false]
    rw [ih hw']; simp

theorem splitSp_last (w : List Char) (hw : ' ' ∉ w) : ∀ cur, splitSp w cur = [cur.reverse ++ w] := by
  induction w with
  | nil => intro cur; simp [splitSp]
  | cons c w ih =>
    intro cur
    have hc : c ≠ ' ' := by intro e; subst e; simp at hw
    have hw' : ' ' ∉ w := by intro e; exact hw (by simp [e])
    simp only [splitSp, hc, if_false]
    rw [ih hw']; simp

theorem process_wf (r : GRec) (hw : WFrec r) :
    process (hdrFrom [] r.fields) = if r.state = "installed".toList then .pkg r.name r.ver else .skip := by
  have sv := sig_vals r hw
  obtain ⟨_, _, _, _, _, _, hn, hv, hwant, hflag, hstate, hsrc, _⟩ := hw
  unfold process
  generalize "installed".toList = I at hv ⊢
  simp only [sv.pkg, sv.ver, sv.status, sv.source]
  have hst : (statusValue r).isEmpty = false := by
    unfold statusValue; cases hwt : r.want with
    | nil => exact absurd hwt hwant.1
    | cons a b => simp
  have hsplit : splitSp (statusValue r) [] = [r.want, r.flag, r.state] := by
    unfold statusValue
    rw [splitSp_word r.want _ hwant.2, splitSp_word r.flag _ hflag.2, splitSp_last r.state hstate.2]
    simp
  have hne : r.name.isEmpty = false := by cases h : r.name <;> simp_all
  have hve : r.state = I → r.ver.isEmpty = false := by
    intro hi; have := hv hi; cases h : r.ver <;> simp_all
  have hsrc' : ¬ (r.source.getD []) = [] → containsSpParen (r.source.getD []) = true → (r.source.getD []).getLast? = some ')' := by
    cases hs : r.source with
    | none => simp
    | some s => intro _ hc; exact (hsrc s hs).2 hc
  by_cases hi : r.state = I
  · have hve' := hve hi
    simp [hst, hsplit, hi, hne, hve']
    exact hsrc'
  · simp [hst, hsplit, hi]


/-! ### H. the record loop over a rendered file -/

theorem loop_nil (f : Nat) (acc : List (List Char × List Char)) : loop (f + 1) [] acc = some acc := by
  simp [loop, stanza, commit, headSpTab]

theorem loop_blank (f : Nat) (rest : List Line) (acc : List (List Char × List Char)) :
    loop (f + 1) ([] :: rest) acc = loop f rest acc := by
  simp [loop, stanza, commit, startsSpTab, headSpTab]

theorem loop_blanks (n : Nat) (ls : List Line) (acc : List (List Char × List Char)) :
    ∀ f, loop (f + n) (List.replicate n [] ++ ls) acc = loop f ls acc := by
  induction n with
  | zero => intro f; simp
  | succ n ih =>
    intro f
    have : f + (n + 1) = (f + n) + 1 := by omega
    rw [this, List.replicate_succ, List.cons_append, loop_blank, ih]

def emitted (r : GRec) : List (List Char × List Char) :=
  if r.state = "installed".toList then [(r.name, r.ver)] else []

theorem fields_ne_nil (r : GRec) (hw : WFrec r) : ∃ f fs, r.fields = f :: fs := by
  have hl := hw.1.length_eq
  cases hf : r.fields with
  | nil => rw [hf] at hl; simp [sigFields] at hl
  | cons f fs => exact ⟨f, fs, rfl⟩

theorem loop_record (r : GRec) (hw : WFrec r) (f : Nat) (acc : List (List Char × List Char))
    (rest : List Line) (hrest : rest = [] ∨ ∃ t, rest = [] :: t) :
    loop (f + 1) (recLines r ++ rest) acc
      = if rest.isEmpty then some (acc ++ emitted r) else loop f (rest.drop 1) (acc ++ emitted r) := by
  obtain ⟨f0, fs, hf⟩ := fields_ne_nil r hw
  have hwf := hw.2.1
  have hfirst : headSpTab (recLines r ++ rest) = false := by
    have h0 := (firstLine_props f0 (hwf f0 (by rw [hf]; simp))).1
    simp only [recLines, hf, List.flatMap_cons, fieldLines, List.cons_append, headSpTab]
    exact h0
  have hst := stanza_fields rest hrest r.fields hwf [] none [] rfl
  have hproc := process_wf r hw
  have hnonempty : (hdrFrom [] r.fields).isEmpty = false := by
    have := (sig_vals r hw).pkg
    cases hh : hdrFrom [] r.fields with
    | nil =>
      have hne : r.name ≠ [] := hw.2.2.2.2.2.2.1
      rw [hh] at this; simp [get] at this
      exact absurd (by first | exact this | exact this.symm) hne
    | cons a b => rfl
  conv => lhs; unfold loop
  rw [hfirst]
  simp only [Bool.false_eq_true, if_false]
  unfold recLines at hst ⊢
  rw [hst]
  simp only [hnonempty, Bool.false_eq_true, if_false, hproc, emitted]
  by_cases hi : r.state = "installed".toList
  · simp only [hi, if_true]
  · simp only [hi, if_false, List.append_nil]

theorem installed_cons (r : GRec) (rs : List GRec) : installed (r :: rs) = emitted r ++ installed rs := by
  unfold installed emitted
  generalize "installed".toList = I
  by_cases h : r.state = I
  · rw [List.filter_cons_of_pos (by simp [h]), if_pos h]; rfl
  · rw [List.filter_cons_of_neg (by simp [h]), if_neg h]; rfl

theorem loop_body (gap : Nat → Nat) (tail : Nat) :
    ∀ (rs : List GRec), WF rs → ∀ (lead i fuel : Nat) (acc : List (List Char × List Char)),
      (List.replicate lead ([] : Line) ++ bodyLines gap i rs ++ List.replicate tail []).length + 1 ≤ fuel →
      loop fuel (List.replicate lead [] ++ bodyLines gap i rs ++ List.replicate tail []) acc
        = some (acc ++ installed rs) := by
  intro rs
  induction rs with
  | nil =>
    intro _ lead i fuel acc hf
    simp only [bodyLines, List.append_nil, List.replicate_append_replicate, List.length_replicate] at hf ⊢
    obtain ⟨f, rfl⟩ : ∃ f, fuel = (f + 1) + (lead + tail) := ⟨fuel - (lead + tail) - 1, by omega⟩
    have := loop_blanks (lead + tail) [] acc (f + 1)
    simp only [List.append_nil] at this
    rw [this, loop_nil]; simp [installed]
  | cons r rest ih =>
    intro hwf lead i fuel acc hf
    have hw : WFrec r := hwf r (by simp)
    have hwr : WF rest := fun x hx => hwf x (by simp [hx])
    rw [installed_cons, ← List.append_assoc acc]
    cases rest with
    | nil =>
      simp only [bodyLines, List.length_append, List.length_replicate] at hf ⊢
      obtain ⟨f, rfl⟩ : ∃ f, fuel = (f + 1) + lead := ⟨fuel - lead - 1, by omega⟩
      rw [List.append_assoc, loop_blanks lead _ acc (f + 1)]
      have hrest : List.replicate tail ([] : Line) = [] ∨ ∃ t, List.replicate tail ([] : Line) = [] :: t := by
        cases tail with
        | zero => left; rfl
        | succ n => right; exact ⟨List.replicate n [], by simp [List.replicate_succ]⟩
      rw [loop_record r hw f acc _ hrest]
      cases tail with
      | zero => simp [installed]
      | succ n =>
        simp only [List.replicate_succ, List.isEmpty_cons, Bool.false_eq_true, if_false, List.drop_succ_cons, List.drop_zero]
        obtain ⟨f', rfl⟩ : ∃ f', f = (f' + 1) + n := ⟨f - n - 1, by omega⟩
        have := loop_blanks n [] (acc ++ emitted r) (f' + 1)
        simp only [List.append_nil] at this
        rw [this, loop_nil]; simp [installed]
    | cons r' rest' =>
      simp only [bodyLines] at hf ⊢
      obtain ⟨f, rfl⟩ : ∃ f, fuel = (f + 1) + lead := ⟨fuel - lead - 1, by
        simp only [List.length_append, List.length_replicate] at hf; omega⟩
      have e : List.replicate lead ([] : Line) ++ (recLines r ++ List.replicate (gap i + 1) [] ++ bodyLines gap (i + 1) (r' :: rest')) ++ List.replicate tail []
          = List.replicate lead [] ++ (recLines r ++ ([] :: (List.replicate (gap i) [] ++ bodyLines gap (i + 1) (r' :: rest') ++ List.replicate tail []))) := by
        simp [List.replicate_succ]
      rw [e, loop_blanks lead _ acc (f + 1), loop_record r hw f acc _ (Or.inr ⟨_, rfl⟩)]
      simp only [List.isEmpty_cons, Bool.false_eq_true, if_false, List.drop_succ_cons, List.drop_zero]
      apply ih hwr (gap i) (i + 1) f (acc ++ emitted r)
      rw [e] at hf
      simp only [List.length_append, List.length_replicate, List.length_cons] at hf ⊢
      omega

/-! ### clean lines -/

theorem all_ok (p : Char → Bool) (l : List Char) (h : l.all p = true) (hn : p '\n' = false) (hr : p '\r' = false) : okText l := by
  have h' : ∀ c ∈ l, p c = true := by simpa using h
  constructor
  · intro hm; have := h' _ hm; simp [hn] at this
  · intro hm; have := h' _ hm; simp [hr] at this

theorem fieldLines_clean (f : Field) (hw : WFfield f) : ∀ l ∈ fieldLines f, cleanLine l := by
  obtain ⟨_, hkb, hsep, _, _, _, _, hv, hcont, hlen⟩ := hw
  intro l hl
  simp only [fieldLines, List.mem_cons] at hl
  rcases hl with rfl | hl
  · have hk := all_ok fieldByte f.key hkb (by decide) (by decide)
    have hs := all_ok isSpTab f.sep hsep (by decide) (by decide)
    have := Gradle.okText_append _ _ hk (Gradle.okText_cons ':' _ (by decide) (Gradle.okText_append _ _ hs hv))
    exact ⟨this.1, this.2, hlen⟩
  · obtain ⟨_, _, ho, hl'⟩ := hcont l hl
    exact ⟨ho.1, ho.2, hl'⟩

theorem recLines_clean (r : GRec) (hw : WFrec r) : ∀ l ∈ recLines r, cleanLine l := by
  intro l hl
  simp only [recLines, List.mem_flatMap] at hl
  obtain ⟨f, hf, hlf⟩ := hl
  exact fieldLines_clean f (hw.2.1 f hf) l hlf

theorem fileLines_clean (ℓ : Layout) (rs : List GRec) (hwf : WF rs) : ∀ l ∈ fileLines ℓ rs, cleanLine l := by
  have hblank : cleanLine ([] : Line) := by unfold cleanLine maxTok; simp
  have hbody : ∀ (rs : List GRec), WF rs → ∀ i, ∀ l ∈ bodyLines ℓ.gap i rs, cleanLine l := by
    intro rs
    induction rs with
    | nil => intro _ i l hl; simp [bodyLines] at hl
    | cons r rest ih =>
      intro hwf i l hl
      have hw : WFrec r := hwf r (by simp)
      cases rest with
      | nil => exact recLines_clean r hw l (by simpa [bodyLines] using hl)
      | cons r' rest' =>
        simp only [bodyLines, List.mem_append] at hl
        rcases hl with (hl | hl) | hl
        · exact recLines_clean r hw l hl
        · rw [List.eq_of_mem_replicate hl]; exact hblank
        · exact ih (fun x hx => hwf x (by simp [hx])) (i + 1) l hl
  intro l hl
  simp only [fileLines, List.mem_append] at hl
  rcases hl with (hl | hl) | hl
  · rw [List.eq_of_mem_replicate hl]; exact hblank
  · exact hbody rs hwf 0 l hl
  · rw [List.eq_of_mem_replicate hl]; exact hblank

theorem recLines_getLast (r : GRec) (hw : WFrec r) : ∃ l, (recLines r).getLast? = some l ∧ l ≠ [] := by
  obtain ⟨f0, fs, hf⟩ := fields_ne_nil r hw
  have hne : recLines r ≠ [] := by simp [recLines, hf, fieldLines]
  refine ⟨(recLines r).getLast hne, List.getLast?_eq_some_getLast hne, ?_⟩
  have hm := List.getLast_mem hne
  generalize (recLines r).getLast hne = x at hm
  simp only [recLines, List.mem_flatMap, fieldLines, List.mem_cons] at hm
  obtain ⟨f, hfm, hx⟩ := hm
  have hwf := hw.2.1 f hfm
  rcases hx with rfl | hx
  · have := (firstLine_props f hwf).2.1
    intro e; rw [firstLine, e] at this; simp at this
  · have := (hwf.2.2.2.2.2.2.2.2.1 x hx).1
    intro e; rw [e] at this; simp [startsSpTab] at this

theorem bodyLines_getLast (gap : Nat → Nat) : ∀ (rs : List GRec), WF rs → rs ≠ [] → ∀ i,
    ∃ l, (bodyLines gap i rs).getLast? = some l ∧ l ≠ [] := by
  intro rs
  induction rs with
  | nil => intro _ h; exact absurd rfl h
  | cons r rest ih =>
    intro hwf _ i
    cases rest with
    | nil => simpa [bodyLines] using recLines_getLast r (hwf r (by simp))
    | cons r' rest' =>
      obtain ⟨l, hl, hne⟩ := ih (fun x hx => hwf x (by simp [hx])) (by simp) (i + 1)
      refine ⟨l, ?_, hne⟩
      simp only [bodyLines]
      rw [List.getLast?_append, hl]; simp

theorem fileLines_endsOK (ℓ : Layout) (rs : List GRec) (hwf : WF rs) (h : LayoutOK ℓ rs) : endsOK (fileLines ℓ rs) ℓ.eols.final := by
  intro hf
  obtain ⟨ht, hne⟩ := h hf
  obtain ⟨l, hl, hlne⟩ := bodyLines_getLast ℓ.gap rs hwf hne 0
  simp only [fileLines, ht, List.replicate_zero, List.append_nil]
  rw [List.getLast?_append, hl]
  simpa using hlne

end Scalibr.Parsers.Dpkg
