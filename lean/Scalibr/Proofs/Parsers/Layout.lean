/-
Byte-to-line lemma: scanning the bytes of `unlines` gives back the lines, for every mix of LF/CRLF and with
or without a final newline.
-/
import Scalibr.Spec.Parsers.Layout
namespace Scalibr.Parsers

theorem chunks_line (l s : List Char) (h : '\n' ∉ l) :
    ∀ cur, chunks (l ++ '\n' :: s) cur = (cur.reverse ++ l) :: chunks s [] := by
  induction l with
  | nil => intro cur; simp [chunks]
  | cons c l ih =>
    intro cur
    have hc : c ≠ '\n' := by intro e; subst e; simp at h
    have hl : '\n' ∉ l := by intro e; exact h (by simp [e])
    simp only [List.cons_append, chunks, hc, if_false]
    rw [ih hl]; simp

theorem chunks_last (l : List Char) (h : '\n' ∉ l) :
    ∀ cur, chunks l cur = if (cur.reverse ++ l).isEmpty then [] else [cur.reverse ++ l] := by
  induction l with
  | nil => intro cur; simp [chunks]
  | cons c l ih =>
    intro cur
    have hc : c ≠ '\n' := by intro e; subst e; simp at h
    have hl : '\n' ∉ l := by intro e; exact h (by simp [e])
    simp only [chunks, hc, if_false]
    rw [ih hl]; simp

/-- the raw chunks of a rendered file: the lines, with a CR on those written CRLF -/
def rawLines : List Line → List Bool → Bool → List (List Char)
  | [], _, _ => []
  | [l], cr, fin => [l ++ (if fin && cr.headD false then ['\r'] else [])]
  | l :: l' :: ls, cr, fin => (l ++ (if cr.headD false then ['\r'] else [])) :: rawLines (l' :: ls) cr.tail fin

theorem chunks_unlines (ls : List Line) (hc : ∀ l ∈ ls, '\n' ∉ l ∧ '\r' ∉ l) :
    ∀ (cr : List Bool) (fin : Bool), endsOK ls fin → chunks (unlines ls cr fin) [] = rawLines ls cr fin := by
  induction ls with
  | nil => intro cr fin _; simp [unlines, chunks, rawLines]
  | cons l ls ih =>
    intro cr fin he
    have hl := hc l (by simp)
    cases ls with
    | nil =>
      cases fin with
      | false =>
        have hne : l ≠ [] := by
          intro e; apply he rfl; simp [e]
        simp only [unlines, rawLines, Bool.false_and, Bool.false_eq_true, if_false, List.append_nil]
        rw [chunks_last l hl.1]
        simp [hne]
      | true =>
        simp only [unlines, rawLines, Bool.true_and, if_true]
        cases hcr : cr.headD false with
        | false =>
          simp only [eol, Bool.false_eq_true, if_false, List.append_nil]
          rw [chunks_line l [] hl.1]; simp [chunks]
        | true =>
          simp only [eol, if_true]
          have : l ++ ['\r', '\n'] = (l ++ ['\r']) ++ '\n' :: [] := by simp
          rw [this, chunks_line (l ++ ['\r']) [] (by simp [hl.1])]; simp [chunks]
    | cons l' ls' =>
      have he' : endsOK (l' :: ls') fin := by
        intro hf; have := he hf; simpa [List.getLast?_cons_cons] using this
      have ih' := ih (fun x hx => hc x (by simp [hx])) cr.tail fin he'
      simp only [unlines, rawLines]
      cases hcr : cr.headD false with
      | false =>
        simp only [eol, Bool.false_eq_true, if_false, List.append_nil]
        rw [List.append_assoc]
        simp only [List.singleton_append]
        rw [chunks_line l _ hl.1, ih']; simp
      | true =>
        simp only [eol, if_true]
        have : l ++ ['\r', '\n'] ++ unlines (l' :: ls') cr.tail fin
             = (l ++ ['\r']) ++ '\n' :: unlines (l' :: ls') cr.tail fin := by simp
        rw [this, chunks_line (l ++ ['\r']) _ (by simp [hl.1]), ih']; simp

theorem dropCR_noCR (l : List Char) (h : '\r' ∉ l) : dropCR l = l := by
  unfold dropCR
  split
  · rename_i hlast
    exfalso; apply h
    exact List.mem_of_getLast? hlast
  · rfl

theorem dropCR_append_CR (l : List Char) : dropCR (l ++ ['\r']) = l := by
  simp [dropCR]

theorem rawLines_dropCR (ls : List Line) (hc : ∀ l ∈ ls, '\r' ∉ l) :
    ∀ (cr : List Bool) (fin : Bool), (rawLines ls cr fin).map dropCR = ls := by
  induction ls with
  | nil => intro cr fin; simp [rawLines]
  | cons l ls ih =>
    intro cr fin
    have hl := hc l (by simp)
    cases ls with
    | nil =>
      simp only [rawLines, List.map_cons, List.map_nil]
      split
      · rw [dropCR_append_CR]
      · simp [dropCR_noCR l hl]
    | cons l' ls' =>
      simp only [rawLines, List.map_cons]
      have ih' := ih (fun x hx => hc x (by simp [hx])) cr.tail fin
      rw [ih']
      split
      · rw [dropCR_append_CR]
      · simp [dropCR_noCR l hl]

theorem rawLines_short (ls : List Line) (hc : ∀ l ∈ ls, l.length + 1 < maxTok) :
    ∀ (cr : List Bool) (fin : Bool), ∀ c ∈ rawLines ls cr fin, c.length < maxTok := by
  induction ls with
  | nil => intro cr fin c h; simp [rawLines] at h
  | cons l ls ih =>
    intro cr fin c h
    have hl := hc l (by simp)
    cases ls with
    | nil =>
      simp only [rawLines, List.mem_singleton] at h
      subst h
      split <;> simp <;> omega
    | cons l' ls' =>
      simp only [rawLines, List.mem_cons] at h
      rcases h with h | h
      · subst h; split <;> simp <;> omega
      · exact ih (fun x hx => hc x (by simp [hx])) cr.tail fin c (by simpa [rawLines] using h)

theorem takeWhile_all {α} (p : α → Bool) (l : List α) (h : ∀ x ∈ l, p x = true) : l.takeWhile p = l := by
  induction l with
  | nil => rfl
  | cons x xs ih =>
    rw [List.takeWhile_cons, h x (by simp)]
    simp only [if_true]
    rw [ih (fun y hy => h y (by simp [hy]))]

/-- **byte-to-line lemma**: the scanner returns exactly the rendered lines and no error -/
theorem scan_unlines (ls : List Line) (cr : List Bool) (fin : Bool)
    (hc : ∀ l ∈ ls, cleanLine l) (he : endsOK ls fin) :
    scan (unlines ls cr fin) = (ls, false) := by
  unfold scan
  rw [chunks_unlines ls (fun l hl => ⟨(hc l hl).1, (hc l hl).2.1⟩) cr fin he]
  have hall : ∀ c ∈ rawLines ls cr fin, (decide (c.length < maxTok)) = true := by
    intro c h; simpa using rawLines_short ls (fun l hl => (hc l hl).2.2) cr fin c h
  have htw : (rawLines ls cr fin).takeWhile (fun c => decide (c.length < maxTok)) = rawLines ls cr fin :=
    takeWhile_all _ _ hall
  simp only [htw, rawLines_dropCR ls (fun l hl => (hc l hl).2.1) cr fin]
  simp

end Scalibr.Parsers
