/-
Helper lemmas for C03_apk: `strings.Cut` on a rendered field, the Go-map semantics of `put`/`get`,
one record's lines → one record, blank-line skipping, and the record loop over a whole rendered file.
-/
import Scalibr.Spec.Parsers.Apk
import Scalibr.Proofs.Parsers.Layout
namespace Scalibr.Parsers

theorem cutAt_key (c : Char) (k v : List Char) (hk : c ∉ k) : cutAt c (k ++ c :: v) = some (k, v) := by
  unfold cutAt
  have hall : ∀ x ∈ k, (decide (x ≠ c)) = true := by
    intro x hx; simp; intro e; subst e; exact hk hx
  have htw : (k ++ c :: v).takeWhile (· ≠ c) = k := by
    rw [List.takeWhile_append_of_pos hall]
    simp
  simp only [htw]
  simp

namespace Apk

/-- the Go map after reading the lines of `kvs` in order, starting from `g` -/
def mapOf (kvs : List (List Char × List Char)) (g : Rec) : Rec := kvs.foldl (fun g kv => put g kv.1 kv.2) g

theorem mapOf_append (a b : List (List Char × List Char)) (g : Rec) : mapOf (a ++ b) g = mapOf b (mapOf a g) := by
  simp [mapOf, List.foldl_append]

theorem put_ne_nil (g : Rec) (k v : List Char) : put g k v ≠ [] := by unfold put; simp

theorem mapOf_ne_nil (kvs : List (List Char × List Char)) : ∀ g : Rec, (kvs ≠ [] ∨ g ≠ []) → mapOf kvs g ≠ [] := by
  induction kvs with
  | nil => intro g h; rcases h with h | h; exact absurd rfl h; simpa [mapOf] using h
  | cons kv rest ih =>
    intro g _
    simp only [mapOf, List.foldl_cons]
    exact ih (put g kv.1 kv.2) (Or.inr (put_ne_nil _ _ _))

/-- a run of rendered fields followed by a blank line is one record -/
theorem parseRecord_blank (tl : Bool) (kvs : List (List Char × List Char)) (hk : ∀ kv ∈ kvs, ':' ∉ kv.1)
    (tail : List Line) : ∀ g : Rec, (kvs ≠ [] ∨ g ≠ []) →
      parseRecord tl (kvs.map fieldLine ++ [] :: tail) g = some (mapOf kvs g, tail) := by
  induction kvs with
  | nil =>
    intro g hg
    have : g ≠ [] := by rcases hg with h | h; exact absurd rfl h; exact h
    simp [parseRecord, mapOf, this]
  | cons kv rest ih =>
    intro g _
    have hcut := cutAt_key ':' kv.1 kv.2 (hk kv (by simp))
    have hne : (fieldLine kv).isEmpty = false := by simp [fieldLine]
    simp only [List.map_cons, List.cons_append, parseRecord, hne, Bool.not_false, if_true]
    simp only [fieldLine] at hcut ⊢
    rw [hcut]
    have := ih (fun x hx => hk x (by simp [hx])) (put g kv.1 kv.2) (Or.inr (put_ne_nil _ _ _))
    simpa [mapOf, fieldLine] using this

/-- a run of rendered fields at the very end of the input is one record (the EOF branch) -/
theorem parseRecord_eof (kvs : List (List Char × List Char)) (hk : ∀ kv ∈ kvs, ':' ∉ kv.1) :
    ∀ g : Rec, parseRecord false (kvs.map fieldLine) g = some (mapOf kvs g, []) := by
  induction kvs with
  | nil => intro g; simp [parseRecord, mapOf]
  | cons kv rest ih =>
    intro g
    have hcut := cutAt_key ':' kv.1 kv.2 (hk kv (by simp))
    have hne : (fieldLine kv).isEmpty = false := by simp [fieldLine]
    simp only [List.map_cons, parseRecord, hne, Bool.not_false, if_true]
    simp only [fieldLine] at hcut ⊢
    rw [hcut]
    have := ih (fun x hx => hk x (by simp [hx])) (put g kv.1 kv.2)
    simpa [mapOf, fieldLine] using this

/-- blank lines before a record are skipped -/
theorem parseRecord_skip_blanks (tl : Bool) (n : Nat) (ls : List Line) :
    parseRecord tl (List.replicate n [] ++ ls) [] = parseRecord tl ls [] := by
  induction n with
  | zero => simp
  | succ n ih => simp [List.replicate_succ, parseRecord, ih]

theorem find?_filter_imp {α} (p q : α → Bool) (h : ∀ x, p x = true → q x = true) :
    ∀ l : List α, (l.filter q).find? p = l.find? p := by
  intro l
  induction l with
  | nil => rfl
  | cons x xs ih =>
    by_cases hq : q x = true
    · rw [List.filter_cons_of_pos hq]
      by_cases hp : p x = true
      · rw [List.find?_cons_of_pos hp, List.find?_cons_of_pos hp]
      · rw [List.find?_cons_of_neg hp, List.find?_cons_of_neg hp, ih]
    · rw [List.filter_cons_of_neg hq]
      have hp : ¬ p x = true := fun hp => hq (h x hp)
      rw [List.find?_cons_of_neg hp, ih]

/-- Go-map semantics of `put` / `get` -/
theorem get_put (g : Rec) (k v k' : List Char) : get (put g k v) k' = if k' = k then v else get g k' := by
  unfold get put
  rw [List.find?_append]
  by_cases h : k' = k
  · subst h
    have hnone : (g.filter (fun x => decide (x.1 ≠ k'))).find? (fun x => decide (x.1 = k')) = none := by
      rw [List.find?_eq_none]
      intro x hx
      have := (List.mem_filter.mp hx).2
      simpa using this
    rw [hnone]
    simp
  · have hne : ¬ k = k' := fun e => h e.symm
    have hfi := find?_filter_imp (fun x : List Char × List Char => decide (x.1 = k')) (fun x => decide (x.1 ≠ k))
      (by intro x hx; simp at hx ⊢; rw [hx]; exact h) g
    rw [hfi]
    simp only [h, if_false]
    cases hf : g.find? (fun x => decide (x.1 = k')) with
    | some y => simp
    | none => simp [hne]

theorem get_mapOf_notin (kvs : List (List Char × List Char)) (k : List Char) (h : ∀ kv ∈ kvs, kv.1 ≠ k) :
    ∀ g, get (mapOf kvs g) k = get g k := by
  induction kvs with
  | nil => intro g; rfl
  | cons kv rest ih =>
    intro g
    simp only [mapOf, List.foldl_cons]
    have := ih (fun x hx => h x (by simp [hx])) (put g kv.1 kv.2)
    simp only [mapOf] at this
    rw [this, get_put]
    have : ¬ k = kv.1 := fun e => h kv (by simp) e.symm
    simp [this]

/-- the value of a key written exactly once after position `a` -/
theorem get_mapOf_last (a b : List (List Char × List Char)) (k v : List Char) (hb : ∀ kv ∈ b, kv.1 ≠ k) (g : Rec) :
    get (mapOf (a ++ (k, v) :: b) g) k = v := by
  rw [mapOf_append]
  show get (mapOf b (put (mapOf a g) k v)) k = v
  rw [get_mapOf_notin b k hb, get_put]; simp

theorem extraKeys (r : GRec) (h : WFrec r) :
    (∀ kv ∈ r.pre, extraOK kv) ∧ (∀ kv ∈ r.mid, extraOK kv) ∧ (∀ kv ∈ r.post, extraOK kv) := by
  have hx := h.2.2.2.2.1
  exact ⟨fun kv hk => hx kv (by simp [hk]), fun kv hk => hx kv (by simp [hk]), fun kv hk => hx kv (by simp [hk])⟩

/-- the record read back from a rendered stanza has the generator's name and version -/
theorem name_ver_of_record (r : GRec) (h : WFrec r) (g : Rec) :
    get (mapOf (fields r) g) ['P'] = r.name ∧ get (mapOf (fields r) g) ['V'] = r.ver := by
  obtain ⟨hpre, hmid, hpost⟩ := extraKeys r h
  have nP : ∀ l : List (List Char × List Char), (∀ kv ∈ l, extraOK kv) → ∀ kv ∈ l, kv.1 ≠ ['P'] :=
    fun l hl kv hk => (hl kv hk).2.2.2.1
  have nV : ∀ l : List (List Char × List Char), (∀ kv ∈ l, extraOK kv) → ∀ kv ∈ l, kv.1 ≠ ['V'] :=
    fun l hl kv hk => (hl kv hk).2.2.2.2
  have hPV : (['P'] : List Char) ≠ ['V'] := by decide
  have hVP : (['V'] : List Char) ≠ ['P'] := by decide
  unfold fields
  cases hvf : r.vFirst with
  | false =>
    simp only [Bool.false_eq_true, if_false]
    constructor
    · have e : r.pre ++ [(['P'], r.name)] ++ r.mid ++ [(['V'], r.ver)] ++ r.post
          = r.pre ++ (['P'], r.name) :: (r.mid ++ [(['V'], r.ver)] ++ r.post) := by simp
      rw [e]
      apply get_mapOf_last
      intro kv hk
      simp only [List.mem_append, List.mem_singleton] at hk
      rcases hk with (hk | hk) | hk
      · exact nP _ hmid kv hk
      · subst hk; exact hVP
      · exact nP _ hpost kv hk
    · have e : r.pre ++ [(['P'], r.name)] ++ r.mid ++ [(['V'], r.ver)] ++ r.post
          = (r.pre ++ [(['P'], r.name)] ++ r.mid) ++ (['V'], r.ver) :: r.post := by simp
      rw [e]
      exact get_mapOf_last _ _ _ _ (nV _ hpost) g
  | true =>
    simp only [if_true]
    constructor
    · have e : r.pre ++ [(['V'], r.ver)] ++ r.mid ++ [(['P'], r.name)] ++ r.post
          = (r.pre ++ [(['V'], r.ver)] ++ r.mid) ++ (['P'], r.name) :: r.post := by simp
      rw [e]
      exact get_mapOf_last _ _ _ _ (nP _ hpost) g
    · have e : r.pre ++ [(['V'], r.ver)] ++ r.mid ++ [(['P'], r.name)] ++ r.post
          = r.pre ++ (['V'], r.ver) :: (r.mid ++ [(['P'], r.name)] ++ r.post) := by simp
      rw [e]
      apply get_mapOf_last
      intro kv hk
      simp only [List.mem_append, List.mem_singleton] at hk
      rcases hk with (hk | hk) | hk
      · exact nV _ hmid kv hk
      · subst hk; exact hPV
      · exact nV _ hpost kv hk

theorem fields_ne_nil (r : GRec) : fields r ≠ [] := by unfold fields; simp

theorem fields_keys (r : GRec) (h : WFrec r) : ∀ kv ∈ fields r, ':' ∉ kv.1 := by
  obtain ⟨hpre, hmid, hpost⟩ := extraKeys r h
  intro kv hk
  unfold fields at hk
  simp only [List.mem_append, List.mem_singleton] at hk
  rcases hk with (((hk | hk) | hk) | hk) | hk
  · exact (hpre kv hk).2.2.1
  · subst hk; split <;> simp
  · exact (hmid kv hk).2.2.1
  · subst hk; split <;> simp
  · exact (hpost kv hk).2.2.1

theorem extract_blanks (tl : Bool) (n f : Nat) (acc : List (List Char × List Char)) (htl : tl = false) :
    extract tl (f + 1) (List.replicate n []) acc = some acc := by
  subst htl
  have : parseRecord false (List.replicate n []) [] = some ([], []) := by
    have := parseRecord_skip_blanks false n []
    simp only [List.append_nil] at this
    rw [this]; simp [parseRecord]
  simp [extract, this]

theorem extract_skip_blanks (tl : Bool) (n : Nat) (ls : List Line) (fuel : Nat) (acc) :
    extract tl fuel (List.replicate n [] ++ ls) acc = extract tl fuel ls acc := by
  cases fuel with
  | zero => rfl
  | succ f => simp only [extract, parseRecord_skip_blanks]

/-- one loop iteration on a rendered record followed by `k` blank lines and then anything: the record is
emitted and the loop continues after the first blank line (or at the end of input when `k = 0` and nothing follows) -/
theorem extract_record (r : GRec) (h : WFrec r) (f : Nat) (acc : List (List Char × List Char))
    (rest : List Line) (hrest : rest = [] ∨ ∃ t, rest = [] :: t) :
    extract false (f + 1) (recLines r ++ rest) acc
      = extract false f (rest.drop 1) (acc ++ [(r.name, r.ver)]) := by
  have hk := fields_keys r h
  have ⟨hP, hV⟩ := name_ver_of_record r h []
  have hn : r.name.isEmpty = false := by have := h.1; cases hr : r.name <;> simp_all
  have hv : r.ver.isEmpty = false := by have := h.2.1; cases hr : r.ver <;> simp_all
  have hmne : (mapOf (fields r) []).isEmpty = false := by
    have := mapOf_ne_nil (fields r) [] (Or.inl (fields_ne_nil r))
    cases hm : mapOf (fields r) [] <;> simp_all
  rcases hrest with hr | ⟨t, hr⟩
  · subst hr
    have hpr := parseRecord_eof (fields r) hk []
    simp only [List.append_nil, recLines, extract, hpr, hmne, hP, hV, hn, hv, Bool.false_or,
      Bool.false_eq_true, if_false, List.drop_nil]
  · subst hr
    have hpr := parseRecord_blank false (fields r) hk t [] (Or.inl (fields_ne_nil r))
    simp only [recLines, extract, hpr, hmne, hP, hV, hn, hv, Bool.false_or, Bool.false_eq_true,
      if_false, List.drop_succ_cons, List.drop_zero]

/-- **line level**: the record loop over any rendered body returns exactly the listed packages, in order -/
theorem extract_body (gap : Nat → Nat) (tail : Nat) :
    ∀ (rs : List GRec), WF rs → ∀ (lead i fuel : Nat) (acc : List (List Char × List Char)),
      rs.length + 2 ≤ fuel →
      extract false fuel (List.replicate lead [] ++ bodyLines gap i rs ++ List.replicate tail []) acc
        = some (acc ++ installed rs) := by
  intro rs
  induction rs with
  | nil =>
    intro _ lead i fuel acc hf
    obtain ⟨f, rfl⟩ : ∃ f, fuel = f + 1 := ⟨fuel - 1, by omega⟩
    simp only [bodyLines, List.append_nil, installed, List.map_nil]
    rw [List.replicate_append_replicate]
    exact extract_blanks false _ f acc rfl
  | cons r rest ih =>
    intro hwf lead i fuel acc hf
    have hw : WFrec r := hwf r (by simp)
    have hwr : WF rest := fun x hx => hwf x (by simp [hx])
    obtain ⟨f, rfl⟩ : ∃ f, fuel = f + 1 := ⟨fuel - 1, by simp at hf; omega⟩
    rw [List.append_assoc, extract_skip_blanks]
    cases rest with
    | nil =>
      simp only [bodyLines]
      have hrest : List.replicate tail ([] : Line) = [] ∨ ∃ t, List.replicate tail ([] : Line) = [] :: t := by
        cases tail with
        | zero => left; rfl
        | succ n => right; exact ⟨List.replicate n [], by simp [List.replicate_succ]⟩
      rw [extract_record r hw f acc _ hrest]
      obtain ⟨f', rfl⟩ : ∃ f', f = f' + 1 := ⟨f - 1, by simp at hf; omega⟩
      have : (List.replicate tail ([] : Line)).drop 1 = List.replicate (tail - 1) [] := by
        cases tail <;> simp [List.replicate_succ]
      rw [this, extract_blanks false _ f' _ rfl]
      simp [installed]
    | cons r' rest' =>
      simp only [bodyLines]
      have e : recLines r ++ List.replicate (gap i + 1) [] ++ bodyLines gap (i + 1) (r' :: rest') ++ List.replicate tail []
          = recLines r ++ ([] :: (List.replicate (gap i) [] ++ bodyLines gap (i + 1) (r' :: rest') ++ List.replicate tail [])) := by
        simp [List.replicate_succ]
      rw [e, extract_record r hw f acc _ (Or.inr ⟨_, rfl⟩)]
      simp only [List.drop_succ_cons, List.drop_zero]
      have := ih hwr (gap i) (i + 1) f (acc ++ [(r.name, r.ver)]) (by simp at hf ⊢; omega)
      rw [this]
      simp [installed]

theorem bodyLines_length (gap : Nat → Nat) : ∀ (rs : List GRec) (i : Nat), rs.length ≤ (bodyLines gap i rs).length := by
  intro rs
  induction rs with
  | nil => intro i; simp [bodyLines]
  | cons r rest ih =>
    intro i
    cases rest with
    | nil =>
      have : 0 < (recLines r).length := by
        have := fields_ne_nil r
        unfold recLines; cases h : fields r <;> simp_all
      simp only [bodyLines, List.length_cons, List.length_nil]; omega
    | cons r' rest' =>
      have := ih (i + 1)
      simp only [bodyLines, List.length_append, List.length_cons, List.length_replicate] at this ⊢
      omega

/-- every line of a rendered file is one the scanner returns unchanged -/
theorem fileLines_clean (ℓ : Layout) (rs : List GRec) (hwf : WF rs) : ∀ l ∈ fileLines ℓ rs, cleanLine l := by
  have hblank : cleanLine ([] : Line) := by unfold cleanLine maxTok; simp
  have hrec : ∀ r, WFrec r → ∀ l ∈ recLines r, cleanLine l := by
    intro r hw l hl
    obtain ⟨hpre, hmid, hpost⟩ := extraKeys r hw
    simp only [recLines, List.mem_map] at hl
    obtain ⟨kv, hkv, rfl⟩ := hl
    have hlen := hw.2.2.2.2.2 kv hkv
    have hx : okText kv.1 ∧ okText kv.2 := by
      unfold fields at hkv
      simp only [List.mem_append, List.mem_singleton] at hkv
      have hP : okText ['P'] := by unfold okText; decide
      have hV : okText ['V'] := by unfold okText; decide
      rcases hkv with (((hk | hk) | hk) | hk) | hk
      · exact ⟨(hpre kv hk).1, (hpre kv hk).2.1⟩
      · subst hk; split
        · exact ⟨hV, hw.2.2.2.1⟩
        · exact ⟨hP, hw.2.2.1⟩
      · exact ⟨(hmid kv hk).1, (hmid kv hk).2.1⟩
      · subst hk; split
        · exact ⟨hP, hw.2.2.1⟩
        · exact ⟨hV, hw.2.2.2.1⟩
      · exact ⟨(hpost kv hk).1, (hpost kv hk).2.1⟩
    refine ⟨?_, ?_, hlen⟩
    · simp only [fieldLine, List.mem_append, List.mem_cons]
      rintro (h | h | h)
      · exact hx.1.1 h
      · exact absurd h (by decide)
      · exact hx.2.1 h
    · simp only [fieldLine, List.mem_append, List.mem_cons]
      rintro (h | h | h)
      · exact hx.1.2 h
      · exact absurd h (by decide)
      · exact hx.2.2 h
  have hbody : ∀ (rs : List GRec), WF rs → ∀ i, ∀ l ∈ bodyLines ℓ.gap i rs, cleanLine l := by
    intro rs
    induction rs with
    | nil => intro _ i l hl; simp [bodyLines] at hl
    | cons r rest ih =>
      intro hwf i l hl
      have hw : WFrec r := hwf r (by simp)
      cases rest with
      | nil => exact hrec r hw l (by simpa [bodyLines] using hl)
      | cons r' rest' =>
        simp only [bodyLines, List.mem_append] at hl
        rcases hl with (hl | hl) | hl
        · exact hrec r hw l hl
        · rw [List.eq_of_mem_replicate hl]; exact hblank
        · exact ih (fun x hx => hwf x (by simp [hx])) (i + 1) l hl
  intro l hl
  simp only [fileLines, List.mem_append] at hl
  rcases hl with (hl | hl) | hl
  · rw [List.eq_of_mem_replicate hl]; exact hblank
  · exact hbody rs hwf 0 l hl
  · rw [List.eq_of_mem_replicate hl]; exact hblank

theorem recLines_getLast (r : GRec) : ∃ l, (recLines r).getLast? = some l ∧ l ≠ [] := by
  have hne : recLines r ≠ [] := by
    have := fields_ne_nil r
    unfold recLines; cases h : fields r <;> simp_all
  refine ⟨(recLines r).getLast hne, List.getLast?_eq_some_getLast hne, ?_⟩
  have hm := List.getLast_mem hne
  generalize (recLines r).getLast hne = x at hm
  simp only [recLines, List.mem_map] at hm
  obtain ⟨kv, _, hkv⟩ := hm
  rw [← hkv]; simp [fieldLine]

theorem bodyLines_getLast (gap : Nat → Nat) : ∀ (rs : List GRec), rs ≠ [] → ∀ i,
    ∃ l, (bodyLines gap i rs).getLast? = some l ∧ l ≠ [] := by
  intro rs
  induction rs with
  | nil => intro h; exact absurd rfl h
  | cons r rest ih =>
    intro _ i
    cases rest with
    | nil => simpa [bodyLines] using recLines_getLast r
    | cons r' rest' =>
      obtain ⟨l, hl, hne⟩ := ih (by simp) (i + 1)
      refine ⟨l, ?_, hne⟩
      simp only [bodyLines]
      rw [List.getLast?_append, hl]; simp

theorem fileLines_endsOK (ℓ : Layout) (rs : List GRec) (h : LayoutOK ℓ rs) : endsOK (fileLines ℓ rs) ℓ.eols.final := by
  intro hf
  obtain ⟨ht, hne⟩ := h hf
  obtain ⟨l, hl, hlne⟩ := bodyLines_getLast ℓ.gap rs hne 0
  simp only [fileLines, ht, List.replicate_zero, List.append_nil]
  rw [List.getLast?_append, hl]
  simpa using hlne

end Apk
end Scalibr.Parsers
