/-
Fuel adequacy on ARBITRARY input: the record loops of the apk, dpkg and requirements models take an iteration
bound (`lines + 2`, resp. `lines + 1`); here it is shown that the bound is never what ends the loop — every
iteration consumes at least one line or stops — so the result is the same for every larger bound. This is the
"terminates within a number of steps linear in the input" theorem for the modelled parsers.
-/
import Scalibr.Model.Parsers.Apk
import Scalibr.Model.Parsers.Dpkg
import Scalibr.Model.Parsers.Requirements
namespace Scalibr.Parsers

namespace Apk

theorem parseRecord_consumes (tl : Bool) : ∀ (ls : List Line) (g r : Rec) (rest : List Line),
    parseRecord tl ls g = some (r, rest) → (ls = [] ∧ r = g) ∨ rest.length < ls.length := by
  intro ls
  induction ls with
  | nil =>
    intro g r rest h
    simp only [parseRecord] at h
    split at h
    · cases h
    · simp at h; exact Or.inl ⟨rfl, h.1.symm⟩
  | cons l rest0 ih =>
    intro g r rest h
    right
    simp only [parseRecord] at h
    split at h
    · split at h
      · cases h
      · rcases ih _ _ _ h with ⟨e, _⟩ | hlt
        · subst e; simp only [parseRecord] at h; split at h <;> simp at h; simp [h.2]
        · simp only [List.length_cons]; omega
    · split at h
      · simp at h; simp [← h.2]
      · rcases ih _ _ _ h with ⟨e, _⟩ | hlt
        · subst e; simp only [parseRecord] at h; split at h <;> simp at h; simp [h.2]
        · simp only [List.length_cons]; omega

/-- the iteration bound never ends the apk record loop: any two bounds above `lines` give the same result -/
theorem extract_fuel (tl : Bool) : ∀ (n : Nat) (ls : List Line) (acc : List (List Char × List Char)) (f1 f2 : Nat),
    ls.length ≤ n → n + 1 ≤ f1 → n + 1 ≤ f2 → extract tl f1 ls acc = extract tl f2 ls acc := by
  intro n
  induction n with
  | zero =>
    intro ls acc f1 f2 hl h1 h2
    have : ls = [] := by cases ls with | nil => rfl | cons a b => simp at hl
    subst this
    obtain ⟨a, rfl⟩ : ∃ a, f1 = a + 1 := ⟨f1 - 1, by omega⟩
    obtain ⟨b, rfl⟩ : ∃ b, f2 = b + 1 := ⟨f2 - 1, by omega⟩
    simp only [extract, parseRecord]
    cases tl <;> simp
  | succ n ih =>
    intro ls acc f1 f2 hl h1 h2
    obtain ⟨a, rfl⟩ : ∃ a, f1 = a + 1 := ⟨f1 - 1, by omega⟩
    obtain ⟨b, rfl⟩ : ∃ b, f2 = b + 1 := ⟨f2 - 1, by omega⟩
    simp only [extract]
    cases hp : parseRecord tl ls [] with
    | none => rfl
    | some rr =>
      obtain ⟨r, rest⟩ := rr
      simp only []
      by_cases hr : r.isEmpty = true
      · simp [hr]
      · simp only [hr, Bool.false_eq_true, if_false]
        rcases parseRecord_consumes tl ls [] r rest hp with ⟨_, e⟩ | hlt
        · subst e; simp at hr
        · exact ih rest _ a b (by omega) (by omega) (by omega)

end Apk

namespace Dpkg

theorem stanza_consumes : ∀ (ls : List Line) (h : Hdr) (pend : Option (List Char)) (h' : Hdr) (eof : Bool) (rest : List Line),
    stanza ls h pend = some (h', eof, rest) → (ls = [] ∧ eof = true) ∨ rest.length < ls.length := by
  intro ls
  induction ls with
  | nil =>
    intro h pend h' eof rest hs
    simp only [stanza] at hs
    split at hs
    · cases hs
    · simp at hs; exact Or.inl ⟨rfl, hs.2.1⟩
  | cons l rest0 ih =>
    intro h pend h' eof rest hs
    right
    simp only [stanza] at hs
    split at hs
    · rcases ih _ _ _ _ _ hs with ⟨e, _⟩ | hlt
      · subst e; simp only [stanza] at hs; split at hs <;> simp at hs; simp [← hs.2.2]
      · simp only [List.length_cons]; omega
    · split at hs
      · cases hs
      · split at hs
        · simp at hs; simp [← hs.2.2]
        · split at hs
          · cases hs
          · rcases ih _ _ _ _ _ hs with ⟨e, _⟩ | hlt
            · subst e; simp only [stanza] at hs; split at hs <;> simp at hs; simp [← hs.2.2]
            · simp only [List.length_cons]; omega

/-- the iteration bound never ends the dpkg record loop -/
theorem loop_fuel : ∀ (n : Nat) (ls : List Line) (acc : List (List Char × List Char)) (f1 f2 : Nat),
    ls.length ≤ n → n + 1 ≤ f1 → n + 1 ≤ f2 → loop f1 ls acc = loop f2 ls acc := by
  intro n
  induction n with
  | zero =>
    intro ls acc f1 f2 hl h1 h2
    have : ls = [] := by cases ls with | nil => rfl | cons a b => simp at hl
    subst this
    obtain ⟨a, rfl⟩ : ∃ a, f1 = a + 1 := ⟨f1 - 1, by omega⟩
    obtain ⟨b, rfl⟩ : ∃ b, f2 = b + 1 := ⟨f2 - 1, by omega⟩
    simp [loop, stanza, commit, headSpTab]
  | succ n ih =>
    intro ls acc f1 f2 hl h1 h2
    obtain ⟨a, rfl⟩ : ∃ a, f1 = a + 1 := ⟨f1 - 1, by omega⟩
    obtain ⟨b, rfl⟩ : ∃ b, f2 = b + 1 := ⟨f2 - 1, by omega⟩
    simp only [loop]
    split
    · rfl
    · cases hs : stanza ls [] none with
      | none => rfl
      | some x =>
        obtain ⟨h', eof, rest⟩ := x
        simp only []
        have hrec : ∀ acc', eof = false → loop a rest acc' = loop b rest acc' := by
          intro acc' he
          rcases stanza_consumes ls [] none h' eof rest hs with ⟨_, e⟩ | hlt
          · rw [he] at e; cases e
          · exact ih rest acc' a b (by omega) (by omega) (by omega)
        cases eof with
        | true => simp
        | false =>
          simp only [Bool.false_eq_true, if_false]
          split
          · exact hrec _ rfl
          · split
            · rfl
            · exact hrec _ rfl
            · exact hrec _ rfl

end Dpkg

namespace Requirements

theorem readLogical_consumes : ∀ (ls : List Line) (b x : List Char) (rest : List Line),
    readLogical ls b = (x, rest) → rest.length ≤ ls.length := by
  intro ls
  induction ls with
  | nil => intro b x rest h; simp [readLogical] at h; simp [← h.2]
  | cons l rest0 ih =>
    intro b x rest h
    simp only [readLogical] at h
    split at h
    · simp at h; simp [← h.2]
    · split at h
      · have := ih _ _ _ h; simp only [List.length_cons]; omega
      · simp at h; simp [← h.2]

/-- the iteration bound never ends the requirements loop -/
theorem loop_fuel : ∀ (n : Nat) (ls : List Line) (acc : List (List Char × List Char)) (f1 f2 : Nat),
    ls.length ≤ n → n + 1 ≤ f1 → n + 1 ≤ f2 → loop f1 ls acc = loop f2 ls acc := by
  intro n
  induction n with
  | zero =>
    intro ls acc f1 f2 hl h1 h2
    have : ls = [] := by cases ls with | nil => rfl | cons a b => simp at hl
    subst this
    obtain ⟨a, rfl⟩ : ∃ a, f1 = a + 1 := ⟨f1 - 1, by omega⟩
    obtain ⟨b, rfl⟩ : ∃ b, f2 = b + 1 := ⟨f2 - 1, by omega⟩
    simp [loop]
  | succ n ih =>
    intro ls acc f1 f2 hl h1 h2
    obtain ⟨a, rfl⟩ : ∃ a, f1 = a + 1 := ⟨f1 - 1, by omega⟩
    obtain ⟨b, rfl⟩ : ∃ b, f2 = b + 1 := ⟨f2 - 1, by omega⟩
    cases ls with
    | nil => simp [loop]
    | cons l rest =>
      simp only [loop]
      cases hr : readLogical (l :: rest) [] with
      | mk x rest' =>
        simp only []
        have hlen : rest'.length ≤ rest.length := by
          simp only [readLogical] at hr
          split at hr
          · simp at hr; simp [← hr.2]
          · split at hr
            · exact readLogical_consumes _ _ _ _ hr
            · simp at hr; simp [← hr.2]
        simp only [List.length_cons] at hl
        exact ih rest' _ a b (by omega) (by omega) (by omega)

end Requirements
end Scalibr.Parsers
