/-
Lemmas about the byte-level model of `strings.TrimSpace`: in-line white space around a line whose first
character is printable ASCII is removed, and nothing at or before a printable ASCII character is ever removed
from the right.
-/
import Scalibr.Spec.Parsers.Layout
namespace Scalibr.Parsers

theorem isAsciiSp_inline (c : Char) (h : c = ' ' ∨ c = '\t' ∨ c.toNat = 11 ∨ c.toNat = 12) : isAsciiSp c = true := by
  unfold isAsciiSp
  rcases h with h | h | h | h <;> simp [h]

theorem isAsciiSp_graphic (c : Char) (h : graphic c) : isAsciiSp c = false := by
  unfold isAsciiSp
  unfold graphic at h
  have h1 : c ≠ ' ' := by rintro rfl; simp at h
  have h2 : c ≠ '\t' := by rintro rfl; simp at h
  have h3 : c ≠ '\n' := by rintro rfl; simp at h
  have h4 : c ≠ '\r' := by rintro rfl; simp at h
  have h5 : c.toNat ≠ 11 := by omega
  have h6 : c.toNat ≠ 12 := by omega
  simp [h1, h2, h3, h4, h5, h6]

theorem leadSpace_graphic (c : Char) (t : List Char) (h : graphic c) : leadSpace (c :: t) = 0 := by
  have hs := isAsciiSp_graphic c h
  unfold graphic at h
  have h1 : c.toNat ≠ 0xC2 := by omega
  have h2 : c.toNat ≠ 0xE1 := by omega
  have h3 : c.toNat ≠ 0xE2 := by omega
  have h4 : c.toNat ≠ 0xE3 := by omega
  simp [leadSpace, hs, h1, h2, h3, h4]

theorem leadSpace_ws (c : Char) (t : List Char) (h : isAsciiSp c = true) : leadSpace (c :: t) = 1 := by
  simp [leadSpace, h]

theorem trimLeft_ws (c : Char) (t : List Char) (hc : graphic c) :
    ∀ (ws : List Char) (f : Nat), inlineWs ws → ws.length ≤ f → trimLeft f (ws ++ c :: t) = c :: t := by
  intro ws
  induction ws with
  | nil =>
    intro f _ _
    cases f with
    | zero => rfl
    | succ f => simp [trimLeft, leadSpace_graphic c t hc]
  | cons w ws ih =>
    intro f hw hf
    obtain ⟨f', rfl⟩ : ∃ f', f = f' + 1 := ⟨f - 1, by simp at hf; omega⟩
    have h1 : leadSpace (w :: (ws ++ c :: t)) = 1 := leadSpace_ws _ _ (isAsciiSp_inline w (hw w (by simp)))
    simp only [List.cons_append, trimLeft, h1, List.drop_succ_cons, List.drop_zero]
    exact ih f' (fun x hx => hw x (by simp [hx])) (by simp at hf; omega)

theorem trimLeft_all_ws : ∀ (ws : List Char) (f : Nat), inlineWs ws → ws.length ≤ f → trimLeft f ws = [] := by
  intro ws
  induction ws with
  | nil => intro f _ _; cases f <;> simp [trimLeft, leadSpace]
  | cons w ws ih =>
    intro f hw hf
    obtain ⟨f', rfl⟩ : ∃ f', f = f' + 1 := ⟨f - 1, by simp at hf; omega⟩
    have h1 : leadSpace (w :: ws) = 1 := leadSpace_ws _ _ (isAsciiSp_inline w (hw w (by simp)))
    simp only [trimLeft, h1, List.drop_succ_cons, List.drop_zero]
    exact ih f' (fun x hx => hw x (by simp [hx])) (by simp at hf; omega)

/-- a space sequence at the end of a string never reaches a printable ASCII character -/
theorem trailSpace_le (a b : List Char) (d : Char) (hd : graphic d) : trailSpace (a ++ d :: b) ≤ a.length := by
  have hs := isAsciiSp_graphic d hd
  unfold graphic at hd
  match a with
  | [] => simp [trailSpace, hs]; cases b with
    | nil => rfl
    | cons x b' =>
      have : ¬ (d.toNat = 0x85 ∨ d.toNat = 0xA0) := by omega
      have h80 : d.toNat ≠ 0x80 := by omega
      have h9f : d.toNat ≠ 0x9F := by omega
      have he : e280 d.toNat = false := by unfold e280; simp; omega
      cases b' <;> simp [this, h80, h9f, he]
  | [x] =>
    simp only [List.cons_append, List.nil_append, trailSpace, List.length_cons, List.length_nil]
    have h1 : d.toNat ≠ 0xC2 := by omega
    have h2 : d.toNat ≠ 0x9A := by omega
    have h3 : d.toNat ≠ 0x80 := by omega
    have h4 : d.toNat ≠ 0x81 := by omega
    split
    · omega
    · cases b <;> simp [h1, h2, h3, h4]
  | [x, y] =>
    simp only [List.cons_append, List.nil_append, trailSpace, List.length_cons, List.length_nil]
    have h1 : d.toNat ≠ 0xE1 := by omega
    have h2 : d.toNat ≠ 0xE2 := by omega
    have h3 : d.toNat ≠ 0xE3 := by omega
    split
    · omega
    · split
      · omega
      · simp [h1, h2, h3]
  | x :: y :: z :: a' =>
    simp only [List.cons_append, trailSpace, List.length_cons]
    split
    · omega
    · split
      · omega
      · split <;> omega

/-- trimming from the right keeps everything up to and including a printable ASCII character -/
theorem trimRightRev_keep (b : List Char) (d : Char) (hd : graphic d) :
    ∀ (f : Nat) (a : List Char), ∃ a', trimRightRev f (a ++ d :: b) = a' ++ d :: b := by
  intro f
  induction f with
  | zero => intro a; exact ⟨a, rfl⟩
  | succ f ih =>
    intro a
    have hle := trailSpace_le a b d hd
    simp only [trimRightRev]
    split
    · exact ⟨a, rfl⟩
    · rename_i n _
      have : (a ++ d :: b).drop (trailSpace (a ++ d :: b)) = a.drop (trailSpace (a ++ d :: b)) ++ d :: b := by
        rw [List.drop_append_of_le_length hle]
      rw [this]
      exact ih _

theorem trimRightRev_nil (f : Nat) : trimRightRev f [] = [] := by
  cases f <;> simp [trimRightRev, trailSpace]

/-- white space, then text starting with a printable character and containing a printable character `d`:
`TrimSpace` removes the leading white space and nothing up to `d` -/
theorem trimSpace_core (ws p rest : List Char) (c d : Char) (q : List Char) (hws : inlineWs ws)
    (hp : p ++ [d] = c :: q) (hc : graphic c) (hd : graphic d) :
    ∃ rest', trimSpace (ws ++ (p ++ d :: rest)) = p ++ d :: rest' := by
  have e : p ++ d :: rest = c :: (q ++ rest) := by
    have : p ++ d :: rest = (p ++ [d]) ++ rest := by simp
    rw [this, hp]; simp
  unfold trimSpace
  have hl : trimLeft (ws ++ (p ++ d :: rest)).length (ws ++ (p ++ d :: rest)) = p ++ d :: rest := by
    rw [e]; exact trimLeft_ws c _ hc ws _ hws (by simp)
  simp only [hl]
  have hr : (p ++ d :: rest).reverse = rest.reverse ++ d :: p.reverse := by simp
  rw [hr]
  obtain ⟨a', ha⟩ := trimRightRev_keep p.reverse d hd (p ++ d :: rest).length rest.reverse
  rw [ha]
  exact ⟨a'.reverse, by simp⟩

theorem trimSpace_all_ws (ws : List Char) (h : inlineWs ws) : trimSpace ws = [] := by
  unfold trimSpace
  simp [trimLeft_all_ws ws _ h (Nat.le_refl _), trimRightRev_nil]

end Scalibr.Parsers
