/-
Helper lemmas for C03_requirements: each hand-written stand-in for a regular expression on a rendered
requirement line, then the line as a whole, then the loop.
-/
import Scalibr.Spec.Parsers.Requirements
import Scalibr.Proofs.Parsers.Layout
import Scalibr.Proofs.Parsers.Trim
import Scalibr.Proofs.Parsers.Apk
import Scalibr.Proofs.Parsers.Gradle
namespace Scalibr.Parsers.Requirements
open Scalibr.Parsers

/-! ### character classes -/

def nameChar (c : Char) : Bool := isW c || c = '.' || c = '-'

/-- characters that never occur in a name or a version -/
def special : List Char := [' ', '\t', '\r', '\n', '#', '$', '\\', ';', '[', ']', '=', '>', '<', '~', '*', ',']

theorem nameChar_not_special (c : Char) (h : nameChar c = true) : c ∉ special ∧ c ≠ '!' := by
  constructor
  · intro hm
    simp only [special, List.mem_cons, List.not_mem_nil, or_false] at hm
    rcases hm with rfl | rfl | rfl | rfl | rfl | rfl | rfl | rfl | rfl | rfl | rfl | rfl | rfl | rfl | rfl | rfl <;>
      (revert h; decide)
  · rintro rfl; revert h; decide

theorem verChar_not_special (c : Char) (h : verChar c = true) : c ∉ special := by
  intro hm
  simp only [special, List.mem_cons, List.not_mem_nil, or_false] at hm
  rcases hm with rfl | rfl | rfl | rfl | rfl | rfl | rfl | rfl | rfl | rfl | rfl | rfl | rfl | rfl | rfl | rfl <;>
    (revert h; decide)

theorem isS_of_ge (c : Char) (h : 33 ≤ c.toNat) : isS c = false := by
  unfold isS
  have h1 : c ≠ ' ' := by rintro rfl; simp at h
  have h2 : c ≠ '\t' := by rintro rfl; simp at h
  have h3 : c ≠ '\n' := by rintro rfl; simp at h
  have h4 : c ≠ '\r' := by rintro rfl; simp at h
  have h5 : c.toNat ≠ 12 := by omega
  simp [h1, h2, h3, h4, h5]

theorem isW_ge (c : Char) (h : isW c = true) : 33 ≤ c.toNat := by
  unfold isW at h
  simp only [Bool.or_eq_true, Bool.and_eq_true, decide_eq_true_eq] at h
  rcases h with ((h | h) | h) | h
  · have : 'a'.toNat = 97 := rfl; omega
  · have : 'A'.toNat = 65 := rfl; omega
  · have : '0'.toNat = 48 := rfl; omega
  · subst h; decide

theorem nameChar_ge (c : Char) (h : nameChar c = true) : 33 ≤ c.toNat := by
  unfold nameChar at h
  simp only [Bool.or_eq_true, decide_eq_true_eq] at h
  rcases h with (h | h) | h
  · exact isW_ge c h
  · subst h; decide
  · subst h; decide

theorem verChar_ge (c : Char) (h : verChar c = true) : 33 ≤ c.toNat := by
  unfold verChar at h
  simp only [Bool.or_eq_true, decide_eq_true_eq] at h
  rcases h with (((h | h) | h) | h) | h
  · exact isW_ge c h
  · subst h; decide
  · subst h; decide
  · subst h; decide
  · subst h; decide

theorem validPkg_props (n : List Char) (h : validPkg n = true) :
    n.all nameChar = true ∧ (∃ c t, n = c :: t ∧ isW c = true) ∧ (∃ p d, n = p ++ [d] ∧ isW d = true) := by
  match n, h with
  | [c], h =>
    simp only [validPkg] at h
    exact ⟨by simp [nameChar, h], ⟨c, [], rfl, h⟩, ⟨[], c, rfl, h⟩⟩
  | c :: d :: t, h =>
    simp only [validPkg, Bool.and_eq_true] at h
    obtain ⟨⟨h1, h2⟩, h3⟩ := h
    refine ⟨?_, ⟨c, d :: t, rfl, h1⟩, ?_⟩
    · simp only [List.all_cons, Bool.and_eq_true]
      refine ⟨by simp [nameChar, h1], ?_⟩
      have : (d :: t).all nameChar = true := by
        simp only [List.all_eq_true] at h3 ⊢
        intro x hx; have := h3 x hx
        simpa [nameChar, Bool.or_assoc] using this
      simpa using this
    · have hne : d :: t ≠ [] := by simp
      refine ⟨c :: (d :: t).dropLast, (d :: t).getLast hne, ?_, ?_⟩
      · rw [List.cons_append, List.dropLast_concat_getLast hne]
      · rw [List.getLast?_eq_some_getLast hne] at h2
        simpa using h2

/-! ### R1–R2. comments -/

theorem rmComment_prefix (A0 : List Char) (x : Char) (rest : List Char) (hA : '#' ∉ A0) (hx : x ≠ '#') (hxs : isS x = false) :
    ∀ out ws, rmComment (A0 ++ x :: rest) out ws = rmComment rest (x :: (A0.reverse ++ (ws ++ out))) [] := by
  induction A0 with
  | nil => intro out ws; simp [rmComment, hx, hxs]
  | cons c A0 ih =>
    intro out ws
    have hc : c ≠ '#' := by intro e; subst e; simp at hA
    have hA' : '#' ∉ A0 := by intro e; exact hA (by simp [e])
    simp only [List.cons_append, rmComment, hc, decide_false, Bool.false_and, Bool.false_eq_true, if_false]
    by_cases hs : isS c = true
    · simp only [hs, if_true]; rw [ih hA']; simp
    · simp only [hs, Bool.false_eq_true, if_false]; rw [ih hA']; simp

theorem rmComment_ws (w : List Char) (c : List Char) (hw : ∀ x ∈ w, isS x = true ∧ x ≠ '#') (hne : w ≠ []) :
    ∀ out ws, rmComment (w ++ '#' :: c) out ws = out.reverse := by
  induction w with
  | nil => exact absurd rfl hne
  | cons x w ih =>
    intro out ws
    obtain ⟨hs, hx⟩ := hw x (by simp)
    simp only [List.cons_append, rmComment, hx, decide_false, Bool.false_and, Bool.false_eq_true, if_false, hs, if_true]
    cases w with
    | nil => simp [rmComment]
    | cons y w' => exact ih (fun z hz => hw z (by simp [hz])) (by simp) out (x :: ws)

theorem spTab_isS (w : List Char) (h : spTab w) : ∀ x ∈ w, isS x = true ∧ x ≠ '#' := by
  intro x hx
  rcases h x hx with rfl | rfl <;> exact ⟨by decide, by decide⟩

/-- a line `A` + optional comment, where `A` has no '#' and ends in a non-blank: the comment goes, `A` stays -/
theorem rmComment_line (A0 : List Char) (x : Char) (cm : Option (List Char × List Char))
    (hA : '#' ∉ A0) (hx : x ≠ '#') (hxs : isS x = false)
    (hc : ∀ w t, cm = some (w, t) → w ≠ [] ∧ spTab w) :
    rmComment (A0 ++ x :: commentText cm) [] [] = A0 ++ [x] := by
  rw [rmComment_prefix A0 x _ hA hx hxs]
  cases cm with
  | none => simp [commentText, rmComment]
  | some wt =>
    obtain ⟨w, t⟩ := wt
    obtain ⟨hne, hsp⟩ := hc w t rfl
    simp only [commentText]
    rw [rmComment_ws w t (spTab_isS w hsp) hne]
    simp

/-! ### R3. environment variables, R4. options -/

theorem hasEnvVar_none (s : List Char) (h : '$' ∉ s) : hasEnvVar s = false := by
  induction s with
  | nil => rfl
  | cons c t ih =>
    have hc : c ≠ '$' := by intro e; subst e; simp at h
    have ht : '$' ∉ t := by intro e; exact h (by simp [e])
    have : envAt (c :: t) = false := by
      unfold envAt
      split
      · rename_i heq; simp at heq; exact absurd heq.1 hc
      · rfl
    simp [hasEnvVar, this, ih ht]

theorem take_head (l p : List Char) (n : Nat) (h : l.take n = p) (hp : p ≠ []) : l.head? = p.head? := by
  cases l with
  | nil => simp at h; exact absurd h hp
  | cons x xs =>
    cases n with
    | zero => simp at h; exact absurd h hp
    | succ n => simp at h; subst h; rfl

theorem optAt_head (s : List Char) (h : optAt s = true) : s.head? = some '-' := by
  have hstarts : ∀ p ∈ optionStarts, p ≠ [] ∧ p.head? = some '-' := by decide
  unfold optAt at h
  obtain ⟨p, hp, hh⟩ := List.any_eq_true.mp h
  have ht : s.take p.length = p := of_decide_eq_true hh
  rw [take_head s p _ ht (hstarts p hp).1, (hstarts p hp).2]

theorem cutOptions_safe : ∀ (A acc : List Char), optSafe A = true → (acc = [] → A.head? ≠ some '-') →
    cutOptions A acc = acc.reverse ++ A := by
  intro A
  induction A with
  | nil => intro acc _ _; simp [cutOptions]
  | cons c t ih =>
    intro acc hs h0
    have h1 : (acc.isEmpty && optAt (c :: t)) = false := by
      cases hacc : acc with
      | nil =>
        have := h0 hacc
        cases ho : optAt (c :: t) with
        | false => simp
        | true => exact absurd (optAt_head _ ho) this
      | cons a b => simp
    have h2 : (isS c && optAt t) = false := by
      cases ho : optAt t with
      | false => simp
      | true =>
        have hh := optAt_head _ ho
        cases t with
        | nil => simp at hh
        | cons d t' =>
          simp at hh; subst hh
          simp only [optSafe, Bool.and_eq_true, Bool.not_eq_true'] at hs
          have := hs.1
          simp at this
          simp [this]
    have hs' : optSafe t = true := by
      cases t with
      | nil => rfl
      | cons d t' => simp only [optSafe, Bool.and_eq_true] at hs; exact hs.2
    simp only [cutOptions, h1, h2, Bool.or_self, Bool.false_eq_true, if_false]
    rw [ih (c :: acc) hs' (by simp)]
    simp


/-! ### R6–R8. white space, markers, extras -/

def notWs (c : Char) : Bool := !(c = ' ' || c = '\t' || c = '\r')

theorem filter_spTab (w : List Char) (h : spTab w) : w.filter notWs = [] := by
  rw [List.filter_eq_nil_iff]
  intro c hc
  rcases h c hc with rfl | rfl <;> decide

theorem filter_keep (l : List Char) (h : ∀ c ∈ l, notWs c = true) : l.filter notWs = l :=
  List.filter_eq_self.mpr h

theorem notWs_of_ge (c : Char) (h : 33 ≤ c.toNat) : notWs c = true := by
  unfold notWs
  have h1 : c ≠ ' ' := by rintro rfl; simp at h
  have h2 : c ≠ '\t' := by rintro rfl; simp at h
  have h4 : c ≠ '\r' := by rintro rfl; simp at h
  simp [h1, h2, h4]

theorem cutAt_none (c : Char) (l : List Char) (h : c ∉ l) : cutAt c l = none := by
  unfold cutAt
  rw [Gemfile_takeWhile c l h]
  simp
where
  Gemfile_takeWhile (c : Char) (l : List Char) (h : c ∉ l) : l.takeWhile (· ≠ c) = l := by
    have hall : ∀ x ∈ l, (decide (x ≠ c)) = true := by
      intro x hx; simp; intro e; subst e; exact h hx
    exact takeWhile_all _ _ hall

theorem beforeSemi_none (l : List Char) (h : ';' ∉ l) : beforeSemi l = l := by
  unfold beforeSemi; rw [cutAt_none ';' l h]

theorem rmExtras_plain (a t : List Char) (h : '[' ∉ a) : ∀ out, rmExtras (a ++ t) none out = rmExtras t none (a.reverse ++ out) := by
  induction a with
  | nil => intro out; rfl
  | cons c a ih =>
    intro out
    have hc : c ≠ '[' := by intro e; subst e; simp at h
    have ha : '[' ∉ a := by intro e; exact h (by simp [e])
    simp only [List.cons_append, rmExtras, hc, if_false]
    rw [ih ha]; simp

theorem rmExtras_inner (t out : List Char) : ∀ (inner p : List Char), (∀ c ∈ inner, c ≠ '[' ∧ c ≠ ']') →
    rmExtras (inner ++ ']' :: t) (some p) out = rmExtras t none out := by
  intro inner
  induction inner with
  | nil => intro p _; simp [rmExtras]
  | cons c inner ih =>
    intro p h
    obtain ⟨h1, h2⟩ := h c (by simp)
    simp only [List.cons_append, rmExtras, h1, h2, if_false]
    exact ih _ (fun x hx => h x (by simp [hx]))

theorem rmExtras_nil (out : List Char) : rmExtras [] none out = out.reverse := by simp [rmExtras]

/-! ### R9. the operator split -/

/-- the characters version operators are made of -/
def opChar (c : Char) : Bool := c = '=' || c = '>' || c = '<' || c = '~'

theorem hasPrefix_cons (c x : Char) (pt l : List Char) : hasPrefix (c :: pt) (x :: l) = (decide (x = c) && hasPrefix pt l) := by
  unfold hasPrefix
  simp only [List.length_cons, List.take_succ_cons, List.cons.injEq]
  by_cases h : x = c <;> simp [h]

theorem hasPrefix_nil_right (c : Char) (pt : List Char) : hasPrefix (c :: pt) [] = false := by simp [hasPrefix]

theorem hasPrefix_boundary (b : List Char) (hb : ∀ c ∈ b, opChar c = false) :
    ∀ (p o : List Char), (∀ c ∈ p, opChar c = true) → hasPrefix p (o ++ b) = hasPrefix p o := by
  intro p
  induction p with
  | nil => intro o _; simp [hasPrefix]
  | cons c pt ih =>
    intro o hp
    cases o with
    | nil =>
      rw [hasPrefix_nil_right, List.nil_append]
      cases b with
      | nil => exact hasPrefix_nil_right c pt
      | cons d bt =>
        rw [hasPrefix_cons]
        have : d ≠ c := by
          intro e; subst e
          have h1 := hb d (by simp); have h2 := hp d (by simp); rw [h1] at h2; cases h2
        simp [this]
    | cons x ot =>
      rw [List.cons_append, hasPrefix_cons, hasPrefix_cons, ih ot (fun y hy => hp y (by simp [hy]))]

theorem hasPrefix_length_le (p o : List Char) (h : hasPrefix p o = true) : p.length ≤ o.length := by
  unfold hasPrefix at h
  have h' : o.take p.length = p := by simpa using h
  have := congrArg List.length h'
  simp at this; omega

theorem cutSub_absent (c0 : Char) (pt : List Char) : ∀ (s acc : List Char), c0 ∉ s → cutSub (c0 :: pt) s acc = none := by
  intro s
  induction s with
  | nil => intro acc _; rfl
  | cons x s ih =>
    intro acc h
    have hx : x ≠ c0 := by intro e; subst e; simp at h
    have hs : c0 ∉ s := by intro e; exact h (by simp [e])
    simp only [cutSub, hasPrefix_cons, hx, decide_false, Bool.false_and, Bool.false_eq_true, if_false]
    exact ih _ hs

theorem cutSub_skip (c0 : Char) (pt t : List Char) : ∀ (a acc : List Char), c0 ∉ a →
    cutSub (c0 :: pt) (a ++ t) acc = cutSub (c0 :: pt) t (a.reverse ++ acc) := by
  intro a
  induction a with
  | nil => intro acc _; rfl
  | cons x a ih =>
    intro acc h
    have hx : x ≠ c0 := by intro e; subst e; simp at h
    have ha : c0 ∉ a := by intro e; exact h (by simp [e])
    simp only [List.cons_append, cutSub, hasPrefix_cons, hx, decide_false, Bool.false_and, Bool.false_eq_true, if_false]
    rw [ih _ ha]; simp

theorem cutSub_boundary (c0 : Char) (pt b : List Char) (hp : ∀ c ∈ c0 :: pt, opChar c = true) (hb : ∀ c ∈ b, opChar c = false) :
    ∀ (o acc : List Char), cutSub (c0 :: pt) (o ++ b) acc
      = match cutSub (c0 :: pt) o acc with | some (x, y) => some (x, y ++ b) | none => none := by
  intro o
  induction o with
  | nil =>
    intro acc
    have : c0 ∉ b := by
      intro hm; have h1 := hb c0 hm; have h2 := hp c0 (by simp); rw [h1] at h2; cases h2
    simp [cutSub_absent c0 pt b acc this, cutSub]
  | cons x ot ih =>
    intro acc
    have hbd := hasPrefix_boundary b hb (c0 :: pt) (x :: ot) hp
    simp only [List.cons_append] at hbd
    simp only [List.cons_append, cutSub, hbd]
    by_cases hh : hasPrefix (c0 :: pt) (x :: ot) = true
    · have hle := hasPrefix_length_le _ _ hh
      simp only [hh, if_true]
      have : (x :: (ot ++ b)).drop (c0 :: pt).length = (x :: ot).drop (c0 :: pt).length ++ b := by
        rw [← List.cons_append, List.drop_append_of_le_length hle]
      rw [this]
    · simp only [hh, Bool.false_eq_true, if_false]
      exact ih _

theorem cutSub_acc (pat : List Char) : ∀ (s acc : List Char),
    cutSub pat s acc = match cutSub pat s [] with | some (x, y) => some (acc.reverse ++ x, y) | none => none := by
  intro s
  induction s with
  | nil => intro acc; simp [cutSub]
  | cons c t ih =>
    intro acc
    simp only [cutSub]
    by_cases hh : hasPrefix pat (c :: t) = true
    · simp [hh]
    · simp only [hh, Bool.false_eq_true, if_false]
      rw [ih (c :: acc), ih [c]]
      cases cutSub pat t [] with
      | none => rfl
      | some xy => obtain ⟨x, y⟩ := xy; simp

/-- a separator can only be found inside the operator: names and versions contain no operator characters -/
theorem cutSub_core (c0 : Char) (pt : List Char) (hp : ∀ c ∈ c0 :: pt, opChar c = true)
    (name o ver : List Char) (hn : ∀ c ∈ name, opChar c = false) (hv : ∀ c ∈ ver, opChar c = false) :
    cutSub (c0 :: pt) (name ++ (o ++ ver)) []
      = match cutSub (c0 :: pt) o [] with | some (x, y) => some (name ++ x, y ++ ver) | none => none := by
  have h0 : c0 ∉ name := by
    intro hm; have h1 := hn c0 hm; have h2 := hp c0 (by simp); rw [h1] at h2; cases h2
  rw [cutSub_skip c0 pt _ name [] h0, cutSub_boundary c0 pt ver hp hv, cutSub_acc]
  cases cutSub (c0 :: pt) o [] with
  | none => rfl
  | some xy => obtain ⟨x, y⟩ := xy; simp

def seps : List (List Char) := ["===".toList, "==".toList, ">=".toList, "<=".toList, "~=".toList]

theorem seps_op' : ∀ p ∈ seps, p ≠ [] ∧ p.all opChar = true := by decide

theorem seps_op (p : List Char) (hp : p ∈ seps) : ∃ c0 pt, p = c0 :: pt ∧ ∀ c ∈ c0 :: pt, opChar c = true := by
  obtain ⟨hne, hall⟩ := seps_op' p hp
  cases p with
  | nil => exact absurd rfl hne
  | cons c0 pt => exact ⟨c0, pt, rfl, by simpa using hall⟩

theorem find?_congr {α} (f g : α → Bool) (l : List α) (h : ∀ x ∈ l, f x = g x) : l.find? f = l.find? g := by
  induction l with
  | nil => rfl
  | cons x xs ih =>
    simp only [List.find?_cons, h x (by simp)]
    rw [ih (fun y hy => h y (by simp [hy]))]

theorem unsupported_skip (a t : List Char) (h : ∀ c ∈ a, c ≠ '*' ∧ c ≠ ',' ∧ c ≠ '<' ∧ c ≠ '!') :
    unsupported (a ++ t) = unsupported t := by
  induction a with
  | nil => rfl
  | cons c a ih =>
    obtain ⟨h1, h2, h3, h4⟩ := h c (by simp)
    simp only [List.cons_append, unsupported, h1, h2, h3, h4, decide_false, Bool.false_and, Bool.false_or]
    exact ih (fun x hx => h x (by simp [hx]))

theorem unsupported_ver (v : List Char) (h : ∀ c ∈ v, c ≠ '*' ∧ c ≠ ',' ∧ c ≠ '<' ∧ c ≠ '=') : unsupported v = false := by
  induction v with
  | nil => rfl
  | cons c v ih =>
    obtain ⟨h1, h2, h3, _⟩ := h c (by simp)
    have hv := ih (fun x hx => h x (by simp [hx]))
    have : (c = '!' && v.head? = some '=') = false := by
      cases v with
      | nil => simp
      | cons d v' =>
        have := (h d (by simp)).2.2.2
        simp [this]
    simp only [unsupported, h1, h2, h3, decide_false, Bool.false_and, Bool.false_or, hv, Bool.or_false]
    simpa using this


theorem not_special_op (c : Char) (h : c ∉ special) : opChar c = false := by
  unfold opChar
  have h1 : c ≠ '=' := by intro e; subst e; exact h (by decide)
  have h2 : c ≠ '>' := by intro e; subst e; exact h (by decide)
  have h3 : c ≠ '<' := by intro e; subst e; exact h (by decide)
  have h4 : c ≠ '~' := by intro e; subst e; exact h (by decide)
  simp [h1, h2, h3, h4]

theorem getLowest (name ver : List Char) (op : Op) (hn : ∀ c ∈ name, nameChar c = true) (hv : ∀ c ∈ ver, verChar c = true)
    (hb : op = .bare ↔ ver = []) :
    getLowestVersion (name ++ (opText op ++ ver)) = (name, ver, opText op) := by
  have hnop : ∀ c ∈ name, opChar c = false := fun c hc => not_special_op c (nameChar_not_special c (hn c hc)).1
  have hvop : ∀ c ∈ ver, opChar c = false := fun c hc => not_special_op c (verChar_not_special c (hv c hc))
  have hvu : unsupported ver = false := by
    apply unsupported_ver
    intro c hc
    have := verChar_not_special c (hv c hc)
    refine ⟨?_, ?_, ?_, ?_⟩ <;> (intro e; subst e; exact this (by decide))
  have hun : unsupported (name ++ (opText op ++ ver)) = false := by
    rw [unsupported_skip]
    · cases op <;> simp [opText, unsupported, hvu]
    · intro c hc
      have := nameChar_not_special c (hn c hc)
      refine ⟨?_, ?_, ?_, this.2⟩ <;> (intro e; subst e; exact this.1 (by decide))
  have hcs : ∀ p ∈ seps, cutSub p (name ++ (opText op ++ ver)) []
      = match cutSub p (opText op) [] with | some (x, y) => some (name ++ x, y ++ ver) | none => none := by
    intro p hp
    obtain ⟨c0, pt, rfl, hall⟩ := seps_op p hp
    exact cutSub_core c0 pt hall name (opText op) ver hnop hvop
  have hfind : seps.find? (fun p => containsSub p (name ++ (opText op ++ ver)))
      = seps.find? (fun p => (cutSub p (opText op) []).isSome) := by
    apply find?_congr
    intro p hp
    unfold containsSub
    rw [hcs p hp]
    cases cutSub p (opText op) [] with
    | none => rfl
    | some xy => rfl
  have hdef : getLowestVersion (name ++ (opText op ++ ver)) =
      if unsupported (name ++ (opText op ++ ver)) then (nameFromRequirement (name ++ (opText op ++ ver)), [], [])
      else match seps.find? (fun p => containsSub p (name ++ (opText op ++ ver))) with
        | none => (name ++ (opText op ++ ver), [], [])
        | some sep => match cutSub sep (name ++ (opText op ++ ver)) [] with
          | some (a, b) => (a, b, sep)
          | none => (name ++ (opText op ++ ver), [], []) := rfl
  rw [hdef, hun, hfind]
  simp only [Bool.false_eq_true, if_false]
  cases op with
  | bare =>
    have hve : ver = [] := hb.mp rfl
    subst hve
    have : seps.find? (fun p => (cutSub p (opText Op.bare) []).isSome) = none := by decide
    rw [this]; simp [opText]
  | eq3 =>
    have : seps.find? (fun p => (cutSub p (opText Op.eq3) []).isSome) = some "===".toList := by decide
    rw [this]; simp only []
    rw [hcs _ (by decide)]
    have : cutSub "===".toList (opText Op.eq3) [] = some ([], []) := by decide
    rw [this]; simp [opText]
  | eq2 =>
    have : seps.find? (fun p => (cutSub p (opText Op.eq2) []).isSome) = some "==".toList := by decide
    rw [this]; simp only []
    rw [hcs _ (by decide)]
    have : cutSub "==".toList (opText Op.eq2) [] = some ([], []) := by decide
    rw [this]; simp [opText]
  | ge =>
    have : seps.find? (fun p => (cutSub p (opText Op.ge) []).isSome) = some ">=".toList := by decide
    rw [this]; simp only []
    rw [hcs _ (by decide)]
    have : cutSub ">=".toList (opText Op.ge) [] = some ([], []) := by decide
    rw [this]; simp [opText]
  | le =>
    have : seps.find? (fun p => (cutSub p (opText Op.le) []).isSome) = some "<=".toList := by decide
    rw [this]; simp only []
    rw [hcs _ (by decide)]
    have : cutSub "<=".toList (opText Op.le) [] = some ([], []) := by decide
    rw [this]; simp [opText]
  | compat =>
    have : seps.find? (fun p => (cutSub p (opText Op.compat) []).isSome) = some "~=".toList := by decide
    rw [this]; simp only []
    rw [hcs _ (by decide)]
    have : cutSub "~=".toList (opText Op.compat) [] = some ([], []) := by decide
    rw [this]; simp [opText]


/-! ### a whole requirement line -/

theorem isW_graphic (c : Char) (h : isW c = true) : graphic c := by
  unfold isW at h
  simp only [Bool.or_eq_true, Bool.and_eq_true, decide_eq_true_eq] at h
  unfold graphic
  rcases h with ((h | h) | h) | h
  · have : 'a'.toNat = 97 := rfl; have : 'z'.toNat = 122 := rfl; omega
  · have : 'A'.toNat = 65 := rfl; have : 'Z'.toNat = 90 := rfl; omega
  · have : '0'.toNat = 48 := rfl; have : '9'.toNat = 57 := rfl; omega
  · subst h; decide

theorem hasPrefix_append (p x : List Char) : hasPrefix p (p ++ x) = true := by simp [hasPrefix]

theorem spTab_inline (w : List Char) (h : spTab w) : inlineWs w := by
  intro c hc; rcases h c hc with e | e
  · exact Or.inl e
  · exact Or.inr (Or.inl e)

/-- the pieces of a well-formed requirement, as character facts -/
structure Pieces (r : GRec) : Prop where
  nameCh : ∀ c ∈ r.name, nameChar c = true
  verCh : ∀ c ∈ r.ver, verChar c = true
  nameHead : ∃ c t, r.name = c :: t ∧ isW c = true
  nameLast : ∃ p d, r.name = p ++ [d] ∧ isW d = true

theorem pieces (r : GRec) (hw : WFrec r) : Pieces r := by
  obtain ⟨h1, h2, h3⟩ := validPkg_props r.name hw.1
  exact ⟨by simpa using h1, by simpa using hw.2.1, h2, h3⟩

theorem opText_opChar (o : Op) : ∀ c ∈ opText o, opChar c = true := by cases o <;> decide
theorem opText_filter (o : Op) : (opText o).filter notWs = opText o := by cases o <;> decide
theorem opText_nb (o : Op) : '[' ∉ opText o := by cases o <;> decide

/-- no character of `lead ++ core` is one of the given "dangerous" ones -/
theorem core_free (r : GRec) (hw : WFrec r) (x : Char) (hx : x = '#' ∨ x = '$' ∨ x = '\\' ∨ x = ';' ∨ x = '\n' ∨ x = '\r') :
    x ∉ r.lead ++ core r := by
  have pc := pieces r hw
  obtain ⟨_, _, _, hext, hlead, hsp1, hsp2, _, _, _, _⟩ := hw
  have hxs : x ∈ special := by rcases hx with rfl | rfl | rfl | rfl | rfl | rfl <;> decide
  have hxsp : ¬ (x = ' ' ∨ x = '\t') := by rcases hx with rfl | rfl | rfl | rfl | rfl | rfl <;> decide
  have hxb : x ≠ '[' ∧ x ≠ ']' := by rcases hx with rfl | rfl | rfl | rfl | rfl | rfl <;> decide
  have hxo : opChar x = false := by rcases hx with rfl | rfl | rfl | rfl | rfl | rfl <;> decide
  intro hm
  simp only [core, List.mem_append] at hm
  rcases hm with hm | hm | hm | hm | hm | hm | hm
  · exact hxsp (hlead x hm)
  · exact (nameChar_not_special x (pc.nameCh x hm)).1 hxs
  · cases he : r.extras with
    | none => simp [he, extrasText] at hm
    | some e =>
      simp only [he, extrasText, List.mem_cons, List.mem_append, List.mem_singleton] at hm
      rcases hm with rfl | hm | rfl | hm
      · exact hxb.1 rfl
      · have := hext e he x hm
        rcases hx with rfl | rfl | rfl | rfl | rfl | rfl
        · exact this.2.2.2.1 rfl
        · exact this.2.2.2.2.1 rfl
        · exact this.2.2.2.2.2.1 rfl
        · exact this.2.2.1 rfl
        · exact this.2.2.2.2.2.2.1 rfl
        · exact this.2.2.2.2.2.2.2 rfl
      · exact hxb.2 rfl
      · simp at hm
  · exact hxsp (hsp1 x hm)
  · have : opChar x = true := opText_opChar r.op x hm
    rw [hxo] at this; cases this
  · exact hxsp (hsp2 x hm)
  · exact verChar_not_special x (pc.verCh x hm) hxs

/-- `lead ++ core` ends in a character that is neither white space, '#' nor a backslash -/
theorem core_last (r : GRec) (hw : WFrec r) :
    ∃ A0 x, r.lead ++ core r = A0 ++ [x] ∧ x ≠ '#' ∧ x ≠ '\\' ∧ isS x = false := by
  have pc := pieces r hw
  obtain ⟨_, _, hbare, _, _, _, _, hb2, _, _, _⟩ := hw
  by_cases hv : r.ver = []
  · have hop := hbare.mpr hv
    obtain ⟨h2, h1⟩ := hb2 hop
    cases he : r.extras with
    | none =>
      obtain ⟨p, d, hpd, hd⟩ := pc.nameLast
      refine ⟨r.lead ++ p, d, by simp [core, he, extrasText, h1, h2, hop, opText, hv, hpd], ?_, ?_, isS_of_ge d (isW_ge d hd)⟩
      · rintro rfl; revert hd; decide
      · rintro rfl; revert hd; decide
    | some e =>
      exact ⟨r.lead ++ (r.name ++ '[' :: e), ']', by simp [core, he, extrasText, h1, h2, hop, opText, hv], by decide, by decide, by decide⟩
  · have hne : r.ver ≠ [] := hv
    refine ⟨r.lead ++ (r.name ++ (extrasText r.extras ++ (r.sp1 ++ (opText r.op ++ (r.sp2 ++ r.ver.dropLast))))), r.ver.getLast hne, ?_, ?_, ?_, ?_⟩
    · simp only [core, List.append_assoc]
      rw [List.dropLast_concat_getLast hne]
    all_goals have hm := pc.verCh _ (List.getLast_mem hne)
    · intro e; rw [e] at hm; revert hm; decide
    · intro e; rw [e] at hm; revert hm; decide
    · exact isS_of_ge _ (verChar_ge _ hm)

theorem optSafe_spTab_head (r : GRec) (hw : WFrec r) : (r.lead ++ core r).head? ≠ some '-' := by
  have pc := pieces r hw
  obtain ⟨c, t, hn, hc⟩ := pc.nameHead
  cases hl : r.lead with
  | nil =>
    simp only [List.nil_append, core, hn, List.cons_append, List.head?_cons]
    intro e; simp at e; subst e; revert hc; decide
  | cons a b =>
    have := hw.2.2.2.2.1 a (by rw [hl]; simp)
    simp only [List.cons_append, List.head?_cons]
    intro e; simp at e; subst e; rcases this with h | h <;> cases h

theorem filter_core (r : GRec) (hw : WFrec r) :
    (r.lead ++ core r).filter notWs
      = r.name ++ (extrasText (r.extras.map (·.filter notWs)) ++ (opText r.op ++ r.ver)) := by
  have pc := pieces r hw
  obtain ⟨_, _, _, _, hlead, hsp1, hsp2, _⟩ := hw
  simp only [core, List.filter_append, filter_spTab _ hlead, filter_spTab _ hsp1, filter_spTab _ hsp2, List.nil_append]
  rw [filter_keep r.name (fun c hc => notWs_of_ge c (nameChar_ge c (pc.nameCh c hc))),
      filter_keep r.ver (fun c hc => notWs_of_ge c (verChar_ge c (pc.verCh c hc)))]
  rw [opText_filter]
  cases r.extras with
  | none => simp [extrasText]
  | some e =>
    have h1 : notWs '[' = true := by decide
    have h2 : notWs ']' = true := by decide
    simp [extrasText, List.filter_cons, h1, h2]

theorem lineReq_rec (r : GRec) (hw : WFrec r) : lineReq (r.lead ++ core r) = some (r.name, r.ver) := by
  have pc := pieces r hw
  have hsafe : optSafe (r.lead ++ core r) = true := hw.2.2.2.2.2.2.2.2.1
  have hcut : cutOptions (r.lead ++ core r) [] = r.lead ++ core r := by
    rw [cutOptions_safe _ [] hsafe (fun _ => optSafe_spTab_head r hw)]; rfl
  -- the trimmed requirement starts with the name
  obtain ⟨c, t, hn, hc⟩ := pc.nameHead
  obtain ⟨p, d, hpd, hd⟩ := pc.nameLast
  have hcore : core r = p ++ d :: (extrasText r.extras ++ (r.sp1 ++ (opText r.op ++ (r.sp2 ++ r.ver)))) := by
    simp [core, hpd]
  obtain ⟨rest', htrim⟩ := trimSpace_core r.lead p _ c d t (spTab_inline _ hw.2.2.2.2.1)
    (by rw [← hpd, hn]) (isW_graphic c hc) (isW_graphic d hd)
  rw [← hcore] at htrim
  have hpre : hasPrefix r.name (trimSpace (r.lead ++ core r)) = true := by
    rw [htrim, hpd]
    have : p ++ d :: rest' = (p ++ [d]) ++ rest' := by simp
    rw [this]; exact hasPrefix_append _ _
  -- white space, marker, extras
  have hfil := filter_core r hw
  have hsemi : ';' ∉ r.name ++ (extrasText (r.extras.map (·.filter notWs)) ++ (opText r.op ++ r.ver)) := by
    intro hm
    have : ';' ∈ (r.lead ++ core r).filter notWs := by rw [hfil]; exact hm
    exact core_free r hw ';' (by simp) (List.mem_filter.mp this).1
  have hname_nb : '[' ∉ r.name := by
    intro hm; exact (nameChar_not_special _ (pc.nameCh _ hm)).1 (by decide)
  have hext : rmExtras (r.name ++ (extrasText (r.extras.map (·.filter notWs)) ++ (opText r.op ++ r.ver))) none []
      = r.name ++ (opText r.op ++ r.ver) := by
    rw [rmExtras_plain _ _ hname_nb]
    have htail : ∀ out, rmExtras (opText r.op ++ r.ver) none out = out.reverse ++ (opText r.op ++ r.ver) := by
      intro out
      have hnb : '[' ∉ opText r.op ++ r.ver := by
        intro hm
        rcases List.mem_append.mp hm with hm | hm
        · exact opText_nb r.op hm
        · exact verChar_not_special _ (pc.verCh _ hm) (by decide)
      have := rmExtras_plain (opText r.op ++ r.ver) [] hnb out
      rw [List.append_nil] at this
      rw [this, rmExtras_nil]; simp
    cases he : r.extras with
    | none => simp [extrasText, htail]
    | some e =>
      have hinner : ∀ x ∈ e.filter notWs, x ≠ '[' ∧ x ≠ ']' := by
        intro x hx
        have := hw.2.2.2.1 e he x (List.mem_filter.mp hx).1
        exact ⟨this.1, this.2.1⟩
      simp only [Option.map_some, extrasText, List.cons_append, List.append_assoc, List.nil_append, List.append_nil]
      rw [show rmExtras ('[' :: (e.filter notWs ++ ']' :: (opText r.op ++ r.ver))) none r.name.reverse
            = rmExtras (e.filter notWs ++ ']' :: (opText r.op ++ r.ver)) (some ['[']) r.name.reverse by simp [rmExtras]]
      rw [rmExtras_inner _ _ _ _ hinner, htail]; simp
  have hlow := getLowest r.name r.ver r.op pc.nameCh pc.verCh hw.2.2.1
  have hne : (r.name ++ (opText r.op ++ r.ver)).isEmpty = false := by rw [hn]; rfl
  have hdash : hasPrefix ['-'] (r.name ++ (opText r.op ++ r.ver)) = false := by
    rw [hn, List.cons_append, hasPrefix_cons]
    have : c ≠ '-' := by rintro rfl; revert hc; decide
    simp [this]
  have hnm : r.name.isEmpty = false := by rw [hn]; rfl
  have hvc : (r.ver.isEmpty && !(opText r.op).isEmpty) = false := by
    by_cases hv : r.ver = []
    · have := hw.2.2.1.mpr hv; simp [this, opText]
    · cases hr : r.ver with
      | nil => exact absurd hr hv
      | cons a b => simp
  unfold lineReq
  simp only [hcut]
  have hf : (r.lead ++ core r).filter (fun c => !(c = ' ' || c = '\t' || c = '\r')) = (r.lead ++ core r).filter notWs := rfl
  rw [hf, hfil, beforeSemi_none _ hsemi]
  simp only [hext, hne, Bool.false_eq_true, if_false, hdash, hlow, hnm, hvc, hw.1, Bool.not_true, hpre]


/-! ### physical lines → logical lines -/

theorem rmComment_clean (A : List Char) (h : '#' ∉ A) : ∀ out ws, rmComment A out ws = (ws ++ out).reverse ++ A := by
  induction A with
  | nil => intro out ws; simp [rmComment]
  | cons c A ih =>
    intro out ws
    have hc : c ≠ '#' := by intro e; subst e; simp at h
    have hA : '#' ∉ A := by intro e; exact h (by simp [e])
    simp only [rmComment, hc, decide_false, Bool.false_and, Bool.false_eq_true, if_false]
    by_cases hs : isS c = true
    · simp only [hs, if_true]; rw [ih hA]; simp
    · simp only [hs, Bool.false_eq_true, if_false]; rw [ih hA]; simp

/-- a physical line that is a logical line on its own: no environment variable, no trailing backslash -/
theorem readLogical_single (l : Line) (rest : List Line) (h1 : hasEnvVar (rmComment l [] []) = false)
    (h2 : (rmComment l [] []).getLast? ≠ some '\\') : readLogical (l :: rest) [] = (rmComment l [] [], rest) := by
  simp [readLogical, h1, h2]

theorem recLine_logical (r : GRec) (hw : WFrec r) (rest : List Line) :
    readLogical (recLine r :: rest) [] = (r.lead ++ core r, rest) := by
  obtain ⟨A0, x, hA, hx1, hx2, hx3⟩ := core_last r hw
  have hfree : '#' ∉ A0 := by
    intro hm; exact core_free r hw '#' (by simp) (by rw [hA]; simp [hm])
  have hcm : rmComment (recLine r) [] [] = r.lead ++ core r := by
    have : recLine r = A0 ++ x :: commentText r.comment := by
      simp only [recLine]
      rw [← List.append_assoc, hA]; simp
    rw [this, rmComment_line A0 x r.comment hfree hx1 hx3 (fun w t h => ⟨(hw.2.2.2.2.2.2.2.2.2.1 w t h).1, (hw.2.2.2.2.2.2.2.2.2.1 w t h).2.1⟩), hA]
  rw [readLogical_single _ _ (by rw [hcm]; exact hasEnvVar_none _ (core_free r hw '$' (by simp)))
    (by rw [hcm, hA]; simp; exact hx2), hcm]

/-! ### filler lines contribute nothing -/

theorem lineReq_nil : lineReq [] = none := by
  simp [lineReq, cutOptions, trimSpace, trimLeft, trimRightRev, beforeSemi, cutAt, rmExtras]

theorem optSafe_spTab (w : List Char) (h : spTab w) : optSafe w = true := by
  induction w with
  | nil => rfl
  | cons c w ih =>
    cases w with
    | nil => rfl
    | cons d w' =>
      have hd : d ≠ '-' := by rcases h d (by simp) with e | e <;> (rw [e]; decide)
      simp only [optSafe, hd, decide_false, Bool.and_false, Bool.not_false, Bool.true_and]
      exact ih (fun x hx => h x (by simp [hx]))

theorem lineReq_ws (w : List Char) (h : spTab w) : lineReq w = none := by
  have hhead : w.head? ≠ some '-' := by
    cases w with
    | nil => simp
    | cons c t => simp; rcases h c (by simp) with e | e <;> (rw [e]; decide)
  have hcut : cutOptions w [] = w := by rw [cutOptions_safe w [] (optSafe_spTab w h) (fun _ => hhead)]; rfl
  have hf : w.filter (fun c => !(c = ' ' || c = '\t' || c = '\r')) = [] := filter_spTab w h
  unfold lineReq
  simp only [hcut, hf]
  simp [beforeSemi, cutAt, rmExtras]

theorem cutOptions_acc (A : List Char) : ∀ acc, ∃ z, cutOptions A acc = acc.reverse ++ z := by
  induction A with
  | nil => intro acc; exact ⟨[], by simp [cutOptions]⟩
  | cons c t ih =>
    intro acc
    simp only [cutOptions]
    split
    · exact ⟨[], by simp⟩
    · obtain ⟨z, hz⟩ := ih (c :: acc)
      exact ⟨c :: z, by rw [hz]; simp⟩

theorem rmExtras_acc : ∀ (t : List Char) (pend : Option (List Char)) (out : List Char), ∃ z, rmExtras t pend out = out.reverse ++ z := by
  intro t
  induction t with
  | nil => intro pend out; exact ⟨(pend.getD []).reverse, by simp [rmExtras]⟩
  | cons c t ih =>
    intro pend out
    cases pend with
    | none =>
      simp only [rmExtras]
      split
      · exact ih _ _
      · obtain ⟨z, hz⟩ := ih none (c :: out)
        exact ⟨c :: z, by rw [hz]; simp⟩
    | some p =>
      simp only [rmExtras]
      split
      · exact ih _ _
      · split
        · obtain ⟨z, hz⟩ := ih (some ['[']) (p ++ out)
          exact ⟨p.reverse ++ z, by rw [hz]; simp⟩
        · exact ih _ _

/-- a line that still starts with '-' after option stripping is a global option: skipped -/
theorem lineReq_dash (t : List Char) : lineReq ('-' :: t) = none := by
  unfold lineReq
  -- whatever `cutOptions` leaves is empty or starts with '-'
  have hshape : cutOptions ('-' :: t) [] = [] ∨ ∃ z, cutOptions ('-' :: t) [] = '-' :: z := by
    simp only [cutOptions]
    split
    · left; rfl
    · right; obtain ⟨z, hz⟩ := cutOptions_acc t ['-']; exact ⟨z, by rw [hz]; rfl⟩
  rcases hshape with h | ⟨z, h⟩
  · simp only [h]; simp [beforeSemi, cutAt, rmExtras]
  · simp only [h]
    have hd : (!('-' = ' ' || '-' = '\t' || '-' = '\r')) = true := by decide
    simp only [List.filter_cons, hd, if_true]
    generalize z.filter (fun c => !(c = ' ' || c = '\t' || c = '\r')) = y
    have hl3 : ∃ y', beforeSemi ('-' :: y) = '-' :: y' := by
      have hk : ('-' :: y).takeWhile (· ≠ ';') = '-' :: y.takeWhile (· ≠ ';') := by simp [List.takeWhile_cons]
      unfold beforeSemi cutAt
      simp only [hk]
      by_cases hlt : ('-' :: y.takeWhile (· ≠ ';')).length < ('-' :: y).length
      · simp only [hlt, if_true]; exact ⟨_, rfl⟩
      · simp only [hlt, if_false]; exact ⟨_, rfl⟩
    obtain ⟨y', hy'⟩ := hl3
    simp only [hy']
    obtain ⟨z', hz'⟩ := rmExtras_acc y' none ['-']
    have hre : rmExtras ('-' :: y') none [] = '-' :: z' := by
      simp only [rmExtras, show ('-' = '[') = False by decide, if_false]
      rw [hz']; rfl
    simp [hre, hasPrefix]

theorem option_logical (t : List Char) (hw : WFfiller (.option t)) (rest : List Line) :
    readLogical (('-' :: t) :: rest) [] = ('-' :: t, rest) := by
  obtain ⟨_, h1, h2, h3, _⟩ := hw
  have hno : '#' ∉ '-' :: t := by simp [h1]
  have hcm : rmComment ('-' :: t) [] [] = '-' :: t := by rw [rmComment_clean _ hno]; simp
  have he : hasEnvVar ('-' :: t) = false := hasEnvVar_none _ (by simp [h2])
  have hl : ('-' :: t).getLast? ≠ some '\\' := by
    intro e; have := List.mem_of_getLast? e
    simp at this; exact h3 this
  simpa [hcm] using readLogical_single ('-' :: t) rest (by rw [hcm]; exact he) (by rw [hcm]; exact hl)

theorem pathChar_cases (c : Char) (h : pathChar c = true) : nameChar c = true ∨ c = '/' := by
  unfold pathChar at h; unfold nameChar
  simp only [Bool.or_eq_true, decide_eq_true_eq] at h ⊢
  rcases h with ((h | h) | h) | h
  · exact Or.inl (Or.inl (Or.inl h))
  · exact Or.inl (Or.inl (Or.inr h))
  · exact Or.inr h
  · exact Or.inl (Or.inr h)

theorem pathChar_not_special (c : Char) (h : pathChar c = true) : c ∉ special := by
  rcases pathChar_cases c h with h | h
  · exact (nameChar_not_special c h).1
  · subst h; decide

/-- an include line is, for the single-file parser, an option line -/
theorem include_option (sp t : List Char) (hw : WFfiller (.incl sp t)) : WFfiller (.option ('r' :: (sp ++ t))) := by
  obtain ⟨hs, _, ht, _, hl⟩ := hw
  have hmem : ∀ x, x ∈ 'r' :: (sp ++ t) → x = 'r' ∨ x = ' ' ∨ x = '\t' ∨ pathChar x = true := by
    intro x hx
    rcases List.mem_cons.mp hx with rfl | hx
    · exact Or.inl rfl
    · rcases List.mem_append.mp hx with hx | hx
      · rcases hs x hx with e | e
        · exact Or.inr (Or.inl e)
        · exact Or.inr (Or.inr (Or.inl e))
      · exact Or.inr (Or.inr (Or.inr (List.all_eq_true.mp ht x hx)))
  have hnot : ∀ y : Char, y ∈ special → y ≠ ' ' → y ≠ '\t' → y ∉ 'r' :: (sp ++ t) := by
    intro y hy h1 h2 hm
    rcases hmem y hm with e | e | e | e
    · subst e; revert hy; decide
    · exact h1 e
    · exact h2 e
    · exact pathChar_not_special y e hy
  refine ⟨⟨hnot '\n' (by decide) (by decide) (by decide), hnot '\r' (by decide) (by decide) (by decide)⟩,
    hnot '#' (by decide) (by decide) (by decide), hnot '$' (by decide) (by decide) (by decide),
    hnot '\\' (by decide) (by decide) (by decide), ?_⟩
  simp only [List.length_cons, List.length_append]; omega

theorem filler_logical (f : Filler) (hw : WFfiller f) (rest : List Line) :
    ∃ g, readLogical (fillerLine f :: rest) [] = (g, rest) ∧ lineReq g = none := by
  cases f with
  | blank ws =>
    obtain ⟨hs, _⟩ := hw
    have hno : '#' ∉ ws := by intro hm; rcases hs _ hm with e | e <;> cases e
    have hcm : rmComment ws [] [] = ws := by rw [rmComment_clean ws hno]; simp
    refine ⟨ws, ?_, lineReq_ws ws hs⟩
    have h1 : hasEnvVar ws = false := hasEnvVar_none _ (by intro hm; rcases hs _ hm with e | e <;> cases e)
    have h2 : ws.getLast? ≠ some '\\' := by
      intro e; have := List.mem_of_getLast? e; rcases hs _ this with e' | e' <;> cases e'
    simpa [fillerLine, hcm] using readLogical_single ws rest (by rw [hcm]; exact h1) (by rw [hcm]; exact h2)
  | comment ws t =>
    obtain ⟨hs, _, _⟩ := hw
    have hcm : rmComment (ws ++ '#' :: t) [] [] = [] := by
      cases ws with
      | nil => simp [rmComment]
      | cons a b => rw [rmComment_ws (a :: b) t (spTab_isS _ hs) (by simp)]; rfl
    refine ⟨[], ?_, lineReq_nil⟩
    simpa [fillerLine, hcm] using readLogical_single (ws ++ '#' :: t) rest (by rw [hcm]; rfl) (by rw [hcm]; simp)
  | option t => exact ⟨'-' :: t, option_logical t hw rest, lineReq_dash t⟩
  | incl sp t => exact ⟨'-' :: 'r' :: (sp ++ t), option_logical _ (include_option sp t hw) rest, lineReq_dash _⟩

/-! ### the loop over a rendered file -/

/-- lines that are logical lines on their own -/
def Single (l : Line) (out : Option (List Char × List Char)) : Prop :=
  ∀ rest, ∃ g, readLogical (l :: rest) [] = (g, rest) ∧ lineReq g = out

theorem loop_singles : ∀ (ls : List (Line × Option (List Char × List Char))), (∀ x ∈ ls, Single x.1 x.2) →
    ∀ (fuel : Nat) (acc : List (List Char × List Char)), ls.length ≤ fuel →
      loop fuel (ls.map (·.1)) acc = acc ++ ls.filterMap (·.2) := by
  intro ls
  induction ls with
  | nil => intro _ fuel acc _; cases fuel <;> simp [loop]
  | cons x ls ih =>
    intro hs fuel acc hf
    obtain ⟨f, rfl⟩ : ∃ f, fuel = f + 1 := ⟨fuel - 1, by simp at hf; omega⟩
    obtain ⟨g, hg, hout⟩ := hs x (by simp) (ls.map (·.1))
    simp only [List.map_cons, loop, hg, hout]
    rw [ih (fun y hy => hs y (by simp [hy])) f _ (by simp at hf; omega)]
    cases hx : x.2 with
    | none => simp [hx]
    | some pr => simp [hx]


abbrev Pair := Line × Option (List Char × List Char)

def fillerPairs (fs : List Filler) : List Pair := fs.map fun f => (fillerLine f, none)

def bodyPairs (before : Nat → List Filler) : Nat → List GRec → List Pair
  | _, [] => []
  | i, r :: rest => fillerPairs (before i) ++ (recLine r, some (r.name, r.ver)) :: bodyPairs before (i + 1) rest

theorem fillerPairs_fst (fs : List Filler) : (fillerPairs fs).map (·.1) = fs.map fillerLine := by
  simp [fillerPairs, List.map_map, Function.comp_def]

theorem fillerPairs_snd (fs : List Filler) : (fillerPairs fs).filterMap (·.2) = [] := by
  induction fs with
  | nil => rfl
  | cons f fs ih => simpa [fillerPairs] using ih

theorem bodyPairs_fst (before : Nat → List Filler) : ∀ (rs : List GRec) (i : Nat),
    (bodyPairs before i rs).map (·.1) = bodyLines before i rs := by
  intro rs
  induction rs with
  | nil => intro i; rfl
  | cons r rest ih => intro i; simp [bodyPairs, bodyLines, fillerPairs_fst, ih]

theorem bodyPairs_snd (before : Nat → List Filler) : ∀ (rs : List GRec) (i : Nat),
    (bodyPairs before i rs).filterMap (·.2) = installed rs := by
  intro rs
  induction rs with
  | nil => intro i; rfl
  | cons r rest ih => intro i; simp [bodyPairs, fillerPairs_snd, ih, installed]

theorem fillerPairs_single (fs : List Filler) (h : ∀ f ∈ fs, WFfiller f) : ∀ x ∈ fillerPairs fs, Single x.1 x.2 := by
  intro x hx
  simp only [fillerPairs, List.mem_map] at hx
  obtain ⟨f, hf, rfl⟩ := hx
  intro rest
  exact filler_logical f (h f hf) rest

theorem bodyPairs_single (before : Nat → List Filler) : ∀ (rs : List GRec) (i : Nat), WF rs →
    (∀ j, i ≤ j → j < i + rs.length → ∀ f ∈ before j, WFfiller f) → ∀ x ∈ bodyPairs before i rs, Single x.1 x.2 := by
  intro rs
  induction rs with
  | nil => intro i _ _ x hx; simp [bodyPairs] at hx
  | cons r rest ih =>
    intro i hwf hb x hx
    simp only [bodyPairs, List.mem_append, List.mem_cons] at hx
    rcases hx with hx | rfl | hx
    · exact fillerPairs_single _ (hb i (Nat.le_refl _) (by simp)) x hx
    · intro rest'
      exact ⟨_, recLine_logical r (hwf r (by simp)) rest', lineReq_rec r (hwf r (by simp))⟩
    · exact ih (i + 1) (fun y hy => hwf y (by simp [hy])) (fun j h1 h2 => hb j (by omega) (by simp; omega)) x hx

/-! ### clean lines -/

theorem spTab_ok (w : List Char) (h : spTab w) : okText w := by
  constructor <;> (intro hm; rcases h _ hm with e | e <;> cases e)

theorem recLine_clean (r : GRec) (hw : WFrec r) : cleanLine (recLine r) := by
  have h1 := core_free r hw '\n' (by simp)
  have h2 := core_free r hw '\r' (by simp)
  have hc : okText (commentText r.comment) := by
    cases hcm : r.comment with
    | none => unfold okText commentText; simp
    | some wt =>
      obtain ⟨w, t⟩ := wt
      obtain ⟨_, hs, ht⟩ := hw.2.2.2.2.2.2.2.2.2.1 w t hcm
      exact Gradle.okText_append _ _ (spTab_ok w hs) (Gradle.okText_cons '#' _ (by decide) ht)
  have : okText (recLine r) := by
    unfold recLine
    rw [← List.append_assoc]
    exact Gradle.okText_append _ _ ⟨h1, h2⟩ hc
  exact ⟨this.1, this.2, hw.2.2.2.2.2.2.2.2.2.2⟩

theorem fillerLine_clean (f : Filler) (h : WFfiller f) : cleanLine (fillerLine f) := by
  cases f with
  | blank ws =>
    obtain ⟨hs, hl⟩ := h
    have := spTab_ok ws hs
    exact ⟨this.1, this.2, hl⟩
  | comment ws t =>
    obtain ⟨hs, ht, hl⟩ := h
    have := Gradle.okText_append _ _ (spTab_ok ws hs) (Gradle.okText_cons '#' _ (by decide) ht)
    exact ⟨this.1, this.2, hl⟩
  | option t =>
    obtain ⟨ht, _, _, _, hl⟩ := h
    have := Gradle.okText_cons '-' t (by decide) ht
    exact ⟨this.1, this.2, by simp only [fillerLine, List.length_cons]; omega⟩
  | incl sp t =>
    obtain ⟨ht, _, _, _, hl⟩ := include_option sp t h
    have := Gradle.okText_cons '-' _ (by decide) ht
    exact ⟨this.1, this.2, by simp only [fillerLine, List.length_cons] at hl ⊢; omega⟩

theorem bodyLines_clean (before : Nat → List Filler) : ∀ (rs : List GRec) (i : Nat), WF rs →
    (∀ j, i ≤ j → j < i + rs.length → ∀ f ∈ before j, WFfiller f) →
    ∀ l ∈ bodyLines before i rs, cleanLine l := by
  intro rs
  induction rs with
  | nil => intro i _ _ l hl; simp [bodyLines] at hl
  | cons r rest ih =>
    intro i hwf hb l hl
    simp only [bodyLines, List.mem_append, List.mem_cons, List.mem_map] at hl
    rcases hl with ⟨f, hf, rfl⟩ | rfl | hl
    · exact fillerLine_clean f (hb i (Nat.le_refl _) (by simp) f hf)
    · exact recLine_clean r (hwf r (by simp))
    · exact ih (i + 1) (fun x hx => hwf x (by simp [hx])) (fun j h1 h2 => hb j (by omega) (by simp; omega)) l hl

end Scalibr.Parsers.Requirements
