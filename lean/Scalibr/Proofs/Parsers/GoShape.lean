/-
The "Go-shaped" model functions (with `goIndex` / `goSliceC`, whose `none` is a run-time panic) coincide with
their index-free reformulations. These equalities are the content of the C02 no-panic theorems for the byte
parsers: every index / slice the Go code performs is in range, on every input.
-/
import Scalibr.Model.Parsers.Gradle
import Scalibr.Model.Parsers.Gemfile
import Scalibr.Model.Parsers.Dpkg
import Scalibr.Model.Parsers.Requirements
import Scalibr.Proofs.Parsers.Layout
namespace Scalibr.Parsers

theorem cutAt_none_of_not_mem (c : Char) (l : List Char) (h : c ∉ l) : cutAt c l = none := by
  unfold cutAt
  have hall : ∀ x ∈ l, (decide (x ≠ c)) = true := by
    intro x hx; simp; intro e; subst e; exact h hx
  rw [takeWhile_all _ _ hall]; simp

theorem cutAt_some_of_mem (c : Char) (l : List Char) (h : c ∈ l) : ∃ a r, cutAt c l = some (a, r) := by
  unfold cutAt
  have hlt : (l.takeWhile (· ≠ c)).length < l.length := by
    induction l with
    | nil => simp at h
    | cons x xs ih =>
      by_cases hx : x = c
      · simp [List.takeWhile_cons, hx]
      · have : c ∈ xs := by
          rcases List.mem_cons.mp h with e | e
          · exact absurd e.symm hx
          · exact e
        simp only [List.takeWhile_cons, hx, ne_eq, not_false_eq_true, decide_true, if_true, List.length_cons]
        have := ih this
        simp only [ne_eq] at this
        omega
  simp only [hlt, if_true]
  exact ⟨_, _, rfl⟩

theorem splitN3 (c : Char) (l : List Char) :
    splitN c 3 l = match cutAt c l with
      | none => [l]
      | some (a, r) => match cutAt c r with
        | none => [a, r]
        | some (b, r2) => [a, b, r2] := by
  simp only [splitN]
  cases cutAt c l with
  | none => rfl
  | some ar =>
    obtain ⟨a, r⟩ := ar
    simp only [splitN]
    cases cutAt c r with
    | none => rfl
    | some br => rfl

theorem splitN2 (c : Char) (l : List Char) :
    splitN c 2 l = match cutAt c l with | none => [l] | some (a, r) => [a, r] := by
  simp only [splitN]
  cases cutAt c l with
  | none => rfl
  | some ar => rfl

namespace Gradle

/-- every index taken by `parseToGradlePackageDetail` is in range: the Go-shaped function never panics and computes
what the `strings.Cut` formulation computes -/
theorem gradleLineGo_eq (raw : Line) : gradleLineGo raw = some (gradleLine raw) := by
  unfold gradleLineGo gradleLine
  simp only []
  split
  · rfl
  · rw [splitN3]
    cases h1 : cutAt ':' (trimSpace raw) with
    | none => simp
    | some gr =>
      obtain ⟨g, r1⟩ := gr
      cases h2 : cutAt ':' r1 with
      | none => simp [h2]
      | some av =>
        obtain ⟨a, v⟩ := av
        simp only [h2, List.length_cons, List.length_nil, goIndex]
        by_cases hc : '=' ∈ v
        · obtain ⟨ver, rest, h3⟩ := cutAt_some_of_mem '=' v hc
          simp [hc, splitN2, h3]
          try (split <;> rfl)
        · have h3 := cutAt_none_of_not_mem '=' v hc
          simp [hc, h3]
          try (split <;> rfl)

theorem mapM_gradleLineGo (ls : List Line) : ls.mapM gradleLineGo = some (ls.map gradleLine) := by
  induction ls with
  | nil => rfl
  | cons l ls ih => simp [List.mapM_cons, gradleLineGo_eq, ih]

theorem filterMap_id_map {α β : Type} (f : α → Option β) (l : List α) : (l.map f).filterMap id = l.filterMap f := by
  induction l with
  | nil => rfl
  | cons x xs ih => simp [List.filterMap_cons, ih]

/-- `parse` in terms of the index-free line function -/
theorem parse_eq (bytes : List Char) :
    parse bytes = (if (scan bytes).2 then .err else .ok ((scan bytes).1.filterMap gradleLine)) := by
  unfold parse
  simp only [mapM_gradleLineGo, filterMap_id_map]

end Gradle
namespace Gemfile

theorem specPkgGo_eq (s : List Char) : specPkgGo s = some (specPkg s) := by
  unfold specPkgGo specPkg submatch
  cases h : specNV s [] with
  | none => simp
  | some nv =>
    obtain ⟨n, v⟩ := nv
    simp only [List.length_cons, List.length_nil, goIndex]
    by_cases he : (n.isEmpty || v.isEmpty) = true <;> simp [he]

theorem mapM_specPkgGo (ss : List (List Char)) : ss.mapM specPkgGo = some (ss.map specPkg) := by
  induction ss with
  | nil => rfl
  | cons x xs ih => simp [List.mapM_cons, specPkgGo_eq, ih]

theorem mapM_some {α β : Type} (f : α → Option β) (g : α → β) (h : ∀ x, f x = some (g x)) (l : List α) :
    l.mapM f = some (l.map g) := by
  induction l with
  | nil => rfl
  | cons x xs ih => simp [List.mapM_cons, h, ih]

/-- no index taken by the Gemfile.lock record loop is out of range -/
theorem pkgsOfGo_eq (secs : List Sec) : pkgsOfGo secs = some (pkgsOf secs) := by
  unfold pkgsOfGo pkgsOf
  rw [mapM_some _ (fun sec => if sourceNames.contains sec.name then sec.specs.filterMap specPkg else [])]
  · simp [List.flatMap]
  · intro sec
    by_cases hs : sourceNames.contains sec.name = true
    · simp only [hs, if_true, mapM_specPkgGo, Option.map_some, Gradle.filterMap_id_map]
    · simp only [hs, Bool.false_eq_true, if_false]

theorem parse_eq (bytes : List Char) :
    parse bytes = match gemSections (scan bytes).1 none [] with
      | none => .err
      | some secs => if (scan bytes).2 then .err else .ok (pkgsOf secs) := by
  unfold parse
  simp only [pkgsOfGo_eq]
  cases gemSections (scan bytes).1 none [] with
  | none => rfl
  | some secs => cases (scan bytes).2 <;> rfl

end Gemfile
namespace Dpkg

theorem indexSpParen_ge (s : List Char) : -1 ≤ indexSpParen s := by
  induction s with
  | nil => simp [indexSpParen]
  | cons c t ih =>
    simp only [indexSpParen]
    split
    · omega
    · split <;> omega

/-- a non-negative index really points at " (" -/
theorem indexSpParen_split : ∀ (s : List Char) (i : Int), indexSpParen s = i → 0 ≤ i →
    ∃ a b, s = a ++ ' ' :: '(' :: b ∧ (a.length : Int) = i := by
  intro s
  induction s with
  | nil => intro i h hi; simp [indexSpParen] at h; omega
  | cons c t ih =>
    intro i h hi
    simp only [indexSpParen] at h
    split at h
    · rename_i hc
      simp only [Bool.and_eq_true, decide_eq_true_eq] at hc
      obtain ⟨rfl, ht⟩ := hc
      cases t with
      | nil => simp at ht
      | cons d t' =>
        simp at ht; subst ht
        exact ⟨[], t', rfl, by simp; omega⟩
    · split at h
      · omega
      · obtain ⟨a, b, hs, hl⟩ := ih (indexSpParen t) rfl (by omega)
        exact ⟨c :: a, b, by rw [hs]; rfl, by simp; omega⟩

theorem containsSpParen_cons (c : Char) (t : List Char) :
    containsSpParen (c :: t) = ((decide (c = ' ') && decide (t.head? = some '(')) || containsSpParen t) := by
  cases t with
  | nil => simp [containsSpParen]
  | cons d t' =>
    by_cases h1 : c = ' ' ∧ d = '('
    · obtain ⟨rfl, rfl⟩ := h1; simp [containsSpParen]
    · have hf : (decide (c = ' ') && decide ((d :: t').head? = some '(')) = false := by
        simp only [List.head?_cons, Option.some.injEq, Bool.and_eq_false_iff, decide_eq_false_iff_not]
        by_cases hc : c = ' '
        · right; intro hd; exact h1 ⟨hc, hd⟩
        · left; exact hc
      rw [hf, Bool.false_or]
      conv => lhs; unfold containsSpParen
      split
      · rename_i heq; simp at heq; exact absurd ⟨heq.1, heq.2.1⟩ h1
      · rename_i heq; simp at heq; obtain ⟨_, rfl⟩ := heq; rfl
      · rename_i heq; simp at heq

theorem indexSpParen_neg_iff (s : List Char) : indexSpParen s = -1 ↔ containsSpParen s = false := by
  induction s with
  | nil => simp [indexSpParen, containsSpParen]
  | cons c t ih =>
    have hge := indexSpParen_ge t
    rw [containsSpParen_cons]
    by_cases hc : (decide (c = ' ') && decide (t.head? = some '(')) = true
    · simp [indexSpParen, hc]
    · simp only [indexSpParen, hc, Bool.false_eq_true, if_false, Bool.false_or, ← ih]
      constructor
      · intro h; split at h <;> omega
      · intro h; simp [h]

/-- both slices of `parseSourceNameVersion` are in range, and its error return is the condition `process` tests -/
theorem sourceNVGo_eq (src : List Char) :
    ∃ r, sourceNVGo src = some r ∧
      (r = none ↔ (!src.isEmpty && containsSpParen src && decide (src.getLast? ≠ some ')')) = true) := by
  unfold sourceNVGo
  by_cases he : src.isEmpty = true
  · exact ⟨some ([], []), by simp [he], by simp [he]⟩
  · simp only [he, Bool.false_eq_true, if_false]
    by_cases hi : indexSpParen src = -1
    · have hc := (indexSpParen_neg_iff src).mp hi
      exact ⟨some (src, []), by simp [hi], by simp [hc]⟩
    · have hc : containsSpParen src = true := by
        cases h : containsSpParen src with
        | true => rfl
        | false => exact absurd ((indexSpParen_neg_iff src).mpr h) hi
      simp only [hi, ne_eq, not_false_eq_true, if_true]
      by_cases hl : src.getLast? ≠ some ')'
      · exact ⟨none, by simp [hl], by simp [he, hc, hl]⟩
      · have hl' : src.getLast? = some ')' := by simpa using hl
        have hge := indexSpParen_ge src
        obtain ⟨a, b, hs, hal⟩ := indexSpParen_split src (indexSpParen src) rfl (by omega)
        have hb : b ≠ [] := by
          intro hb; subst hb; rw [hs] at hl'
          have : (a ++ [' ', '(']).getLast? = some '(' := by simp
          rw [this] at hl'; cases hl'
        have hlen : (src.length : Int) = (a.length : Int) + 2 + b.length := by rw [hs]; simp; omega
        have hbl : 0 < b.length := by cases b with | nil => exact absurd rfl hb | cons x y => simp
        have g1 : ∃ n, goSliceI src 0 (indexSpParen src) = some n := by
          unfold goSliceI; rw [if_pos (by omega)]; exact ⟨_, rfl⟩
        have g2 : ∃ v, goSliceI src (indexSpParen src + 2) ((src.length : Int) - 1) = some v := by
          unfold goSliceI; rw [if_pos (by omega)]; exact ⟨_, rfl⟩
        obtain ⟨n, hn⟩ := g1
        obtain ⟨v, hv⟩ := g2
        refine ⟨some (n, v), by simp [hl', hn, hv], by simp [hl']⟩

/-- `parts[2]` is in range behind the `len(parts) != 3` guard, the `Source` slices are in range: the Go-shaped body
never panics and decides what `process` decides -/
theorem processGo_eq (h : Hdr) : processGo h = some (process h) := by
  unfold processGo process
  generalize "installed".toList = I
  generalize get h "Status".toList = status
  generalize get h "Source".toList = src
  generalize get h "Package".toList = name
  generalize get h "Version".toList = ver
  simp only []
  by_cases h1 : status.isEmpty = true
  · simp only [h1, if_true]
  · simp only [h1, Bool.false_eq_true, if_false]
    by_cases hlen : (splitSp status []).length ≠ 3
    · simp only [hlen, ne_eq, not_false_eq_true, if_true]
    · have hl3 : (splitSp status []).length = 3 := by simpa using hlen
      obtain ⟨st, hst⟩ : ∃ st, (splitSp status [])[2]? = some st := by
        cases hx : (splitSp status [])[2]? with
        | some st => exact ⟨st, rfl⟩
        | none => rw [List.getElem?_eq_none_iff] at hx; omega
      simp only [hlen, if_false, goIndex, hst]
      by_cases hi : st = I
      · subst hi
        simp only [ne_eq, not_true_eq_false, if_false]
        by_cases hnv : (name.isEmpty || ver.isEmpty) = true
        · simp only [hnv, if_true]
        · simp only [hnv, Bool.false_eq_true, if_false]
          obtain ⟨r, hr, hiff⟩ := sourceNVGo_eq src
          rw [hr]
          cases r with
          | none =>
            have := hiff.mp rfl
            simp only [this, if_true]
          | some nv =>
            have : ¬ ((!src.isEmpty && containsSpParen src && decide (src.getLast? ≠ some ')')) = true) := by
              intro hh; have := hiff.mpr hh; cases this
            simp only [this, if_false]
            simp
      · have h2 : (some st ≠ some I) := by simpa using hi
        simp only [ne_eq, hi, not_false_eq_true, if_true, h2]

theorem loopGo_eq : ∀ (f : Nat) (ls : List Line) (acc : List (List Char × List Char)),
    loopGo f ls acc = match loop f ls acc with | some x => .ok x | none => .err := by
  intro f
  induction f with
  | zero => intro ls acc; simp [loopGo, loop]
  | succ f ih =>
    intro ls acc
    unfold loopGo loop
    by_cases hh : headSpTab ls = true
    · simp [hh]
    · simp only [hh, Bool.false_eq_true, if_false]
      cases stanza ls [] none with
      | none => rfl
      | some x =>
        obtain ⟨h, eof, rest⟩ := x
        simp only [processGo_eq]
        by_cases he : h.isEmpty = true
        · simp only [he, if_true]
          by_cases hf : eof = true
          · simp [hf]
          · simp only [hf, Bool.false_eq_true, if_false]; exact ih rest acc
        · simp only [he, Bool.false_eq_true, if_false]
          cases process h with
          | fail => rfl
          | skip =>
            by_cases hf : eof = true
            · simp [hf]
            · simp only [hf, Bool.false_eq_true, if_false]; exact ih rest acc
          | pkg n v =>
            by_cases hf : eof = true
            · simp [hf]
            · simp only [hf, Bool.false_eq_true, if_false]; exact ih rest _

theorem parse_eq (bytes : List Char) :
    parse bytes = match loop ((rlines bytes).length + 2) (rlines bytes) [] with | some ps => .ok ps | none => .err := by
  unfold parse; simp only [loopGo_eq]

end Dpkg
namespace Requirements

theorem goSlice_dropLast (l : List Char) (h : l ≠ []) : goSliceI l 0 ((l.length : Int) - 1) = some l.dropLast := by
  have hl : 0 < l.length := by cases l with | nil => exact absurd rfl h | cons a b => simp
  unfold goSliceI
  rw [if_pos (by omega)]
  have : ((l.length : Int) - 1).toNat = l.length - 1 := by omega
  simp [this, List.dropLast_eq_take]

/-- the slice `l[:len(l)-1]` of `readLine` is always in range (it sits behind `HasSuffix(l, "\\")`) -/
theorem readLogicalGo_eq : ∀ (ls : List Line) (b : List Char), readLogicalGo ls b = some (readLogical ls b) := by
  intro ls
  induction ls with
  | nil => intro b; rfl
  | cons l rest ih =>
    intro b
    simp only [readLogicalGo, readLogical]
    split
    · rfl
    · split
      · rename_i hl
        have hne : rmComment l [] [] ≠ [] := by intro e; rw [e] at hl; simp at hl
        rw [goSlice_dropLast _ hne]
        exact ih _
      · rfl

theorem splitSub2_len (sep s : List Char) (h : containsSub sep s = true) :
    ∃ a b, cutSub sep s [] = some (a, b) ∧ splitSub2 sep s = [a, b] := by
  unfold containsSub at h
  cases hc : cutSub sep s [] with
  | none => rw [hc] at h; simp at h
  | some ab => obtain ⟨a, b⟩ := ab; exact ⟨a, b, rfl, by simp [splitSub2, hc]⟩

/-- `t[0]`, `t[1]` are in range: the separator was found, so `SplitN` returned two parts -/
theorem getLowestVersionGo_eq (s : List Char) : getLowestVersionGo s = some (getLowestVersion s) := by
  unfold getLowestVersionGo getLowestVersion
  split
  · rfl
  · cases hf : List.find? (fun p => containsSub p s) ["===".toList, "==".toList, ">=".toList, "<=".toList, "~=".toList] with
    | none => rfl
    | some sep =>
      have hc : containsSub sep s = true := by
        have := List.find?_some hf; simpa using this
      obtain ⟨a, b, h1, h2⟩ := splitSub2_len sep s hc
      simp [h1, h2, goIndex]

theorem beforeSemi_eq (l : List Char) : goIndex (splitN ';' 2 l) 0 = some (beforeSemi l) := by
  rw [splitN2]
  unfold beforeSemi goIndex
  cases cutAt ';' l with
  | none => rfl
  | some ar => rfl

theorem lineReqGo_eq (l0 : List Char) : lineReqGo l0 = some (lineReq l0) := by
  unfold lineReqGo lineReq
  simp only [beforeSemi_eq, getLowestVersionGo_eq]
  split
  · rfl
  · split
    · rfl
    · generalize getLowestVersion _ = t
      obtain ⟨name, version, comp⟩ := t
      simp only []
      split
      · rfl
      · split
        · rfl
        · split
          · rfl
          · split <;> rfl

theorem loopGo_eq : ∀ (f : Nat) (ls : List Line) (acc : List (List Char × List Char)),
    loopGo f ls acc = some (loop f ls acc) := by
  intro f
  induction f with
  | zero => intro ls acc; simp [loopGo, loop]
  | succ f ih =>
    intro ls acc
    cases ls with
    | nil => simp [loopGo, loop]
    | cons l rest =>
      simp only [loopGo, loop, readLogicalGo_eq, lineReqGo_eq]
      exact ih _ _

theorem parse_eq (bytes : List Char) :
    parse bytes = (if (scan bytes).2 then .err else .ok (loop ((scan bytes).1.length + 1) (scan bytes).1 [])) := by
  unfold parse
  simp only [loopGo_eq]

end Requirements
end Scalibr.Parsers
