/-
The "Go-shaped" model functions (with `goIndex` / `goSliceC`, whose `none` is a run-time panic) coincide with
their index-free reformulations. These equalities are the content of the C02 no-panic theorems for the byte
parsers: every index / slice the Go code performs is in range, on every input.
-/
import Scalibr.Model.Parsers.Gradle
import Scalibr.Model.Parsers.Gemfile
import Scalibr.Proofs.Parsers.Layout
namespace Scalibr.Parsers

theorem cutAt_none_of_not_mem (c : Char) (l : List Char) (h : c ∉ l) : cutAt c l = none := by
  unfold cutAt
  have hall : ∀ x ∈ l, (decide (x ≠ c)) = true := by
    intro x hx; simp; intro e; subst e; exact h hx
  rw [takeWhile_all _ _ hall]; simp

theorem cutAt_some_of_mem (c : Char) (l : List Char) (h : c ∈ l) : ∃ a r, cutAt c l = some (a, r) := by
  unfold cutAt
  have hlt : (l.takeWhile (· ≠ c)).length < l.length := by
    induction l with
    | nil => simp at h
    | cons x xs ih =>
      by_cases hx : x = c
      · simp [List.takeWhile_cons, hx]
      · have : c ∈ xs := by
          rcases List.mem_cons.mp h with e | e
          · exact absurd e.symm hx
          · exact e
        simp only [List.takeWhile_cons, hx, ne_eq, not_false_eq_true, decide_true, if_true, List.length_cons]
        have := ih this
        simp only [ne_eq] at this
        omega
  simp only [hlt, if_true]
  exact ⟨_, _, rfl⟩

theorem splitN3 (c : Char) (l : List Char) :
    splitN c 3 l = match cutAt c l with
      | none => [l]
      | some (a, r) => match cutAt c r with
        | none => [a, r]
        | some (b, r2) => [a, b, r2] := by
  simp only [splitN]
  cases cutAt c l with
  | none => rfl
  | some ar =>
    obtain ⟨a, r⟩ := ar
    simp only [splitN]
    cases cutAt c r with
    | none => rfl
    | some br => rfl

theorem splitN2 (c : Char) (l : List Char) :
    splitN c 2 l = match cutAt c l with | none => [l] | some (a, r) => [a, r] := by
  simp only [splitN]
  cases cutAt c l with
  | none => rfl
  | some ar => rfl

namespace Gradle

/-- every index taken by `parseToGradlePackageDetail` is in range: the Go-shaped function never panics and computes
what the `strings.Cut` formulation computes -/
theorem gradleLineGo_eq (raw : Line) : gradleLineGo raw = some (gradleLine raw) := by
  unfold gradleLineGo gradleLine
  simp only []
  split
  · rfl
  · rw [splitN3]
    cases h1 : cutAt ':' (trimSpace raw) with
    | none => simp
    | some gr =>
      obtain ⟨g, r1⟩ := gr
      cases h2 : cutAt ':' r1 with
      | none => simp [h2]
      | some av =>
        obtain ⟨a, v⟩ := av
        simp only [h2, List.length_cons, List.length_nil, goIndex]
        by_cases hc : '=' ∈ v
        · obtain ⟨ver, rest, h3⟩ := cutAt_some_of_mem '=' v hc
          simp [hc, splitN2, h3]
        · have h3 := cutAt_none_of_not_mem '=' v hc
          simp [hc, h3]

theorem mapM_gradleLineGo (ls : List Line) : ls.mapM gradleLineGo = some (ls.map gradleLine) := by
  induction ls with
  | nil => rfl
  | cons l ls ih => simp [List.mapM_cons, gradleLineGo_eq, ih]

theorem filterMap_id_map {α β : Type} (f : α → Option β) (l : List α) : (l.map f).filterMap id = l.filterMap f := by
  induction l with
  | nil => rfl
  | cons x xs ih => simp [List.filterMap_cons, ih]

/-- `parse` in terms of the index-free line function -/
theorem parse_eq (bytes : List Char) :
    parse bytes = (if (scan bytes).2 then .err else .ok ((scan bytes).1.filterMap gradleLine)) := by
  unfold parse
  simp only [mapM_gradleLineGo, filterMap_id_map]

end Gradle
namespace Gemfile

theorem specPkgGo_eq (s : List Char) : specPkgGo s = some (specPkg s) := by
  unfold specPkgGo specPkg submatch
  cases h : specNV s [] with
  | none => simp
  | some nv =>
    obtain ⟨n, v⟩ := nv
    simp only [List.length_cons, List.length_nil, goIndex]
    by_cases he : (n.isEmpty || v.isEmpty) = true <;> simp [he]

theorem mapM_specPkgGo (ss : List (List Char)) : ss.mapM specPkgGo = some (ss.map specPkg) := by
  induction ss with
  | nil => rfl
  | cons x xs ih => simp [List.mapM_cons, specPkgGo_eq, ih]

theorem mapM_some {α β : Type} (f : α → Option β) (g : α → β) (h : ∀ x, f x = some (g x)) (l : List α) :
    l.mapM f = some (l.map g) := by
  induction l with
  | nil => rfl
  | cons x xs ih => simp [List.mapM_cons, h, ih]

/-- no index taken by the Gemfile.lock record loop is out of range -/
theorem pkgsOfGo_eq (secs : List Sec) : pkgsOfGo secs = some (pkgsOf secs) := by
  unfold pkgsOfGo pkgsOf
  rw [mapM_some _ (fun sec => if sourceNames.contains sec.name then sec.specs.filterMap specPkg else [])]
  · simp [List.flatMap]
  · intro sec
    by_cases hs : sourceNames.contains sec.name = true
    · simp only [hs, if_true, mapM_specPkgGo, Option.map_some, Gradle.filterMap_id_map]
    · simp only [hs, Bool.false_eq_true, if_false]

theorem parse_eq (bytes : List Char) :
    parse bytes = match gemSections (scan bytes).1 none [] with
      | none => .err
      | some secs => .ok (pkgsOf secs) := by
  unfold parse
  simp only [pkgsOfGo_eq]
  cases gemSections (scan bytes).1 none [] <;> rfl

end Gemfile
end Scalibr.Parsers
