/-
Helper lemmas for C03_gradle: a rendered dependency line parses to its package, a filler line to nothing.
-/
import Scalibr.Spec.Parsers.Gradle
import Scalibr.Proofs.Parsers.Layout
import Scalibr.Proofs.Parsers.Trim
import Scalibr.Proofs.Parsers.Apk
namespace Scalibr.Parsers.Gradle
open Scalibr.Parsers

theorem hasPrefix_cons_ne (a c : Char) (p t : List Char) (h : c ≠ a) : hasPrefix (a :: p) (c :: t) = false := by
  simp [hasPrefix, h]

/-- a line whose text before the first ':' has no '=' does not start with `empty=` -/
theorem not_empty_prefix (g x : List Char) (hg : '=' ∉ g) : hasPrefix "empty=".toList (g ++ ':' :: x) = false := by
  have e : "empty=".toList = ['e', 'm', 'p', 't', 'y', '='] := rfl
  rw [e]
  unfold hasPrefix
  simp only [List.length_cons, List.length_nil]
  rcases g with _ | ⟨a, _ | ⟨b, _ | ⟨c, _ | ⟨d, _ | ⟨e', _ | ⟨f, g'⟩⟩⟩⟩⟩⟩ <;> simp at hg ⊢
  · intro _ _ _ _ _; exact fun h => hg.2.2.2.2.2.1 h.symm

theorem gradleLine_rec (r : GRec) (h : WFrec r) : gradleLine (recLine r) = some (r.group ++ ':' :: r.artifact, r.ver) := by
  obtain ⟨⟨c, t, hg, hc, hne⟩, hg1, hg2, ha1, _, hv, _, _, _, _, hlead, _, _, hane⟩ := h
  -- the line is  lead ++ (p ++ '=' :: rest)  with  p = group:artifact:ver
  have hsplit : recLine r = r.lead ++ ((r.group ++ ':' :: (r.artifact ++ ':' :: r.ver)) ++ '=' :: (r.confs ++ r.trail)) := by
    simp [recLine]
  have hp : (r.group ++ ':' :: (r.artifact ++ ':' :: r.ver)) ++ ['='] = c :: (t ++ ':' :: (r.artifact ++ ':' :: r.ver) ++ ['=']) := by
    rw [hg]; simp
  have heq : graphic '=' := by unfold graphic; decide
  obtain ⟨rest', htrim⟩ := trimSpace_core r.lead _ (r.confs ++ r.trail) c '=' _ hlead hp hc heq
  unfold gradleLine
  rw [hsplit, htrim]
  have h1 : hasPrefix ['#'] ((r.group ++ ':' :: (r.artifact ++ ':' :: r.ver)) ++ '=' :: rest') = false := by
    rw [hg]; exact hasPrefix_cons_ne _ _ _ _ hne
  have h2 : hasPrefix "empty=".toList ((r.group ++ ':' :: (r.artifact ++ ':' :: r.ver)) ++ '=' :: rest') = false := by
    have : (r.group ++ ':' :: (r.artifact ++ ':' :: r.ver)) ++ '=' :: rest' = r.group ++ ':' :: ((r.artifact ++ ':' :: r.ver) ++ '=' :: rest') := by simp
    rw [this]; exact not_empty_prefix _ _ hg2
  simp only [h1, h2, Bool.or_false, Bool.false_eq_true, if_false]
  have c1 : cutAt ':' ((r.group ++ ':' :: (r.artifact ++ ':' :: r.ver)) ++ '=' :: rest')
      = some (r.group, r.artifact ++ ':' :: (r.ver ++ '=' :: rest')) := by
    have : (r.group ++ ':' :: (r.artifact ++ ':' :: r.ver)) ++ '=' :: rest' = r.group ++ ':' :: (r.artifact ++ ':' :: (r.ver ++ '=' :: rest')) := by simp
    rw [this]; exact cutAt_key ':' _ _ hg1
  have c2 : cutAt ':' (r.artifact ++ ':' :: (r.ver ++ '=' :: rest')) = some (r.artifact, r.ver ++ '=' :: rest') :=
    cutAt_key ':' _ _ ha1
  have c3 : cutAt '=' (r.ver ++ '=' :: rest') = some (r.ver, rest') := cutAt_key '=' _ _ hv
  have hgne : r.group ≠ [] := by rw [hg]; simp
  have c1' : cutAt ':' (r.group ++ ':' :: (r.artifact ++ ':' :: (r.ver ++ '=' :: rest')))
      = some (r.group, r.artifact ++ ':' :: (r.ver ++ '=' :: rest')) := by
    have := c1; simpa using this
  simp [c1', c2, c3, hgne, hane]

theorem cutAt_nil (c : Char) : cutAt c [] = none := by simp [cutAt]

theorem gradleLine_filler (f : Filler) (h : WFfiller f) : gradleLine (fillerLine f) = none := by
  cases f with
  | comment lead t =>
    obtain ⟨hl, _, _⟩ := h
    have hh : graphic '#' := by unfold graphic; decide
    obtain ⟨rest', htrim⟩ := trimSpace_core lead [] t '#' '#' [] hl rfl hh hh
    simp only [List.nil_append] at htrim
    simp [gradleLine, fillerLine, htrim, hasPrefix]
  | emptyConf lead t =>
    obtain ⟨hl, _, _⟩ := h
    have he : graphic 'e' := by unfold graphic; decide
    have heq : graphic '=' := by unfold graphic; decide
    obtain ⟨rest', htrim⟩ := trimSpace_core lead "empty".toList t 'e' '=' "mpty=".toList hl rfl he heq
    have e1 : lead ++ ("empty=".toList ++ t) = lead ++ ("empty".toList ++ '=' :: t) := rfl
    simp only [gradleLine, fillerLine, e1, htrim]
    have : hasPrefix "empty=".toList ("empty".toList ++ '=' :: rest') = true := by simp [hasPrefix]
    rw [this]; simp
  | blank ws =>
    obtain ⟨hl, _⟩ := h
    simp [gradleLine, fillerLine, trimSpace_all_ws ws hl, hasPrefix, cutAt_nil]

theorem filterMap_fillers (fs : List Filler) (h : ∀ f ∈ fs, WFfiller f) : (fs.map fillerLine).filterMap gradleLine = [] := by
  induction fs with
  | nil => rfl
  | cons f fs ih =>
    simp only [List.map_cons, List.filterMap_cons, gradleLine_filler f (h f (by simp))]
    exact ih (fun x hx => h x (by simp [hx]))

theorem filterMap_body (before : Nat → List Filler) : ∀ (rs : List GRec) (i : Nat), WF rs →
    (∀ j, i ≤ j → j < i + rs.length → ∀ f ∈ before j, WFfiller f) →
    (bodyLines before i rs).filterMap gradleLine = installed rs := by
  intro rs
  induction rs with
  | nil => intro i _ _; rfl
  | cons r rest ih =>
    intro i hwf hb
    simp only [bodyLines, List.filterMap_append, List.filterMap_cons,
      filterMap_fillers (before i) (hb i (Nat.le_refl _) (by simp)), gradleLine_rec r (hwf r (by simp)), List.nil_append]
    rw [ih (i + 1) (fun x hx => hwf x (by simp [hx])) (fun j h1 h2 => hb j (by omega) (by simp; omega))]
    simp [installed]

theorem inlineWs_ok (ws : List Char) (h : inlineWs ws) : okText ws := by
  constructor
  · intro hm; rcases h _ hm with e | e | e | e <;> simp at e
  · intro hm; rcases h _ hm with e | e | e | e <;> simp at e

theorem okText_append (a b : List Char) (ha : okText a) (hb : okText b) : okText (a ++ b) := by
  unfold okText at *; simp only [List.mem_append]; exact ⟨fun h => h.elim ha.1 hb.1, fun h => h.elim ha.2 hb.2⟩

theorem okText_cons (c : Char) (b : List Char) (hc : c ≠ '\n' ∧ c ≠ '\r') (hb : okText b) : okText (c :: b) := by
  unfold okText at *; simp only [List.mem_cons]
  exact ⟨fun h => h.elim (fun e => hc.1 e.symm) hb.1, fun h => h.elim (fun e => hc.2 e.symm) hb.2⟩

theorem recLine_clean (r : GRec) (h : WFrec r) : cleanLine (recLine r) := by
  obtain ⟨_, _, _, _, _, _, og, oa, ov, oc, hlead, htrail, hlen⟩ := h
  have : okText (recLine r) := by
    unfold recLine
    refine okText_append _ _ (inlineWs_ok _ hlead) (okText_append _ _ og (okText_cons _ _ (by decide)
      (okText_append _ _ oa (okText_cons _ _ (by decide) (okText_append _ _ ov (okText_cons _ _ (by decide)
        (okText_append _ _ oc (inlineWs_ok _ htrail))))))))
  exact ⟨this.1, this.2, hlen.1⟩

theorem fillerLine_clean (f : Filler) (h : WFfiller f) : cleanLine (fillerLine f) := by
  cases f with
  | comment lead t =>
    obtain ⟨hl, ht, hlen⟩ := h
    have := okText_append _ _ (inlineWs_ok _ hl) (okText_cons '#' _ (by decide) ht)
    exact ⟨this.1, this.2, hlen⟩
  | emptyConf lead t =>
    obtain ⟨hl, ht, hlen⟩ := h
    have he : okText "empty=".toList := by unfold okText; decide
    have := okText_append _ _ (inlineWs_ok _ hl) (okText_append _ _ he ht)
    exact ⟨this.1, this.2, hlen⟩
  | blank ws =>
    obtain ⟨hl, hlen⟩ := h
    have := inlineWs_ok _ hl
    exact ⟨this.1, this.2, hlen⟩

theorem bodyLines_clean (before : Nat → List Filler) : ∀ (rs : List GRec) (i : Nat), WF rs →
    (∀ j, i ≤ j → j < i + rs.length → ∀ f ∈ before j, WFfiller f) →
    ∀ l ∈ bodyLines before i rs, cleanLine l := by
  intro rs
  induction rs with
  | nil => intro i _ _ l hl; simp [bodyLines] at hl
  | cons r rest ih =>
    intro i hwf hb l hl
    simp only [bodyLines, List.mem_append, List.mem_cons, List.mem_map] at hl
    rcases hl with ⟨f, hf, rfl⟩ | rfl | hl
    · exact fillerLine_clean f (hb i (Nat.le_refl _) (by simp) f hf)
    · exact recLine_clean r (hwf r (by simp))
    · exact ih (i + 1) (fun x hx => hwf x (by simp [hx])) (fun j h1 h2 => hb j (by omega) (by simp; omega)) l hl

end Scalibr.Parsers.Gradle
