/-
Helper lemmas for C03_gemfile: the hand-written matcher on a rendered spec line, and `parseLockfileSections`
over rendered sections.
-/
import Scalibr.Spec.Parsers.Gemfile
import Scalibr.Proofs.Parsers.Layout
import Scalibr.Proofs.Parsers.Gradle
namespace Scalibr.Parsers.Gemfile
open Scalibr.Parsers

theorem takeWhile_ne_all (c : Char) (l rest : List Char) (h : c ∉ l) :
    (l ++ c :: rest).takeWhile (· ≠ c) = l := by
  have hall : ∀ x ∈ l, (decide (x ≠ c)) = true := by
    intro x hx; simp; intro e; subst e; exact h hx
  rw [List.takeWhile_append_of_pos hall]; simp

theorem takeWhile_ne_none (c : Char) (l : List Char) (h : c ∉ l) : l.takeWhile (· ≠ c) = l := by
  have hall : ∀ x ∈ l, (decide (x ≠ c)) = true := by
    intro x hx; simp; intro e; subst e; exact h hx
  exact takeWhile_all _ _ hall

/-- `name (version)`: the group matches with the whole version -/
theorem tryLen_plain (v : List Char) (hv : v ≠ []) :
    tryLen (v ++ [')']) (v.length + 1) = some v := by
  obtain ⟨k, hk⟩ : ∃ k, v.length = k + 1 := ⟨v.length - 1, by cases v <;> simp_all⟩
  have h1 : check (v ++ [')']) (v.length + 1) = none := by
    unfold check
    have : (v ++ [')'])[v.length + 1]? = none := by simp
    rw [this]
  have h2 : check (v ++ [')']) v.length = some v := by
    unfold check
    have : (v ++ [')'])[v.length]? = some ')' := by simp
    rw [this]
    simp [tailOk]
  rw [tryLen, h1]
  simp only []
  rw [hk, tryLen, ← hk, h2]

/-- `name (version-platform)`: the group matches with the text before the dash -/
theorem tryLen_plat (v p : List Char) (hv : v ≠ []) :
    tryLen (v ++ '-' :: (p ++ [')'])) v.length = some v := by
  obtain ⟨k, hk⟩ : ∃ k, v.length = k + 1 := ⟨v.length - 1, by cases v <;> simp_all⟩
  have h2 : check (v ++ '-' :: (p ++ [')'])) v.length = some v := by
    unfold check
    have : (v ++ '-' :: (p ++ [')']))[v.length]? = some '-' := by simp
    rw [this]
    have hd : (v ++ '-' :: (p ++ [')'])).drop (v.length + 1) = p ++ [')'] := by
      rw [List.drop_append]; simp
    simp [hd]
  rw [hk, tryLen, ← hk, h2]

theorem matchRest_spec (v : List Char) (plat : Option (List Char)) (hv : v ≠ []) (hd : '-' ∉ v) :
    matchRest (' ' :: '(' :: (v ++ platTail plat)) = some v := by
  unfold matchRest groupMatch
  cases plat with
  | none =>
    have hm : ((v ++ [')']).takeWhile (· ≠ '-')).length = v.length + 1 := by
      rw [takeWhile_ne_none '-' (v ++ [')']) (by simp [hd])]; simp
    simp only [platTail, hm, tryLen_plain v hv]
  | some p =>
    have hm : ((v ++ '-' :: (p ++ [')'])).takeWhile (· ≠ '-')).length = v.length := by
      rw [takeWhile_ne_all '-' v _ hd]
    simp only [platTail, hm, tryLen_plat v p hv]

theorem groupMatch_name (c : Char) (t : List Char) (hc : c ≠ ' ') : groupMatch (c :: t) = none := by
  unfold groupMatch
  split
  · rename_i h; simp at h; exact absurd h.1 hc
  · rfl

theorem matchRest_name (c : Char) (t : List Char) (hc : c ≠ ' ') (ht : t ≠ []) : matchRest (c :: t) = none := by
  unfold matchRest
  rw [groupMatch_name c t hc]
  have : tailOk (c :: t) = false := by
    unfold tailOk
    cases t with
    | nil => exact absurd rfl ht
    | cons x xs => simp
  simp [this]

/-- the lazy name: every proper prefix of a space-free name fails, the whole name succeeds -/
theorem specNV_name (n rest : List Char) (hn : ' ' ∉ n) (hr : rest ≠ []) :
    ∀ acc, specNV (n ++ rest) acc = specNV rest (n.reverse ++ acc) := by
  induction n with
  | nil => intro acc; rfl
  | cons c n ih =>
    intro acc
    have hc : c ≠ ' ' := by intro e; subst e; simp at hn
    have hn' : ' ' ∉ n := by intro h; exact hn (by simp [h])
    have ht : n ++ rest ≠ [] := by simp [hr]
    rw [List.cons_append, specNV, matchRest_name c _ hc ht]
    simp only []
    rw [ih hn' (c :: acc)]
    simp

theorem specPkg_spec (n v : List Char) (plat : Option (List Char)) (hn : n ≠ []) (hsp : ' ' ∉ n) (hv : v ≠ []) (hd : '-' ∉ v) :
    specPkg (specText n v plat) = some (n, v) := by
  unfold specPkg specText
  rw [specNV_name n _ hsp (by simp) []]
  rw [specNV, matchRest_spec v plat hv hd]
  simp only [List.append_nil, List.reverse_reverse]
  have h1 : n.isEmpty = false := by cases n <;> simp_all
  have h2 : v.isEmpty = false := by cases v <;> simp_all
  simp [h1, h2]

/-! `parseLockfileSections` over rendered sections -/

def itemText : Item → Option (List Char)
  | .spec n v p => some (specText n v p)
  | _ => none

def specTexts (items : List Item) : List (List Char) := items.filterMap itemText

theorem specTexts_blank (items : List Item) : specTexts (.blank :: items) = specTexts items := rfl
theorem specTexts_aux (k : Nat) (t : List Char) (items : List Item) : specTexts (.aux k t :: items) = specTexts items := rfl
theorem specTexts_spec (n v : List Char) (p : Option (List Char)) (items : List Item) :
    specTexts (.spec n v p :: items) = specText n v p :: specTexts items := rfl

theorem takeWhile_nospace (t : List Char) (ht : t.head? ≠ some ' ') : t.takeWhile (· = ' ') = [] := by
  cases t with
  | nil => rfl
  | cons c t =>
    have : c ≠ ' ' := by intro e; subst e; simp at ht
    simp [List.takeWhile_cons, this]

theorem takeWhile_spaces (k : Nat) (t : List Char) (ht : t.head? ≠ some ' ') :
    ((List.replicate k ' ' ++ t).takeWhile (· = ' ')).length = k := by
  induction k with
  | zero => simp [takeWhile_nospace t ht]
  | succ k ih =>
    simp only [List.replicate_succ, List.cons_append, List.takeWhile_cons, decide_true, if_true, List.length_cons, ih]

theorem gemSections_items (rest : List Line) (acc : List Sec) : ∀ (items : List Item), (∀ i ∈ items, WFitem i) →
    ∀ c : Sec, gemSections (items.map itemLine ++ rest) (some c) acc
      = gemSections rest (some ⟨c.name, c.specs ++ specTexts items⟩) acc := by
  intro items
  induction items with
  | nil => intro _ c; simp [specTexts]
  | cons it items ih =>
    intro hwf c
    have hi := hwf it (by simp)
    have ih' := ih (fun x hx => hwf x (by simp [hx]))
    cases it with
    | blank =>
      simp only [List.map_cons, List.cons_append, itemLine, gemSections, List.isEmpty_nil, if_true]
      rw [ih' c, specTexts_blank]
    | spec n v p =>
      obtain ⟨hn, hsp, _⟩ := hi
      have hhead : (specText n v p).head? ≠ some ' ' := by
        unfold specText
        cases n with
        | nil => exact absurd rfl hn
        | cons x xs => simp; intro e; subst e; simp at hsp
      have hind : ((' ' :: ' ' :: ' ' :: ' ' :: specText n v p).takeWhile (· = ' ')).length = 4 := by
        have := takeWhile_spaces 4 (specText n v p) hhead
        simpa [List.replicate] using this
      simp only [List.map_cons, List.cons_append, itemLine, gemSections, List.isEmpty_cons, Bool.false_eq_true, if_false, hind]
      have h40 : ¬ (4 : Nat) = 0 := by decide
      simp only [h40, if_false, if_true, addSpec, List.drop_succ_cons, List.drop_zero]
      rw [ih' _, specTexts_spec]
      simp [List.append_assoc]
    | aux k t =>
      obtain ⟨hk0, hk4, hhead, _, _⟩ := hi
      have hind := takeWhile_spaces k t hhead
      have hne : (List.replicate k ' ' ++ t).isEmpty = false := by
        cases k with
        | zero => exact absurd rfl hk0
        | succ k => simp [List.replicate_succ]
      simp only [List.map_cons, itemLine, List.cons_append, gemSections, hne, Bool.false_eq_true, if_false, hind, hk0, hk4]
      have : specTexts (Item.aux k t :: items) = specTexts items := specTexts_aux k t items
      rw [this]
      split
      · exact ih' c
      · exact ih' c

theorem gemSections_blanks (k : Nat) (rest : List Line) (cur : Option Sec) (acc : List Sec) :
    gemSections (List.replicate k [] ++ rest) cur acc = gemSections rest cur acc := by
  induction k with
  | zero => simp
  | succ k ih => simp [List.replicate_succ, gemSections, ih]

theorem gemSections_header (name : List Char) (rest : List Line) (cur : Option Sec) (acc : List Sec)
    (hne : name ≠ []) (hh : name.head? ≠ some ' ') :
    gemSections (name :: rest) cur acc = gemSections rest (some ⟨name, []⟩) (flush cur acc) := by
  have h1 : name.isEmpty = false := by cases name <;> simp_all
  have h2 : (name.takeWhile (· = ' ')).length = 0 := by
    have := takeWhile_spaces 0 name hh
    simpa using this
  simp [gemSections, h1, h2]

def toSec (s : GSec) : Sec := ⟨s.name, specTexts s.items⟩

theorem gemSections_body (lead : Nat → Nat) : ∀ (secs : List GSec), WF secs → ∀ (i : Nat) (cur : Option Sec) (acc : List Sec),
    gemSections (bodyLines lead i secs) cur acc = some (flush cur acc ++ secs.map toSec) := by
  intro secs
  induction secs with
  | nil => intro _ i cur acc; simp [bodyLines, gemSections]
  | cons s rest ih =>
    intro hwf i cur acc
    obtain ⟨hne, hh, _, _, hitems⟩ := hwf s (by simp)
    simp only [bodyLines, secLines]
    rw [List.append_assoc, gemSections_blanks, List.cons_append, gemSections_header s.name _ cur acc hne hh,
      gemSections_items _ _ s.items hitems ⟨s.name, []⟩, ih (fun x hx => hwf x (by simp [hx]))]
    simp [flush, toSec]

theorem pkgs_of_items : ∀ (items : List Item), (∀ i ∈ items, WFitem i) →
    (specTexts items).filterMap specPkg = items.filterMap itemPkg := by
  intro items
  induction items with
  | nil => intro _; rfl
  | cons it items ih =>
    intro hwf
    have ih' := ih (fun x hx => hwf x (by simp [hx]))
    cases it with
    | blank => simp only [specTexts, List.filterMap_cons, itemText, itemPkg] at ih' ⊢; exact ih'
    | aux k t => simp only [specTexts, List.filterMap_cons, itemText, itemPkg] at ih' ⊢; exact ih'
    | spec n v p =>
      obtain ⟨hn, hsp, hv, hd, _⟩ := hwf (.spec n v p) (by simp)
      have := specPkg_spec n v p hn hsp hv hd
      simp only [specTexts, List.filterMap_cons, itemText, itemPkg, this] at ih' ⊢
      rw [ih']

theorem pkgsOf_toSec (secs : List GSec) (hwf : WF secs) : pkgsOf (secs.map toSec) = installed secs := by
  induction secs with
  | nil => rfl
  | cons s rest ih =>
    have := pkgs_of_items s.items (hwf s (by simp)).2.2.2.2
    simp only [pkgsOf, installed, List.map_cons, List.flatMap_cons, toSec] at ih ⊢
    rw [ih (fun x hx => hwf x (by simp [hx]))]
    split <;> simp [this]

/-! clean lines -/

theorem replicate_space_ok (k : Nat) : okText (List.replicate k ' ') := by
  constructor <;> (intro h; have := List.eq_of_mem_replicate h; simp at this)

theorem itemLine_clean (it : Item) (h : WFitem it) : cleanLine (itemLine it) := by
  cases it with
  | blank => unfold cleanLine itemLine maxTok; simp
  | aux k t =>
    obtain ⟨_, _, _, ht, hlen⟩ := h
    have := Gradle.okText_append _ _ (replicate_space_ok k) ht
    exact ⟨this.1, this.2, hlen⟩
  | spec n v p =>
    obtain ⟨_, _, _, _, on, ov, op, hlen⟩ := h
    have hp : okText (platTail p) := by
      match p, op with
      | none, _ => unfold okText platTail; decide
      | some q, op => exact Gradle.okText_cons _ _ (by decide) (Gradle.okText_append _ _ (op q rfl) (by unfold okText; decide))
    have : okText (itemLine (.spec n v p)) := by
      unfold itemLine specText
      exact Gradle.okText_cons _ _ (by decide) (Gradle.okText_cons _ _ (by decide) (Gradle.okText_cons _ _ (by decide) (Gradle.okText_cons _ _ (by decide)
        (Gradle.okText_append _ _ on (Gradle.okText_cons _ _ (by decide) (Gradle.okText_cons _ _ (by decide) (Gradle.okText_append _ _ ov hp)))))))
    exact ⟨this.1, this.2, hlen⟩

theorem bodyLines_clean (lead : Nat → Nat) : ∀ (secs : List GSec), WF secs → ∀ i, ∀ l ∈ bodyLines lead i secs, cleanLine l := by
  intro secs
  induction secs with
  | nil => intro _ i l hl; simp [bodyLines] at hl
  | cons s rest ih =>
    intro hwf i l hl
    obtain ⟨_, _, hn, hlen, hitems⟩ := hwf s (by simp)
    simp only [bodyLines, secLines, List.mem_append, List.mem_cons, List.mem_map] at hl
    rcases hl with (hl | rfl | ⟨it, hit, rfl⟩) | hl
    · rw [List.eq_of_mem_replicate hl]; unfold cleanLine maxTok; simp
    · exact ⟨hn.1, hn.2, hlen⟩
    · exact itemLine_clean it (hitems it hit)
    · exact ih (fun x hx => hwf x (by simp [hx])) (i + 1) l hl

end Scalibr.Parsers.Gemfile
