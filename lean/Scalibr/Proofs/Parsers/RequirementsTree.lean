/-
Proofs for the `-r` include closure of requirements files:
  (1) what one rendered file contributes to the queue: `includes (render ℓ rs) = targets`
  (2) the work list `walk` (any `visit` function): safety for every fuel, completeness and fuel independence above the bound
-/
import Scalibr.Proofs.Parsers.Requirements
import Scalibr.Spec.Parsers.RequirementsTree
namespace Scalibr.Parsers.Requirements
open Scalibr.Parsers

/-! ### (1) include operands of a rendered file -/

theorem normLine_nil : normLine [] = [] := by
  simp [normLine, cutOptions, beforeSemi, cutAt, rmExtras]

theorem lineInc_nil : lineInc [] = none := by
  simp [lineInc, normLine_nil, hasPrefix]

theorem lineInc_ws (w : List Char) (h : spTab w) : lineInc w = none := by
  have hhead : w.head? ≠ some '-' := by
    cases w with
    | nil => simp
    | cons c t => simp; rcases h c (by simp) with e | e <;> (rw [e]; decide)
  have hcut : cutOptions w [] = w := by rw [cutOptions_safe w [] (optSafe_spTab w h) (fun _ => hhead)]; rfl
  have hf : w.filter (fun c => !(c = ' ' || c = '\t' || c = '\r')) = [] := filter_spTab w h
  unfold lineInc normLine
  simp only [hcut, hf]
  simp [beforeSemi, cutAt, rmExtras, hasPrefix]

/-- the normalised line of a requirement is `name op version` -/
theorem normLine_rec (r : GRec) (hw : WFrec r) : normLine (r.lead ++ core r) = r.name ++ (opText r.op ++ r.ver) := by
  have pc := pieces r hw
  have hsafe : optSafe (r.lead ++ core r) = true := hw.2.2.2.2.2.2.2.2.1
  have hcut : cutOptions (r.lead ++ core r) [] = r.lead ++ core r := by
    rw [cutOptions_safe _ [] hsafe (fun _ => optSafe_spTab_head r hw)]; rfl
  have hfil := filter_core r hw
  have hsemi : ';' ∉ r.name ++ (extrasText (r.extras.map (·.filter notWs)) ++ (opText r.op ++ r.ver)) := by
    intro hm
    have : ';' ∈ (r.lead ++ core r).filter notWs := by rw [hfil]; exact hm
    exact core_free r hw ';' (by simp) (List.mem_filter.mp this).1
  have hname_nb : '[' ∉ r.name := by
    intro hm; exact (nameChar_not_special _ (pc.nameCh _ hm)).1 (by decide)
  have hext : rmExtras (r.name ++ (extrasText (r.extras.map (·.filter notWs)) ++ (opText r.op ++ r.ver))) none []
      = r.name ++ (opText r.op ++ r.ver) := by
    rw [rmExtras_plain _ _ hname_nb]
    have htail : ∀ out, rmExtras (opText r.op ++ r.ver) none out = out.reverse ++ (opText r.op ++ r.ver) := by
      intro out
      have hnb : '[' ∉ opText r.op ++ r.ver := by
        intro hm
        rcases List.mem_append.mp hm with hm | hm
        · exact opText_nb r.op hm
        · exact verChar_not_special _ (pc.verCh _ hm) (by decide)
      have := rmExtras_plain (opText r.op ++ r.ver) [] hnb out
      rw [List.append_nil] at this
      rw [this, rmExtras_nil]; simp
    cases he : r.extras with
    | none => simp [extrasText, htail]
    | some e =>
      have hinner : ∀ x ∈ e.filter notWs, x ≠ '[' ∧ x ≠ ']' := by
        intro x hx
        have := hw.2.2.2.1 e he x (List.mem_filter.mp hx).1
        exact ⟨this.1, this.2.1⟩
      simp only [Option.map_some, extrasText, List.cons_append, List.append_assoc, List.nil_append, List.append_nil]
      rw [show rmExtras ('[' :: (e.filter notWs ++ ']' :: (opText r.op ++ r.ver))) none r.name.reverse
            = rmExtras (e.filter notWs ++ ']' :: (opText r.op ++ r.ver)) (some ['[']) r.name.reverse by simp [rmExtras]]
      rw [rmExtras_inner _ _ _ _ hinner, htail]; simp
  unfold normLine
  simp only [hcut]
  have hf : (r.lead ++ core r).filter (fun c => !(c = ' ' || c = '\t' || c = '\r')) = (r.lead ++ core r).filter notWs := rfl
  rw [hf, hfil, beforeSemi_none _ hsemi, hext]

theorem lineInc_rec (r : GRec) (hw : WFrec r) : lineInc (r.lead ++ core r) = none := by
  have pc := pieces r hw
  obtain ⟨c, t, hn, hc⟩ := pc.nameHead
  unfold lineInc
  simp only [normLine_rec r hw, hn, List.cons_append]
  have : c ≠ '-' := by rintro rfl; revert hc; decide
  simp [hasPrefix, this]

/-- an option line whose first character after the '-' is a name character other than 'r' is not an include -/
theorem lineInc_plain (t : List Char) (hp : plainOpt t = true) : lineInc ('-' :: t) = none := by
  cases t with
  | nil =>
    have : cutOptions ['-'] [] = [] ∨ cutOptions ['-'] [] = ['-'] := by
      simp only [cutOptions]; split <;> simp [cutOptions]
    unfold lineInc normLine
    rcases this with h | h <;> simp [h, beforeSemi, cutAt, rmExtras, hasPrefix]
  | cons c t' =>
    have hc : (isW c || c = '-' || c = '.') = true ∧ c ≠ 'r' := by
      simpa [plainOpt, Bool.and_eq_true] using hp
    have hnc : nameChar c = true := by
      unfold nameChar
      have := hc.1
      simp only [Bool.or_eq_true, decide_eq_true_eq] at this ⊢
      rcases this with (h | h) | h
      · exact Or.inl (Or.inl h)
      · exact Or.inr h
      · exact Or.inl (Or.inr h)
    have hns := (nameChar_not_special c hnc).1
    have hws : (!(c = ' ' || c = '\t' || c = '\r')) = true := notWs_of_ge c (nameChar_ge c hnc)
    have hsemi : c ≠ ';' := by rintro rfl; exact hns (by decide)
    have hbr : c ≠ '[' := by rintro rfl; exact hns (by decide)
    have hshape : cutOptions ('-' :: c :: t') [] = [] ∨ cutOptions ('-' :: c :: t') [] = ['-']
        ∨ ∃ z, cutOptions ('-' :: c :: t') [] = '-' :: c :: z := by
      simp only [cutOptions]
      split
      · left; rfl
      · split
        · right; left; rfl
        · right; right
          obtain ⟨z, hz⟩ := cutOptions_acc t' [c, '-']
          exact ⟨z, by rw [hz]; rfl⟩
    unfold lineInc normLine
    rcases hshape with h | h | ⟨z, h⟩
    · simp [h, beforeSemi, cutAt, rmExtras, hasPrefix]
    · simp [h, beforeSemi, cutAt, rmExtras, hasPrefix]
    · simp only [h]
      have hd : (!('-' = ' ' || '-' = '\t' || '-' = '\r')) = true := by decide
      simp only [List.filter_cons, hd, hws, if_true]
      generalize z.filter (fun c => !(c = ' ' || c = '\t' || c = '\r')) = y
      have hl3 : ∃ y', beforeSemi ('-' :: c :: y) = '-' :: c :: y' := by
        have hk : ('-' :: c :: y).takeWhile (· ≠ ';') = '-' :: c :: y.takeWhile (· ≠ ';') := by
          simp [List.takeWhile_cons, hsemi]
        unfold beforeSemi cutAt
        simp only [hk]
        by_cases hlt : ('-' :: c :: y.takeWhile (· ≠ ';')).length < ('-' :: c :: y).length
        · simp only [hlt, if_true]; exact ⟨_, rfl⟩
        · simp only [hlt, if_false]; exact ⟨_, rfl⟩
      obtain ⟨y', hy'⟩ := hl3
      simp only [hy']
      obtain ⟨z', hz'⟩ := rmExtras_acc y' none [c, '-']
      have hre : rmExtras ('-' :: c :: y') none [] = '-' :: c :: z' := by
        simp only [rmExtras, show ('-' = '[') = False by decide, hbr, if_false]
        rw [hz']; rfl
      simp [hre, hasPrefix, hc.2]

theorem optSafe_noS (l : List Char) (h : ∀ c ∈ l, isS c = false) : optSafe l = true := by
  induction l with
  | nil => rfl
  | cons c l ih =>
    cases l with
    | nil => rfl
    | cons d l' =>
      simp only [optSafe, h c (by simp), Bool.false_and, Bool.not_false, Bool.true_and]
      exact ih (fun x hx => h x (by simp [hx]))

theorem optSafe_sp_append (sp t : List Char) (hs : spTab sp) (hh : t.head? ≠ some '-') (ht : optSafe t = true) :
    optSafe (sp ++ t) = true := by
  induction sp with
  | nil => simpa using ht
  | cons a sp ih =>
    have ih' := ih (fun x hx => hs x (by simp [hx]))
    cases hst : sp ++ t with
    | nil => simp [hst, optSafe]
    | cons d rest =>
      have hd : d ≠ '-' := by
        cases sp with
        | nil =>
          simp at hst; intro e; subst e; rw [hst] at hh; simp at hh
        | cons b sp' =>
          simp at hst
          have := hs b (by simp)
          rw [hst.1] at this
          intro e; subst e; rcases this with e | e <;> cases e
      rw [List.cons_append, hst]
      simp only [optSafe, hd, decide_false, Bool.and_false, Bool.not_false, Bool.true_and]
      rw [← hst]; exact ih'

/-- `-r<blanks><path>` is an include of `<path>` -/
theorem lineInc_incl (sp t : List Char) (hw : WFfiller (.incl sp t)) : lineInc ('-' :: 'r' :: (sp ++ t)) = some t := by
  obtain ⟨hs, hne, ht, hh, _⟩ := hw
  have htc : ∀ c ∈ t, pathChar c = true := List.all_eq_true.mp ht
  have htS : ∀ c ∈ t, isS c = false := by
    intro c hc
    rcases pathChar_cases c (htc c hc) with h | h
    · exact isS_of_ge c (nameChar_ge c h)
    · subst h; decide
  have hsafe : optSafe ('r' :: (sp ++ t)) = true := by
    have h1 := optSafe_sp_append sp t hs hh (optSafe_noS t htS)
    cases hst : sp ++ t with
    | nil => rfl
    | cons d rest =>
      simp only [optSafe, show isS 'r' = false by decide, Bool.false_and, Bool.not_false, Bool.true_and]
      rw [← hst]; exact h1
  have hcut : cutOptions ('-' :: 'r' :: (sp ++ t)) [] = '-' :: 'r' :: (sp ++ t) := by
    have h0 : optAt ('-' :: 'r' :: (sp ++ t)) = false := by
      simp [optAt, optionStarts, hasPrefix]
    have e1 : cutOptions ('-' :: 'r' :: (sp ++ t)) [] = cutOptions ('r' :: (sp ++ t)) ['-'] := by
      rw [cutOptions]
      simp only [h0, show isS '-' = false by decide, Bool.and_false, Bool.false_and, Bool.or_self,
        Bool.false_eq_true, if_false]
    rw [e1, cutOptions_safe _ ['-'] hsafe (by simp)]; rfl
  have hfil : ('-' :: 'r' :: (sp ++ t)).filter notWs = '-' :: 'r' :: t := by
    have h1 : notWs '-' = true := by decide
    have h2 : notWs 'r' = true := by decide
    simp only [List.filter_cons, h1, h2, if_true, List.filter_append, filter_spTab sp hs, List.nil_append]
    rw [filter_keep t (fun c hc => by
      rcases pathChar_cases c (htc c hc) with h | h
      · exact notWs_of_ge c (nameChar_ge c h)
      · subst h; decide)]
  have hsemi : ';' ∉ '-' :: 'r' :: t := by
    intro hm
    simp only [List.mem_cons] at hm
    rcases hm with e | e | e
    · cases e
    · cases e
    · exact pathChar_not_special _ (htc _ e) (by decide)
  have hnb : '[' ∉ '-' :: 'r' :: t := by
    intro hm
    simp only [List.mem_cons] at hm
    rcases hm with e | e | e
    · cases e
    · cases e
    · exact pathChar_not_special _ (htc _ e) (by decide)
  have hext : rmExtras ('-' :: 'r' :: t) none [] = '-' :: 'r' :: t := by
    have := rmExtras_plain ('-' :: 'r' :: t) [] hnb []
    rw [List.append_nil] at this
    rw [this, rmExtras_nil]; simp
  unfold lineInc normLine
  simp only [hcut]
  have hf : ('-' :: 'r' :: (sp ++ t)).filter (fun c => !(c = ' ' || c = '\t' || c = '\r')) = ('-' :: 'r' :: (sp ++ t)).filter notWs := rfl
  rw [hf, hfil, beforeSemi_none _ hsemi, hext]
  simp [hasPrefix]

/-- lines that are logical lines on their own, with what they add to the include queue -/
def SingleI (l : Line) (out : Option Line) : Prop :=
  ∀ rest, ∃ g, readLogical (l :: rest) [] = (g, rest) ∧ lineInc g = out

theorem incLoop_singles : ∀ (ls : List (Line × Option Line)), (∀ x ∈ ls, SingleI x.1 x.2) →
    ∀ (fuel : Nat) (acc : List Line), ls.length ≤ fuel →
      incLoop fuel (ls.map (·.1)) acc = acc ++ ls.filterMap (·.2) := by
  intro ls
  induction ls with
  | nil => intro _ fuel acc _; cases fuel <;> simp [incLoop]
  | cons x ls ih =>
    intro hs fuel acc hf
    obtain ⟨f, rfl⟩ : ∃ f, fuel = f + 1 := ⟨fuel - 1, by simp at hf; omega⟩
    obtain ⟨g, hg, hout⟩ := hs x (by simp) (ls.map (·.1))
    simp only [List.map_cons, incLoop, hg, hout]
    rw [ih (fun y hy => hs y (by simp [hy])) f _ (by simp at hf; omega)]
    cases hx : x.2 with
    | none => simp [hx]
    | some pr => simp [hx]

theorem fillerT_single (f : Filler) (hw : WFfillerT f) : SingleI (fillerLine f) (incOf f) := by
  intro rest
  cases f with
  | blank ws =>
    obtain ⟨⟨hs, _⟩, _⟩ := hw
    have hno : '#' ∉ ws := by intro hm; rcases hs _ hm with e | e <;> cases e
    have hcm : rmComment ws [] [] = ws := by rw [rmComment_clean ws hno]; simp
    refine ⟨ws, ?_, lineInc_ws ws hs⟩
    have h1 : hasEnvVar ws = false := hasEnvVar_none _ (by intro hm; rcases hs _ hm with e | e <;> cases e)
    have h2 : ws.getLast? ≠ some '\\' := by
      intro e; have := List.mem_of_getLast? e; rcases hs _ this with e' | e' <;> cases e'
    simpa [fillerLine, hcm] using readLogical_single ws rest (by rw [hcm]; exact h1) (by rw [hcm]; exact h2)
  | comment ws t =>
    obtain ⟨⟨hs, _, _⟩, _⟩ := hw
    have hcm : rmComment (ws ++ '#' :: t) [] [] = [] := by
      cases ws with
      | nil => simp [rmComment]
      | cons a b => rw [rmComment_ws (a :: b) t (spTab_isS _ hs) (by simp)]; rfl
    refine ⟨[], ?_, lineInc_nil⟩
    simpa [fillerLine, hcm] using readLogical_single (ws ++ '#' :: t) rest (by rw [hcm]; rfl) (by rw [hcm]; simp)
  | option t => exact ⟨'-' :: t, option_logical t hw.1 rest, lineInc_plain t hw.2⟩
  | incl sp t =>
    exact ⟨'-' :: 'r' :: (sp ++ t), option_logical _ (include_option sp t hw.1) rest, lineInc_incl sp t hw.1⟩

abbrev PairI := Line × Option Line

def fillerPairsI (fs : List Filler) : List PairI := fs.map fun f => (fillerLine f, incOf f)

def bodyPairsI (before : Nat → List Filler) : Nat → List GRec → List PairI
  | _, [] => []
  | i, r :: rest => fillerPairsI (before i) ++ (recLine r, none) :: bodyPairsI before (i + 1) rest

theorem fillerPairsI_fst (fs : List Filler) : (fillerPairsI fs).map (·.1) = fs.map fillerLine := by
  simp [fillerPairsI, List.map_map, Function.comp_def]

theorem fillerPairsI_snd (fs : List Filler) : (fillerPairsI fs).filterMap (·.2) = fs.filterMap incOf := by
  induction fs with
  | nil => rfl
  | cons f fs ih =>
    simp only [fillerPairsI, List.map_cons, List.filterMap_cons] at ih ⊢
    cases incOf f <;> simp [ih]

theorem bodyPairsI_fst (before : Nat → List Filler) : ∀ (rs : List GRec) (i : Nat),
    (bodyPairsI before i rs).map (·.1) = bodyLines before i rs := by
  intro rs
  induction rs with
  | nil => intro i; rfl
  | cons r rest ih => intro i; simp [bodyPairsI, bodyLines, fillerPairsI_fst, ih]

theorem bodyPairsI_snd (before : Nat → List Filler) : ∀ (rs : List GRec) (i : Nat),
    (bodyPairsI before i rs).filterMap (·.2) = bodyIncs before i rs := by
  intro rs
  induction rs with
  | nil => intro i; rfl
  | cons r rest ih => intro i; simp [bodyPairsI, bodyIncs, fillerPairsI_snd, ih]

theorem fillerPairsI_single (fs : List Filler) (h : ∀ f ∈ fs, WFfillerT f) : ∀ x ∈ fillerPairsI fs, SingleI x.1 x.2 := by
  intro x hx
  simp only [fillerPairsI, List.mem_map] at hx
  obtain ⟨f, hf, rfl⟩ := hx
  exact fillerT_single f (h f hf)

theorem bodyPairsI_single (before : Nat → List Filler) : ∀ (rs : List GRec) (i : Nat), WF rs →
    (∀ j, i ≤ j → j < i + rs.length → ∀ f ∈ before j, WFfillerT f) → ∀ x ∈ bodyPairsI before i rs, SingleI x.1 x.2 := by
  intro rs
  induction rs with
  | nil => intro i _ _ x hx; simp [bodyPairsI] at hx
  | cons r rest ih =>
    intro i hwf hb x hx
    simp only [bodyPairsI, List.mem_append, List.mem_cons] at hx
    rcases hx with hx | rfl | hx
    · exact fillerPairsI_single _ (hb i (Nat.le_refl _) (by simp)) x hx
    · intro rest'
      exact ⟨_, recLine_logical r (hwf r (by simp)) rest', lineInc_rec r (hwf r (by simp))⟩
    · exact ih (i + 1) (fun y hy => hwf y (by simp [hy])) (fun j h1 h2 => hb j (by omega) (by simp; omega)) x hx

theorem LayoutWFT.toWF {ℓ : Layout} {n : Nat} (h : LayoutWFT ℓ n) : LayoutWF ℓ n :=
  ⟨fun i hi f hf => (h.1 i hi f hf).1, fun f hf => (h.2 f hf).1⟩

/-- the include operands a rendered file puts on the queue are exactly its include lines, in file order -/
theorem includes_render (f : FileSpec) (hw : WFfile f) : includes (content f) = targets f := by
  obtain ⟨hwf, hlw, hl⟩ := hw
  have hb : ∀ j, 0 ≤ j → j < 0 + f.rs.length → ∀ x ∈ f.ℓ.before j, WFfillerT x :=
    fun j _ h2 => hlw.1 j (by omega)
  have hb' : ∀ j, 0 ≤ j → j < 0 + f.rs.length → ∀ x ∈ f.ℓ.before j, WFfiller x :=
    fun j h1 h2 x hx => (hb j h1 h2 x hx).1
  have hclean : ∀ l ∈ fileLines f.ℓ f.rs, cleanLine l := by
    intro l hm
    simp only [fileLines, List.mem_append, List.mem_map] at hm
    rcases hm with hm | ⟨x, hx, rfl⟩
    · exact bodyLines_clean f.ℓ.before f.rs 0 hwf hb' l hm
    · exact fillerLine_clean x (hlw.2 x hx).1
  let pairs := bodyPairsI f.ℓ.before 0 f.rs ++ fillerPairsI f.ℓ.after
  have hfst : pairs.map (·.1) = fileLines f.ℓ f.rs := by
    simp [pairs, fileLines, bodyPairsI_fst, fillerPairsI_fst]
  have hsnd : pairs.filterMap (·.2) = targets f := by
    simp [pairs, targets, bodyPairsI_snd, fillerPairsI_snd]
  have hsingle : ∀ x ∈ pairs, SingleI x.1 x.2 := by
    intro x hx
    rcases List.mem_append.mp hx with hx | hx
    · exact bodyPairsI_single f.ℓ.before f.rs 0 hwf hb x hx
    · exact fillerPairsI_single f.ℓ.after hlw.2 x hx
  unfold includes content render
  rw [scan_unlines _ _ _ hclean hl]
  have := incLoop_singles pairs hsingle ((fileLines f.ℓ f.rs).length + 1) [] (by rw [← hfst]; simp)
  rw [hfst] at this
  simp only [this, hsnd]
  simp

/-! ### (2) the work list of `extractFromExtraPaths`, for any `visit` -/

section Walk
variable {α : Type} (visit : Line → Outcome (α × List Line))

/-- `p` can be opened and scanned -/
def Visitable (p : Line) : Prop := ∃ a i, visit p = .ok (a, i)

theorem incCount_ok {p : Line} {a : α} {i : List Line} (h : visit p = .ok (a, i)) : incCount visit p = i.length := by
  simp [incCount, h]

/-- queue entries the files of `univ` that were not read yet can still add, plus one per such file -/
def cost (found : List Line) : List Line → Nat
  | [] => 0
  | u :: us => (if u ∈ found then 0 else 1 + incCount visit u) + cost found us

theorem cost_mono (p : Line) (found : List Line) : ∀ us, cost visit (p :: found) us ≤ cost visit found us := by
  intro us
  induction us with
  | nil => simp [cost]
  | cons u us ih =>
    simp only [cost, List.mem_cons]
    by_cases h1 : u ∈ found
    · simp [h1]; exact ih
    · by_cases h2 : u = p
      · simp [h1, h2]; omega
      · simp [h1, h2]; exact ih

theorem cost_step (p : Line) (found : List Line) (hp : p ∉ found) : ∀ us, p ∈ us →
    cost visit (p :: found) us + (1 + incCount visit p) ≤ cost visit found us := by
  intro us
  induction us with
  | nil => intro h; simp at h
  | cons u us ih =>
    intro hm
    by_cases h2 : u = p
    · subst h2
      have := cost_mono visit u found us
      simp only [cost, List.mem_cons, true_or, if_true, hp, if_false]
      omega
    · have hm' : p ∈ us := by
        rcases List.mem_cons.mp hm with e | e
        · exact absurd e.symm h2
        · exact e
      have := ih hm'
      simp only [cost, List.mem_cons, h2, false_or]
      by_cases h1 : u ∈ found
      · simp only [h1, if_true]; omega
      · simp only [h1, if_false]; omega

theorem cost_le_total (found : List Line) : ∀ us, cost visit found us ≤ (us.map fun u => 1 + incCount visit u).sum := by
  intro us
  induction us with
  | nil => simp [cost]
  | cons u us ih =>
    simp only [cost, List.map_cons, List.sum_cons]
    by_cases h1 : u ∈ found
    · simp only [h1, if_true]; omega
    · simp only [h1, if_false]; omega

theorem walk_zero (q found : List Line) : walk visit 0 q found = .ok [] := by
  cases q <;> rfl

theorem walk_nil (n : Nat) (found : List Line) : walk visit n [] found = .ok [] := by
  cases n <;> rfl

theorem walk_skip_found (n : Nat) (p : Line) (q found : List Line) (h : p ∈ found) :
    walk visit (n + 1) (p :: q) found = walk visit n q found := by
  simp [walk, h]

theorem walk_skip_err (n : Nat) (p : Line) (q found : List Line) (h : p ∉ found) (hv : visit p = .err) :
    walk visit (n + 1) (p :: q) found = walk visit n q found := by
  simp [walk, h, hv]

theorem walk_panic (n : Nat) (p : Line) (q found : List Line) (h : p ∉ found) (hv : visit p = .panic) :
    walk visit (n + 1) (p :: q) found = .panic := by
  simp [walk, h, hv]

theorem walk_read (n : Nat) (p : Line) (q found : List Line) (a : α) (incs : List Line) (h : p ∉ found)
    (hv : visit p = .ok (a, incs)) :
    walk visit (n + 1) (p :: q) found = pushRead (p, a) (walk visit n (q ++ incs) (p :: found)) := by
  simp [walk, h, hv]

/-- safety, for every fuel: no file is read twice, none that was already found, every entry is what `visit` returned
for that path, and everything read is connected to the queue through includes of files that were read -/
theorem walk_safe : ∀ (n : Nat) (q found : List Line) (r : List (Line × α)), walk visit n q found = .ok r →
    (r.map (·.1)).Nodup ∧ (∀ x ∈ r.map (·.1), x ∉ found) ∧ (∀ x a, (x, a) ∈ r → ∃ i, visit x = .ok (a, i)) ∧
    (∀ R : Line → Prop, (∀ y ∈ q, Visitable visit y → R y) →
      (∀ x a i, R x → x ∉ found → visit x = .ok (a, i) → ∀ y ∈ i, Visitable visit y → R y) →
      ∀ x ∈ r.map (·.1), R x) := by
  intro n
  induction n with
  | zero =>
    intro q found r h
    rw [walk_zero] at h
    cases h
    simp
  | succ n ih =>
    intro q found r h
    cases q with
    | nil =>
      rw [walk_nil] at h
      cases h
      simp
    | cons p q =>
      by_cases hp : p ∈ found
      · rw [walk_skip_found visit n p q found hp] at h
        obtain ⟨h1, h2, h3, h4⟩ := ih q found r h
        exact ⟨h1, h2, h3, fun R hq hc => h4 R (fun y hy => hq y (by simp [hy])) hc⟩
      · cases hv : visit p with
        | panic => rw [walk_panic visit n p q found hp hv] at h; cases h
        | err =>
          rw [walk_skip_err visit n p q found hp hv] at h
          obtain ⟨h1, h2, h3, h4⟩ := ih q found r h
          exact ⟨h1, h2, h3, fun R hq hc => h4 R (fun y hy => hq y (by simp [hy])) hc⟩
        | ok ai =>
          obtain ⟨a, incs⟩ := ai
          rw [walk_read visit n p q found a incs hp hv] at h
          cases hw : walk visit n (q ++ incs) (p :: found) with
          | panic => rw [hw] at h; cases h
          | err => rw [hw] at h; cases h
          | ok r' =>
            rw [hw] at h
            simp only [pushRead, Outcome.ok.injEq] at h
            subst h
            obtain ⟨h1, h2, h3, h4⟩ := ih (q ++ incs) (p :: found) r' hw
            refine ⟨?_, ?_, ?_, ?_⟩
            · simp only [List.map_cons, List.nodup_cons]
              exact ⟨fun hm => h2 p hm (by simp), h1⟩
            · intro x hx
              simp only [List.map_cons, List.mem_cons] at hx
              rcases hx with rfl | hx
              · exact hp
              · exact fun hf => h2 x hx (by simp [hf])
            · intro x b hx
              simp only [List.mem_cons, Prod.mk.injEq] at hx
              rcases hx with ⟨rfl, rfl⟩ | hx
              · exact ⟨incs, hv⟩
              · exact h3 x b hx
            · intro R hq hc x hx
              have hRp : R p := hq p (by simp) ⟨a, incs, hv⟩
              simp only [List.map_cons, List.mem_cons] at hx
              rcases hx with rfl | hx
              · exact hRp
              · refine h4 R ?_ ?_ x hx
                · intro y hy hvis
                  rcases List.mem_append.mp hy with hy | hy
                  · exact hq y (by simp [hy]) hvis
                  · exact hc p a incs hRp hp hv y hy hvis
                · intro x' a' i' hR hnf hv' y hy hvis
                  exact hc x' a' i' hR (fun hf => hnf (by simp [hf])) hv' y hy hvis

/-- completeness, above the fuel bound: the walk ends normally, every readable queue entry and every readable include
of a file that was read is found or read -/
theorem walk_complete (hnp : ∀ p, visit p ≠ .panic) (univ : List Line) (hu : ∀ p, Visitable visit p → p ∈ univ) :
    ∀ (n : Nat) (q found : List Line), q.length + cost visit found univ < n →
    ∃ r, walk visit n q found = .ok r ∧
      (∀ y ∈ q, Visitable visit y → y ∈ found ∨ y ∈ r.map (·.1)) ∧
      (∀ x ∈ r.map (·.1), ∀ a i, visit x = .ok (a, i) → ∀ y ∈ i, Visitable visit y → y ∈ found ∨ y ∈ r.map (·.1)) := by
  intro n
  induction n with
  | zero => intro q found h; omega
  | succ n ih =>
    intro q found hb
    cases q with
    | nil => exact ⟨[], walk_nil visit _ _, by simp, by simp⟩
    | cons p q =>
      simp only [List.length_cons] at hb
      by_cases hp : p ∈ found
      · obtain ⟨r, hr, h1, h2⟩ := ih q found (by omega)
        refine ⟨r, by rw [walk_skip_found visit n p q found hp]; exact hr, ?_, h2⟩
        intro y hy hvis
        rcases List.mem_cons.mp hy with rfl | hy
        · exact Or.inl hp
        · exact h1 y hy hvis
      · cases hv : visit p with
        | panic => exact absurd hv (hnp p)
        | err =>
          obtain ⟨r, hr, h1, h2⟩ := ih q found (by omega)
          refine ⟨r, by rw [walk_skip_err visit n p q found hp hv]; exact hr, ?_, h2⟩
          intro y hy hvis
          rcases List.mem_cons.mp hy with rfl | hy
          · obtain ⟨a, i, hvi⟩ := hvis; rw [hv] at hvi; cases hvi
          · exact h1 y hy hvis
        | ok ai =>
          obtain ⟨a, incs⟩ := ai
          have hpu : p ∈ univ := hu p ⟨a, incs, hv⟩
          have hstep := cost_step visit p found hp univ hpu
          rw [incCount_ok visit hv] at hstep
          obtain ⟨r', hr', h1, h2⟩ := ih (q ++ incs) (p :: found) (by simp only [List.length_append]; omega)
          refine ⟨(p, a) :: r', by rw [walk_read visit n p q found a incs hp hv, hr']; rfl, ?_, ?_⟩
          · intro y hy hvis
            rcases List.mem_cons.mp hy with rfl | hy
            · right; simp
            · rcases h1 y (by simp [hy]) hvis with h | h
              · rcases List.mem_cons.mp h with rfl | h
                · right; simp
                · exact Or.inl h
              · right; simp [h]
          · intro x hx a' i' hv' y hy hvis
            have key : ∀ z, z ∈ p :: found ∨ z ∈ r'.map (·.1) → z ∈ found ∨ z ∈ ((p, a) :: r').map (·.1) := by
              intro z hz
              rcases hz with h | h
              · rcases List.mem_cons.mp h with rfl | h
                · right; simp
                · exact Or.inl h
              · right; simp only [List.map_cons, List.mem_cons]; exact Or.inr h
            simp only [List.map_cons, List.mem_cons] at hx
            rcases hx with rfl | hx
            · rw [hv] at hv'
              cases hv'
              exact key y (h1 y (by simp [hy]) hvis)
            · exact key y (h2 x hx a' i' hv' y hy hvis)

/-- fuel adequacy: above the bound the result does not depend on the fuel (the Go loop has none) -/
theorem walk_fuel (univ : List Line) (hu : ∀ p, Visitable visit p → p ∈ univ) :
    ∀ (n m : Nat) (q found : List Line), q.length + cost visit found univ < n → q.length + cost visit found univ < m →
      walk visit n q found = walk visit m q found := by
  intro n
  induction n with
  | zero => intro m q found h; omega
  | succ n ih =>
    intro m q found hn hm
    obtain ⟨m, rfl⟩ : ∃ k, m = k + 1 := ⟨m - 1, by omega⟩
    cases q with
    | nil => rw [walk_nil, walk_nil]
    | cons p q =>
      simp only [List.length_cons] at hn hm
      by_cases hp : p ∈ found
      · rw [walk_skip_found visit n p q found hp, walk_skip_found visit m p q found hp]
        exact ih m q found (by omega) (by omega)
      · cases hv : visit p with
        | panic => rw [walk_panic visit n p q found hp hv, walk_panic visit m p q found hp hv]
        | err =>
          rw [walk_skip_err visit n p q found hp hv, walk_skip_err visit m p q found hp hv]
          exact ih m q found (by omega) (by omega)
        | ok ai =>
          obtain ⟨a, incs⟩ := ai
          have hstep := cost_step visit p found hp univ (hu p ⟨a, incs, hv⟩)
          rw [incCount_ok visit hv] at hstep
          rw [walk_read visit n p q found a incs hp hv, walk_read visit m p q found a incs hp hv,
            ih m (q ++ incs) (p :: found) (by simp only [List.length_append]; omega) (by simp only [List.length_append]; omega)]

end Walk

/-! ### (3) the reachability certificate -/

theorem mem_edges {files : List FileSpec} {top : FileSpec} {p q : Line} (h : q ∈ edges files top p) :
    ∃ f, holder files top p = some f ∧ q ∈ (targets f).map (resolve p) := by
  unfold edges at h
  cases hf : holder files top p with
  | none => rw [hf] at h; simp at h
  | some f => rw [hf] at h; exact ⟨f, rfl, h⟩

theorem chainOK_sound (files : List FileSpec) (top : FileSpec) : ∀ (ps seen : List Line),
    (∀ s ∈ seen, Reach files top s) → chainOK files top seen ps = true → ∀ p ∈ ps, Reach files top p := by
  intro ps
  induction ps with
  | nil => intro _ _ _ p hp; simp at hp
  | cons a ps ih =>
    intro seen hseen h p hp
    simp only [chainOK, Bool.and_eq_true, List.any_eq_true, decide_eq_true_eq] at h
    obtain ⟨⟨⟨s, hs, hedge⟩, hsome⟩, hrest⟩ := h
    obtain ⟨f, hf, hq⟩ := mem_edges hedge
    have ha : Reach files top a := Reach.step (hseen s hs) hf hq hsome
    rcases List.mem_cons.mp hp with rfl | hp
    · exact ha
    · exact ih (a :: seen) (fun x hx => by
        rcases List.mem_cons.mp hx with rfl | hx
        · exact ha
        · exact hseen x hx) hrest p hp

theorem closedOK_complete (files : List FileSpec) (top : FileSpec) (all : List Line) (htop : top.path ∈ all)
    (h : closedOK files top all = true) : ∀ p, Reach files top p → p ∈ all := by
  intro p hp
  induction hp with
  | top => exact htop
  | @step p' q f _ hf hq hsome ih =>
    simp only [closedOK, List.all_eq_true, Bool.or_eq_true, Bool.not_eq_true', decide_eq_true_eq] at h
    have hq' : q ∈ edges files top p' := by unfold edges; rw [hf]; exact hq
    rcases h p' ih q hq' with h1 | h1
    · rw [h1] at hsome; cases hsome
    · exact h1

/-- a list that passes the check is a duplicate-free enumeration of the reachable paths other than the top-level one -/
theorem reachCert_iff (files : List FileSpec) (top : FileSpec) (ps : List Line) (h : isReachCert files top ps = true) :
    ps.Nodup ∧ ∀ p, p ∈ ps ↔ (p ≠ top.path ∧ Reach files top p) := by
  simp only [isReachCert, Bool.and_eq_true, decide_eq_true_eq] at h
  obtain ⟨⟨⟨hnd, hnt⟩, hchain⟩, hclosed⟩ := h
  refine ⟨hnd, fun p => ⟨fun hp => ⟨fun e => hnt (e ▸ hp), ?_⟩, fun ⟨hne, hr⟩ => ?_⟩⟩
  · exact chainOK_sound files top ps [top.path] (fun s hs => by simp at hs; subst hs; exact Reach.top) hchain p hp
  · have := closedOK_complete files top (top.path :: ps) (by simp) hclosed p hr
    rcases List.mem_cons.mp this with e | e
    · exact absurd e hne
    · exact e

end Scalibr.Parsers.Requirements
