/-
The requirer clause of C04: the executable tests of Spec/OverlayRequired.lean decide the declarative relations, and the
loader model's marking (`chase`, `neededSet`: lists built while walking the required links) marks exactly the needed paths.
-/
import Scalibr.Model.OverlayImage
import Scalibr.Spec.OverlayRequired
namespace Scalibr.Overlay

theorem withinB_iff_Reach (t : Tree) : ∀ (d : Nat) (n : Node) (q : Path), withinB t d n q = true ↔ Reach t n d q := by
  intro d
  induction d with
  | zero => intro n q; constructor
            · intro h; simp [withinB] at h
            · intro h; cases h
  | succ d ih =>
    intro n q
    rw [withinB]
    constructor
    · intro h
      cases hg : t.get n.target with
      | none => rw [hg] at h; cases h
      | some m =>
        rw [hg] at h
        simp only [Bool.or_eq_true, Bool.and_eq_true, beq_iff_eq] at h
        rcases h with h | ⟨hk, hw⟩
        · subst h; exact Reach.here hg
        · exact Reach.next hg hk ((ih m q).1 hw)
    · intro h
      cases h with
      | here hg => rw [hg]; simp
      | next hg hk hr => rw [hg]; simp only [Bool.or_eq_true, Bool.and_eq_true, beq_iff_eq]; exact Or.inr ⟨hk, (ih _ q).2 hr⟩

theorem mem_chase_iff_Reach (t : Tree) : ∀ (d : Nat) (n : Node) (q : Path), q ∈ chase t d n ↔ Reach t n d q := by
  intro d
  induction d with
  | zero => intro n q; constructor
            · intro h; simp [chase] at h
            · intro h; cases h
  | succ d ih =>
    intro n q
    rw [chase]
    constructor
    · intro h
      cases hg : t.get n.target with
      | none => rw [hg] at h; cases h
      | some m =>
        rw [hg] at h
        rcases List.mem_cons.1 h with h | h
        · subst h; exact Reach.here hg
        · by_cases hk : m.kind = .link
          · rw [if_pos hk] at h; exact Reach.next hg hk ((ih m q).1 h)
          · rw [if_neg hk] at h; cases h
    · intro h
      cases h with
      | here hg => rw [hg]; exact List.mem_cons_self
      | next hg hk hr => rw [hg]; exact List.mem_cons_of_mem _ (by rw [if_pos hk]; exact (ih _ q).2 hr)

theorem neededB_iff_Needed (U : List Path) (t : Tree) (req : Path → Bool) (depth : Nat) (q : Path) :
    neededB U t req depth q = true ↔ Needed U t req depth q := by
  unfold neededB Needed RequiredLink
  rw [Bool.or_eq_true, List.any_eq_true]
  constructor
  · rintro (h | ⟨s, hs, h⟩)
    · exact Or.inl h
    · cases hg : t.get s with
      | none => rw [hg] at h; cases h
      | some n =>
        rw [hg] at h
        simp only [Bool.and_eq_true, beq_iff_eq, Bool.not_eq_true'] at h
        exact Or.inr ⟨s, n, hs, ⟨hg, h.1.1.1, h.1.1.2, h.1.2⟩, (withinB_iff_Reach t depth n q).1 h.2⟩
  · rintro (h | ⟨s, n, hs, ⟨hg, hk, hw, hr⟩, hreach⟩)
    · exact Or.inl h
    · refine Or.inr ⟨s, hs, ?_⟩
      rw [hg]
      simp only [Bool.and_eq_true, beq_iff_eq, Bool.not_eq_true']
      exact ⟨⟨⟨hk, hw⟩, hr⟩, (withinB_iff_Reach t depth n q).2 hreach⟩

theorem mem_neededSet_iff (U : List Path) (t : Tree) (req : Path → Bool) (depth : Nat) (q : Path) :
    q ∈ neededSet U t req depth ↔ ∃ s n, s ∈ U ∧ RequiredLink t req s n ∧ Reach t n depth q := by
  unfold neededSet RequiredLink
  rw [List.mem_flatMap]
  constructor
  · rintro ⟨s, hs, h⟩
    cases hg : t.get s with
    | none => rw [hg] at h; cases h
    | some n =>
      rw [hg] at h
      dsimp only at h
      by_cases hc : (decide (n.kind = .link) && !n.wh && req s) = true
      · rw [if_pos hc] at h
        simp only [Bool.and_eq_true, decide_eq_true_eq, Bool.not_eq_true'] at hc
        exact ⟨s, n, hs, ⟨hg, hc.1.1, hc.1.2, hc.2⟩, (mem_chase_iff_Reach t depth n q).1 h⟩
      · rw [if_neg hc] at h; cases h
  · rintro ⟨s, n, hs, ⟨hg, hk, hw, hr⟩, hreach⟩
    refine ⟨s, hs, ?_⟩
    rw [hg]
    dsimp only
    have hc : (decide (n.kind = .link) && !n.wh && req s) = true := by
      simp only [Bool.and_eq_true, decide_eq_true_eq, Bool.not_eq_true']; exact ⟨⟨hk, hw⟩, hr⟩
    rw [if_pos hc]
    exact (mem_chase_iff_Reach t depth n q).2 hreach

/-- the model's keep test and the specification's are the same Boolean -/
theorem keep_eq (U : List Path) (t : Tree) (req : Path → Bool) (depth : Nat) (q : Path) :
    (req q || (neededSet U t req depth).contains q) = neededB U t req depth q := by
  rw [Bool.eq_iff_iff, neededB_iff_Needed, Bool.or_eq_true, List.contains_iff_mem, mem_neededSet_iff]
  rfl

end Scalibr.Overlay
