/-
C01, last sentence: explicitly requesting a sub-directory that a whole-tree scan reaches yields the
same extractions as the whole-tree scan restricted to that sub-directory.  A theorem about the
specification (`mustRequested` vs `mustRoot`), transferred to the engine by `run_spec`.
-/
import Scalibr.Proofs.WalkMore
namespace Scalibr.Walk

/-- position and node of the first entry called `s` (what `lookup` finds) -/
def findIdx : List (String × Node) → String → Option (Nat × Node)
  | [], _ => none
  | (t, n) :: rest, s => if t = s then some (0, n) else (findIdx rest s).map fun (i, m) => (i + 1, m)

/-- the directories on the way from `p` (where `n` sits) down along `q`, and the node reached -/
def chainOf (p : Path) : Node → Path → Option (List DirInfo × Node)
  | n, [] => some ([], n)
  | .dir gi es, s :: q =>
    match findIdx es s with
    | some (i, ch) => (chainOf (p ++ [s]) ch q).map fun (c, m) => (⟨p, gi, i⟩ :: c, m)
    | none => none
  | .file .., _ :: _ => none

theorem findIdx_find (es : List (String × Node)) (s : String) :
    (es.find? (·.1 = s)).map (·.2) = (findIdx es s).map (·.2) := by
  induction es with
  | nil => rfl
  | cons e rest ih =>
    obtain ⟨t, n⟩ := e
    simp only [List.find?, findIdx]
    by_cases h : t = s
    · simp [h]
    · simp only [h, decide_false, if_false]
      rw [ih]
      cases findIdx rest s <;> simp

theorem lookup_chainOf (p : Path) : ∀ (q : Path) (n : Node), lookup n q = (chainOf p n q).map (·.2) := by
  intro q
  induction q generalizing p with
  | nil => intro n; simp [lookup, chainOf]
  | cons s q ih =>
    intro n
    cases n with
    | file k sz => simp [lookup, chainOf]
    | dir gi es =>
      simp only [lookup, chainOf]
      have hf := findIdx_find es s
      cases hfi : findIdx es s with
      | none =>
        rw [hfi] at hf
        simp only [Option.map_none, Option.map_eq_none_iff] at hf
        rw [hf]
        rfl
      | some ic =>
        obtain ⟨i, ch⟩ := ic
        rw [hfi] at hf
        simp only [Option.map_some] at hf
        cases hfd : es.find? (·.1 = s) with
        | none => rw [hfd] at hf; cases hf
        | some tc =>
          obtain ⟨t, c⟩ := tc
          rw [hfd] at hf
          simp only [Option.map_some, Option.some.injEq] at hf
          subst hf
          simp only []
          rw [ih (p ++ [s]) c]
          cases chainOf (p ++ [s]) c q <;> simp

def under (d x : Path) : Bool := d.isPrefixOf x

theorem under_of_take (d x : Path) : under d x = true ↔ d.length ≤ x.length ∧ x.take d.length = d := by
  unfold under
  rw [List.isPrefixOf_iff_prefix]
  constructor
  · intro h
    obtain ⟨t, rfl⟩ := h
    simp
  · rintro ⟨_, h2⟩
    refine ⟨x.drop d.length, ?_⟩
    have := List.take_append_drop d.length x
    rw [h2] at this
    exact this

/-- files below entry `t` are not under `p ++ s :: q` when `t ≠ s` -/
theorem not_under_other (p : Path) (s t : String) (q : Path) (hne : t ≠ s) (x : Path)
    (h1 : (p ++ [t]).length ≤ x.length) (h2 : x.take (p ++ [t]).length = p ++ [t]) :
    under (p ++ s :: q) x = false := by
  cases hu : under (p ++ s :: q) x with
  | false => rfl
  | true =>
    rw [under_of_take] at hu
    obtain ⟨h3, h4⟩ := hu
    exfalso
    apply hne
    have e1 : x[p.length]? = some t := by
      have : (x.take (p ++ [t]).length)[p.length]? = (p ++ [t])[p.length]? := by rw [h2]
      simpa [List.getElem?_take] using this
    have e2 : x[p.length]? = some s := by
      have : (x.take (p ++ s :: q).length)[p.length]? = (p ++ s :: q)[p.length]? := by rw [h4]
      simpa [List.getElem?_take] using this
    rw [e1] at e2
    exact Option.some.inj e2

theorem filter_under_other (p : Path) (gi : Option PatSet) (anc : List DirInfo) (s : String) (q : Path) :
    ∀ (es : List (String × Node)) (k : Nat), s ∉ es.map (·.1) →
      (allFilesList p gi anc es k).filter (fun r => under (p ++ s :: q) r.path) = [] := by
  intro es
  induction es with
  | nil => intro k _; simp [allFilesList]
  | cons e rest ih =>
    intro k hs
    obtain ⟨t, n⟩ := e
    simp only [List.map_cons, List.mem_cons, not_or] at hs
    simp only [allFilesList, List.filter_append, ih (k+1) hs.2, List.append_nil]
    rw [List.filter_eq_nil_iff]
    intro r hr
    have ⟨h1, h2⟩ := allFiles_path (p ++ [t]) _ n r hr
    simp [not_under_other p s t q (fun h => hs.1 h.symm) r.path h1 h2]

theorem filter_under_entries (p : Path) (gi : Option PatSet) (anc : List DirInfo) (s : String) (q : Path) :
    ∀ (es : List (String × Node)) (k i : Nat) (ch : Node), (es.map (·.1)).Nodup → findIdx es s = some (i, ch) →
      (allFilesList p gi anc es k).filter (fun r => under (p ++ s :: q) r.path) =
      (allFiles (p ++ [s]) (anc ++ [⟨p, gi, k + i⟩]) ch).filter (fun r => under (p ++ s :: q) r.path) := by
  intro es
  induction es with
  | nil => intro k i ch _ h; simp [findIdx] at h
  | cons e rest ih =>
    intro k i ch hnd hf
    obtain ⟨t, n⟩ := e
    simp only [List.map_cons, List.nodup_cons] at hnd
    simp only [findIdx] at hf
    simp only [allFilesList, List.filter_append]
    by_cases hts : t = s
    · subst hts
      simp only [if_true, Option.some.injEq, Prod.mk.injEq] at hf
      obtain ⟨rfl, rfl⟩ := hf
      rw [filter_under_other p gi anc t q rest (k+1) hnd.1]
      simp
    · simp only [hts, if_false] at hf
      cases hfr : findIdx rest s with
      | none => rw [hfr] at hf; cases hf
      | some jc =>
        obtain ⟨j, c⟩ := jc
        rw [hfr] at hf
        simp only [Option.map_some, Option.some.injEq, Prod.mk.injEq] at hf
        obtain ⟨rfl, rfl⟩ := hf
        have h0 : (allFiles (p ++ [t]) (anc ++ [⟨p, gi, k⟩]) n).filter (fun r => under (p ++ s :: q) r.path) = [] := by
          rw [List.filter_eq_nil_iff]
          intro r hr
          have ⟨h1, h2⟩ := allFiles_path (p ++ [t]) _ n r hr
          simp [not_under_other p s t q hts r.path h1 h2]
        rw [h0, ih (k+1) j c hnd.2 hfr]
        simp [Nat.add_assoc, Nat.add_comm 1 j]

theorem filter_under_self (p : Path) (anc : List DirInfo) (n : Node) :
    (allFiles p anc n).filter (fun r => under p r.path) = allFiles p anc n := by
  rw [List.filter_eq_self]
  intro r hr
  have ⟨h1, h2⟩ := allFiles_path p anc n r hr
  exact (under_of_take p r.path).mpr ⟨h1, h2⟩

/-- the files of a tree that lie under `p ++ q` are exactly the files of the sub-tree found there,
enumerated with the chain of directories leading to it -/
theorem filter_under_chain : ∀ (q : Path) (p : Path) (anc : List DirInfo) (n : Node) (chain : List DirInfo) (m : Node),
    DistinctNames n → chainOf p n q = some (chain, m) →
    (allFiles p anc n).filter (fun r => under (p ++ q) r.path) = allFiles (p ++ q) (anc ++ chain) m := by
  intro q
  induction q with
  | nil =>
    intro p anc n chain m _ h
    simp only [chainOf, Option.some.injEq, Prod.mk.injEq] at h
    obtain ⟨rfl, rfl⟩ := h
    simpa using filter_under_self p anc n
  | cons s q ih =>
    intro p anc n chain m hd h
    cases n with
    | file k sz => simp [chainOf] at h
    | dir gi es =>
      simp only [chainOf] at h
      cases hfi : findIdx es s with
      | none => rw [hfi] at h; cases h
      | some ic =>
        obtain ⟨i, ch⟩ := ic
        rw [hfi] at h
        simp only [] at h
        cases hc : chainOf (p ++ [s]) ch q with
        | none => rw [hc] at h; cases h
        | some cm =>
          obtain ⟨c', m'⟩ := cm
          rw [hc] at h
          simp only [Option.map_some, Option.some.injEq, Prod.mk.injEq] at h
          obtain ⟨rfl, rfl⟩ := h
          unfold DistinctNames at hd
          simp only [allFiles]
          rw [filter_under_entries p gi anc s q es 0 i ch hd.1 hfi]
          have hdch : DistinctNames ch := by
            -- the child found by findIdx is one of the entries
            have : ∀ (es : List (String × Node)) (i : Nat) (ch : Node), DistinctNamesL es → findIdx es s = some (i, ch) → DistinctNames ch := by
              intro es
              induction es with
              | nil => intro i ch _ h; simp [findIdx] at h
              | cons e rest ih2 =>
                intro i ch hdl hf
                obtain ⟨t, n0⟩ := e
                unfold DistinctNamesL at hdl
                simp only [findIdx] at hf
                by_cases hts : t = s
                · simp only [hts, if_true, Option.some.injEq, Prod.mk.injEq] at hf
                  obtain ⟨_, rfl⟩ := hf; exact hdl.1
                · simp only [hts, if_false] at hf
                  cases hfr : findIdx rest s with
                  | none => rw [hfr] at hf; cases hf
                  | some jc =>
                    obtain ⟨j, c⟩ := jc
                    rw [hfr] at hf
                    simp only [Option.map_some, Option.some.injEq, Prod.mk.injEq] at hf
                    obtain ⟨_, rfl⟩ := hf
                    exact ih2 j c hdl.2 hfr
            exact this es i ch hd.2 hfi
          have := ih (p ++ [s]) (anc ++ [⟨p, gi, 0 + i⟩]) ch c' m' hdch hc
          simp only [List.append_assoc, List.singleton_append, Nat.zero_add] at this ⊢
          exact this

end Scalibr.Walk

namespace Scalibr.Walk

def prep (A : List DirInfo) (r : FileRec) : FileRec := { r with dirs := A ++ r.dirs }

mutual
theorem allFiles_prep (A : List DirInfo) (p : Path) : ∀ (n : Node) (anc : List DirInfo),
    allFiles p (A ++ anc) n = (allFiles p anc n).map (prep A)
  | .file k sz, anc => by simp [allFiles, prep]
  | .dir gi es, anc => by simp only [allFiles]; exact allFilesList_prep A p gi es anc 0
theorem allFilesList_prep (A : List DirInfo) (p : Path) (gi : Option PatSet) :
    ∀ (es : List (String × Node)) (anc : List DirInfo) (i : Nat),
      allFilesList p gi (A ++ anc) es i = (allFilesList p gi anc es i).map (prep A)
  | [], _, _ => by simp [allFilesList]
  | (s, n) :: rest, anc, i => by
    simp only [allFilesList, List.map_append]
    rw [List.append_assoc, allFiles_prep A (p ++ [s]) n (anc ++ [(⟨p, gi, i⟩ : DirInfo)]), allFilesList_prep A p gi rest anc (i+1)]
end

theorem lookup_dir_cons (gi : Option PatSet) (es : List (String × Node)) (s : String) (r : Path) (i : Nat) (ch : Node)
    (h : findIdx es s = some (i, ch)) : lookup (.dir gi es) (s :: r) = lookup ch r := by
  simp only [lookup]
  have hf := findIdx_find es s
  rw [h] at hf
  cases hfd : es.find? (·.1 = s) with
  | none => rw [hfd] at hf; cases hf
  | some tc =>
    obtain ⟨t, c⟩ := tc
    rw [hfd] at hf
    simp only [Option.map_some, Option.some.injEq] at hf
    subst hf; rfl

/-- gitignore context of a directory reached along `q` from node `n` at `p`, as `ParseParentGitignores` computes it -/
def giOfDirRel (f : Faults) (p : Path) (n : Node) (q : Path) : GiEntry :=
  if f.openFail ((p ++ q) ++ [".gitignore"]) then none else
  match lookup n q with
  | some (.dir (some ps) _) => some (domainOf (p ++ q), ps)
  | _ => none

theorem chain_gis (f : Faults) : ∀ (q : Path) (p : Path) (n : Node) (chain : List DirInfo) (m : Node),
    chainOf p n q = some (chain, m) →
    chain.map (giEntryOf f) = (List.range q.length).map fun k => giOfDirRel f p n (q.take k) := by
  intro q
  induction q with
  | nil => intro p n chain m h; simp [chainOf] at h; simp [h.1]
  | cons s q ih =>
    intro p n chain m h
    cases n with
    | file k sz => simp [chainOf] at h
    | dir gi es =>
      simp only [chainOf] at h
      cases hfi : findIdx es s with
      | none => rw [hfi] at h; cases h
      | some ic =>
        obtain ⟨i, ch⟩ := ic
        rw [hfi] at h
        simp only [] at h
        cases hc : chainOf (p ++ [s]) ch q with
        | none => rw [hc] at h; cases h
        | some cm =>
          obtain ⟨c', m'⟩ := cm
          rw [hc] at h
          simp only [Option.map_some, Option.some.injEq, Prod.mk.injEq] at h
          obtain ⟨rfl, rfl⟩ := h
          have ih' := ih (p ++ [s]) ch c' m' hc
          simp only [List.map_cons, List.length_cons, List.range_succ_eq_map, List.map_map]
          congr 1
          · simp [giOfDirRel, giEntryOf, lookup, domainOf]
            cases gi <;> simp
          · rw [ih']
            apply List.map_congr_left
            intro k _
            simp only [Function.comp, List.take_succ_cons, giOfDirRel]
            rw [lookup_dir_cons gi es s (q.take k) i ch hfi]
            simp [List.append_assoc]

theorem parentGis_chain (f : Faults) (root : Node) (d : Path) (chain : List DirInfo) (m : Node)
    (h : chainOf [] root d = some (chain, m)) : (parentGis f root d).1 = chain.map (giEntryOf f) := by
  rw [chain_gis f d [] root chain m h]
  simp only [parentGis, properPrefixes, List.map_map]
  apply List.map_congr_left
  intro k _
  simp only [giOfDir, giOfDirRel, domainOf, List.nil_append, Function.comp]
  split
  · rfl
  · cases hl : lookup root (List.take k d) with
    | none => rfl
    | some n =>
      cases n with
      | file kd sz => rfl
      | dir gi es => cases gi <;> rfl

theorem chain_length : ∀ (q : Path) (p : Path) (n : Node) (chain : List DirInfo) (m : Node),
    chainOf p n q = some (chain, m) → chain.length = q.length := by
  intro q
  induction q with
  | nil => intro p n chain m h; simp [chainOf] at h; simp [h.1]
  | cons s q ih =>
    intro p n chain m h
    cases n with
    | file k sz => simp [chainOf] at h
    | dir gi es =>
      simp only [chainOf] at h
      cases hfi : findIdx es s with
      | none => rw [hfi] at h; cases h
      | some ic =>
        obtain ⟨i, ch⟩ := ic
        rw [hfi] at h
        simp only [] at h
        cases hc : chainOf (p ++ [s]) ch q with
        | none => rw [hc] at h; cases h
        | some cm =>
          obtain ⟨c', m'⟩ := cm
          rw [hc] at h
          simp only [Option.map_some, Option.some.injEq, Prod.mk.injEq] at h
          obtain ⟨rfl, rfl⟩ := h
          simp [ih (p ++ [s]) ch c' m' hc]

/-- `dirPasses` at a position inside the prefix `A` does not depend on what follows -/
theorem dirPasses_prefix (c : Cfg) (f : Faults) (above : List GiEntry) (A D : List DirInfo) (i : Nat) (hi : i < A.length) :
    dirPasses c f above (A ++ D) i = dirPasses c f above A i := by
  unfold dirPasses
  rw [List.getElem?_append_left hi, List.take_append_of_le_length (Nat.le_of_lt hi)]

/-- … and past the prefix it is `dirPasses` of the remainder, with the prefix's patterns moved into the context.
`c'` may differ from `c` in the requested paths only (irrelevant without the sub-directory cut-off). -/
theorem dirPasses_shift (c c' : Cfg) (hsame : ∀ gis d, excludedDir c gis d = excludedDir c' gis d)
    (f : Faults) (A D : List DirInfo) (j : Nat) :
    dirPasses c f [] (A ++ D) (A.length + j) = dirPasses c' f (A.map (giEntryOf f)) D j := by
  unfold dirPasses
  rw [List.getElem?_append_right (Nat.le_add_right _ _), Nat.add_sub_cancel_left]
  cases D[j]? with
  | none => rfl
  | some dd =>
    simp only []
    rw [List.take_append, List.take_of_length_le (Nat.le_add_right _ _), Nat.add_sub_cancel_left, hsame]
    simp [List.map_append]

end Scalibr.Walk

namespace Scalibr.Walk

theorem all_range_add (a b : Nat) (P : Nat → Bool) :
    (List.range (a + b)).all P = ((List.range a).all P && (List.range b).all fun j => P (a + j)) := by
  rw [Bool.eq_iff_iff]
  simp only [List.all_eq_true, List.mem_range, Bool.and_eq_true]
  constructor
  · intro h
    exact ⟨fun i hi => h i (by omega), fun j hj => h (a + j) (by omega)⟩
  · rintro ⟨h1, h2⟩ i hi
    by_cases hia : i < a
    · exact h1 i hia
    · have := h2 (i - a) (by omega)
      rwa [Nat.add_sub_cancel' (by omega)] at this

theorem excluded_paths_irrelevant (c : Cfg) (hisd : c.ignoreSubDirs = false) (ps : List Path) (gis : List GiEntry) (d : Path) :
    excludedDir c gis d = excludedDir { c with paths := ps } gis d := by
  unfold excludedDir stackMatch; simp [hisd]

/-- a file seen from the scan root through the chain `A` of passing directories owes what it owes when
the walk starts below `A` with `A`'s patterns as context -/
theorem mustOne_prep (c : Cfg) (hisd : c.ignoreSubDirs = false) (ps : List Path) (f : Faults) (A : List DirInfo)
    (hA : ∀ i, i < A.length → dirPasses c f [] A i = true) (r : FileRec) :
    mustOne c f [] (prep A r) = mustOne { c with paths := ps } f (A.map (giEntryOf f)) r := by
  have hreach : reached c f [] (prep A r) = reached { c with paths := ps } f (A.map (giEntryOf f)) r := by
    unfold reached
    congr 1
    · simp only [prep, List.length_append]
      rw [all_range_add]
      have h1 : (List.range A.length).all (dirPasses c f [] (A ++ r.dirs)) = true := by
        rw [List.all_eq_true]
        intro i hi
        rw [dirPasses_prefix c f [] A r.dirs i (List.mem_range.mp hi)]
        exact hA i (List.mem_range.mp hi)
      rw [h1, Bool.true_and]
      congr 1
      funext j
      exact dirPasses_shift c { c with paths := ps } (excluded_paths_irrelevant c hisd ps) f A r.dirs j
    · unfold fileEligible
      simp only [prep, List.nil_append, List.map_append]
      rfl
  unfold mustOne
  rw [hreach]
  rfl

theorem mustOne_above_irrelevant (c : Cfg) (hu : c.useGitignore = false) (f : Faults) (A B : List GiEntry) (r : FileRec) :
    mustOne c f A r = mustOne c f B r := by
  have hd : ∀ i, dirPasses c f A r.dirs i = dirPasses c f B r.dirs i := by
    intro i
    unfold dirPasses excludedDir
    cases r.dirs[i]? <;> simp [hu]
  unfold mustOne reached fileEligible
  simp only [hu, Bool.false_and, Bool.not_false, Bool.and_true]
  have : (List.range r.dirs.length).all (dirPasses c f A r.dirs) = (List.range r.dirs.length).all (dirPasses c f B r.dirs) := by
    congr 1; funext i; exact hd i
  rw [this]

theorem filter_flatMap_mustOne (c : Cfg) (f : Faults) (above : List GiEntry) (d : Path) (l : List FileRec) :
    (l.flatMap (mustOne c f above)).filter (fun cl => under d cl.path) =
      (l.filter fun r => under d r.path).flatMap (mustOne c f above) := by
  induction l with
  | nil => rfl
  | cons r rest ih =>
    simp only [List.flatMap_cons, List.filter_append, ih, List.filter_cons]
    have hp := (mustOne_nodup c f above r).2
    by_cases hu : under d r.path = true
    · simp only [hu, if_true, List.flatMap_cons]
      congr 1
      rw [List.filter_eq_self]
      intro cl hcl; rw [hp cl hcl]; exact hu
    · simp only [hu, Bool.false_eq_true, if_false]
      have : (mustOne c f above r).filter (fun cl => under d cl.path) = [] := by
        rw [List.filter_eq_nil_iff]
        intro cl hcl; rw [hp cl hcl]; exact hu
      rw [this]; rfl

/-- **Sub-directory equivalence.** On a tree with distinct sibling names, for a whole-tree configuration
without the sub-directory cut-off: if the whole-tree scan reaches directory `d` (every directory above
`d` lets the walk through), then requesting `d` explicitly owes exactly the whole-tree scan's attempts
that lie under `d`, in the same order. -/
theorem mustRequested_subdir (c : Cfg) (hp : c.paths = []) (hisd : c.ignoreSubDirs = false) (f : Faults)
    (root : Node) (hdn : DistinctNames root) (d : Path) (gi : Option PatSet) (es : List (String × Node))
    (chain : List DirInfo) (hch : chainOf [] root d = some (chain, .dir gi es))
    (hreach : ∀ i, i < chain.length → dirPasses c f [] chain i = true)
    (hs0 : f.statFail [] = false) (hsd : f.statFail d = false) :
    mustRequested { c with paths := [d] } f root d = (mustRoot c f root).filter (fun cl => under d cl.path) := by
  have hl : lookup root d = some (.dir gi es) := by
    rw [lookup_chainOf [] d root, hch]; rfl
  -- right-hand side
  have hR : (mustRoot c f root).filter (fun cl => under d cl.path)
      = (allFiles d [] (.dir gi es)).flatMap fun r => mustOne c f [] (prep chain r) := by
    unfold mustRoot mustFrom
    simp only [hp, List.isEmpty_nil, if_true, hs0, Bool.false_eq_true, if_false]
    rw [filter_flatMap_mustOne]
    have := filter_under_chain d [] [] root chain (.dir gi es) hdn hch
    simp only [List.nil_append] at this
    rw [this]
    have h2 := allFiles_prep chain d (.dir gi es) []
    simp only [List.append_nil] at h2
    rw [h2, List.flatMap_map]
  rw [hR]
  unfold mustRequested mustFrom
  simp only [hsd, Bool.false_eq_true, if_false, hl]
  apply flatMap_congr'
  intro r _
  rw [mustOne_prep c hisd [d] f chain hreach r]
  cases hu : c.useGitignore with
  | true =>
    simp only [if_true]
    rw [parentGis_chain f root d chain _ hch]
  | false =>
    simp only [Bool.false_eq_true, if_false]
    exact (mustOne_above_irrelevant _ rfl f (chain.map (giEntryOf f)) [] r).symm

end Scalibr.Walk
