/-
Proofs about the model of the non-package part of the result proto (`Model/ProtoResult.lean`) against
`Spec/ProtoResult.lean`.
-/
import Scalibr.Spec.ProtoResult

namespace Scalibr.ProtoResult
open Scalibr.ProtoPkg (toInt32)

/-- forget the record: the outcome only -/
def Res.erase {α : Type} : Res α → Res Unit
  | .ok _ => .ok ()
  | .advisoryMissing => .advisoryMissing
  | .advisoryIDMissing => .advisoryIDMissing
  | .panic => .panic

theorem readStatus_scanStatusToProto (s : ScanStatus) (h : StatusOK s) : readStatus (scanStatusToProto s) = s := by
  obtain ⟨st, reason⟩ := s
  obtain ⟨h0, h3⟩ := h
  simp only at h0 h3
  have : st = 0 ∨ st = 1 ∨ st = 2 ∨ st = 3 := by omega
  rcases this with h | h | h | h <;> subst h <;> rfl

theorem toInt32_id' (x : Int) (h1 : -2147483648 ≤ x) (h2 : x < 2147483648) : toInt32 x = x := by
  unfold toInt32; omega

theorem readPlugin_pluginStatusToProto (s : PluginStatus) (h : PluginOK s) : readPlugin (pluginStatusToProto s) = s := by
  obtain ⟨n, v, st⟩ := s
  obtain ⟨hs, h1, h2⟩ := h
  simp only [readPlugin, pluginStatusToProto, readStatus_scanStatusToProto st hs, toInt32_id' v h1 h2]

theorem readType_typeEnumToProto (e : Int) (h0 : 0 ≤ e) (h2 : e ≤ 2) : readType (typeEnumToProto e) = e := by
  have : e = 0 ∨ e = 1 ∨ e = 2 := by omega
  rcases this with h | h | h <;> subst h <;> rfl

theorem readSevEnum_severityEnumToProto (e : Int) (h0 : 0 ≤ e) (h5 : e ≤ 5) : readSevEnum (severityEnumToProto e) = e := by
  have : e = 0 ∨ e = 1 ∨ e = 2 ∨ e = 3 ∨ e = 4 ∨ e = 5 := by omega
  rcases this with h | h | h | h | h | h <;> subst h <;> rfl

theorem map_cvssToProto {S : Type} (c : Option (CVSS S)) : c.map cvssToProto = c := by
  cases c <;> rfl

theorem readSeverity_severityToProto {S : Type} (s : Severity S) (h : SeverityOK s) : readSeverity (severityToProto s) = s := by
  obtain ⟨e, v2, v3⟩ := s
  simp only [readSeverity, severityToProto, map_cvssToProto, readSevEnum_severityEnumToProto e h.1 h.2]

/-- what one finding needs for its record to carry it completely: advisory with id, representable enum values -/
def FindingOK {S P : Type} (f : Finding S P) : Prop :=
  ∃ a id, f.adv = some a ∧ a.id = some id ∧ AdvisoryOK a

theorem findingToProto_lossless {S P PP : Type} (pk : P → PP) (f : Finding S P) (h : FindingOK f) :
    ∃ p, findingToProto pk f = .ok p ∧ readFinding p = genericFinding pk f := by
  obtain ⟨a, id, ha, hid, hok⟩ := h
  obtain ⟨adv, target, extra, dets⟩ := f
  obtain ⟨aid, typ, title, desc, recm, sev⟩ := a
  simp only at ha hid
  subst ha hid
  obtain ⟨h0, h2, hsev⟩ := hok
  simp only at h0 h2 hsev
  refine ⟨_, rfl, ?_⟩
  have hs : (sev.map severityToProto).map readSeverity = sev := by
    cases sev with
    | none => rfl
    | some s => simp only [Option.map_some, readSeverity_severityToProto s (hsev s rfl)]
  simp only [readFinding, genericFinding, readType_typeEnumToProto typ h0 h2, hs]

theorem findingsLoop_lossless {S P PP : Type} (pk : P → PP) (fs : List (Finding S P)) (acc : List (PFinding S PP))
    (h : ∀ f ∈ fs, FindingOK f) :
    ∃ ps, findingsLoop pk fs acc = .ok (acc ++ ps) ∧ ps.map readFinding = fs.map (genericFinding pk) := by
  induction fs generalizing acc with
  | nil => exact ⟨[], by simp [findingsLoop], rfl⟩
  | cons f rest ih =>
    obtain ⟨p, hp, hr⟩ := findingToProto_lossless pk f (h f (List.mem_cons_self ..))
    obtain ⟨ps, hps, hm⟩ := ih (acc ++ [p]) (fun g hg => h g (List.mem_cons_of_mem _ hg))
    refine ⟨p :: ps, ?_, ?_⟩
    · simp only [findingsLoop, hp, hps, List.append_assoc, List.singleton_append]
    · simp only [List.map_cons, hr, hm]

theorem findingsLoop_outcome {S P PP : Type} (pk : P → PP) (fs : List (Finding S P)) (acc : List (PFinding S PP)) :
    (findingsLoop pk fs acc).erase = specOutcome fs := by
  induction fs generalizing acc with
  | nil => rfl
  | cons f rest ih =>
    obtain ⟨adv, target, extra, dets⟩ := f
    cases adv with
    | none => rfl
    | some a =>
      obtain ⟨aid, typ, title, desc, recm, sev⟩ := a
      cases aid with
      | none => rfl
      | some id =>
        simp only [findingsLoop, findingToProto, specOutcome]
        exact ih _

theorem specOutcome_ne_panic {S P : Type} (fs : List (Finding S P)) : specOutcome fs ≠ .panic := by
  induction fs with
  | nil => intro h; cases h
  | cons f rest ih =>
    unfold specOutcome
    split
    · intro h; cases h
    · split
      · intro h; cases h
      · exact ih

end Scalibr.ProtoResult
