/-
Proofs about the model of the non-package part of the result proto (`Model/ProtoResult.lean`) against
`Spec/ProtoResult.lean`.
-/
import Scalibr.Spec.ProtoResult

namespace Scalibr.ProtoResult
open Scalibr.ProtoPkg (toInt32)

/-- forget the record: the outcome only -/
def Res.erase {α : Type} : Res α → Res Unit
  | .ok _ => .ok ()
  | .advisoryMissing => .advisoryMissing
  | .advisoryIDMissing => .advisoryIDMissing
  | .panic => .panic

theorem readStatus_scanStatusToProto (s : ScanStatus) (h : StatusOK s) : readStatus (scanStatusToProto s) = s := by
  obtain ⟨st, reason⟩ := s
  obtain ⟨h0, h3⟩ := h
  simp only at h0 h3
  have : st = 0 ∨ st = 1 ∨ st = 2 ∨ st = 3 := by omega
  rcases this with h | h | h | h <;> subst h <;> rfl

theorem toInt32_id' (x : Int) (h1 : -2147483648 ≤ x) (h2 : x < 2147483648) : toInt32 x = x := by
  unfold toInt32; omega

theorem readPlugin_pluginStatusToProto (s : PluginStatus) (h : PluginOK s) : readPlugin (pluginStatusToProto s) = s := by
  obtain ⟨n, v, st⟩ := s
  obtain ⟨hs, h1, h2⟩ := h
  simp only [readPlugin, pluginStatusToProto, readStatus_scanStatusToProto st hs, toInt32_id' v h1 h2]

theorem readType_typeEnumToProto (e : Int) (h0 : 0 ≤ e) (h2 : e ≤ 2) : readType (typeEnumToProto e) = e := by
  have : e = 0 ∨ e = 1 ∨ e = 2 := by omega
  rcases this with h | h | h <;> subst h <;> rfl

theorem readSevEnum_severityEnumToProto (e : Int) (h0 : 0 ≤ e) (h5 : e ≤ 5) : readSevEnum (severityEnumToProto e) = e := by
  have : e = 0 ∨ e = 1 ∨ e = 2 ∨ e = 3 ∨ e = 4 ∨ e = 5 := by omega
  rcases this with h | h | h | h | h | h <;> subst h <;> rfl

theorem map_cvssToProto {S : Type} (c : Option (CVSS S)) : c.map cvssToProto = c := by
  cases c <;> rfl

theorem readSeverity_severityToProto {S : Type} (s : Severity S) (h : SeverityOK s) : readSeverity (severityToProto s) = s := by
  obtain ⟨e, v2, v3⟩ := s
  simp only [readSeverity, severityToProto, map_cvssToProto, readSevEnum_severityEnumToProto e h.1 h.2]

/-- what one finding needs for its record to carry it completely (with the CURRENT code: a severity, and no detector names) -/
def FindingOK {S P : Type} (f : Finding S P) : Prop :=
  ∃ a id s, f.adv = some a ∧ a.id = some id ∧ a.sev = some s ∧ AdvisoryOK a ∧ f.detectors = []

theorem findingToProto_lossless {S P PP : Type} (pk : P → PP) (f : Finding S P) (h : FindingOK f) :
    ∃ p, findingToProto pk f = .ok p ∧ readFinding p = genericFinding pk f := by
  obtain ⟨a, id, s, ha, hid, hs, hok, hd⟩ := h
  obtain ⟨adv, target, extra, dets⟩ := f
  obtain ⟨aid, typ, title, desc, recm, sev⟩ := a
  simp only at ha hid hs hd
  subst ha hid hs hd
  obtain ⟨h0, h2, hsev⟩ := hok
  simp only at h0 h2 hsev
  refine ⟨_, rfl, ?_⟩
  simp only [readFinding, genericFinding, Option.map_some, readType_typeEnumToProto typ h0 h2,
    readSeverity_severityToProto s (hsev s rfl)]

theorem findingsLoop_lossless {S P PP : Type} (pk : P → PP) (fs : List (Finding S P)) (acc : List (PFinding S PP))
    (h : ∀ f ∈ fs, FindingOK f) :
    ∃ ps, findingsLoop pk fs acc = .ok (acc ++ ps) ∧ ps.map readFinding = fs.map (genericFinding pk) := by
  induction fs generalizing acc with
  | nil => exact ⟨[], by simp [findingsLoop], rfl⟩
  | cons f rest ih =>
    obtain ⟨p, hp, hr⟩ := findingToProto_lossless pk f (h f (List.mem_cons_self ..))
    obtain ⟨ps, hps, hm⟩ := ih (acc ++ [p]) (fun g hg => h g (List.mem_cons_of_mem _ hg))
    refine ⟨p :: ps, ?_, ?_⟩
    · simp only [findingsLoop, hp, hps, List.append_assoc, List.singleton_append]
    · simp only [List.map_cons, hr, hm]

/-- the panic-freedom hypothesis of the CURRENT code: a finding with advisory and id also has a severity -/
def NoNilSeverity {S P : Type} (fs : List (Finding S P)) : Prop :=
  ∀ f ∈ fs, ∀ a, f.adv = some a → a.id ≠ none → a.sev ≠ none

theorem findingsLoop_outcome {S P PP : Type} (pk : P → PP) (fs : List (Finding S P)) (acc : List (PFinding S PP))
    (h : NoNilSeverity fs) : (findingsLoop pk fs acc).erase = specOutcome fs := by
  induction fs generalizing acc with
  | nil => rfl
  | cons f rest ih =>
    have hrest : NoNilSeverity rest := fun g hg => h g (List.mem_cons_of_mem _ hg)
    have hf := h f (List.mem_cons_self ..)
    obtain ⟨adv, target, extra, dets⟩ := f
    cases adv with
    | none => rfl
    | some a =>
      obtain ⟨aid, typ, title, desc, recm, sev⟩ := a
      cases aid with
      | none => rfl
      | some id =>
        cases sev with
        | none => exact absurd rfl (hf _ rfl (by simp))
        | some s =>
          simp only [findingsLoop, findingToProto, specOutcome]
          exact ih _ hrest

end Scalibr.ProtoResult
