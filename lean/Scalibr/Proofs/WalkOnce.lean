/-
"Exactly once" for (extractor, file) PAIRS, and the anchoring of `allFiles`: on a tree whose directories
list distinct names, `allFiles` enumerates exactly the non-directory nodes `lookup` finds.
-/
import Scalibr.Proofs.WalkMore
import Scalibr.Proofs.WalkEngineInv
namespace Scalibr.Walk

/-- the (extractor, file) pair of an attempt -/
def callKey (cl : Call) : Nat × Path := (cl.ext, cl.path)

theorem mustOne_keys_nodup (c : Cfg) (f : Faults) (above : List GiEntry) (r : FileRec) :
    ((mustOne c f above r).map callKey).Nodup := by
  unfold mustOne
  split
  · have hf : ((List.range c.nExt).filter fun e => c.required e r.path).Nodup :=
      List.Nodup.sublist List.filter_sublist List.nodup_range
    rw [List.map_map]
    exact List.Pairwise.map _ (fun a b hne h => hne (by simpa [callKey] using h)) hf
  · exact List.nodup_nil

mutual
theorem mustFlat_keys_nodup (c : Cfg) (f : Faults) (above : List GiEntry) (p : Path) (anc : List DirInfo) :
    ∀ (n : Node), DistinctNames n → (((allFiles p anc n).flatMap (mustOne c f above)).map callKey).Nodup
  | .file k sz, _ => by simpa [allFiles] using mustOne_keys_nodup c f above _
  | .dir gi es, h => by
    simp only [allFiles]
    unfold DistinctNames at h
    exact mustFlatL_keys_nodup c f above p gi anc es 0 h.1 h.2
theorem mustFlatL_keys_nodup (c : Cfg) (f : Faults) (above : List GiEntry) (p : Path) (gi : Option PatSet) (anc : List DirInfo) :
    ∀ (es : List (String × Node)) (i : Nat), (es.map (·.1)).Nodup → DistinctNamesL es →
      (((allFilesList p gi anc es i).flatMap (mustOne c f above)).map callKey).Nodup
  | [], _, _, _ => by simp [allFilesList]
  | (s, n) :: rest, i, hnd, hd => by
    simp only [allFilesList, List.flatMap_append, List.map_append]
    unfold DistinctNamesL at hd
    simp only [List.map_cons, List.nodup_cons] at hnd
    rw [List.nodup_append]
    refine ⟨mustFlat_keys_nodup c f above (p ++ [s]) _ n hd.1, mustFlatL_keys_nodup c f above p gi anc rest (i+1) hnd.2 hd.2, ?_⟩
    intro a ha b hb hab
    subst hab
    obtain ⟨cl1, hc1, hk1⟩ := List.mem_map.mp ha
    obtain ⟨cl2, hc2, hk2⟩ := List.mem_map.mp hb
    simp only [List.mem_flatMap] at hc1 hc2
    obtain ⟨r1, hr1, ha⟩ := hc1
    obtain ⟨r2, hr2, hb⟩ := hc2
    have e1 := (mustOne_nodup c f above r1).2 cl1 ha
    have e2 := (mustOne_nodup c f above r2).2 cl2 hb
    have hpath : cl1.path = cl2.path := by
      have := hk1.trans hk2.symm
      simp only [callKey, Prod.mk.injEq] at this
      exact this.2
    have ⟨_, p1⟩ := allFiles_path (p ++ [s]) _ n r1 hr1
    have ⟨t, ht, _, p2⟩ := allFilesList_path p gi anc rest (i+1) r2 hr2
    simp only [List.length_append, List.length_singleton] at p1
    rw [← e1, hpath, e2] at p1
    rw [p1] at p2
    have : s = t := by simpa using p2
    subst this
    exact hnd.1 ht
end

/-- **Exactly once, per (extractor, file) pair**: on a tree whose directories list distinct names, no pair is
owed twice within one walk. -/
theorem mustFrom_keys_nodup (c : Cfg) (f : Faults) (above : List GiEntry) (p : Path) (n : Node) (h : DistinctNames n) :
    ((mustFrom c f above p n).map callKey).Nodup :=
  mustFlat_keys_nodup c f above p [] n h

/-- … hence no pair is ATTEMPTED twice by a benign whole-tree scan of such a tree. -/
theorem run_keys_nodup (c : Cfg) (hb : Benign c) (ho : GiOK c) (hp : c.paths = []) (root : Node) (f : Faults)
    (h : DistinctNames root) : ((run c [(root, f)]).calls.map callKey).Nodup := by
  rw [(run_spec c hb [(root, f)] ho).2]
  simp only [mustExtract, List.flatMap_cons, List.flatMap_nil, List.append_nil, mustRoot, hp, List.isEmpty_nil, if_true]
  split
  · exact List.nodup_nil
  · exact mustFrom_keys_nodup c f [] [] root h

/-! ### `allFiles` enumerates exactly the non-directory nodes of the tree -/

/-- every file `lookup` finds is enumerated (any tree) -/
theorem allFiles_complete (root : Node) (q : Path) (k : Kind) (sz : Nat) (h : lookup root q = some (.file k sz)) :
    ∃ r ∈ allFiles [] [] root, r.path = q ∧ r.kind = k ∧ r.size = sz := by
  obtain ⟨r', hr', he⟩ := allFiles_of_lookup q [] [] [] root (.file k sz) h ⟨q, k, sz, []⟩ (by simp [allFiles])
  simp only [lite, Prod.mk.injEq] at he
  exact ⟨r', hr', he.1, he.2.1, he.2.2⟩

theorem find_of_nodup (s : String) (ch : Node) : ∀ (es : List (String × Node)), (es.map (·.1)).Nodup → (s, ch) ∈ es →
    es.find? (·.1 = s) = some (s, ch)
  | [], _, h => by cases h
  | (t, n) :: rest, hnd, h => by
    simp only [List.map_cons, List.nodup_cons] at hnd
    rcases List.mem_cons.mp h with h | h
    · injection h with h1 h2; subst h1 h2; simp
    · have hne : t ≠ s := by
        intro he; subst he
        exact hnd.1 (List.mem_map.mpr ⟨(t, ch), h, rfl⟩)
      rw [List.find?_cons_of_neg (by simpa using hne)]
      exact find_of_nodup s ch rest hnd.2 h

mutual
theorem allFiles_sound (p : Path) (anc : List DirInfo) :
    ∀ (n : Node), DistinctNames n → ∀ r ∈ allFiles p anc n, ∃ q, r.path = p ++ q ∧ lookup n q = some (.file r.kind r.size)
  | .file k sz, _, r, hr => by
    simp only [allFiles, List.mem_singleton] at hr
    subst hr; exact ⟨[], by simp, rfl⟩
  | .dir gi es, h, r, hr => by
    simp only [allFiles] at hr
    unfold DistinctNames at h
    obtain ⟨s, ch, q, hmem, hp, hl⟩ := allFilesList_sound p gi anc es 0 h.2 r hr
    refine ⟨s :: q, by simpa using hp, ?_⟩
    simp only [lookup, find_of_nodup s ch es h.1 hmem]
    exact hl
theorem allFilesList_sound (p : Path) (gi : Option PatSet) (anc : List DirInfo) :
    ∀ (es : List (String × Node)) (i : Nat), DistinctNamesL es → ∀ r ∈ allFilesList p gi anc es i,
      ∃ s ch q, (s, ch) ∈ es ∧ r.path = p ++ [s] ++ q ∧ lookup ch q = some (.file r.kind r.size)
  | [], _, _, r, hr => by simp [allFilesList] at hr
  | (s, n) :: rest, i, hd, r, hr => by
    simp only [allFilesList, List.mem_append] at hr
    unfold DistinctNamesL at hd
    rcases hr with hr | hr
    · obtain ⟨q, hp, hl⟩ := allFiles_sound (p ++ [s]) _ n hd.1 r hr
      exact ⟨s, n, q, by simp, hp, hl⟩
    · obtain ⟨t, ch, q, hmem, hp, hl⟩ := allFilesList_sound p gi anc rest (i+1) hd.2 r hr
      exact ⟨t, ch, q, by simp [hmem], hp, hl⟩
end

/-- **`allFiles` is exactly the set of files of the tree**: on a tree whose directories list distinct names,
`q` leads to a non-directory node of kind `k` and size `sz` iff the enumeration has a record with that path,
kind and size. (Without distinct names `lookup` only sees the first of two equally named entries; the
enumeration — like the walk — sees both: `allFiles_complete` needs no hypothesis.) -/
theorem allFiles_iff_lookup (root : Node) (h : DistinctNames root) (q : Path) (k : Kind) (sz : Nat) :
    lookup root q = some (.file k sz) ↔ ∃ r ∈ allFiles [] [] root, r.path = q ∧ r.kind = k ∧ r.size = sz := by
  constructor
  · exact allFiles_complete root q k sz
  · rintro ⟨r, hr, rfl, rfl, rfl⟩
    obtain ⟨q, hp, hl⟩ := allFiles_sound [] [] root h r hr
    simp only [List.nil_append] at hp
    rw [hp]; exact hl

/-! ### no package is reported twice unless two `Extract` results contain it -/

theorem mem_pkgsOfCalls (c : Cfg) (cs : List Call) (x : Pkg) (h : x ∈ pkgsOfCalls c cs) :
    ∃ cl ∈ cs, cl.opened = true ∧ cl.ext = x.ext ∧ cl.path = x.loc ∧ x.id ∈ (c.extract cl.ext cl.path).pkgs := by
  simp only [pkgsOfCalls, List.mem_flatMap] at h
  obtain ⟨cl, hcl, hx⟩ := h
  split at hx
  · rename_i ho
    obtain ⟨i, hi, rfl⟩ := List.mem_map.mp hx
    exact ⟨cl, hcl, ho, rfl, rfl, hi⟩
  · cases hx

/-- if no (extractor, file) pair has two `Extract` invocations and no single `Extract` result lists a package
twice, the inventory lists no package twice -/
theorem pkgsOfCalls_nodup (c : Cfg) (hx : ∀ e p, (c.extract e p).pkgs.Nodup) :
    ∀ (cs : List Call), ((cs.filter (·.opened)).map callKey).Nodup → (pkgsOfCalls c cs).Nodup
  | [], _ => by simp [pkgsOfCalls]
  | cl :: rest, h => by
    have hrest : ((rest.filter (·.opened)).map callKey).Nodup := by
      simp only [List.filter_cons] at h
      split at h
      · exact (List.nodup_cons.mp h).2
      · exact h
    have ih := pkgsOfCalls_nodup c hx rest hrest
    have hsplit : pkgsOfCalls c (cl :: rest) = pkgsOfCalls c [cl] ++ pkgsOfCalls c rest := by
      rw [← pkgsOfCalls_append]; rfl
    rw [hsplit, List.nodup_append]
    refine ⟨?_, ih, ?_⟩
    · simp only [pkgsOfCalls, List.flatMap_cons, List.flatMap_nil, List.append_nil]
      split
      · exact List.Pairwise.map _ (fun a b hne he => hne (by injection he)) (hx cl.ext cl.path)
      · exact List.nodup_nil
    · intro a ha b hb hab
      subst hab
      obtain ⟨cl1, hc1, ho1, he1, hp1, _⟩ := mem_pkgsOfCalls c [cl] a ha
      obtain ⟨cl2, hc2, ho2, he2, hp2, _⟩ := mem_pkgsOfCalls c rest a hb
      simp only [List.mem_singleton] at hc1
      subst hc1
      simp only [List.filter_cons, ho1, if_true, List.map_cons, List.nodup_cons] at h
      apply h.1
      exact List.mem_map.mpr ⟨cl2, List.mem_filter.mpr ⟨hc2, by simpa using ho2⟩, by simp [callKey, he1, he2, hp1, hp2]⟩

theorem keys_nodup_filter {l : List Call} (h : (l.map callKey).Nodup) (q : Call → Bool) : ((l.filter q).map callKey).Nodup :=
  List.Nodup.sublist (List.Sublist.map _ List.filter_sublist) h

/-- **No package is reported twice unless two `Extract` results contain it**: in a benign whole-tree scan of
a tree with distinct sibling names, if no single `Extract` result lists a package twice then neither does
the scan. (With several roots, or a path requested twice, the same relative path is legitimately extracted
once per root / request: `C08_roots_benign` says the result is the concatenation.) -/
theorem run_pkgs_nodup (c : Cfg) (hb : Benign c) (ho : GiOK c) (hp : c.paths = []) (root : Node) (f : Faults)
    (h : DistinctNames root) (hx : ∀ e p, (c.extract e p).pkgs.Nodup) : (run c [(root, f)]).pkgs.Nodup := by
  have hk := run_keys_nodup c hb ho hp root f h
  rw [(run_results c hb [(root, f)] ho).1, ← (run_spec c hb [(root, f)] ho).2]
  exact pkgsOfCalls_nodup c hx _ (keys_nodup_filter hk _)

end Scalibr.Walk
