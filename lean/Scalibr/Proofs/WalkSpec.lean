/-
Refinement of model A to its specification: in a benign configuration (no inode limit, no
cancellation, filesystem errors not fatal, extractors do not panic) the stateful walk makes exactly
the `Extract` calls the declarative comprehension `mustFrom` lists — as a LIST, i.e. in enumeration
order and with multiplicities — for every tree, every fault plan, and every option combination.
-/
import Scalibr.Spec.Walk
import Scalibr.Model.Gitignore
import Scalibr.Proofs.WalkStack
namespace Scalibr.Walk

/-- `reached` relative to a walk that has already passed the first `m` directories of the chain -/
def reachedFrom (m : Nat) (c : Cfg) (f : Faults) (above : List GiEntry) (r : FileRec) : Bool :=
  (List.range r.dirs.length).all (fun i => decide (i < m) || dirPasses c f above r.dirs i) && fileEligible c f above r

def mustOneFrom (m : Nat) (c : Cfg) (f : Faults) (above : List GiEntry) (r : FileRec) : List Call :=
  if reachedFrom m c f above r && sizeOk c f r
  then ((List.range c.nExt).filter fun e => c.required e r.path).map fun e => ⟨e, r.path, r.size, readable f r⟩
  else []

theorem reachedFrom_zero (c : Cfg) (f : Faults) (above : List GiEntry) (r : FileRec) :
    reachedFrom 0 c f above r = reached c f above r := by
  unfold reachedFrom reached; simp

theorem mustOneFrom_zero (c : Cfg) (f : Faults) (above : List GiEntry) :
    mustOneFrom 0 c f above = mustOne c f above := by
  funext r; unfold mustOneFrom mustOne; rw [reachedFrom_zero]

/-- peel one directory off the chain -/
theorem reachedFrom_peel (m : Nat) (c : Cfg) (f : Faults) (above : List GiEntry) (r : FileRec)
    (hm : m < r.dirs.length) :
    reachedFrom m c f above r = (dirPasses c f above r.dirs m && reachedFrom (m+1) c f above r) := by
  unfold reachedFrom
  rw [← Bool.and_assoc]
  congr 1
  rw [Bool.eq_iff_iff]
  simp only [List.all_eq_true, List.mem_range, Bool.or_eq_true, decide_eq_true_eq, Bool.and_eq_true]
  constructor
  · intro h
    refine ⟨?_, ?_⟩
    · rcases h m hm with h | h
      · omega
      · exact h
    · intro i hi
      rcases h i hi with h | h
      · left; omega
      · right; exact h
  · rintro ⟨h1, h2⟩ i hi
    rcases h2 i hi with h | h
    · by_cases him : i < m
      · left; exact him
      · have : i = m := by omega
        subst this; right; exact h1
    · right; exact h

theorem mustOneFrom_peel_true (m : Nat) (c : Cfg) (f : Faults) (above : List GiEntry) (r : FileRec)
    (hm : m < r.dirs.length) (hp : dirPasses c f above r.dirs m = true) :
    mustOneFrom m c f above r = mustOneFrom (m+1) c f above r := by
  unfold mustOneFrom; rw [reachedFrom_peel m c f above r hm, hp]; simp

theorem mustOneFrom_peel_false (m : Nat) (c : Cfg) (f : Faults) (above : List GiEntry) (r : FileRec)
    (hm : m < r.dirs.length) (hp : dirPasses c f above r.dirs m = false) :
    mustOneFrom m c f above r = [] := by
  unfold mustOneFrom; rw [reachedFrom_peel m c f above r hm, hp]; simp

/-! every file enumerated below a node carries the node's ancestor chain as a prefix of its own -/
mutual
theorem allFiles_chain (p : Path) (anc : List DirInfo) :
    ∀ (n : Node) (r : FileRec), r ∈ allFiles p anc n → r.dirs.take anc.length = anc ∧ anc.length ≤ r.dirs.length
  | .file k sz, r, hr => by
    simp [allFiles] at hr; subst hr; simp
  | .dir gi es, r, hr => by
    simp only [allFiles] at hr
    exact allFilesList_chain p gi anc es 0 r hr |>.1
theorem allFilesList_chain (p : Path) (gi : Option PatSet) (anc : List DirInfo) :
    ∀ (es : List (String × Node)) (i : Nat) (r : FileRec), r ∈ allFilesList p gi anc es i →
      (r.dirs.take anc.length = anc ∧ anc.length ≤ r.dirs.length) ∧
      ∃ j, i ≤ j ∧ r.dirs[anc.length]? = some ⟨p, gi, j⟩
  | [], i, r, hr => by simp [allFilesList] at hr
  | (s, n) :: rest, i, r, hr => by
    simp only [allFilesList, List.mem_append] at hr
    rcases hr with hr | hr
    · have ⟨h1, h2⟩ := allFiles_chain (p ++ [s]) (anc ++ [⟨p, gi, i⟩]) n r hr
      simp only [List.length_append, List.length_singleton] at h1 h2
      have htake : r.dirs.take anc.length = anc := by
        have : (r.dirs.take (anc.length + 1)).take anc.length = (anc ++ [(⟨p, gi, i⟩ : DirInfo)]).take anc.length := by rw [h1]
        simpa [List.take_take, Nat.min_eq_left (Nat.le_succ _)] using this
      refine ⟨⟨htake, by omega⟩, i, Nat.le_refl _, ?_⟩
      have : (r.dirs.take (anc.length + 1))[anc.length]? = (anc ++ [(⟨p, gi, i⟩ : DirInfo)])[anc.length]? := by rw [h1]
      simpa [List.getElem?_take] using this
    · have ⟨h1, j, hj, h2⟩ := allFilesList_chain p gi anc rest (i+1) r hr
      exact ⟨h1, j, by omega, h2⟩
end

/-- progress relation between two states of a benign walk: `cs` calls were appended, stacks untouched -/
structure Adv (s s' : St) (cs : List Call) : Prop where
  calls : s'.calls = s.calls ++ cs
  gis : s'.gis = s.gis
  giDirs : s'.giDirs = s.giDirs
  cancelled : s'.cancelled = false

theorem adv_iff (s s' : St) (cs : List Call) :
    Adv s s' cs ↔ (s'.calls = s.calls ++ cs ∧ s'.gis = s.gis ∧ s'.giDirs = s.giDirs ∧ s'.cancelled = false) :=
  ⟨fun h => ⟨h.calls, h.gis, h.giDirs, h.cancelled⟩, fun ⟨a, b, c, d⟩ => ⟨a, b, c, d⟩⟩

theorem Adv.trans {a b d : St} {c1 c2 : List Call} (h1 : Adv a b c1) (h2 : Adv b d c2) : Adv a d (c1 ++ c2) :=
  ⟨by rw [h2.calls, h1.calls, List.append_assoc], h2.gis.trans h1.gis, h2.giDirs.trans h1.giDirs, h2.cancelled⟩

theorem prologue_benign (c : Cfg) (hb : Benign c) (s : St) (hc : s.cancelled = false) :
    (prologue c s).2 = none ∧ Adv s (prologue c s).1 [] := by
  obtain ⟨hm, _, _, _, _⟩ := hb
  unfold prologue
  simp [hm, hc]
  simp [adv_iff, hc]

theorem fserrCall_benign (c : Cfg) (hb : Benign c) (s : St) (hc : s.cancelled = false) :
    (fserrCall c s).2 = .none ∧ Adv s (fserrCall c s).1 [] := by
  have hp := prologue_benign c hb s hc
  obtain ⟨_, he, _, _, _⟩ := hb
  unfold fserrCall
  generalize prologue c s = r at hp ⊢
  obtain ⟨s1, e1⟩ := r
  simp only [] at hp
  obtain ⟨h1, h2⟩ := hp
  subst h1
  simp [he]
  exact h2

theorem runExtractor_benign (c : Cfg) (hb : Benign c) (f : Faults) (s : St) (hc : s.cancelled = false)
    (e : Nat) (p : Path) (sz : Nat) :
    (runExtractor c f s e p sz).2 = false ∧
    Adv s (runExtractor c f s e p sz).1 [⟨e, p, sz, !f.openFail p && !f.fileStatFail p⟩] := by
  obtain ⟨_, _, _, hca, hx⟩ := hb
  unfold runExtractor
  by_cases h1 : f.openFail p = true
  · simp [h1]; simp [adv_iff, hc]
  · by_cases h2 : f.fileStatFail p = true
    · simp [h1, h2]; simp [adv_iff, hc]
    · simp only [h1, h2, hca, hx e p]
      simp
      split <;> split <;> simp [adv_iff, hc]

theorem extractLoop_benign (c : Cfg) (hb : Benign c) (f : Faults) (r : FileRec) :
    ∀ (es : List Nat) (s : St) (chk : Bool), s.cancelled = false → (chk = true → sizeOk c f r = true) →
      (extractLoop c f r.path r.size s es chk).2 = none ∧
      Adv s (extractLoop c f r.path r.size s es chk).1
        (if sizeOk c f r then (es.filter fun e => c.required e r.path).map fun e => ⟨e, r.path, r.size, readable f r⟩ else []) := by
  intro es
  induction es with
  | nil => intro s chk hc _; simp [extractLoop]; simp [adv_iff, hc]
  | cons e rest ih =>
    intro s chk hc hchk
    have heo := hb.2.1
    simp only [extractLoop]
    by_cases hreq : c.required e r.path = true
    · simp only [hreq, if_true, List.filter_cons_of_pos]
      have hr := runExtractor_benign c hb f s hc e r.path r.size
      generalize runExtractor c f s e r.path r.size = x at hr ⊢
      obtain ⟨s1, pan⟩ := x
      obtain ⟨hpan, hadv⟩ := hr
      simp only [] at hpan hadv
      subst hpan
      by_cases hcond : (decide (c.maxFileSize > 0) && !chk) = true
      · simp only [hcond, if_true]
        simp only [Bool.and_eq_true, decide_eq_true_eq, Bool.not_eq_true'] at hcond
        by_cases hst : f.statFail r.path = true
        · have : sizeOk c f r = false := by unfold sizeOk; simp [hcond.1, hst]
          simp [hst, heo, this]; simp [adv_iff, hc]
        · by_cases hgt : r.size > c.maxFileSize
          · have : sizeOk c f r = false := by unfold sizeOk; simp [hcond.1, hgt]
            simp [hst, hgt, this]; simp [adv_iff, hc]
          · have hok : sizeOk c f r = true := by unfold sizeOk; simp [hst, hgt]
            simp only [hst, hgt, Bool.false_eq_true, if_false]
            have := ih s1 true hadv.cancelled (fun _ => hok)
            refine ⟨this.1, ?_⟩
            have h3 := Adv.trans hadv this.2
            simp only [hok, if_true] at h3 ⊢
            simpa [readable] using h3
      · simp only [hcond, Bool.false_eq_true, if_false]
        have hok : sizeOk c f r = true := by
          cases hck : chk with
          | true => exact hchk hck
          | false =>
            simp only [hck, Bool.not_false, Bool.and_true, decide_eq_true_eq] at hcond
            unfold sizeOk; simp [hcond]
        have := ih s1 chk hadv.cancelled hchk
        refine ⟨this.1, ?_⟩
        have h3 := Adv.trans hadv this.2
        simp only [hok, if_true] at h3 ⊢
        simpa [readable] using h3
    · simp only [hreq, Bool.false_eq_true, if_false]
      have := ih s chk hc hchk
      simpa [List.filter_cons, hreq] using this

end Scalibr.Walk

namespace Scalibr.Walk

/-- go-git's domain rule makes a directory's own patterns inert on the directory itself (non-root) -/
theorem own_inert (c : Cfg) (hd : DomainLaw c.giMatch) (p : Path) (hp : p ≠ []) (ps : PatSet) (isDir : Bool) :
    c.giMatch ps (domainOf p) (tokens p) isDir = false := by
  apply hd; simp [domainOf, tokens, hp]

theorem shouldSkipDir_eq_excluded (c : Cfg) (gis : List GiEntry) (p : Path) :
    shouldSkipDir c gis p = excludedDir c gis p := by
  unfold shouldSkipDir excludedDir
  cases hr : c.regex <;> cases hg : c.glob <;>
    cases c.dirsToSkip p <;> cases (c.ignoreSubDirs && !c.paths.contains p) <;>
    cases (c.useGitignore && p != [] && stackMatch c gis (tokens p) true) <;> simp
  all_goals (rename_i r; cases r p <;> simp)

theorem stackMatch_append (c : Cfg) (g1 g2 : List GiEntry) (t : List String) (d : Bool) :
    stackMatch c (g1 ++ g2) t d = (stackMatch c g1 t d || stackMatch c g2 t d) := by
  unfold stackMatch; simp [List.any_append]

theorem excluded_push_own (c : Cfg) (hd : DomainLaw c.giMatch) (gis : List GiEntry) (p : Path) (x : Option PatSet) :
    excludedDir c (gis ++ [x.map fun ps => (domainOf p, ps)]) p = excludedDir c gis p := by
  unfold excludedDir
  by_cases hp : p = []
  · subst hp; simp
  · rw [stackMatch_append]
    have : stackMatch c [x.map fun ps => (domainOf p, ps)] (tokens p) true = false := by
      unfold stackMatch
      cases x with
      | none => simp
      | some ps => simp [own_inert c hd p hp ps true]
    rw [this]; simp

theorem excluded_push_none (c : Cfg) (gis : List GiEntry) (p : Path) :
    excludedDir c (gis ++ [none]) p = excludedDir c gis p := by
  unfold excludedDir
  rw [stackMatch_append]
  simp [stackMatch]

/-- the gitignore part of `handleFile` in a benign configuration: afterwards the skip test gives the
verdict of `excludedDir` on the patterns of the directories above, and — when the directory is entered —
the stack carries exactly this directory's `giEntryOf` on top -/
theorem pushGi_benign (c : Cfg) (hb : Benign c) (ho : DomainLaw c.giMatch) (f : Faults) (s : St) (p : Path) (gi : Option PatSet) :
    (pushGi c f s p gi).2 = none ∧
    (pushGi c f s p gi).1.calls = s.calls ∧ (pushGi c f s p gi).1.cancelled = s.cancelled ∧
    shouldSkipDir c (pushGi c f s p gi).1.gis p = excludedDir c s.gis p ∧
    ((c.useGitignore = false ∧ (pushGi c f s p gi).1 = s) ∨
     (c.useGitignore = true ∧ (pushGi c f s p gi).1.giDirs = s.giDirs ++ [p] ∧
       ∃ x, (pushGi c f s p gi).1.gis = s.gis ++ [x] ∧
         (excludedDir c s.gis p = false → ∀ idx, x = giEntryOf f ⟨p, gi, idx⟩))) := by
  have he := hb.2.1
  unfold pushGi
  cases hu : c.useGitignore with
  | false =>
    simp only [Bool.false_eq_true, if_false]
    exact ⟨by trivial, by trivial, by trivial, shouldSkipDir_eq_excluded c s.gis p, Or.inl ⟨by trivial, by trivial⟩⟩
  | true =>
    simp only [if_true]
    by_cases h1 : shouldSkipDir c s.gis p = true
    · simp only [h1, if_true]
      refine ⟨by trivial, by trivial, by trivial, ?_, Or.inr ⟨by trivial, by trivial, none, by trivial, ?_⟩⟩
      · rw [shouldSkipDir_eq_excluded, excluded_push_none]
      · intro hex; rw [shouldSkipDir_eq_excluded] at h1; rw [hex] at h1; cases h1
    · simp only [h1, Bool.false_eq_true, if_false]
      by_cases h2 : f.openFail (p ++ [".gitignore"]) = true
      · simp only [h2, if_true, he, Bool.false_eq_true, if_false]
        refine ⟨by trivial, by trivial, by trivial, ?_, Or.inr ⟨by trivial, by trivial, none, by trivial, ?_⟩⟩
        · rw [shouldSkipDir_eq_excluded, excluded_push_none]
        · intro _ idx; unfold giEntryOf; simp [h2]
      · simp only [h2, Bool.false_eq_true, if_false]
        refine ⟨by trivial, by trivial, by trivial, ?_, Or.inr ⟨by trivial, by trivial, _, rfl, ?_⟩⟩
        · rw [shouldSkipDir_eq_excluded, excluded_push_own c ho]
        · intro _ idx; unfold giEntryOf; simp [h2]

theorem giEntryOf_idx (f : Faults) (p : Path) (gi : Option PatSet) (i j : Nat) :
    giEntryOf f ⟨p, gi, i⟩ = giEntryOf f ⟨p, gi, j⟩ := rfl

theorem gi_guard_congr' (c : Cfg) (A B : List GiEntry) (p : Path) (t : List String) (d : Bool)
    (h : c.useGitignore = true → A = B) :
    (c.useGitignore && p != [] && stackMatch c A t d) = (c.useGitignore && p != [] && stackMatch c B t d) := by
  cases hu : c.useGitignore with
  | false => simp
  | true => rw [h hu]

theorem gi_guard_congr (c : Cfg) (A B : List GiEntry) (t : List String) (d : Bool)
    (h : c.useGitignore = true → A = B) :
    (c.useGitignore && stackMatch c A t d) = (c.useGitignore && stackMatch c B t d) := by
  cases hu : c.useGitignore with
  | false => simp
  | true => rw [h hu]

theorem excluded_congr (c : Cfg) (A B : List GiEntry) (p : Path) (h : c.useGitignore = true → A = B) :
    excludedDir c A p = excludedDir c B p := by
  unfold excludedDir; rw [gi_guard_congr' c A B p _ _ h]

theorem handleLeaf_benign (c : Cfg) (hb : Benign c) (f : Faults) (above : List GiEntry) (s : St) (r : FileRec)
    (hc : s.cancelled = false) (hg : c.useGitignore = true → s.gis = above ++ r.dirs.map (giEntryOf f)) :
    (handleLeaf c f s r.path r.kind r.size).2 = none ∧
    Adv s (handleLeaf c f s r.path r.kind r.size).1 (mustOneFrom r.dirs.length c f above r) := by
  have hreach : reachedFrom r.dirs.length c f above r = fileEligible c f above r := by
    unfold reachedFrom
    have : (List.range r.dirs.length).all (fun i => decide (i < r.dirs.length) || dirPasses c f above r.dirs i) = true := by
      rw [List.all_eq_true]; intro i hi; simp [List.mem_range.mp hi]
    rw [this]; simp
  unfold handleLeaf mustOneFrom
  rw [hreach]
  unfold fileEligible
  rw [← gi_guard_congr c s.gis _ (tokens r.path) false hg]
  by_cases hk : (r.kind = .special || (r.kind = .symlink && !c.readSymlinks)) = true
  · simp only [hk, if_true]
    simp [adv_iff, hc]
  · simp only [hk, Bool.false_eq_true, if_false]
    by_cases hgi : (c.useGitignore && stackMatch c s.gis (tokens r.path) false) = true
    · simp only [hgi, if_true]
      simp [adv_iff, hc]
    · simp only [hgi, Bool.false_eq_true, if_false]
      have := extractLoop_benign c hb f r (List.range c.nExt) s false hc (by simp)
      simpa [hk, hgi] using this

theorem popOnExit_frame (c : Cfg) (s : St) (p : Path) (e : Err) :
    (popOnExit c s p e).1.calls = s.calls ∧ (popOnExit c s p e).1.cancelled = s.cancelled := by
  unfold popOnExit; (repeat' split) <;> simp

/-- the deferred pop after a stack-neutral body undoes exactly this directory's push -/
theorem pop_benign (c : Cfg) (s1 s2 s3 : St) (p : Path) (e : Err) (cs : List Call)
    (hor : (c.useGitignore = false ∧ s2 = s1) ∨
           (c.useGitignore = true ∧ s2.giDirs = s1.giDirs ++ [p] ∧ ∃ x, s2.gis = s1.gis ++ [x]))
    (hcalls : s2.calls = s1.calls) (hadv : Adv s2 s3 cs) :
    (popOnExit c s3 p e).2 = e ∧ Adv s1 (popOnExit c s3 p e).1 cs := by
  have hfr := popOnExit_frame c s3 p e
  rcases hor with ⟨hu, h2⟩ | ⟨hu, hd, x, hg⟩
  · subst h2
    rw [popOnExit_nogi c hu]
    exact ⟨rfl, hadv⟩
  · have := popOnExit_pushed c hu s1 s3 p e x (by rw [hadv.gis, hg]) (by rw [hadv.giDirs, hd])
    refine ⟨this.2, ?_⟩
    exact ⟨by rw [hfr.1, hadv.calls, hcalls], this.1.1, this.1.2, by rw [hfr.2]; exact hadv.cancelled⟩

end Scalibr.Walk

namespace Scalibr.Walk

theorem flatMap_congr' {α β} {l : List α} {f g : α → List β} (h : ∀ x ∈ l, f x = g x) : l.flatMap f = l.flatMap g := by
  induction l with
  | nil => rfl
  | cons a as ih =>
    simp only [List.flatMap_cons]
    rw [h a (by simp), ih (fun x hx => h x (by simp [hx]))]

/-- what `dirPasses` says for the directory at position `anc.length` of a chain that extends `anc` -/
theorem dirPasses_at (c : Cfg) (f : Faults) (above : List GiEntry) (anc : List DirInfo) (r : FileRec)
    (p : Path) (gi : Option PatSet) (j : Nat)
    (htake : r.dirs.take anc.length = anc) (hget : r.dirs[anc.length]? = some ⟨p, gi, j⟩) :
    dirPasses c f above r.dirs anc.length =
      (!excludedDir c (above ++ anc.map (giEntryOf f)) p && !f.openFail p &&
        (List.range (j + 1)).all fun k => !f.readEntryFail p k) := by
  unfold dirPasses
  rw [hget, htake]

mutual
theorem walkNode_spec (c : Cfg) (hb : Benign c) (hdl : DomainLaw c.giMatch) (f : Faults) (above : List GiEntry)
    (p : Path) (anc : List DirInfo) :
    ∀ (n : Node) (s : St), s.cancelled = false →
      (c.useGitignore = true → s.gis = above ++ anc.map (giEntryOf f)) →
      (∀ d ∈ s.giDirs, d.length < p.length) →
      (walkNode c f s p n).2 = .none ∧
      Adv s (walkNode c f s p n).1 ((allFiles p anc n).flatMap (mustOneFrom anc.length c f above))
  | .file k size, s, hc, hg, _ => by
    simp only [walkNode, allFiles, List.flatMap_cons, List.flatMap_nil, List.append_nil]
    have hp := prologue_benign c hb s hc
    generalize prologue c s = x at hp ⊢
    obtain ⟨s1, e1⟩ := x
    obtain ⟨he1, hadv1⟩ := hp
    simp only [] at he1 hadv1
    subst he1
    simp only []
    have hl := handleLeaf_benign c hb f above s1 ⟨p, k, size, anc⟩ hadv1.cancelled
      (fun hu => by rw [hadv1.gis]; exact hg hu)
    simp only [] at hl
    generalize handleLeaf c f s1 p k size = y at hl ⊢
    obtain ⟨s2, e2⟩ := y
    obtain ⟨he2, hadv2⟩ := hl
    simp only [] at he2 hadv2
    subst he2
    exact ⟨rfl, by simpa using Adv.trans hadv1 hadv2⟩
  | .dir gi es, s, hc, hg, hshort => by
    simp only [walkNode, allFiles]
    have hp := prologue_benign c hb s hc
    generalize prologue c s = x at hp ⊢
    obtain ⟨s1, e1⟩ := x
    obtain ⟨he1, hadv1⟩ := hp
    simp only [] at he1 hadv1
    subst he1
    simp only []
    have hpg := pushGi_benign c hb hdl f s1 p gi
    generalize pushGi c f s1 p gi = y at hpg ⊢
    obtain ⟨s2, e2⟩ := y
    obtain ⟨he2, hcalls2, hcan2, hskip, hor⟩ := hpg
    simp only [] at he2 hcalls2 hcan2 hskip hor
    subst he2
    simp only []
    -- the patterns above p, as the specification sees them
    have hexc : excludedDir c s1.gis p = excludedDir c (above ++ anc.map (giEntryOf f)) p :=
      excluded_congr c _ _ p (fun hu => by rw [hadv1.gis]; exact hg hu)
    have hor' : (c.useGitignore = false ∧ s2 = s1) ∨
        (c.useGitignore = true ∧ s2.giDirs = s1.giDirs ++ [p] ∧ ∃ x, s2.gis = s1.gis ++ [x]) := by
      rcases hor with h | ⟨hu, hd, x, hx, _⟩
      · exact Or.inl h
      · exact Or.inr ⟨hu, hd, x, hx⟩
    have hadv22 : Adv s2 s2 [] := ⟨by simp, rfl, rfl, by rw [hcan2]; exact hadv1.cancelled⟩
    -- every file below this directory has it at position anc.length of its chain
    have hchain : ∀ r ∈ allFilesList p gi anc es 0, r.dirs.take anc.length = anc ∧ ∃ j, r.dirs[anc.length]? = some ⟨p, gi, j⟩ ∧ anc.length < r.dirs.length := by
      intro r hr
      have ⟨⟨h1, _⟩, j, _, h3⟩ := allFilesList_chain p gi anc es 0 r hr
      refine ⟨h1, j, h3, ?_⟩
      have := List.getElem?_eq_some_iff.mp h3
      exact this.1
    have hnone : ∀ (hbad : (!excludedDir c (above ++ anc.map (giEntryOf f)) p && !f.openFail p) = false),
        (allFilesList p gi anc es 0).flatMap (mustOneFrom anc.length c f above) = [] := by
      intro hbad
      apply List.flatMap_eq_nil_iff.mpr
      intro r hr
      have ⟨h1, j, h3, h4⟩ := hchain r hr
      apply mustOneFrom_peel_false _ _ _ _ _ h4
      rw [dirPasses_at c f above anc r p gi j h1 h3, hbad]; simp
    by_cases hsk : shouldSkipDir c s2.gis p = true
    · -- skipped directory
      simp only [hsk, if_true]
      have hpop := pop_benign c s1 s2 s2 p .none [] hor' hcalls2 hadv22
      rw [hskip, hexc] at hsk
      rw [hnone (by simp [hsk])]
      exact ⟨hpop.1, by simpa using Adv.trans hadv1 hpop.2⟩
    · simp only [hsk, Bool.false_eq_true, if_false]
      rw [hskip, hexc] at hsk
      by_cases hop : f.openFail p = true
      · -- the directory cannot be opened: second call reports the error, nothing below is visited
        simp only [hop, if_true]
        have hf := fserrCall_benign c hb s2 hadv22.cancelled
        generalize fserrCall c s2 = z at hf ⊢
        obtain ⟨s3, e3⟩ := z
        obtain ⟨he3, hadv3⟩ := hf
        simp only [] at he3 hadv3
        subst he3
        have hpop := pop_benign c s1 s2 s3 p .none [] hor' hcalls2 hadv3
        rw [hnone (by simp [hop])]
        exact ⟨hpop.1, by simpa using Adv.trans hadv1 hpop.2⟩
      · simp only [hop, Bool.false_eq_true, if_false]
        have hexf : excludedDir c (above ++ anc.map (giEntryOf f)) p = false := by simpa using hsk
        have hw := walkEntries_spec c hb hdl f above p gi anc es 0 s2 hadv22.cancelled
          (by
            intro hu
            rcases hor with ⟨hu', _⟩ | ⟨_, _, x, hx, hxe⟩
            · rw [hu] at hu'; cases hu'
            · rw [hx, hadv1.gis, hg hu, hxe (by rw [hexc]; exact hexf) 0])
          (by
            intro d hd
            rcases hor with ⟨_, h2⟩ | ⟨_, hd2, _⟩
            · subst h2; rw [hadv1.giDirs] at hd; have := hshort d hd; omega
            · rw [hd2, hadv1.giDirs] at hd
              rcases List.mem_append.mp hd with hd | hd
              · have := hshort d hd; omega
              · simp at hd; subst hd; omega)
          hexf (by simpa using hop) (by intro j hj; omega)
        generalize walkEntries c f s2 p es 0 = z at hw ⊢
        obtain ⟨s3, e3⟩ := z
        obtain ⟨he3, hadv3⟩ := hw
        simp only [] at he3 hadv3
        subst he3
        have hpop := pop_benign c s1 s2 s3 p .none _ hor' hcalls2 hadv3
        exact ⟨hpop.1, by simpa using Adv.trans hadv1 hpop.2⟩
theorem walkEntries_spec (c : Cfg) (hb : Benign c) (hdl : DomainLaw c.giMatch) (f : Faults) (above : List GiEntry)
    (p : Path) (gi : Option PatSet) (anc : List DirInfo) :
    ∀ (es : List (String × Node)) (k : Nat) (s : St), s.cancelled = false →
      (c.useGitignore = true → s.gis = above ++ anc.map (giEntryOf f) ++ [giEntryOf f ⟨p, gi, 0⟩]) →
      (∀ d ∈ s.giDirs, d.length < p.length + 1) →
      excludedDir c (above ++ anc.map (giEntryOf f)) p = false →
      f.openFail p = false →
      (∀ j, j < k → f.readEntryFail p j = false) →
      (walkEntries c f s p es k).2 = .none ∧
      Adv s (walkEntries c f s p es k).1 ((allFilesList p gi anc es k).flatMap (mustOneFrom anc.length c f above))
  | [], k, s, hc, _, _, _, _, _ => by
    simp only [walkEntries, allFilesList, List.flatMap_nil]
    split
    · exact fserrCall_benign c hb s hc
    · exact ⟨rfl, by simp [adv_iff, hc]⟩
  | (name, n) :: rest, k, s, hc, hg, hshort, hexf, hop, hread => by
    simp only [walkEntries, allFilesList, List.flatMap_append]
    by_cases hrk : f.readEntryFail p k = true
    · -- the listing fails at this entry: iteration ends, nothing at or after index k is visited
      simp only [hrk, if_true]
      have hnone : ∀ i, k ≤ i → ∀ (n' : Node) (q : Path) (r : FileRec), r ∈ allFiles q (anc ++ [⟨p, gi, i⟩]) n' →
          mustOneFrom anc.length c f above r = [] := by
        intro i hi n' q r hr
        have ⟨h1, h2⟩ := allFiles_chain q (anc ++ [⟨p, gi, i⟩]) n' r hr
        simp only [List.length_append, List.length_singleton] at h1 h2
        have htake : r.dirs.take anc.length = anc := by
          have : (r.dirs.take (anc.length + 1)).take anc.length = (anc ++ [(⟨p, gi, i⟩ : DirInfo)]).take anc.length := by rw [h1]
          simpa [List.take_take, Nat.min_eq_left (Nat.le_succ _)] using this
        have hget : r.dirs[anc.length]? = some ⟨p, gi, i⟩ := by
          have : (r.dirs.take (anc.length + 1))[anc.length]? = (anc ++ [(⟨p, gi, i⟩ : DirInfo)])[anc.length]? := by rw [h1]
          simpa [List.getElem?_take] using this
        apply mustOneFrom_peel_false _ _ _ _ _ (by omega)
        rw [dirPasses_at c f above anc r p gi i htake hget]
        have : ((List.range (i + 1)).all fun k => !f.readEntryFail p k) = false := by
          rw [List.all_eq_false]
          exact ⟨k, List.mem_range.mpr (by omega), by simp [hrk]⟩
        rw [this]; simp
      have h1 : (allFiles (p ++ [name]) (anc ++ [⟨p, gi, k⟩]) n).flatMap (mustOneFrom anc.length c f above) = [] :=
        List.flatMap_eq_nil_iff.mpr (fun r hr => hnone k (Nat.le_refl _) n _ r hr)
      have h2 : ∀ (es' : List (String × Node)) (i : Nat), k ≤ i →
          (allFilesList p gi anc es' i).flatMap (mustOneFrom anc.length c f above) = [] := by
        intro es'
        induction es' with
        | nil => intro i _; simp [allFilesList]
        | cons e es' ih =>
          intro i hi
          obtain ⟨nm, n'⟩ := e
          simp only [allFilesList, List.flatMap_append]
          rw [ih (i+1) (by omega), List.flatMap_eq_nil_iff.mpr (fun r hr => hnone i hi n' _ r hr)]
          rfl
      rw [h1, h2 rest (k+1) (by omega)]
      exact fserrCall_benign c hb s hc
    · simp only [hrk, Bool.false_eq_true, if_false]
      have hrk' : f.readEntryFail p k = false := by simpa using hrk
      have hw := walkNode_spec c hb hdl f above (p ++ [name]) (anc ++ [⟨p, gi, k⟩]) n s hc
        (by intro hu; rw [hg hu]; simp [giEntryOf_idx f p gi k 0])
        (by intro d hd; have := hshort d hd; simp; omega)
      generalize walkNode c f s (p ++ [name]) n = z at hw ⊢
      obtain ⟨s1, e1⟩ := z
      obtain ⟨he1, hadv1⟩ := hw
      simp only [] at he1 hadv1
      subst he1
      simp only [ne_eq, not_true_eq_false, if_false]
      have hw2 := walkEntries_spec c hb hdl f above p gi anc rest (k+1) s1 hadv1.cancelled
        (by intro hu; rw [hadv1.gis]; exact hg hu)
        (by rw [hadv1.giDirs]; exact hshort) hexf hop
        (by intro j hj; by_cases hjk : j = k
            · subst hjk; exact hrk'
            · exact hread j (by omega))
      generalize walkEntries c f s1 p rest (k+1) = z2 at hw2 ⊢
      obtain ⟨s2, e2⟩ := z2
      obtain ⟨he2, hadv2⟩ := hw2
      simp only [] at he2 hadv2
      subst he2
      refine ⟨rfl, ?_⟩
      -- files of this entry: directory p (with child index k) lets the walk through
      have hfirst : (allFiles (p ++ [name]) (anc ++ [⟨p, gi, k⟩]) n).flatMap (mustOneFrom anc.length c f above)
          = (allFiles (p ++ [name]) (anc ++ [⟨p, gi, k⟩]) n).flatMap (mustOneFrom (anc ++ [(⟨p, gi, k⟩ : DirInfo)]).length c f above) := by
        apply flatMap_congr'
        intro r hr
        have ⟨h1, h2⟩ := allFiles_chain (p ++ [name]) (anc ++ [⟨p, gi, k⟩]) n r hr
        simp only [List.length_append, List.length_singleton] at h1 h2 ⊢
        have htake : r.dirs.take anc.length = anc := by
          have : (r.dirs.take (anc.length + 1)).take anc.length = (anc ++ [(⟨p, gi, k⟩ : DirInfo)]).take anc.length := by rw [h1]
          simpa [List.take_take, Nat.min_eq_left (Nat.le_succ _)] using this
        have hget : r.dirs[anc.length]? = some ⟨p, gi, k⟩ := by
          have : (r.dirs.take (anc.length + 1))[anc.length]? = (anc ++ [(⟨p, gi, k⟩ : DirInfo)])[anc.length]? := by rw [h1]
          simpa [List.getElem?_take] using this
        apply mustOneFrom_peel_true _ _ _ _ _ (by omega)
        rw [dirPasses_at c f above anc r p gi k htake hget, hexf, hop]
        simp only [Bool.not_false, Bool.true_and, List.all_eq_true, List.mem_range, Bool.not_eq_true']
        intro j hj
        by_cases hjk : j = k
        · subst hjk; exact hrk'
        · exact hread j (by omega)
      rw [hfirst]
      exact Adv.trans hadv1 hadv2
end

end Scalibr.Walk
