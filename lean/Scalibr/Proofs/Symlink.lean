/-
Helper lemmas for C17: algebra of `chain`, the "slow pointer is behind the fast one" invariant of the
tortoise/hare loop, soundness and completeness of `loop` w.r.t. `chain`, the fuel form, the
specification walk, and the segment-level lemmas for `TargetOutsideRoot` / `handleSymlink`.
-/
import Scalibr.Spec.Symlink
namespace Scalibr.Symlink
set_option linter.unusedSectionVars false

variable {α : Type} [DecidableEq α]

/-! ### chain algebra -/

theorem chain_add (g : Graph α) : ∀ a b p, chain g (a+b) p = (chain g a p).bind (chain g b)
  | 0, b, p => by simp [chain]
  | a+1, b, p => by
    rw [Nat.add_right_comm]
    simp only [chain]
    cases hg : g p with
    | none => simp
    | some n =>
      cases n with
      | link t => simpa using chain_add g a b t
      | term k => simp

theorem chain_one_link (g : Graph α) (p t : α) (h : g p = some (.link t)) : chain g 1 p = some t := by
  simp [chain, h]

theorem chain_succ_link (g : Graph α) (k : Nat) (p t : α) (h : g p = some (.link t)) :
    chain g (k+1) p = chain g k t := by
  simp only [chain, h]

theorem chain_none_mono (g : Graph α) (k k' : Nat) (p : α) (h : chain g k p = none) (hk : k ≤ k') :
    chain g k' p = none := by
  obtain ⟨d, rfl⟩ := Nat.exists_eq_add_of_le hk
  rw [chain_add, h]; rfl

/-- the successor of something that is not a link does not exist -/
theorem chain_stop (g : Graph α) (k : Nat) (p q : α) (h : chain g k p = some q) (hq : isLink g q = false) :
    chain g (k+1) p = none := by
  rw [chain_add, h]
  simp only [Option.bind_some, chain]
  unfold isLink at hq
  cases hg : g q with
  | none => rfl
  | some n => cases n with
    | link t => simp [hg] at hq
    | term k => rfl

/-- everything strictly before a reached hop is a link -/
theorem chain_prefix_link (g : Graph α) (b k : Nat) (p q : α) (h : chain g (b+1) p = some q) (hk : k ≤ b) :
    ∃ n, chain g k p = some n ∧ isLink g n = true := by
  obtain ⟨d, hd⟩ := Nat.exists_eq_add_of_le hk
  have h' : chain g (k + (d+1)) p = some q := by rw [← h]; congr 1; omega
  rw [chain_add] at h'
  cases hc : chain g k p with
  | none => simp [hc] at h'
  | some n =>
    refine ⟨n, rfl, ?_⟩
    simp only [hc, Option.bind_some, chain] at h'
    unfold isLink
    cases hg : g n with
    | none => simp [hg] at h'
    | some x => cases x with
      | link t => rfl
      | term k => simp [hg] at h'

theorem isTerm_not_link (g : Graph α) (n : α) (h : isTerm g n = true) : isLink g n = false := by
  unfold isTerm at h; unfold isLink
  cases hg : g n with
  | none => rfl
  | some x => cases x with
    | link t => simp [hg] at h
    | term k => rfl

theorem isLink_not_term (g : Graph α) (n : α) (h : isLink g n = true) : isTerm g n = false := by
  unfold isLink at h; unfold isTerm
  cases hg : g n with
  | none => rfl
  | some x => cases x with
    | link t => rfl
    | term k => simp [hg] at h

theorem isLink_some (g : Graph α) (n : α) (h : isLink g n = true) : g n ≠ none := by
  unfold isLink at h; intro hn; simp [hn] at h

/-- a chain that returns to its start never stops -/
theorem chain_periodic (g : Graph α) (d : Nat) (p : α) (h : chain g d p = some p) :
    ∀ m, chain g (m*d) p = some p
  | 0 => by simp [chain]
  | m+1 => by
    rw [Nat.succ_mul, chain_add, chain_periodic g d p h m]; simpa using h

theorem chain_periodic_never_stops (g : Graph α) (d : Nat) (p : α) (hd : 0 < d) (h : chain g d p = some p) :
    ∀ k, chain g k p ≠ none := by
  intro k hk
  have := chain_none_mono g k (k*d) p hk (Nat.le_mul_of_pos_right k hd)
  rw [chain_periodic g d p h k] at this
  cases this

/-- the first non-symlink on a chain is unique -/
theorem chain_term_unique (g : Graph α) (p : α) (k k' : Nat) (n n' : α)
    (h : chain g k p = some n) (hn : isTerm g n = true)
    (h' : chain g k' p = some n') (hn' : isTerm g n' = true) : k = k' ∧ n = n' := by
  have key : ∀ a b x y, chain g a p = some x → isTerm g x = true → chain g b p = some y → a < b → False := by
    intro a b x y ha hx hb hab
    have := chain_none_mono g (a+1) b p (chain_stop g a p x ha (isTerm_not_link g x hx)) hab
    rw [hb] at this; cases this
  have hk : k = k' := by
    rcases Nat.lt_trichotomy k k' with hlt | heq | hgt
    · exact (key k k' n n' h hn h' hlt).elim
    · exact heq
    · exact (key k' k n' n h' hn' h hgt).elim
  subst hk
  rw [h] at h'
  exact ⟨rfl, Option.some.inj h'⟩

/-! ### the invariant: the slow pointer is on the chain, behind the current node -/

def Behind (g : Graph α) (slow node : α) : Prop := ∃ j, chain g j slow = some node

theorem behind_refl (g : Graph α) (p : α) : Behind g p p := ⟨0, rfl⟩

theorem behind_step_keep (g : Graph α) (slow node t : α) (hb : Behind g slow node)
    (hn : g node = some (.link t)) : Behind g slow t := by
  obtain ⟨j, hj⟩ := hb
  exact ⟨j+1, by rw [chain_add, hj]; simpa using chain_one_link g node t hn⟩

/-- when the fast pointer catches the slow one, the current node lies on a cycle -/
theorem caught_is_cycle (g : Graph α) (slow node : α) (hb : Behind g slow node)
    (hn : g node = some (.link slow)) : ∀ k, chain g k node ≠ none := by
  obtain ⟨j, hj⟩ := hb
  apply chain_periodic_never_stops g (1 + j) node (by omega)
  rw [chain_add, chain_one_link g node slow hn]
  simpa using hj

theorem chain_target_some (g : Graph α) (j : Nat) (s t : α) (h : chain g j s = some t)
    (ht : (g t).isSome = true) : (g s).isSome = true := by
  cases j with
  | zero => simp only [chain, Option.some.injEq] at h; subst h; exact ht
  | succ j =>
    simp only [chain] at h
    cases hg : g s with
    | none => simp [hg] at h
    | some _ => rfl

/-- advancing the slow pointer never fails and keeps it behind -/
theorem behind_step_adv (g : Graph α) (slow node t : α) (hb : Behind g slow node)
    (hn : g node = some (.link t)) (ht : (g t).isSome = true) :
    ∃ s', slowNext g slow = some s' ∧ Behind g s' t := by
  obtain ⟨j, hj⟩ := hb
  have h1 : chain g (j+1) slow = some t := by
    rw [chain_add, hj]; simpa using chain_one_link g node t hn
  rw [Nat.add_comm] at h1
  simp only [Nat.add_comm 1 j, chain] at h1
  unfold slowNext
  cases hg : g slow with
  | none => simp [hg] at h1
  | some x =>
    cases x with
    | term k => simp [hg] at h1
    | link s =>
      simp only [hg] at h1
      have := chain_target_some g j s t h1 ht
      exact ⟨s, by simp [this], j, h1⟩

/-! ### the loop against the chain -/

theorem loop_ok_sound (g : Graph α) :
    ∀ m node slow adv n, loop g m node slow adv = .ok n →
      ∃ k, k < m ∧ chain g k node = some n ∧ isTerm g n = true := by
  intro m
  induction m with
  | zero => intro node slow adv n h; simp [loop] at h
  | succ m ih =>
    intro node slow adv n h
    simp only [loop] at h
    cases hg : g node with
    | none => simp [hg] at h
    | some x =>
      cases x with
      | term k =>
        simp only [hg, Res.ok.injEq] at h
        subst h
        exact ⟨0, by omega, rfl, by simp [isTerm, hg]⟩
      | link t =>
        simp only [hg] at h
        have lift : ∀ k, k < m → chain g k t = some n → isTerm g n = true →
            ∃ k, k < m + 1 ∧ chain g k node = some n ∧ isTerm g n = true := by
          intro k hk hc hn
          exact ⟨k+1, by omega, by simp [chain, hg, hc], hn⟩
        cases hgt : g t with
        | none => simp only [hgt] at h; split at h <;> cases h
        | some y =>
          simp only [hgt] at h
          split at h
          · cases h
          · split at h
            · cases hs : slowNext g slow with
              | none => simp [hs] at h
              | some s' =>
                simp only [hs] at h
                obtain ⟨k, hk, hc, hn⟩ := ih _ _ _ _ h
                exact lift k hk hc hn
            · obtain ⟨k, hk, hc, hn⟩ := ih _ _ _ _ h
              exact lift k hk hc hn

theorem loop_complete (g : Graph α) :
    ∀ m node slow adv k n, Behind g slow node → chain g k node = some n → isTerm g n = true → k < m →
      loop g m node slow adv = .ok n := by
  intro m
  induction m with
  | zero => intro node slow adv k n _ _ _ hk; omega
  | succ m ih =>
    intro node slow adv k n hb hc hn hk
    simp only [loop]
    cases k with
    | zero =>
      simp only [chain, Option.some.injEq] at hc
      subst hc
      unfold isTerm at hn
      cases hg : g node with
      | none => simp [hg] at hn
      | some x => cases x with
        | link t => simp [hg] at hn
        | term k => rfl
    | succ k =>
      simp only [chain] at hc
      cases hg : g node with
      | none => simp [hg] at hc
      | some x =>
        cases x with
        | term k' => simp [hg] at hc
        | link t =>
          simp only [hg] at hc ⊢
          have hts : (g t).isSome = true := by
            apply chain_target_some g k t n hc
            unfold isTerm at hn
            cases hgn : g n with
            | none => simp [hgn] at hn
            | some _ => rfl
          cases hgt : g t with
          | none => simp [hgt] at hts
          | some y =>
            simp only []
            have hne : t ≠ slow := by
              intro heq
              subst heq
              have := caught_is_cycle g t node hb hg (k+2)
              apply this
              have h2 : chain g (k+1) node = some n := by simp [chain, hg, hc]
              exact chain_stop g (k+1) node n h2 (isTerm_not_link g n hn)
            simp only [hne, if_false]
            cases adv with
            | true =>
              obtain ⟨s', hs, hb'⟩ := behind_step_adv g slow node t hb hg hts
              simp only [if_true, hs]
              exact ih t s' false k n hb' hc hn (by omega)
            | false =>
              simp only [Bool.false_eq_true, if_false]
              exact ih t slow true k n (behind_step_keep g slow node t hb hg) hc hn (by omega)

/-- a missing entry at hop `j < m` (i.e. `j ≤ depth`: within the budget) is reported as not-exist -/
theorem loop_notfound (g : Graph α) :
    ∀ m node slow adv j q, Behind g slow node → chain g j node = some q → g q = none → j < m →
      loop g m node slow adv = .notExist := by
  intro m
  induction m with
  | zero => intro node slow adv j q _ _ _ hm; omega
  | succ m ih =>
    intro node slow adv j q hb hc hq hj
    simp only [loop]
    cases j with
    | zero =>
      simp only [chain, Option.some.injEq] at hc
      subst hc
      simp [hq]
    | succ j =>
      simp only [chain] at hc
      cases hg : g node with
      | none => rfl
      | some x =>
        cases x with
        | term k' => simp [hg] at hc
        | link t =>
          simp only [hg] at hc ⊢
          cases hgt : g t with
          | none =>
            have hm : m ≠ 0 := by omega
            simp [hm]
          | some y =>
            simp only []
            have hne : t ≠ slow := by
              intro heq
              subst heq
              have := caught_is_cycle g t node hb hg (j+2)
              apply this
              have h2 : chain g (j+1) node = some q := by simp [chain, hg, hc]
              exact chain_stop g (j+1) node q h2 (by simp [isLink, hq])
            simp only [hne, if_false]
            cases adv with
            | true =>
              obtain ⟨s', hs, hb'⟩ := behind_step_adv g slow node t hb hg (by simp [hgt])
              simp only [if_true, hs]
              exact ih t s' false j q hb' hc hq (by omega)
            | false =>
              simp only [Bool.false_eq_true, if_false]
              exact ih t slow true j q (behind_step_keep g slow node t hb hg) hc hq (by omega)

/-- not-exist is only ever reported for a missing entry within the budget (hop `j < m`, i.e. `j ≤ depth`) -/
theorem loop_notExist_sound (g : Graph α) :
    ∀ m node slow adv, Behind g slow node → loop g m node slow adv = .notExist →
      ∃ j q, j < m ∧ chain g j node = some q ∧ g q = none := by
  intro m
  induction m with
  | zero => intro node slow adv _ h; simp [loop] at h
  | succ m ih =>
    intro node slow adv hb h
    simp only [loop] at h
    cases hg : g node with
    | none => exact ⟨0, node, by omega, rfl, hg⟩
    | some x =>
      cases x with
      | term k => simp [hg] at h
      | link t =>
        simp only [hg] at h
        have lift : ∀ j q, j < m → chain g j t = some q → g q = none →
            ∃ j q, j < m + 1 ∧ chain g j node = some q ∧ g q = none := by
          intro j q hj hc hq
          exact ⟨j+1, q, by omega, by simp [chain, hg, hc], hq⟩
        cases hgt : g t with
        | none =>
          simp only [hgt] at h
          have hm : m ≠ 0 := by intro h0; simp [h0] at h
          exact ⟨1, t, by omega, by simp [chain, hg], hgt⟩
        | some y =>
          simp only [hgt] at h
          split at h
          · cases h
          · cases adv with
            | true =>
              obtain ⟨s', hs, hb'⟩ := behind_step_adv g slow node t hb hg (by simp [hgt])
              simp only [if_true, hs] at h
              obtain ⟨j, q, hj, hc, hq⟩ := ih _ _ _ hb' h
              exact lift j q hj hc hq
            | false =>
              simp only [Bool.false_eq_true, if_false] at h
              obtain ⟨j, q, hj, hc, hq⟩ := ih _ _ _ (behind_step_keep g slow node t hb hg) h
              exact lift j q hj hc hq

/-- a reported cycle is a real one: the chain from the current node never stops -/
theorem loop_cycle_real (g : Graph α) :
    ∀ m node slow adv, Behind g slow node → loop g m node slow adv = .cycle → ∀ k, chain g k node ≠ none := by
  intro m
  induction m with
  | zero => intro node slow adv _ h; simp [loop] at h
  | succ m ih =>
    intro node slow adv hb h
    simp only [loop] at h
    cases hg : g node with
    | none => simp [hg] at h
    | some x =>
      cases x with
      | term k => simp [hg] at h
      | link t =>
        simp only [hg] at h
        have lift : (∀ k, chain g k t ≠ none) → ∀ k, chain g k node ≠ none := by
          intro ht k
          cases k with
          | zero => simp [chain]
          | succ k => simpa [chain, hg] using ht k
        cases hgt : g t with
        | none => simp only [hgt] at h; split at h <;> cases h
        | some y =>
          simp only [hgt] at h
          split at h
          · rename_i heq
            subst heq
            exact caught_is_cycle g t node hb hg
          · cases adv with
            | true =>
              obtain ⟨s', hs, hb'⟩ := behind_step_adv g slow node t hb hg (by simp [hgt])
              simp only [if_true, hs] at h
              exact lift (ih _ _ _ hb' h)
            | false =>
              simp only [Bool.false_eq_true, if_false] at h
              exact lift (ih _ _ _ (behind_step_keep g slow node t hb hg) h)

/-- the Go loop with an `Int` counter and explicit fuel computes `loop` as soon as fuel > m -/
theorem loopF_eq_loop (g : Graph α) :
    ∀ m fuel node slow adv, m < fuel → loopF g fuel node slow adv ((m : Int) - 1) = some (loop g m node slow adv) := by
  intro m
  induction m with
  | zero =>
    intro fuel node slow adv hf
    cases fuel with
    | zero => omega
    | succ f => simp [loopF, loop]
  | succ m ih =>
    intro fuel node slow adv hf
    cases fuel with
    | zero => omega
    | succ f =>
      have hd : ¬ (((m + 1 : Nat) : Int) - 1 < 0) := by omega
      have hdec : ((m + 1 : Nat) : Int) - 1 - 1 = (m : Int) - 1 := by omega
      simp only [loopF, loop, hd, if_false, hdec]
      cases hg : g node with
      | none => rfl
      | some x =>
        cases x with
        | term k => rfl
        | link t =>
          simp only []
          cases hgt : g t with
          | none =>
            have e : (((m + 1 : Nat) : Int) - 1 = 0) ↔ m = 0 := by omega
            simp only [e]
            split <;> rfl
          | some y =>
            simp only []
            split
            · rfl
            · split
              · cases hs : slowNext g slow with
                | none => rfl
                | some s' => exact ih f t s' false (by omega)
              · exact ih f t slow true (by omega)

/-! ### the specification walk, read on the chain -/

theorem specWalk_mustOk (g : Graph α) :
    ∀ b p n, specWalk g b p = .mustOk n → ∃ k, k ≤ b ∧ chain g k p = some n ∧ isReal g n = true := by
  intro b
  induction b with
  | zero =>
    intro p n h
    unfold specWalk at h
    cases hg : g p with
    | none => simp [hg] at h
    | some x =>
      cases x with
      | term k =>
        cases k <;> simp [hg] at h <;> (subst h; exact ⟨0, by omega, rfl, by simp [isReal, hg]⟩)
      | link t => simp [hg] at h
  | succ b ih =>
    intro p n h
    unfold specWalk at h
    cases hg : g p with
    | none => simp [hg] at h
    | some x =>
      cases x with
      | term k =>
        cases k <;> simp [hg] at h <;> (subst h; exact ⟨0, by omega, rfl, by simp [isReal, hg]⟩)
      | link t =>
        simp only [hg] at h
        obtain ⟨k, hk, hc, hr⟩ := ih t n h
        exact ⟨k+1, by omega, by simp [chain, hg, hc], hr⟩

theorem specWalk_mustNotExist (g : Graph α) :
    ∀ b p, specWalk g b p = .mustNotExist → ∃ k q, k ≤ b ∧ chain g k p = some q ∧ isGone g q = true := by
  intro b
  induction b with
  | zero =>
    intro p h
    unfold specWalk at h
    cases hg : g p with
    | none => exact ⟨0, p, by omega, rfl, by simp [isGone, hg]⟩
    | some x =>
      cases x with
      | term k =>
        cases k <;> simp [hg] at h
        exact ⟨0, p, by omega, rfl, by simp [isGone, hg]⟩
      | link t => simp [hg] at h
  | succ b ih =>
    intro p h
    unfold specWalk at h
    cases hg : g p with
    | none => exact ⟨0, p, by omega, rfl, by simp [isGone, hg]⟩
    | some x =>
      cases x with
      | term k =>
        cases k <;> simp [hg] at h
        exact ⟨0, p, by omega, rfl, by simp [isGone, hg]⟩
      | link t =>
        simp only [hg] at h
        obtain ⟨k, q, hk, hc, hq⟩ := ih t h
        exact ⟨k+1, q, by omega, by simp [chain, hg, hc], hq⟩

/-- `cycleOrDepth`: the chain is still running after the last permitted hop — the entry `b` hops along
is a symlink (whatever its target is) -/
theorem specWalk_cod (g : Graph α) :
    ∀ b p, specWalk g b p = .cycleOrDepth → ∃ q, chain g (b+1) p = some q := by
  intro b
  induction b with
  | zero =>
    intro p h
    unfold specWalk at h
    cases hg : g p with
    | none => simp [hg] at h
    | some x =>
      cases x with
      | term k => cases k <;> simp [hg] at h
      | link t => exact ⟨t, by simp [chain, hg]⟩
  | succ b ih =>
    intro p h
    unfold specWalk at h
    cases hg : g p with
    | none => simp [hg] at h
    | some x =>
      cases x with
      | term k => cases k <;> simp [hg] at h
      | link t =>
        simp only [hg] at h
        obtain ⟨q, hc⟩ := ih t h
        exact ⟨q, by rw [chain_succ_link g _ p t hg]; exact hc⟩

theorem isReal_isTerm (g : Graph α) (n : α) (h : isReal g n = true) : isTerm g n = true := by
  unfold isReal at h; unfold isTerm
  cases hg : g n with
  | none => simp [hg] at h
  | some x => cases x with
    | link t => simp [hg] at h
    | term k => rfl

/-- no non-symlink within `D` hops and no missing entry within `D` hops: a cycle or depth error -/
theorem resolve_err (g : Graph α) (D : Nat) (p : α)
    (h1 : ∀ k n, k ≤ D → chain g k p = some n → isTerm g n = false)
    (h2 : ∀ j q, j ≤ D → chain g j p = some q → g q ≠ none) :
    resolve g D p = .cycle ∨ resolve g D p = .depth := by
  unfold resolve
  cases hr : loop g (D+1) p p false with
  | ok n =>
    obtain ⟨k, hk, hc, hn⟩ := loop_ok_sound g _ _ _ _ _ hr
    have := h1 k n (by omega) hc
    rw [hn] at this; cases this
  | notExist =>
    obtain ⟨j, q, hj, hc, hq⟩ := loop_notExist_sound g _ _ _ _ (behind_refl g p) hr
    exact (h2 j q (by omega) hc hq).elim
  | cycle => exact Or.inl rfl
  | depth => exact Or.inr rfl

/-! ### load time: `TargetOutsideRoot` on segments -/

def plain (s : String) : Bool := s ≠ "." && s ≠ "" && s ≠ ".."

theorem cleanRelAux_no_marker : ∀ (rest : List String) (st : List Seg), st.contains none = false →
    (cleanRelAux st (rest.map some)).contains none = false
  | [], st, h => by simpa [cleanRelAux] using h
  | s :: rest, st, h => by
    simp only [List.map_cons, cleanRelAux]
    split
    · exact cleanRelAux_no_marker rest st h
    · split
      · cases st with
        | nil => exact cleanRelAux_no_marker rest _ (by simp)
        | cons top st' =>
          simp only []
          split
          · exact cleanRelAux_no_marker rest _ (by simpa using h)
          · apply cleanRelAux_no_marker rest st'
            simp only [List.contains_cons, Bool.or_eq_false_iff] at h
            exact h.2
      · exact cleanRelAux_no_marker rest _ (by simpa using h)

/-- with the marker at the bottom of the stack and only ordinary names above it, the marker survives
exactly when the remaining segments never climb above it -/
theorem cleanRelAux_marker : ∀ (rest : List String) (ns : List String), (∀ n ∈ ns, n ≠ "..") →
    (cleanRelAux (ns.map some ++ [none]) (rest.map some)).contains none = !escapes ns.length rest
  | [], ns, _ => by simp [cleanRelAux, escapes]
  | s :: rest, ns, hns => by
    simp only [List.map_cons, cleanRelAux, escapes]
    by_cases hdot : s = "." ∨ s = ""
    · have h1 : isDot (some s) = true := by rcases hdot with h | h <;> simp [isDot, h]
      have h2 : (s = "." || s = "") = true := by rcases hdot with h | h <;> simp [h]
      simp only [h1, h2, if_true]
      exact cleanRelAux_marker rest ns hns
    · have h1 : isDot (some s) = false := by
        simp only [not_or] at hdot; simp [isDot, hdot.1, hdot.2]
      have h2 : (s = "." || s = "") = false := by
        simp only [not_or] at hdot; simp [hdot.1, hdot.2]
      simp only [h1, h2, Bool.false_eq_true, if_false]
      by_cases hdd : s = ".."
      · subst hdd
        have e1 : isDotDot (some "..") = true := by simp [isDotDot]
        simp only [e1, if_true]
        cases ns with
        | nil =>
          have e2 : isDotDot (none : Seg) = false := by simp [isDotDot]
          simp only [List.map_nil, List.nil_append, List.length_nil, e2, Bool.false_eq_true, if_false]
          rw [cleanRelAux_no_marker rest [] (by simp)]; rfl
        | cons n ns' =>
          have hn : n ≠ ".." := hns n (by simp)
          have e3 : isDotDot (some n) = false := by simp [isDotDot, hn]
          simp only [List.map_cons, List.cons_append, List.length_cons, e3, Bool.false_eq_true, if_false]
          exact cleanRelAux_marker rest ns' (fun x hx => hns x (by simp [hx]))
      · have h3 : isDotDot (some s) = false := by simp [isDotDot, hdd]
        simp only [h3, hdd, Bool.false_eq_true, if_false]
        have := cleanRelAux_marker rest (s :: ns) (by
          intro x hx
          simp only [List.mem_cons] at hx
          rcases hx with rfl | hx
          · exact hdd
          · exact hns x hx)
        simpa using this

theorem escapes_plain_prefix : ∀ (dir tgt : List String) (d : Nat), (∀ n ∈ dir, plain n = true) →
    escapes d (dir ++ tgt) = escapes (d + dir.length) tgt
  | [], tgt, d, _ => by simp
  | s :: dir, tgt, d, h => by
    have hs := h s (by simp)
    simp only [plain, Bool.and_eq_true, decide_eq_true_eq, ne_eq] at hs
    simp only [List.cons_append, escapes, hs.1.1, hs.1.2, hs.2, Bool.or_self, if_false,
      List.length_cons]
    rw [escapes_plain_prefix dir tgt (d+1) (fun n hn => h n (by simp [hn]))]
    rw [show d + 1 + dir.length = d + (dir.length + 1) by omega]
    simp

theorem canonical_cleanAbsAux : ∀ (rest st : List String), canonical st = true → canonical (cleanAbsAux st rest) = true
  | [], st, h => by simpa [cleanAbsAux] using h
  | s :: rest, st, h => by
    simp only [cleanAbsAux]
    split
    · exact canonical_cleanAbsAux rest st h
    · split
      · apply canonical_cleanAbsAux rest st.tail
        cases st with
        | nil => rfl
        | cons a st' => simp only [canonical, List.all_cons, Bool.and_eq_true] at h; exact h.2
      · apply canonical_cleanAbsAux rest (s :: st)
        rename_i h1 h2
        simp only [Bool.or_eq_true, decide_eq_true_eq, not_or] at h1
        simp only [canonical, List.all_cons, Bool.and_eq_true] at h ⊢
        exact ⟨by simp [h1.1, h1.2, h2], h⟩

/-- the specification's own lexical resolver agrees with "does not escape, then `path.Clean`" -/
theorem resolveLex_eq : ∀ (segs cur : List String),
    resolveLex cur segs =
      if escapes cur.length segs then none else some (cleanAbsAux cur.reverse segs).reverse
  | [], cur => by simp [resolveLex, escapes, cleanAbsAux]
  | s :: rest, cur => by
    unfold resolveLex escapes cleanAbsAux
    by_cases hdot : (s = "." || s = "") = true
    · simp only [hdot, if_true]
      exact resolveLex_eq rest cur
    · simp only [hdot, Bool.false_eq_true, if_false]
      by_cases hdd : s = ".."
      · simp only [hdd, if_true]
        cases hc : cur.reverse with
        | nil =>
          have : cur = [] := by simpa using hc
          subst this
          simp
        | cons x xs =>
          have hne : cur ≠ [] := by intro h; subst h; simp at hc
          have hlen : cur.length = xs.length + 1 := by
            have := congrArg List.length hc; simpa using this
          simp only [hne, if_false, hlen, List.tail_cons]
          have := resolveLex_eq rest cur.dropLast
          rw [this]
          have h1 : cur.dropLast.length = xs.length := by simp [hlen]
          have h2 : cur.dropLast.reverse = xs := by
            rw [← List.tail_reverse, hc]; rfl
          rw [h1, h2]
      · simp only [hdd, if_false]
        have := resolveLex_eq rest (cur ++ [s])
        rw [this]
        simp

theorem chain_reaches_link_or_end (g : Graph α) (b k : Nat) (p q : α) (h : chain g (b+1) p = some q) (hk : k ≤ b) :
    ∀ n, chain g k p = some n → isTerm g n = false ∧ g n ≠ none := by
  intro n hn
  obtain ⟨n', hn', hl⟩ := chain_prefix_link g b k p q h hk
  rw [hn] at hn'
  cases hn'
  exact ⟨isLink_not_term g n hl, isLink_some g n hl⟩

end Scalibr.Symlink
