/-
C10, exact inode-limit behaviour: with an inode limit (errors not fatal, no cancellation, extractors do
not panic) a scan fails with the MaxInodes error exactly when the forest holds more inodes to visit than
the limit (`visitsScan`, defined on the trees and fault plans without reference to the engine), and it
reports exactly `min visitsScan MaxInodes` visited inodes — for every forest, fault plan and option
combination.  Corollary of `run_trace` (Proofs/WalkTrace.lean).
-/
import Scalibr.Proofs.WalkTrace
namespace Scalibr.Walk

/-- an inode limit is set; errors are not fatal, no cancellation, extractors do not panic -/
def LimitCfg (c : Cfg) : Prop :=
  c.maxInodes > 0 ∧ c.errorOnFSErrors = false ∧ c.cancelBefore = false ∧ c.cancelAt = none ∧
  ∀ e p, (c.extract e p).panics = false

/-! ### the machine under an inode limit -/

theorem runT_limit (c : Cfg) (hm : c.maxInodes > 0) (hca : c.cancelAt = none) :
    ∀ (T : List (List Call)) (a : AS), a.cancelled = false → a.visited = a.inodes → a.inodes ≤ c.maxInodes →
      (runT c a T).2 = (if a.inodes + T.length > c.maxInodes then .maxInodes else .none) ∧
      (runT c a T).1.visited = min (a.inodes + T.length) c.maxInodes
  | [], a, _, hv, hle => by
    simp only [runT_nil, List.length_nil, Nat.add_zero]
    refine ⟨by rw [if_neg (by omega)], ?_⟩
    rw [hv]; omega
  | b :: T, a, hc, hv, hle => by
    by_cases hover : a.inodes + 1 > c.maxInodes
    · have hp : aPro c a = ({ a with inodes := a.inodes + 1 }, some .maxInodes) := by
        unfold aPro; simp [hm, hover]
      rw [runT_cons_err c a _ _ b T hp]
      simp only [List.length_cons]
      refine ⟨by rw [if_pos (by omega)], ?_⟩
      rw [hv]; omega
    · have hp : aPro c a = ({ a with inodes := a.inodes + 1, visited := a.visited + 1 }, none) := by
        unfold aPro; simp [hover, hc]
      rw [runT_cons_ok c a _ b T hp]
      have ih := runT_limit c hm hca T (aBlock c { a with inodes := a.inodes + 1, visited := a.visited + 1 } b)
        (by simp [aBlock, hc, hca, hits]) (by simp [aBlock, hv]) (by simp only [aBlock]; omega)
      simp only [aBlock, List.length_cons] at ih ⊢
      refine ⟨?_, ?_⟩
      · rw [ih.1]; congr 1; rw [eq_iff_iff]; omega
      · rw [ih.2]; omega

/-- **Exact inode-limit behaviour** (whole scan; the counter is shared by all roots): the scan fails with
the MaxInodes error exactly when the forest holds more inodes to visit than the limit, and the number of
`AfterInodeVisited` reports is `min visitsScan MaxInodes`. -/
theorem run_limit (c : Cfg) (hl : LimitCfg c) (hd : DomainLaw c.giMatch) (roots : List (Node × Faults)) :
    (run c roots).err = (if visitsScan c roots > c.maxInodes then .maxInodes else .none) ∧
    (run c roots).visited = min (visitsScan c roots) c.maxInodes := by
  obtain ⟨hm, he, hcb, hca, hx⟩ := hl
  have ht := run_trace c ⟨he, hx⟩ hd roots
  have hlim := runT_limit c hm hca (traceScan c roots) ⟨0, 0, 0, c.cancelBefore, []⟩ hcb rfl (Nat.zero_le _)
  rw [traceScan_length] at hlim
  simp only [Nat.zero_add] at hlim
  exact ⟨ht.1.trans hlim.1, ht.2.1.trans hlim.2⟩

end Scalibr.Walk
