/-
Helper lemmas for C04: paths, `inWhiteoutDir`, one fill, the parents fold, what one layer does to a view.
-/
import Scalibr.Model.Overlay
import Scalibr.Spec.Overlay
namespace Scalibr.Overlay

/-! ### paths -/

theorem isUnder_iff (a p : Path) : isUnder a p = true ↔ a.length < p.length ∧ p.take a.length = a := by
  unfold isUnder; simp

theorem isUnder_irrefl (p : Path) : isUnder p p = false := by
  unfold isUnder; simp

theorem isUnder_trans {a b c : Path} (h1 : isUnder a b = true) (h2 : isUnder b c = true) : isUnder a c = true := by
  rw [isUnder_iff] at *
  obtain ⟨l1, t1⟩ := h1
  obtain ⟨l2, t2⟩ := h2
  refine ⟨by omega, ?_⟩
  have : (c.take b.length).take a.length = c.take a.length := by
    rw [List.take_take]; congr 1; omega
  rw [← this, t2, t1]

theorem isUnder_ne {a p : Path} (h : isUnder a p = true) : a ≠ p := by
  intro e; subst e; rw [isUnder_irrefl] at h; cases h

theorem isUnder_nil (p : Path) : isUnder [] p = true ↔ p ≠ [] := by
  rw [isUnder_iff]; cases p <;> simp

theorem not_isUnder_nil (a : Path) : isUnder a [] = false := by
  unfold isUnder; simp

/-- two ancestors of one path are comparable -/
theorem isUnder_comparable {a b p : Path} (ha : isUnder a p = true) (hb : isUnder b p = true) :
    a = b ∨ isUnder a b = true ∨ isUnder b a = true := by
  rw [isUnder_iff] at ha hb
  obtain ⟨la, ta⟩ := ha
  obtain ⟨lb, tb⟩ := hb
  rcases Nat.lt_trichotomy a.length b.length with h | h | h
  · right; left; rw [isUnder_iff]; refine ⟨h, ?_⟩
    rw [← tb, List.take_take]; rw [← ta]; congr 1; simp; omega
  · left; rw [← ta, ← tb, h]
  · right; right; rw [isUnder_iff]; refine ⟨h, ?_⟩
    rw [← ta, List.take_take]; rw [← tb]; congr 1; simp; omega

theorem mem_parents (p q : Path) : q ∈ parents p ↔ (q ≠ [] ∧ isUnder q p = true) := by
  unfold parents
  rw [isUnder_iff]
  simp only [List.mem_map]
  constructor
  · rintro ⟨k, hk, rfl⟩
    have hk' := List.mem_of_mem_drop hk
    have hlt : k < p.length := List.mem_range.mp hk'
    have hk1 : 1 ≤ k := by
      rcases Nat.eq_zero_or_pos k with h0 | h0
      · subst h0
        cases hp : p.length with
        | zero => omega
        | succ n =>
          rw [hp, List.range_succ_eq_map] at hk
          simp at hk
      · exact h0
    have hlen : (p.take k).length = k := by simp [List.length_take]; omega
    refine ⟨?_, ?_, ?_⟩
    · intro h; rw [h] at hlen; simp at hlen; omega
    · rw [hlen]; exact hlt
    · rw [hlen]
  · rintro ⟨hne, hlt, htake⟩
    refine ⟨q.length, ?_, htake⟩
    have h1 : 1 ≤ q.length := by cases q <;> simp_all
    cases hp : p.length with
    | zero => omega
    | succ n =>
      rw [List.range_succ_eq_map]
      simp
      refine ⟨q.length - 1, ?_, by omega⟩
      omega

theorem not_mem_parents_self (p : Path) : p ∉ parents p := by
  intro h; have := (mem_parents p p).mp h; rw [isUnder_irrefl] at this; cases this.2

theorem nil_not_mem_parents (p : Path) : ([] : Path) ∉ parents p := by
  intro h; exact ((mem_parents p []).mp h).1 rfl

/-! ### `inWhiteoutDir` -/

/-- the node at `d`, if any, hides what is below it -/
def blocksAt (t : Tree) (d : Path) : Bool :=
  match t.get d with
  | some n => n.blocks
  | none => false

theorem inWhDirUp_eq (t : Tree) (rp : List String) :
    inWhDirUp t rp = (List.range rp.length).any fun k => blocksAt t (rp.reverse.take k) := by
  induction rp with
  | nil => simp [inWhDirUp]
  | cons x rd ih =>
    have hlen : rd.reverse.length = rd.length := by simp
    have hrange : (List.range (rd.length + 1)).any (fun k => blocksAt t ((rd.reverse ++ [x]).take k)) =
        ((List.range rd.length).any (fun k => blocksAt t (rd.reverse.take k)) || blocksAt t rd.reverse) := by
      rw [List.range_succ, List.any_append]
      congr 1
      · rw [Bool.eq_iff_iff]; simp only [List.any_eq_true, List.mem_range]
        constructor <;> rintro ⟨k, hk, h⟩ <;> refine ⟨k, hk, ?_⟩
        · rwa [List.take_append_of_le_length (by omega)] at h
        · rwa [List.take_append_of_le_length (by omega)]
      · simp [hlen]
    simp only [List.length_cons, List.reverse_cons]
    rw [hrange, ← ih]
    simp only [inWhDirUp, blocksAt]
    cases h : t.get rd.reverse with
    | none => simp
    | some n => cases hb : n.blocks <;> simp [hb]

theorem inWhDir_iff (t : Tree) (p : Path) :
    inWhDir t p = true ↔ ∃ d, isUnder d p = true ∧ blocksAt t d = true := by
  unfold inWhDir
  rw [inWhDirUp_eq]
  simp only [List.any_eq_true, List.mem_range, List.length_reverse, List.reverse_reverse]
  constructor
  · rintro ⟨k, hk, hb⟩
    refine ⟨p.take k, ?_, hb⟩
    rw [isUnder_iff]
    have : (p.take k).length = k := by simp; omega
    rw [this]; exact ⟨hk, rfl⟩
  · rintro ⟨d, hd, hb⟩
    rw [isUnder_iff] at hd
    exact ⟨d.length, hd.1, by rw [hd.2]; exact hb⟩

theorem inWhDir_false_iff (t : Tree) (p : Path) :
    inWhDir t p = false ↔ ∀ d, isUnder d p = true → blocksAt t d = false := by
  constructor
  · intro h d hd
    cases hb : blocksAt t d with
    | false => rfl
    | true => have := (inWhDir_iff t p).mpr ⟨d, hd, hb⟩; rw [h] at this; cases this
  · intro h
    cases hw : inWhDir t p with
    | false => rfl
    | true =>
      obtain ⟨d, hd, hb⟩ := (inWhDir_iff t p).mp hw
      rw [h d hd] at hb; cases hb

/-- `inWhiteoutDir` only looks at the blockers among the proper ancestors -/
theorem inWhDir_congr {t t' : Tree} {p : Path}
    (h : ∀ d, isUnder d p = true → blocksAt t d = blocksAt t' d) : inWhDir t p = inWhDir t' p := by
  cases hw : inWhDir t' p with
  | true =>
    obtain ⟨d, hd, hb⟩ := (inWhDir_iff t' p).mp hw
    exact (inWhDir_iff t p).mpr ⟨d, hd, by rw [h d hd]; exact hb⟩
  | false =>
    rw [inWhDir_false_iff] at hw ⊢
    intro d hd; rw [h d hd]; exact hw d hd

/-- below an ancestor that is already hidden, or is itself a blocker -/
theorem inWhDir_of_ancestor {t : Tree} {d p : Path} (hd : isUnder d p = true)
    (h : inWhDir t d = true ∨ blocksAt t d = true) : inWhDir t p = true := by
  rcases h with h | h
  · obtain ⟨d', hd', hb⟩ := (inWhDir_iff t d).mp h
    exact (inWhDir_iff t p).mpr ⟨d', isUnder_trans hd' hd, hb⟩
  · exact (inWhDir_iff t p).mpr ⟨d, hd, h⟩

/-! ### one fill -/

theorem upd_get (t : Tree) (p : Path) (n : Node) (q : Path) :
    (upd t p n).get q = if q = p then some n else t.get q := rfl

theorem fill1_get (t : Tree) (p : Path) (n : Node) (q : Path) :
    (fill1 t p n).get q = if q = p then (t.get p).or (if inWhDir t p then none else some n) else t.get q := by
  unfold fill1
  by_cases hs : (t.get p).isSome
  · simp only [hs, if_true]
    by_cases hq : q = p
    · subst hq; cases h : t.get q <;> simp_all
    · simp [hq]
  · have hn : t.get p = none := by cases h : t.get p <;> simp_all
    simp only [hs]
    by_cases hw : inWhDir t p = true
    · simp only [hw, if_true]
      by_cases hq : q = p
      · subst hq; simp [hn]
      · simp [hq]
    · simp only [hw]
      by_cases hq : q = p
      · subst hq; simp [upd_get, hn]
      · simp [upd_get, hq]

theorem blocksAt_fill1_nb (t : Tree) (p : Path) (n : Node) (hn : n.blocks = false) (d : Path) :
    blocksAt (fill1 t p n) d = blocksAt t d := by
  unfold blocksAt
  rw [fill1_get]
  by_cases hd : d = p
  · subst hd
    cases h : t.get d with
    | some m => simp
    | none => by_cases hw : inWhDir t d = true <;> simp [hw, hn]
  · simp [hd]

theorem inWhDir_fill1_nb (t : Tree) (p : Path) (n : Node) (hn : n.blocks = false) (q : Path) :
    inWhDir (fill1 t p n) q = inWhDir t q :=
  inWhDir_congr fun d _ => blocksAt_fill1_nb t p n hn d

theorem implDir_blocks (i : Nat) : (implDir i).blocks = false := rfl

/-! ### the fold over implied parents -/

theorem parentsFold_cons (i : Nat) (ov : Tree × Tree) (d : Path) (ds : List Path) :
    parentsFold i ov (d :: ds) =
      parentsFold i (if (ov.1.get d).isSome then ov else (fill1 ov.1 d (implDir i), fill1 ov.2 d (implDir i))) ds := by
  simp [parentsFold]

theorem parentsFold_inWhDir (i : Nat) (ds : List Path) : ∀ (ov : Tree × Tree) (q : Path),
    inWhDir (parentsFold i ov ds).1 q = inWhDir ov.1 q ∧ inWhDir (parentsFold i ov ds).2 q = inWhDir ov.2 q := by
  induction ds with
  | nil => intro ov q; simp [parentsFold]
  | cons d ds ih =>
    intro ov q
    rw [parentsFold_cons]
    by_cases hs : (ov.1.get d).isSome
    · rw [if_pos hs]; exact ih ov q
    · rw [if_neg hs]
      have := ih (fill1 ov.1 d (implDir i), fill1 ov.2 d (implDir i)) q
      simp only [inWhDir_fill1_nb _ _ _ (implDir_blocks i)] at this
      exact this

/-- chain layer `i` itself after the parents fold -/
theorem parentsFold_own (i : Nat) (ds : List Path) : ∀ (ov : Tree × Tree) (q : Path),
    (parentsFold i ov ds).1.get q =
      if q ∈ ds then (ov.1.get q).or (if inWhDir ov.1 q then none else some (implDir i)) else ov.1.get q := by
  induction ds with
  | nil => intro ov q; simp [parentsFold]
  | cons d ds ih =>
    intro ov q
    rw [parentsFold_cons]
    by_cases hs : (ov.1.get d).isSome
    · rw [if_pos hs]
      rw [ih]
      by_cases hq : q = d
      · subst hq
        cases h : ov.1.get q with
        | none => simp [h] at hs
        | some m => simp
      · simp [hq]
    · rw [if_neg hs]
      have hn : ov.1.get d = none := by cases h : ov.1.get d <;> simp_all
      rw [ih]
      simp only [inWhDir_fill1_nb _ _ _ (implDir_blocks i), fill1_get]
      by_cases hq : q = d
      · subst hq
        by_cases hw : inWhDir ov.1 q = true <;> by_cases hm : q ∈ ds <;> simp [hn, hw, hm]
      · simp [hq]

/-- the later view after the parents fold -/
theorem parentsFold_view (i : Nat) (ds : List Path) : ∀ (ov : Tree × Tree) (q : Path),
    (parentsFold i ov ds).2.get q =
      if q ∈ ds ∧ ov.1.get q = none then (ov.2.get q).or (if inWhDir ov.2 q then none else some (implDir i))
      else ov.2.get q := by
  induction ds with
  | nil => intro ov q; simp [parentsFold]
  | cons d ds ih =>
    intro ov q
    rw [parentsFold_cons]
    by_cases hs : (ov.1.get d).isSome
    · rw [if_pos hs]
      rw [ih]
      by_cases hq : q = d
      · subst hq
        have : ov.1.get q ≠ none := by cases h : ov.1.get q <;> simp_all
        simp [this]
      · simp [hq]
    · rw [if_neg hs]
      have hn : ov.1.get d = none := by cases h : ov.1.get d <;> simp_all
      rw [ih]
      simp only [inWhDir_fill1_nb _ _ _ (implDir_blocks i), fill1_get]
      by_cases hq : q = d
      · subst hq
        by_cases hw1 : inWhDir ov.1 q = true <;> by_cases hw2 : inWhDir ov.2 q = true <;> by_cases hm : q ∈ ds <;>
          cases hv : ov.2.get q <;> simp [hn, hw1, hw2, hm, hv]
      · simp [hq]

/-! ### what the code makes of one layer -/

/-- the first entry of the tar at `q` (of any kind, whiteouts included) -/
def explicitFirst (i : Nat) (l : Layer) (q : Path) : Option Node := (l.find? fun e => e.p == q).map (·.node i)

/-- the node layer `i` contributes at `q` when every entry is new on arrival: its own entry, else a made-up directory
when something is listed beneath `q` -/
def mention (i : Nat) (l : Layer) (q : Path) : Option Node :=
  match explicitFirst i l q with
  | some n => some n
  | none => if impliedDir l q then some (implDir i) else none

/-- contribution of one new entry -/
def delta (i : Nat) (e : Entry) (q : Path) : Option Node :=
  if q = e.p then some (e.node i) else if q ∈ parents e.p then some (implDir i) else none

theorem explicitFirst_snoc (i : Nat) (es : Layer) (e : Entry) (q : Path) :
    explicitFirst i (es ++ [e]) q = (explicitFirst i es q).or (if e.p = q then some (e.node i) else none) := by
  unfold explicitFirst
  rw [List.find?_append]
  cases h : es.find? (fun x => x.p == q) with
  | some x => simp
  | none => by_cases he : e.p = q <;> simp [he]

theorem impliedDir_snoc (es : Layer) (e : Entry) (q : Path) :
    impliedDir (es ++ [e]) q = (impliedDir es q || isUnder q e.p) := by
  unfold impliedDir; simp [List.any_append]

theorem mentionedBy_snoc (es : Layer) (e : Entry) (q : Path) :
    mentionedBy (es ++ [e]) q = (mentionedBy es q || (e.p == q || isUnder q e.p)) := by
  unfold mentionedBy; simp [List.any_append]

theorem explicitFirst_none_iff (i : Nat) (l : Layer) (q : Path) :
    explicitFirst i l q = none ↔ ∀ e ∈ l, e.p ≠ q := by
  unfold explicitFirst
  simp [List.find?_eq_none]

theorem mention_none_iff (i : Nat) (l : Layer) (q : Path) : mention i l q = none ↔ mentionedBy l q = false := by
  unfold mention
  cases hx : explicitFirst i l q with
  | some n =>
    simp only [reduceCtorEq, false_iff]
    intro hm
    have : ¬ ∀ e ∈ l, e.p ≠ q := fun h => by rw [(explicitFirst_none_iff i l q).mpr h] at hx; cases hx
    apply this
    intro e he heq
    unfold mentionedBy at hm
    rw [List.any_eq_false] at hm
    have := hm e he
    simp [heq] at this
  | none =>
    have hx' := (explicitFirst_none_iff i l q).mp hx
    unfold mentionedBy impliedDir
    cases hi : l.any (fun e => isUnder q e.p) with
    | true =>
      simp only [if_true, reduceCtorEq, false_iff]
      obtain ⟨e, he, hu⟩ := List.any_eq_true.mp hi
      intro hm
      rw [List.any_eq_false] at hm
      have := hm e he
      simp [hu] at this
    | false =>
      simp only [Bool.false_eq_true, if_false, true_iff]
      rw [List.any_eq_false] at hi ⊢
      intro e he
      have h1 := hi e he
      have h2 := hx' e he
      simp [h1, h2]

theorem mention_snoc (i : Nat) (es : Layer) (e : Entry) (q : Path) (hq : q ≠ [])
    (hnew : mentionedBy es e.p = false) :
    mention i (es ++ [e]) q = (mention i es q).or (delta i e q) := by
  have hnew' := (mention_none_iff i es e.p).mpr hnew
  unfold mention at hnew' ⊢
  rw [explicitFirst_snoc, impliedDir_snoc]
  unfold delta
  have hmp : (q ∈ parents e.p) ↔ isUnder q e.p = true := by rw [mem_parents]; simp [hq]
  cases hx : explicitFirst i es q with
  | some k => simp
  | none =>
    by_cases hqe : e.p = q
    · subst hqe
      have hnp : e.p ∉ parents e.p := not_mem_parents_self e.p
      rw [hx] at hnew'
      cases hi : impliedDir es e.p with
      | true => simp [hi] at hnew'
      | false => simp [isUnder_irrefl]
    · have hqe' : ¬ q = e.p := fun h => hqe h.symm
      cases hi : impliedDir es q <;> cases hu : isUnder q e.p <;> simp [hqe, hqe', hmp, hu]

theorem impliedDir_of_under {es : Layer} {q p : Path} (h : impliedDir es p = true) (hu : isUnder q p = true) :
    impliedDir es q = true := by
  unfold impliedDir at h ⊢
  rw [List.any_eq_true] at h ⊢
  obtain ⟨x, hx, hxu⟩ := h
  exact ⟨x, hx, isUnder_trans hu hxu⟩

/-- a directory's own entry arriving after entries beneath it: it replaces the made-up node, nothing else changes -/
theorem mention_snoc_upg (i : Nat) (es : Layer) (e : Entry) (q : Path)
    (hx : explicitFirst i es e.p = none) (himp : impliedDir es e.p = true) :
    mention i (es ++ [e]) q = if q = e.p then some (e.node i) else mention i es q := by
  unfold mention
  rw [explicitFirst_snoc, impliedDir_snoc]
  by_cases hq : q = e.p
  · subst hq; simp [hx]
  · have hq' : ¬ e.p = q := fun h => hq h.symm
    simp only [hq, hq', if_false, Option.or_none]
    cases hxq : explicitFirst i es q with
    | some n => rfl
    | none =>
      cases hu : isUnder q e.p with
      | false => simp
      | true => simp [impliedDir_of_under himp hu]

theorem upgrade_get (i : Nat) (t : Tree) (p : Path) (n : Node) (q : Path) :
    (upgrade i t p n).get q =
      if q = p then (match t.get p with | some y => if y.virt && y.layer == i then some n else some y | none => none)
      else t.get q := by
  unfold upgrade
  cases h : t.get p with
  | none => by_cases hq : q = p <;> simp [hq, h]
  | some y =>
    by_cases hy : (y.virt && y.layer == i) = true
    · simp only [hy, if_true, upd_get]
    · simp only [hy]; by_cases hq : q = p <;> simp [hq, h]

theorem node_blocks (e : Entry) (i : Nat) : (e.node i).blocks = e.blocker := rfl

/-- the contribution of a tar at a path that has listed entries beneath it is never a blocker, when nothing is
listed beneath a blocker -/
theorem mention_nonblocking (i : Nat) (l done : Layer)
    (hnub : ∀ b ∈ l, b.blocker = true → ∀ e ∈ l, isUnder b.p e.p = false)
    (hdone : ∀ x ∈ done, x ∈ l) {x : Entry} (hx : x ∈ l) {d : Path} (hd : isUnder d x.p = true)
    {m : Node} (hm : mention i done d = some m) : m.blocks = false := by
  unfold mention at hm
  cases hx' : explicitFirst i done d with
  | some n =>
    rw [hx'] at hm
    simp only [Option.some.injEq] at hm
    subst hm
    unfold explicitFirst at hx'
    simp only [Option.map_eq_some_iff] at hx'
    obtain ⟨b, hb, rfl⟩ := hx'
    have hbm := List.mem_of_find?_eq_some hb
    have hbp : b.p = d := by have := List.find?_some hb; simpa using this
    rw [node_blocks]
    cases hbl : b.blocker with
    | false => rfl
    | true =>
      have := hnub b (hdone b hbm) hbl x hx
      rw [hbp, hd] at this; cases this
  | none =>
    rw [hx'] at hm
    by_cases hi : impliedDir done d = true
    · simp [hi] at hm; subst hm; rfl
    · simp [hi] at hm

/-- What reading one tar does to a later view, entry by entry.  `done` = entries already read, `own` = the
layer's own chain, `v'` = the later view so far, `v` = that view before this layer. -/
theorem layer_fold (i : Nat) (l : Layer) (v : Tree)
    (hnub : ∀ b ∈ l, b.blocker = true → ∀ e ∈ l, isUnder b.p e.p = false)
    (hvl : ∀ q n, v.get q = some n → n.virt = true → n.layer ≠ i) :
    ∀ (rest done : Layer) (own v' : Tree), done ++ rest = l → freshB done rest = true →
      own.get [] = some (rootNode i) → (∀ q, q ≠ [] → own.get q = mention i done q) →
      v'.get [] = v.get [] →
      (∀ q, q ≠ [] → v'.get q = (v.get q).or (if inWhDir v q then none else mention i done q)) →
      ((rest.foldl (entryStep i) (own, v')).2.get [] = v.get []) ∧
      ∀ q, q ≠ [] → (rest.foldl (entryStep i) (own, v')).2.get q =
        (v.get q).or (if inWhDir v q then none else mention i l q) := by
  intro rest
  induction rest with
  | nil =>
    intro done own v' hl _ _ _ h0 h2
    simp at hl; subst hl
    exact ⟨by simpa using h0, by simpa using h2⟩
  | cons e rest ih =>
    intro done own v' hl hf ho0 h1 hv0 h2
    simp only [freshB, Bool.and_eq_true, Bool.or_eq_true, Bool.not_eq_true', bne_iff_ne, ne_eq] at hf
    obtain ⟨⟨hfresh, hne⟩, hf'⟩ := hf
    have hel : e ∈ l := by rw [← hl]; simp
    have hdone : ∀ x ∈ done, x ∈ l := by intro x hx; rw [← hl]; simp [hx]
    have hD1 : ∀ d, isUnder d e.p = true → ∀ m, mention i done d = some m → m.blocks = false :=
      fun d hd m hm => mention_nonblocking i l done hnub hdone hel hd hm
    have hownNB : ∀ d, isUnder d e.p = true → blocksAt own d = false := by
      intro d hd
      by_cases hd0 : d = []
      · subst hd0; simp [blocksAt, ho0, rootNode, Node.blocks]
      · unfold blocksAt; rw [h1 d hd0]
        cases hm : mention i done d with
        | none => rfl
        | some m => exact hD1 d hd m hm
    have hD2 : ∀ d, (d = e.p ∨ isUnder d e.p = true) → inWhDir own d = false := by
      intro d hd
      rw [inWhDir_false_iff]
      intro d' hd'
      apply hownNB
      rcases hd with rfl | hd
      · exact hd'
      · exact isUnder_trans hd' hd
    have hvNB : ∀ d, isUnder d e.p = true → blocksAt v' d = blocksAt v d := by
      intro d hd
      by_cases hd0 : d = []
      · subst hd0; simp [blocksAt, hv0]
      · unfold blocksAt; rw [h2 d hd0]
        cases hv : v.get d with
        | some n => simp
        | none =>
          simp only [Option.none_or]
          by_cases hw : inWhDir v d = true
          · simp [hw]
          · simp only [hw]
            cases hm : mention i done d with
            | none => rfl
            | some m => simp [hD1 d hd m hm]
    have hD3 : ∀ d, (d = e.p ∨ isUnder d e.p = true) → inWhDir v' d = inWhDir v d := by
      intro d hd
      apply inWhDir_congr
      intro d' hd'
      apply hvNB
      rcases hd with rfl | hd
      · exact hd'
      · exact isUnder_trans hd' hd
    simp only [List.foldl_cons]
    by_cases hnew : mentionedBy done e.p = false
    · -- the entry's path is new
      have hown : own.get e.p = none := by
        rw [h1 e.p hne]; exact (mention_none_iff i done e.p).mpr hnew
      have hstep : entryStep i (own, v') e =
          (fill1 (parentsFold i (own, v') (parents e.p)).1 e.p (e.node i),
           fill1 (parentsFold i (own, v') (parents e.p)).2 e.p (e.node i)) := by
        simp [entryStep, hown]
      rw [hstep]
      have hpar : ∀ q, q ∈ parents e.p → isUnder q e.p = true := fun q hq => ((mem_parents e.p q).mp hq).2
      apply ih (done ++ [e]) _ _ (by rw [← hl]; simp) hf'
      · rw [fill1_get, if_neg (Ne.symm hne), parentsFold_own, if_neg (nil_not_mem_parents _)]; exact ho0
      · intro q hq
        rw [mention_snoc i done e q hq hnew, fill1_get, (parentsFold_inWhDir i _ _ _).1, parentsFold_own, parentsFold_own]
        unfold delta
        by_cases hqe : q = e.p
        · subst hqe
          have hmn : mention i done e.p = none := (mention_none_iff i done e.p).mpr hnew
          simp [not_mem_parents_self, hown, hD2 e.p (Or.inl rfl), hmn]
        · simp only [hqe, if_false]
          by_cases hm : q ∈ parents e.p
          · simp [hm, hD2 q (Or.inr (hpar q hm)), h1 q hq]
          · simp [hm, h1 q hq]
      · rw [fill1_get, if_neg (Ne.symm hne), parentsFold_view]; simp [nil_not_mem_parents, hv0]
      · intro q hq
        rw [mention_snoc i done e q hq hnew, fill1_get, (parentsFold_inWhDir i _ _ _).2, parentsFold_view, parentsFold_view]
        unfold delta
        by_cases hqe : q = e.p
        · subst hqe
          have hmn : mention i done e.p = none := (mention_none_iff i done e.p).mpr hnew
          simp only [not_mem_parents_self, false_and, if_false, if_true]
          rw [hD3 e.p (Or.inl rfl), h2 e.p hq, hmn]
          cases hv : v.get e.p <;> by_cases hw : inWhDir v e.p = true <;> simp [hw]
        · simp only [hqe, if_false]
          by_cases hm : q ∈ parents e.p
          · simp only [hm, true_and, if_true]
            rw [h1 q hq, hD3 q (Or.inr (hpar q hm)), h2 q hq]
            cases hmq : mention i done q <;> cases hv : v.get q <;> by_cases hw : inWhDir v q = true <;> simp [hw]
          · simp only [hm, false_and, if_false]
            rw [h2 q hq]
            cases hmq : mention i done q <;> cases hv : v.get q <;> by_cases hw : inWhDir v q = true <;> simp [hw]
    · -- the directory's own entry after entries beneath it: the made-up node is overwritten in place
      have hupg : upgradeOK done e = true := by
        rcases hfresh with h | h
        · exact absurd h hnew
        · exact h
      unfold upgradeOK at hupg
      simp only [Bool.and_eq_true, beq_iff_eq, Bool.not_eq_true', List.any_eq_false] at hupg
      obtain ⟨⟨hkind, hwh⟩, hnone⟩ := hupg
      have hx : explicitFirst i done e.p = none :=
        (explicitFirst_none_iff i done e.p).mpr fun x hx h => by have := hnone x hx; simp [h] at this
      have hmen : mention i done e.p ≠ none := fun h => hnew ((mention_none_iff i done e.p).mp h)
      have himp : impliedDir done e.p = true := by
        unfold mention at hmen; rw [hx] at hmen
        cases hi : impliedDir done e.p with
        | true => rfl
        | false => simp [hi] at hmen
      have hmention : mention i done e.p = some (implDir i) := by unfold mention; rw [hx]; simp [himp]
      have hown : own.get e.p = some (implDir i) := by rw [h1 e.p hne]; exact hmention
      have hupgs : upgrades own e = true := by unfold upgrades; rw [hown]; simp [implDir, hkind, hwh]
      have hstep : entryStep i (own, v') e = (upgrade i own e.p (e.node i), upgrade i v' e.p (e.node i)) := by
        simp [entryStep, hown, hupgs]
      rw [hstep]
      apply ih (done ++ [e]) _ _ (by rw [← hl]; simp) hf'
      · rw [upgrade_get, if_neg (Ne.symm hne)]; exact ho0
      · intro q hq
        rw [mention_snoc_upg i done e q hx himp, upgrade_get]
        by_cases hqe : q = e.p
        · subst hqe; simp [hown, implDir]
        · simp [hqe, h1 q hq]
      · rw [upgrade_get, if_neg (Ne.symm hne)]; exact hv0
      · intro q hq
        rw [mention_snoc_upg i done e q hx himp, upgrade_get]
        by_cases hqe : q = e.p
        · subst hqe
          simp only [if_true]
          rw [h2 e.p hq, hmention]
          cases hv : v.get e.p with
          | some y =>
            simp only [Option.some_or]
            by_cases hy : (y.virt && y.layer == i) = true
            · simp only [Bool.and_eq_true, beq_iff_eq] at hy
              exact absurd hy.2 (hvl e.p y hv hy.1)
            · simp [hy]
          | none =>
            by_cases hw : inWhDir v e.p = true
            · simp [hw]
            · simp [hw, implDir]
        · simp only [hqe, if_false]; exact h2 q hq

theorem noUnderBlocker_iff (l : Layer) :
    noUnderBlocker l = true ↔ ∀ b ∈ l, b.blocker = true → ∀ e ∈ l, isUnder b.p e.p = false := by
  unfold noUnderBlocker
  simp only [List.all_eq_true, Bool.or_eq_true, Bool.not_eq_true']
  constructor
  · intro h b hb hbl e he
    rcases h b hb with h' | h'
    · rw [hbl] at h'; cases h'
    · exact h' e he
  · intro h b hb
    cases hbl : b.blocker with
    | false => exact Or.inl rfl
    | true => exact Or.inr fun e he => h b hb hbl e he

theorem mention_nil (i : Nat) (q : Path) : mention i [] q = none := by
  simp [mention, explicitFirst, impliedDir]

/-- **What one layer does to a later view** (`layerOK` tar): a path keeps what the view already has; otherwise,
unless it lies below a deleted or replaced ancestor of the view, it gets the layer's own contribution. -/
theorem revLayer_apply (i : Nat) (v : Tree) (l : Layer) (hok : layerOK l = true)
    (hvl : ∀ q n, v.get q = some n → n.virt = true → n.layer ≠ i) :
    (revLayer i v l).get [] = v.get [] ∧
    ∀ q, q ≠ [] → (revLayer i v l).get q = (v.get q).or (if inWhDir v q then none else mention i l q) := by
  unfold layerOK at hok
  rw [Bool.and_eq_true] at hok
  unfold revLayer
  apply layer_fold i l v ((noUnderBlocker_iff l).mp hok.2) hvl l [] (rootTree i) v (by simp) hok.1 rfl
  · intro q hq; simp [rootTree, hq, mention_nil]
  · rfl
  · intro q _; simp [mention_nil]

end Scalibr.Overlay
