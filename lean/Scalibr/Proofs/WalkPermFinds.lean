/-
C08, findings of the FILESYSTEM extractors: the multiset of findings a scan collects does not depend on the listing
order of any directory (same hypotheses as the package / status theorems of Proofs/WalkPermScan.lean).
-/
import Scalibr.Proofs.WalkPermScan
import Scalibr.Proofs.WalkAny
namespace Scalibr.Walk

theorem findsOfCalls_perm (c : Cfg) {a b : List Call} (h : a.Perm b) : (findsOfCalls c a).Perm (findsOfCalls c b) :=
  List.Perm.flatMap_right _ h

/-- in a benign scan the findings are determined by the specification alone -/
theorem run_finds_spec (c : Cfg) (hb : Benign c) (ho : GiOK c) (roots : List (Node × Faults)) :
    (run c roots).finds = findsOfCalls c (mustExtract c roots) := by
  have h := run_spec c hb roots ho
  rw [run_finds c hb.2.2.2.2 roots, h.1, h.2]
  simp

theorem finds_of_mustRoot_perm {τ : Type} (c : Cfg) (hb : Benign c) (ho : GiOK c)
    (ts : List τ) (a b : τ → Node × Faults)
    (h : ∀ t ∈ ts, (mustRoot c (a t).2 (a t).1).Perm (mustRoot c (b t).2 (b t).1)) :
    (run c (ts.map a)).finds.Perm (run c (ts.map b)).finds := by
  rw [run_finds_spec c hb ho, run_finds_spec c hb ho]
  exact findsOfCalls_perm c (mustExtract_map_perm c a b ts h)

/-- several roots, whole-tree scans -/
theorem perm_scan_roots_finds (c : Cfg) (hb : Benign c) (ho : GiOK c) (hp : c.paths = [])
    (roots' roots : List (Node × Faults)) (h : Rearranged roots' roots) :
    (run c roots').finds.Perm (run c roots).finds := by
  obtain ⟨rs, h1, h2, rfl, rfl⟩ := h.exists_forest
  exact finds_of_mustRoot_perm c hb ho rs _ _
    (fun t ht => mustRoot_permute_whole c hp t.2.1 (h2 t ht) t.2.2 (h1 t ht) t.1)

/-- requested paths (distinct sibling names) -/
theorem perm_scan_paths_finds (c : Cfg) (hb : Benign c) (ho : GiOK c)
    (roots' roots : List (Node × Faults)) (h : RearrangedDistinct roots' roots) :
    (run c roots').finds.Perm (run c roots).finds := by
  obtain ⟨rs, h1, h2, h3, rfl, rfl⟩ := h.exists_forest
  exact finds_of_mustRoot_perm c hb ho rs _ _
    (fun t ht => mustRoot_permute c t.2.1 (h2 t ht) t.2.2 (h1 t ht) t.1 (h3 t ht))

end Scalibr.Walk
