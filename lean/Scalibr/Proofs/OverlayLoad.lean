/-
C04: the literal lock-step loader (`loadCore`: every chain layer `≥ i` is filled while layer `i`'s tar is read)
computes, at index `j`, exactly the view `viewOf layers j` that the theorems speak about.
-/
import Scalibr.Model.Overlay
namespace Scalibr.Overlay

/-- "apply `g own` to every chain layer from `i` on", `own` = chain layer `i` before the step -/
def ptw (i : Nat) (g : Tree → Tree → Tree) (chains : List Tree) : List Tree :=
  chains.mapIdx fun j t => if j < i then t else g (chains.getD i emptyTree) t

theorem ptw_length (i : Nat) (g : Tree → Tree → Tree) (chains : List Tree) : (ptw i g chains).length = chains.length := by
  simp [ptw]

theorem ptw_getD (i : Nat) (g : Tree → Tree → Tree) (chains : List Tree) (j : Nat) (hj : j < chains.length) :
    (ptw i g chains).getD j emptyTree =
      if j < i then chains.getD j emptyTree else g (chains.getD i emptyTree) (chains.getD j emptyTree) := by
  unfold ptw
  rw [List.getD_eq_getElem?_getD, List.getElem?_mapIdx]
  generalize chains.getD i emptyTree = o
  rw [List.getD_eq_getElem?_getD, List.getElem?_eq_getElem hj]
  by_cases h : j < i <;> simp [h]

theorem ptw_ptw (i : Nat) (g1 g2 : Tree → Tree → Tree) (chains : List Tree) (hi : i < chains.length) :
    ptw i g2 (ptw i g1 chains) = ptw i (fun o w => g2 (g1 o o) (g1 o w)) chains := by
  have hown : (ptw i g1 chains).getD i emptyTree = g1 (chains.getD i emptyTree) (chains.getD i emptyTree) := by
    rw [ptw_getD i g1 chains i hi]; simp
  show (ptw i g1 chains).mapIdx (fun j t => if j < i then t else g2 ((ptw i g1 chains).getD i emptyTree) t) = _
  rw [hown]
  unfold ptw
  generalize chains.getD i emptyTree = o
  rw [List.mapIdx_mapIdx]
  apply List.mapIdx_eq_mapIdx_iff.mpr
  intro j _
  by_cases hj : j < i <;> simp [hj]

theorem ptw_id (i : Nat) (chains : List Tree) : ptw i (fun _ w => w) chains = chains := by
  unfold ptw
  apply List.ext_getElem?
  intro j
  rw [List.getElem?_mapIdx]
  cases chains[j]? <;> simp

theorem fillNode_eq_ptw (chains : List Tree) (i : Nat) (p : Path) (n : Node) :
    fillNode chains i p n = ptw i (fun _ w => fill1 w p n) chains := rfl

/-! one parent -/
def gd (i : Nat) (d : Path) (o w : Tree) : Tree := if (o.get d).isSome then w else fill1 w d (implDir i)

theorem popStep_eq_ptw (i : Nat) (d : Path) (cs : List Tree) :
    (if ((cs.getD i emptyTree).get d).isSome then cs else fillNode cs i d (implDir i)) = ptw i (gd i d) cs := by
  by_cases h : ((cs.getD i emptyTree).get d).isSome
  · rw [if_pos h]
    have : ptw i (gd i d) cs = ptw i (fun _ w => w) cs := by
      unfold ptw gd
      generalize cs.getD i emptyTree = o at h
      simp [h]
    rw [this, ptw_id]
  · rw [if_neg h, fillNode_eq_ptw]
    unfold ptw gd
    generalize cs.getD i emptyTree = o at h
    simp [h]

/-- the parents fold, second component, as a function of (own, view) -/
def PF (i : Nat) (ds : List Path) (o w : Tree) : Tree := (parentsFold i (o, w) ds).2

theorem parentsFold_step (i : Nat) (o w : Tree) (d : Path) (ds : List Path) :
    parentsFold i (o, w) (d :: ds) = parentsFold i (gd i d o o, gd i d o w) ds := by
  unfold parentsFold gd
  simp only [List.foldl_cons]
  by_cases h : (o.get d).isSome <;> simp [h]

theorem pf_diag (i : Nat) (ds : List Path) : ∀ (o w : Tree), (parentsFold i (o, w) ds).1 = (parentsFold i (o, o) ds).2 := by
  induction ds with
  | nil => intro o w; rfl
  | cons d ds ih => intro o w; rw [parentsFold_step, parentsFold_step, ih, ← ih (gd i d o o) (gd i d o o)]

theorem populate_eq_ptw (i : Nat) (ds : List Path) : ∀ (chains : List Tree), i < chains.length →
    ds.foldl (fun cs d => if ((cs.getD i emptyTree).get d).isSome then cs else fillNode cs i d (implDir i)) chains
      = ptw i (PF i ds) chains := by
  induction ds with
  | nil => intro chains _; simp only [List.foldl_nil]; exact (ptw_id i chains).symm
  | cons d ds ih =>
    intro chains hi
    simp only [List.foldl_cons]
    rw [popStep_eq_ptw, ih _ (by rw [ptw_length]; exact hi), ptw_ptw i _ _ chains hi]
    congr 1
    funext o w
    unfold PF
    rw [parentsFold_step]

/-- one tar entry, second component, as a function of (own, view) -/
def ES (i : Nat) (e : Entry) (o w : Tree) : Tree := (entryStep i (o, w) e).2

theorem entryStep_pair (i : Nat) (e : Entry) (o w : Tree) : entryStep i (o, w) e = (ES i e o o, ES i e o w) := by
  unfold ES entryStep
  by_cases h : (o.get e.p).isSome
  · by_cases hu : upgrades o e = true <;> simp [h, hu]
  · simp only [h]
    rw [pf_diag i (parents e.p) o w]
    rfl

theorem processEntryC_eq_ptw (i : Nat) (chains : List Tree) (hi : i < chains.length) (e : Entry) :
    processEntryC i chains e = ptw i (ES i e) chains := by
  unfold processEntryC
  by_cases h : ((chains.getD i emptyTree).get e.p).isSome
  · rw [if_pos h]
    by_cases hu : upgrades (chains.getD i emptyTree) e = true
    · rw [if_pos hu]
      unfold upgradeAll ptw ES entryStep
      generalize chains.getD i emptyTree = o at h hu
      simp [h, hu]
    · rw [if_neg hu]
      have : ptw i (ES i e) chains = ptw i (fun _ w => w) chains := by
        unfold ptw ES entryStep
        generalize chains.getD i emptyTree = o at h hu
        simp [h, hu]
      rw [this, ptw_id]
  · rw [if_neg h]
    unfold fillEntry populate
    rw [populate_eq_ptw i _ chains hi, fillNode_eq_ptw, ptw_ptw i _ _ chains hi]
    unfold ptw ES entryStep PF
    generalize chains.getD i emptyTree = o at h
    simp [h]

/-- one layer, second component, as a function of (own, view) -/
def LS (i : Nat) (l : Layer) (o w : Tree) : Tree := (l.foldl (entryStep i) (o, w)).2

theorem LS_cons (i : Nat) (e : Entry) (l : Layer) (o w : Tree) :
    LS i (e :: l) o w = LS i l (ES i e o o) (ES i e o w) := by
  unfold LS; simp only [List.foldl_cons]; rw [entryStep_pair]

theorem processLayerC_eq_ptw (i : Nat) (l : Layer) : ∀ (chains : List Tree), i < chains.length →
    l.foldl (processEntryC i) chains = ptw i (LS i l) chains := by
  induction l with
  | nil => intro chains _; simp only [List.foldl_nil]; exact (ptw_id i chains).symm
  | cons e l ih =>
    intro chains hi
    simp only [List.foldl_cons]
    rw [processEntryC_eq_ptw i chains hi, ih _ (by rw [ptw_length]; exact hi), ptw_ptw i _ _ chains hi]
    congr 1
    funext o w
    rw [LS_cons]

theorem revLayer_eq_LS (i : Nat) (v : Tree) (l : Layer) : revLayer i v l = LS i l (rootTree i) v := rfl

/-- the reverse loop, index by index -/
theorem loadFrom_getD (layers : List Layer) : ∀ (k : Nat) (chains : List Tree), k ≤ chains.length →
    (∀ i, i < k → chains.getD i emptyTree = rootTree i) →
    (loadFrom layers k chains).length = chains.length ∧
    ∀ j, j < chains.length → (loadFrom layers k chains).getD j emptyTree =
      if j < k then revFrom layers (j+1) (rootTree j) else revFrom layers k (chains.getD j emptyTree) := by
  intro k
  induction k with
  | zero =>
    intro chains _ _
    refine ⟨rfl, ?_⟩
    intro j _; simp [loadFrom, revFrom]
  | succ k ih =>
    intro chains hk hroot
    simp only [loadFrom]
    have hkl : k < chains.length := by omega
    rw [processLayerC_eq_ptw k _ chains hkl]
    have hlen := ptw_length k (LS k (layers.getD k [])) chains
    have hroot1 : ∀ i, i < k → (ptw k (LS k (layers.getD k [])) chains).getD i emptyTree = rootTree i := by
      intro i hi
      rw [ptw_getD _ _ _ _ (by omega)]; simp [hi]; exact hroot i (by omega)
    obtain ⟨h1, h2⟩ := ih (ptw k (LS k (layers.getD k [])) chains) (by rw [hlen]; omega) hroot1
    refine ⟨by rw [h1, hlen], ?_⟩
    intro j hj
    rw [h2 j (by rw [hlen]; exact hj), ptw_getD _ _ _ _ hj]
    by_cases hjk : j < k
    · have : j < k + 1 := by omega
      simp [hjk, this]
    · simp only [hjk, if_false]
      rw [hroot k (by omega), ← revLayer_eq_LS]
      by_cases hjk1 : j < k + 1
      · have hjeq : j = k := by omega
        subst hjeq
        simp only [Nat.lt_add_one, if_true, revFrom]
        rw [hroot j (by omega)]
      · simp only [hjk1, if_false, revFrom]

theorem initChains_getD (n i : Nat) (hi : i < n) : (initChains n).getD i emptyTree = rootTree i := by
  unfold initChains
  rw [List.getD_eq_getElem?_getD, List.getElem?_map, List.getElem?_range hi]
  rfl

/-- **The lock-step loader computes the views.** -/
theorem loadCore_eq_viewOf (layers : List Layer) (j : Nat) (hj : j < layers.length) :
    (loadCore layers).getD j emptyTree = viewOf layers j := by
  unfold loadCore viewOf
  have hlen : (initChains layers.length).length = layers.length := by simp [initChains]
  obtain ⟨_, h⟩ := loadFrom_getD layers layers.length (initChains layers.length) (by rw [hlen]; exact Nat.le_refl _)
    (fun i hi => initChains_getD _ i hi)
  rw [h j (by rw [hlen]; exact hj)]
  simp [hj]

end Scalibr.Overlay
