/-
C08, audit round 1: order independence of WHOLE SCANS, generalised from `C08_perm_scan_partial`
(one root, `paths = []`, packages only) to

 * several scan roots, each root's tree rearranged INDEPENDENTLY (its own family of permutations `ρ`),
 * the error, the package multiset, the per-root plugin statuses (exact list), and the emitted, sorted
   result of `scan` (package keys and statuses: exact lists),
 * requested paths (`c.paths` arbitrary), for trees whose sibling names are distinct.

Route: `run_spec` / `run_results` (WalkTop) make every result of a benign scan a function of the owed
calls `mustRoot c f root` of each root; packages are a `flatMap` over the calls, statuses only ask
`contains` of `flatMap`s over the calls — both respect `List.Perm`.  So it suffices that the owed calls
of each root are a permutation of each other: `mustFrom_permute` (WalkPerm) for a whole-tree scan, and
for requested paths additionally `lookup_permute` / `parentGis_permute` below (the node found under a
requested path, and the `.gitignore` contents above it, are untouched by rearranging listings with
distinct names).
-/
import Scalibr.Proofs.WalkTop
import Scalibr.Proofs.WalkMore
import Scalibr.Proofs.WalkPerm
import Scalibr.Model.Scan
namespace Scalibr.Walk

/-! ### inventory and statuses respect permutations of the call log -/

theorem pkgsOfCalls_perm (c : Cfg) {a b : List Call} (h : a.Perm b) : (pkgsOfCalls c a).Perm (pkgsOfCalls c b) :=
  List.Perm.flatMap_right _ h
theorem errsOfCalls_perm (c : Cfg) {a b : List Call} (h : a.Perm b) : (errsOfCalls c a).Perm (errsOfCalls c b) :=
  List.Perm.flatMap_right _ h
theorem foundOfCalls_perm (c : Cfg) {a b : List Call} (h : a.Perm b) : (foundOfCalls c a).Perm (foundOfCalls c b) :=
  List.Perm.flatMap_right _ h

/-- the status owed by an extractor for a root only depends on the MULTISET of calls owed to the root -/
theorem statusSpec_of_perm (c : Cfg) (f' f : Faults) (r' r : Node)
    (h : (mustRoot c f' r').Perm (mustRoot c f r)) (e : Nat) :
    statusSpec c f' r' e = statusSpec c f r e := by
  unfold statusSpec
  simp only []
  rw [(errsOfCalls_perm c h).contains_eq, (foundOfCalls_perm c h).contains_eq]

theorem mustExtract_cons (c : Cfg) (rf : Node × Faults) (rest : List (Node × Faults)) :
    mustExtract c (rf :: rest) = mustRoot c rf.2 rf.1 ++ mustExtract c rest := by
  obtain ⟨r, f⟩ := rf
  simp [mustExtract]

/-- the statuses `run_results` promises -/
def statusesSpec (c : Cfg) (roots : List (Node × Faults)) : List (Nat × Status) :=
  roots.flatMap fun (r, f) => (List.range c.nExt).map fun e => (e, statusSpec c f r e)

theorem statusesSpec_cons (c : Cfg) (rf : Node × Faults) (rest : List (Node × Faults)) :
    statusesSpec c (rf :: rest) =
      ((List.range c.nExt).map fun e => (e, statusSpec c rf.2 rf.1 e)) ++ statusesSpec c rest := by
  obtain ⟨r, f⟩ := rf
  simp [statusesSpec]

theorem mustExtract_map_perm {τ : Type} (c : Cfg) (a b : τ → Node × Faults) :
    ∀ (ts : List τ), (∀ t ∈ ts, (mustRoot c (a t).2 (a t).1).Perm (mustRoot c (b t).2 (b t).1)) →
      (mustExtract c (ts.map a)).Perm (mustExtract c (ts.map b))
  | [], _ => List.Perm.refl _
  | t :: ts, h => by
    simp only [List.map_cons, mustExtract_cons]
    exact List.Perm.append (h t (by simp)) (mustExtract_map_perm c a b ts (fun t ht => h t (by simp [ht])))

theorem statusesSpec_map_eq {τ : Type} (c : Cfg) (a b : τ → Node × Faults) :
    ∀ (ts : List τ), (∀ t ∈ ts, (mustRoot c (a t).2 (a t).1).Perm (mustRoot c (b t).2 (b t).1)) →
      statusesSpec c (ts.map a) = statusesSpec c (ts.map b)
  | [], _ => rfl
  | t :: ts, h => by
    simp only [List.map_cons, statusesSpec_cons]
    rw [statusesSpec_map_eq c a b ts (fun t ht => h t (by simp [ht]))]
    congr 1
    apply List.map_congr_left
    intro e _
    rw [statusSpec_of_perm c _ _ _ _ (h t (by simp)) e]

/-- **Generic transfer**: two forests, given as two views `a`, `b` of one list, whose roots owe pairwise
the same calls up to order, give — in a benign configuration — both no error, the same packages up to
order, the same status list, and the same emitted (sorted) result. -/
theorem scan_of_mustRoot_perm {τ : Type} (nm : Naming) (c : Cfg) (hb : Benign c) (ho : GiOK c)
    (ts : List τ) (a b : τ → Node × Faults)
    (h : ∀ t ∈ ts, (mustRoot c (a t).2 (a t).1).Perm (mustRoot c (b t).2 (b t).1)) :
    ((run c (ts.map a)).err = .none ∧ (run c (ts.map b)).err = .none) ∧
    (run c (ts.map a)).pkgs.Perm (run c (ts.map b)).pkgs ∧
    (run c (ts.map a)).statuses = (run c (ts.map b)).statuses ∧
    (scan nm c (ts.map a)).pkgs.map nm.key = (scan nm c (ts.map b)).pkgs.map nm.key ∧
    (scan nm c (ts.map a)).statuses = (scan nm c (ts.map b)).statuses := by
  have ea := run_spec c hb (ts.map a) ho
  have eb := run_spec c hb (ts.map b) ho
  have ra := run_results c hb (ts.map a) ho
  have rb := run_results c hb (ts.map b) ho
  have hcalls := mustExtract_map_perm c a b ts h
  have hsts := statusesSpec_map_eq c a b ts h
  have hpk : (run c (ts.map a)).pkgs.Perm (run c (ts.map b)).pkgs := by
    rw [ra.1, rb.1]; exact pkgsOfCalls_perm c hcalls
  have hst : (run c (ts.map a)).statuses = (run c (ts.map b)).statuses := by
    rw [ra.2, rb.2]; exact hsts
  refine ⟨⟨ea.1, eb.1⟩, hpk, hst, ?_, ?_⟩
  · simp only [scan, ea.1, eb.1, ne_eq, not_true_eq_false, if_false]
    unfold pkgLt
    rw [isort_map keyLt nm.key, isort_map keyLt nm.key]
    exact keyLt_strictTotal.isort_perm_eq _ _ (hpk.map nm.key)
  · simp only [scan, ea.1, eb.1, ne_eq, not_true_eq_false, if_false]
    rw [hst]

/-! ### forests and their rearrangements -/

/-- a forest together with, for every root, its fault plan and the family of rearrangements applied to
the listings of THAT root's tree -/
abbrev RForest := List (Node × Faults × Rearr)

/-- the forest as given -/
def RForest.orig (rs : RForest) : List (Node × Faults) := rs.map fun t => (t.1, t.2.1)
/-- the same forest, every directory of root number `i` listed in the order chosen by the `i`-th `ρ`;
fault plans unchanged -/
def RForest.rearranged (rs : RForest) : List (Node × Faults) := rs.map fun t => (permuteTree t.2.2 [] t.1, t.2.1)

/-- every `ρ` of the forest really is a family of permutations -/
def RForest.Perms (rs : RForest) : Prop := ∀ t ∈ rs, ∀ p l, (t.2.2 p l).Perm l
/-- no fault plan of the forest contains a failing directory read -/
def RForest.NoReadFaults (rs : RForest) : Prop := ∀ t ∈ rs, Scalibr.Walk.NoReadFaults t.2.1
/-- sibling names are distinct in every tree of the forest -/
def RForest.Distinct (rs : RForest) : Prop := ∀ t ∈ rs, DistinctNames t.1

/-- the same relation between two forests, stated without naming the rearrangements: same length, and
root by root the same fault plan (free of failing reads) and a tree that is SOME rearrangement of the
other one -/
inductive Rearranged : List (Node × Faults) → List (Node × Faults) → Prop
  | nil : Rearranged [] []
  | cons {r : Node} {f : Faults} {roots' roots : List (Node × Faults)} (ρ : Rearr)
      (hρ : ∀ p l, (ρ p l).Perm l) (hf : Scalibr.Walk.NoReadFaults f) (rest : Rearranged roots' roots) :
      Rearranged ((permuteTree ρ [] r, f) :: roots') ((r, f) :: roots)

/-- the same with distinct sibling names in every (original) tree -/
inductive RearrangedDistinct : List (Node × Faults) → List (Node × Faults) → Prop
  | nil : RearrangedDistinct [] []
  | cons {r : Node} {f : Faults} {roots' roots : List (Node × Faults)} (ρ : Rearr)
      (hρ : ∀ p l, (ρ p l).Perm l) (hf : Scalibr.Walk.NoReadFaults f) (hd : DistinctNames r)
      (rest : RearrangedDistinct roots' roots) :
      RearrangedDistinct ((permuteTree ρ [] r, f) :: roots') ((r, f) :: roots)

theorem Rearranged.exists_forest {roots' roots : List (Node × Faults)} (h : Rearranged roots' roots) :
    ∃ rs : RForest, rs.Perms ∧ rs.NoReadFaults ∧ roots' = rs.rearranged ∧ roots = rs.orig := by
  induction h with
  | nil => exact ⟨[], by simp [RForest.Perms], by simp [RForest.NoReadFaults], rfl, rfl⟩
  | @cons r f roots' roots ρ hρ hf _ ih =>
    obtain ⟨rs, h1, h2, h3, h4⟩ := ih
    refine ⟨(r, f, ρ) :: rs, ?_, ?_, ?_, ?_⟩
    · intro t ht
      rcases List.mem_cons.mp ht with rfl | ht
      · exact hρ
      · exact h1 t ht
    · intro t ht
      rcases List.mem_cons.mp ht with rfl | ht
      · exact hf
      · exact h2 t ht
    · simp [RForest.rearranged, h3]
    · simp [RForest.orig, h4]

theorem RearrangedDistinct.exists_forest {roots' roots : List (Node × Faults)} (h : RearrangedDistinct roots' roots) :
    ∃ rs : RForest, rs.Perms ∧ rs.NoReadFaults ∧ rs.Distinct ∧ roots' = rs.rearranged ∧ roots = rs.orig := by
  induction h with
  | nil => exact ⟨[], by simp [RForest.Perms], by simp [RForest.NoReadFaults], by simp [RForest.Distinct], rfl, rfl⟩
  | @cons r f roots' roots ρ hρ hf hd _ ih =>
    obtain ⟨rs, h1, h2, h5, h3, h4⟩ := ih
    refine ⟨(r, f, ρ) :: rs, ?_, ?_, ?_, ?_, ?_⟩
    · intro t ht
      rcases List.mem_cons.mp ht with rfl | ht
      · exact hρ
      · exact h1 t ht
    · intro t ht
      rcases List.mem_cons.mp ht with rfl | ht
      · exact hf
      · exact h2 t ht
    · intro t ht
      rcases List.mem_cons.mp ht with rfl | ht
      · exact hd
      · exact h5 t ht
    · simp [RForest.rearranged, h3]
    · simp [RForest.orig, h4]

/-! ### whole-tree scans -/

/-- whole-tree scan of one root: the owed calls of the rearranged tree are a permutation -/
theorem mustRoot_permute_whole (c : Cfg) (hp : c.paths = []) (f : Faults) (hf : NoReadFaults f)
    (ρ : Rearr) (hρ : ∀ p l, (ρ p l).Perm l) (root : Node) :
    (mustRoot c f (permuteTree ρ [] root)).Perm (mustRoot c f root) := by
  simp only [mustRoot, hp, List.isEmpty_nil, if_true]
  split
  · exact List.Perm.refl _
  · exact mustFrom_permute c f hf [] ρ hρ [] root

/-- **C08, several roots, every root rearranged independently, whole-tree scans.**
Hypotheses that remain: `Benign c` (no inode limit, no cancellation, filesystem errors not fatal,
extractors do not panic), `GiOK c` (go-git's domain rule for the matcher parameter), `c.paths = []`,
and `NoReadFaults` for every fault plan — a failing k-th `ReadDir` call is itself position dependent:
which entries precede it changes with the listing order, so the property is false with such faults.
Any number of roots, arbitrary trees (duplicate sibling names allowed), arbitrary other faults,
arbitrary skip rules / gitignore / size limit / symlink options.

Conclusions: both scans succeed; packages agree as multisets; the per-root status lists are EQUAL;
the emitted sorted package keys and sorted statuses of `scan` are EQUAL lists. -/
theorem perm_scan_roots (nm : Naming) (c : Cfg) (hb : Benign c) (ho : GiOK c) (hp : c.paths = [])
    (rs : RForest) (hρ : rs.Perms) (hf : rs.NoReadFaults) :
    ((run c rs.rearranged).err = .none ∧ (run c rs.orig).err = .none) ∧
    (run c rs.rearranged).pkgs.Perm (run c rs.orig).pkgs ∧
    (run c rs.rearranged).statuses = (run c rs.orig).statuses ∧
    (scan nm c rs.rearranged).pkgs.map nm.key = (scan nm c rs.orig).pkgs.map nm.key ∧
    (scan nm c rs.rearranged).statuses = (scan nm c rs.orig).statuses :=
  scan_of_mustRoot_perm nm c hb ho rs _ _
    (fun t ht => mustRoot_permute_whole c hp t.2.1 (hf t ht) t.2.2 (hρ t ht) t.1)

/-- `perm_scan_roots` for two forests related root by root (no rearrangement named in the statement) -/
theorem perm_scan_roots_rel (nm : Naming) (c : Cfg) (hb : Benign c) (ho : GiOK c) (hp : c.paths = [])
    (roots' roots : List (Node × Faults)) (h : Rearranged roots' roots) :
    ((run c roots').err = .none ∧ (run c roots).err = .none) ∧
    (run c roots').pkgs.Perm (run c roots).pkgs ∧
    (run c roots').statuses = (run c roots).statuses ∧
    (scan nm c roots').pkgs.map nm.key = (scan nm c roots).pkgs.map nm.key ∧
    (scan nm c roots').statuses = (scan nm c roots).statuses := by
  obtain ⟨rs, h1, h2, rfl, rfl⟩ := h.exists_forest
  exact perm_scan_roots nm c hb ho hp rs h1 h2

/-! ### requested paths: what `lookup` finds is untouched by rearranging listings with distinct names -/

theorem find?_name_perm {l l' : List (String × Node)} (hp : l.Perm l') (s : String)
    (hnd : (l.map (·.1)).Nodup) : l.find? (·.1 = s) = l'.find? (·.1 = s) := by
  induction hp with
  | nil => rfl
  | cons x _ ih =>
    simp only [List.map_cons, List.nodup_cons] at hnd
    simp only [List.find?_cons]
    rw [ih hnd.2]
  | swap x y l =>
    simp only [List.map_cons, List.nodup_cons, List.mem_cons, not_or] at hnd
    simp only [List.find?_cons]
    by_cases hx : x.1 = s
    · by_cases hy : y.1 = s
      · exact absurd (hy.trans hx.symm) hnd.1.1
      · simp [hx, hy]
    · simp [hx]
  | trans h1 _ ih1 ih2 => rw [ih1 hnd, ih2 ((h1.map _).nodup_iff.mp hnd)]

theorem permuteEntries_names (ρ : Rearr) (p : Path) (es : List (String × Node)) :
    (permuteEntries ρ p es).map (·.1) = es.map (·.1) := by
  induction es with
  | nil => simp [permuteEntries]
  | cons e rest ih => obtain ⟨s, n⟩ := e; simp [permuteEntries, ih]

theorem find?_permuteEntries (ρ : Rearr) (p : Path) (es : List (String × Node)) (s : String) :
    (permuteEntries ρ p es).find? (·.1 = s) =
      (es.find? (·.1 = s)).map fun x => (x.1, permuteTree ρ (p ++ [x.1]) x.2) := by
  induction es with
  | nil => simp [permuteEntries]
  | cons e rest ih =>
    obtain ⟨t, n⟩ := e
    simp only [permuteEntries, List.find?_cons]
    by_cases h : t = s
    · simp [h]
    · simp [h, ih]

theorem DistinctNamesL_mem {es : List (String × Node)} (h : DistinctNamesL es) {x : String × Node} (hx : x ∈ es) :
    DistinctNames x.2 := by
  induction es with
  | nil => cases hx
  | cons e rest ih =>
    obtain ⟨t, n⟩ := e
    unfold DistinctNamesL at h
    rcases List.mem_cons.mp hx with rfl | hx
    · exact h.1
    · exact ih h.2 hx

/-- **`lookup` commutes with rearranging** when sibling names are distinct: the node found under `q` in
the rearranged tree is the rearrangement of the node found under `q` (`p` = where the tree sits). -/
theorem lookup_permute (ρ : Rearr) (hρ : ∀ p l, (ρ p l).Perm l) :
    ∀ (q p : Path) (n : Node), DistinctNames n →
      lookup (permuteTree ρ p n) q = (lookup n q).map (permuteTree ρ (p ++ q))
  | [], p, n, _ => by cases n <;> simp [lookup]
  | s :: q, p, .file k sz, _ => by simp [permuteTree, lookup]
  | s :: q, p, .dir gi es, hd => by
    unfold DistinctNames at hd
    simp only [permuteTree, lookup]
    have hnd : ((permuteEntries ρ p es).map (·.1)).Nodup := by rw [permuteEntries_names]; exact hd.1
    have hnd' : ((ρ p (permuteEntries ρ p es)).map (·.1)).Nodup := ((hρ p _).map _).nodup_iff.mpr hnd
    rw [find?_name_perm (hρ p _) s hnd', find?_permuteEntries]
    cases hfd : es.find? (·.1 = s) with
    | none => simp
    | some x =>
      obtain ⟨t, ch⟩ := x
      have ht : t = s := by simpa using List.find?_some hfd
      subst ht
      have hch : DistinctNames ch := DistinctNamesL_mem hd.2 (List.mem_of_find?_eq_some hfd)
      simp only [Option.map_some]
      rw [lookup_permute ρ hρ q (p ++ [t]) ch hch]
      simp [List.append_assoc]

/-- the `.gitignore` content of a directory is untouched by rearranging listings -/
theorem giOfDir_permute (ρ : Rearr) (hρ : ∀ p l, (ρ p l).Perm l) (f : Faults) (root : Node)
    (hd : DistinctNames root) (d : Path) :
    giOfDir f (permuteTree ρ [] root) d = giOfDir f root d := by
  unfold giOfDir
  rw [lookup_permute ρ hρ d [] root hd]
  cases lookup root d with
  | none => rfl
  | some n =>
    cases n with
    | file k sz => simp [permuteTree]
    | dir gi es => cases gi <;> simp [permuteTree]

theorem parentGis_permute (ρ : Rearr) (hρ : ∀ p l, (ρ p l).Perm l) (f : Faults) (root : Node)
    (hd : DistinctNames root) (p : Path) :
    parentGis f (permuteTree ρ [] root) p = parentGis f root p := by
  unfold parentGis
  simp only []
  rw [List.map_congr_left (fun d _ => giOfDir_permute ρ hρ f root hd d)]

/-- one requested path: the owed calls are a permutation (a requested file: equal; a requested
directory: `mustFrom_permute` below the same parent-gitignore context) -/
theorem mustRequested_permute (c : Cfg) (f : Faults) (hf : NoReadFaults f)
    (ρ : Rearr) (hρ : ∀ p l, (ρ p l).Perm l) (root : Node) (hd : DistinctNames root) (p : Path) :
    (mustRequested c f (permuteTree ρ [] root) p).Perm (mustRequested c f root p) := by
  unfold mustRequested
  split
  · exact List.Perm.refl _
  · rw [lookup_permute ρ hρ p [] root hd, parentGis_permute ρ hρ f root hd p]
    cases lookup root p with
    | none => exact List.Perm.refl _
    | some n =>
      cases n with
      | file k sz => simp [permuteTree]
      | dir gi es =>
        simp only [Option.map_some, List.nil_append]
        have := mustFrom_permute c f hf (if c.useGitignore then (parentGis f root p).1 else []) ρ hρ p (.dir gi es)
        simp only [permuteTree] at this ⊢
        exact this

theorem flatMap_perm_pointwise {α β} (l : List α) {g h : α → List β} (hgh : ∀ x ∈ l, (g x).Perm (h x)) :
    (l.flatMap g).Perm (l.flatMap h) := by
  induction l with
  | nil => exact List.Perm.refl _
  | cons x xs ih =>
    simp only [List.flatMap_cons]
    exact List.Perm.append (hgh x (by simp)) (ih (fun y hy => hgh y (by simp [hy])))

/-- one root, any `c.paths`: the owed calls of the rearranged tree are a permutation -/
theorem mustRoot_permute (c : Cfg) (f : Faults) (hf : NoReadFaults f)
    (ρ : Rearr) (hρ : ∀ p l, (ρ p l).Perm l) (root : Node) (hd : DistinctNames root) :
    (mustRoot c f (permuteTree ρ [] root)).Perm (mustRoot c f root) := by
  unfold mustRoot
  split
  · split
    · exact List.Perm.refl _
    · exact mustFrom_permute c f hf [] ρ hρ [] root
  · exact flatMap_perm_pointwise _ (fun p _ => mustRequested_permute c f hf ρ hρ root hd p)

/-- **C08, several roots, every root rearranged independently, REQUESTED PATHS (`c.paths` arbitrary,
the same on both sides; `[]` = whole tree).**
Hypotheses that remain: `Benign c`, `GiOK c`, `NoReadFaults` for every fault plan (a failing k-th read
is position dependent), and `DistinctNames` for every tree: a requested path is resolved to the FIRST
entry with the given name (`lookup`), so with duplicate sibling names a rearrangement changes which
node is requested (no real filesystem has such listings).
Conclusions as in `perm_scan_roots`. -/
theorem perm_scan_paths (nm : Naming) (c : Cfg) (hb : Benign c) (ho : GiOK c)
    (rs : RForest) (hρ : rs.Perms) (hf : rs.NoReadFaults) (hd : rs.Distinct) :
    ((run c rs.rearranged).err = .none ∧ (run c rs.orig).err = .none) ∧
    (run c rs.rearranged).pkgs.Perm (run c rs.orig).pkgs ∧
    (run c rs.rearranged).statuses = (run c rs.orig).statuses ∧
    (scan nm c rs.rearranged).pkgs.map nm.key = (scan nm c rs.orig).pkgs.map nm.key ∧
    (scan nm c rs.rearranged).statuses = (scan nm c rs.orig).statuses :=
  scan_of_mustRoot_perm nm c hb ho rs _ _
    (fun t ht => mustRoot_permute c t.2.1 (hf t ht) t.2.2 (hρ t ht) t.1 (hd t ht))

/-- `perm_scan_paths` for two forests related root by root -/
theorem perm_scan_paths_rel (nm : Naming) (c : Cfg) (hb : Benign c) (ho : GiOK c)
    (roots' roots : List (Node × Faults)) (h : RearrangedDistinct roots' roots) :
    ((run c roots').err = .none ∧ (run c roots).err = .none) ∧
    (run c roots').pkgs.Perm (run c roots).pkgs ∧
    (run c roots').statuses = (run c roots).statuses ∧
    (scan nm c roots').pkgs.map nm.key = (scan nm c roots).pkgs.map nm.key ∧
    (scan nm c roots').statuses = (scan nm c roots).statuses := by
  obtain ⟨rs, h1, h2, h3, rfl, rfl⟩ := h.exists_forest
  exact perm_scan_paths nm c hb ho rs h1 h2 h3

/-! ### non-vacuity: a concrete two-root forest, each root rearranged by its own `ρ`

First root: every listing reversed.  Second root: only the top listing reversed.  The configuration
is benign, uses gitignore handling, has two extractors (the second one requires only depth-2 files and
fails on them, so statuses are not all `ok`). -/

def pxCfg : Cfg where
  nExt := 2
  required := fun e p => e = 0 || p.length = 2
  extract := fun e p => { pkgs := [10 * p.length + e], err := e = 1 && p.length = 2 }
  useGitignore := true
  giMatch := fun _ _ _ _ => false
def pxT1 : Node :=
  .dir none [("a", .file .reg 1), ("b", .dir (some []) [("x", .file .reg 2), ("y", .file .reg 3)])]
def pxT2 : Node := .dir none [("u", .file .reg 1), ("v", .file .reg 1)]
def pxRev : Rearr := fun _ l => l.reverse
def pxTop : Rearr := fun p l => if p = [] then l.reverse else l
def pxForest : RForest := [(pxT1, {}, pxRev), (pxT2, {}, pxTop)]
/-- the same configuration with requested paths: a directory, a file, a path that does not exist -/
def pxCfgP : Cfg := { pxCfg with paths := [["b"], ["a"], ["zz"]] }

theorem pxCfg_benign : Benign pxCfg := ⟨rfl, rfl, rfl, rfl, fun _ _ => rfl⟩
theorem pxCfgP_benign : Benign pxCfgP := ⟨rfl, rfl, rfl, rfl, fun _ _ => rfl⟩
theorem pxCfg_giOK : GiOK pxCfg := fun _ _ _ _ _ => rfl
theorem pxCfgP_giOK : GiOK pxCfgP := fun _ _ _ _ _ => rfl
theorem pxRev_perm : ∀ (p : Path) (l : List (String × Node)), (pxRev p l).Perm l := fun _ l => List.reverse_perm l
theorem pxTop_perm : ∀ (p : Path) (l : List (String × Node)), (pxTop p l).Perm l := by
  intro p l
  simp only [pxTop]
  split
  · exact List.reverse_perm l
  · exact List.Perm.refl l
example : NoReadFaults {} := fun _ _ => rfl

theorem pxForest_perms : pxForest.Perms := by
  intro t ht
  simp only [pxForest, List.mem_cons, List.not_mem_nil, or_false] at ht
  rcases ht with rfl | rfl
  · exact pxRev_perm
  · exact pxTop_perm
theorem pxForest_noReadFaults : pxForest.NoReadFaults := by
  intro t ht
  simp only [pxForest, List.mem_cons, List.not_mem_nil, or_false] at ht
  rcases ht with rfl | rfl <;> exact fun _ _ => rfl
theorem pxForest_distinct : pxForest.Distinct := by
  intro t ht
  simp only [pxForest, List.mem_cons, List.not_mem_nil, or_false] at ht
  rcases ht with rfl | rfl <;> simp [pxT1, pxT2, DistinctNames, DistinctNamesL]

/-- what the rearranged forest looks like -/
example : pxForest.rearranged =
    [(.dir none [("b", .dir (some []) [("y", .file .reg 3), ("x", .file .reg 2)]), ("a", .file .reg 1)], {}),
     (.dir none [("v", .file .reg 1), ("u", .file .reg 1)], {})] := by
  simp [pxForest, RForest.rearranged, pxT1, pxT2, pxRev, pxTop, permuteTree, permuteEntries]

/-- the relational form holds for the same pair of forests -/
example : Rearranged pxForest.rearranged pxForest.orig :=
  .cons pxRev pxRev_perm (fun _ _ => rfl) (.cons pxTop pxTop_perm (fun _ _ => rfl) .nil)
example : RearrangedDistinct pxForest.rearranged pxForest.orig :=
  .cons pxRev pxRev_perm (fun _ _ => rfl) (by simp [pxT1, DistinctNames, DistinctNamesL])
    (.cons pxTop pxTop_perm (fun _ _ => rfl) (by simp [pxT2, DistinctNames, DistinctNamesL]) .nil)

/-! specification side, by evaluation: the owed calls of the rearranged forest are a DIFFERENT list
but the same multiset (7 calls) -/
example : (mustExtract pxCfg pxForest.orig).map (fun cl => (cl.ext, cl.path)) =
    [(0, ["a"]), (0, ["b", "x"]), (1, ["b", "x"]), (0, ["b", "y"]), (1, ["b", "y"]), (0, ["u"]), (0, ["v"])] := by decide
example : (mustExtract pxCfg pxForest.rearranged).map (fun cl => (cl.ext, cl.path)) =
    [(0, ["b", "y"]), (1, ["b", "y"]), (0, ["b", "x"]), (1, ["b", "x"]), (0, ["a"]), (0, ["v"]), (0, ["u"])] := by decide
example : mustExtract pxCfg pxForest.rearranged ≠ mustExtract pxCfg pxForest.orig := by decide
example : (mustExtract pxCfg pxForest.rearranged).Perm (mustExtract pxCfg pxForest.orig) := by decide
example : (mustExtract pxCfg pxForest.orig).length = 7 := by decide
/-! the same with requested paths (the missing path `zz` owes nothing; root 2 has none of the paths) -/
example : (mustExtract pxCfgP pxForest.orig).map (fun cl => (cl.ext, cl.path)) =
    [(0, ["b", "x"]), (1, ["b", "x"]), (0, ["b", "y"]), (1, ["b", "y"]), (0, ["a"])] := by decide
example : (mustExtract pxCfgP pxForest.rearranged).map (fun cl => (cl.ext, cl.path)) =
    [(0, ["b", "y"]), (1, ["b", "y"]), (0, ["b", "x"]), (1, ["b", "x"]), (0, ["a"])] := by decide
/-- statuses are not trivially `ok`: in root 1 extractor 1 fails on the depth-2 files while producing
packages (`part`) -/
example : (List.range 2).map (statusSpec pxCfg {} pxT1) = [.ok, .part] := by decide

/-- the theorems apply to the example (engine side, no evaluation of `run`) -/
example (nm : Naming) :
    (scan nm pxCfg pxForest.rearranged).pkgs.map nm.key = (scan nm pxCfg pxForest.orig).pkgs.map nm.key ∧
    (scan nm pxCfg pxForest.rearranged).statuses = (scan nm pxCfg pxForest.orig).statuses :=
  (perm_scan_roots nm pxCfg pxCfg_benign pxCfg_giOK rfl pxForest pxForest_perms pxForest_noReadFaults).2.2.2
example (nm : Naming) :
    (scan nm pxCfgP pxForest.rearranged).pkgs.map nm.key = (scan nm pxCfgP pxForest.orig).pkgs.map nm.key ∧
    (scan nm pxCfgP pxForest.rearranged).statuses = (scan nm pxCfgP pxForest.orig).statuses :=
  (perm_scan_paths nm pxCfgP pxCfgP_benign pxCfgP_giOK pxForest pxForest_perms pxForest_noReadFaults
    pxForest_distinct).2.2.2

/-! ### the two remaining tree/fault hypotheses cannot be dropped

Both counterexamples are about the ENGINE (`run`); they are decided on the specification side after
rewriting with `run_results`. -/

/-- two entries called `a`: a file and a directory.  Requesting `a` resolves to whichever comes first. -/
def pxDup : Node := .dir none [("a", .file .reg 1), ("a", .dir none [("x", .file .reg 1)])]
def pxCfgA : Cfg := { pxCfg with paths := [["a"]] }

/-- without `DistinctNames`, `perm_scan_paths` fails: not even the package multisets agree -/
theorem perm_scan_paths_needs_distinct :
    ¬ (run pxCfgA [(permuteTree pxRev [] pxDup, {})]).pkgs.Perm (run pxCfgA [(pxDup, {})]).pkgs := by
  rw [(run_results pxCfgA ⟨rfl, rfl, rfl, rfl, fun _ _ => rfl⟩ _ (fun _ _ _ _ _ => rfl)).1,
      (run_results pxCfgA ⟨rfl, rfl, rfl, rfl, fun _ _ => rfl⟩ _ (fun _ _ _ _ _ => rfl)).1]
  decide

/-- the second `ReadDir(1)` call on the root directory fails: only the FIRST listed entry is seen -/
def pxFault : Faults := { readEntryFail := fun p k => p = [] && k = 1 }

/-- with a failing directory read, `perm_scan_roots` fails (whole-tree scan, distinct names) -/
theorem perm_scan_needs_noReadFaults :
    ¬ (run pxCfg [(permuteTree pxRev [] pxT2, pxFault)]).pkgs.Perm (run pxCfg [(pxT2, pxFault)]).pkgs := by
  rw [(run_results pxCfg pxCfg_benign _ pxCfg_giOK).1, (run_results pxCfg pxCfg_benign _ pxCfg_giOK).1]
  decide

end Scalibr.Walk
