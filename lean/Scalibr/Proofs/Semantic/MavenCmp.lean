/-
C07 — Maven, part 2: on well-formed token lists (what `newMavenVersion` produces) `compare` never
fails, is reflexive, and `a ? b` is the exact flip of `b ? a`.
-/
import Scalibr.Proofs.Semantic.MavenTok
namespace Scalibr.Semantic

/-- what holds of the tokens after the first one -/
structure TailOk (a : List MTok) : Prop where
  sep : ∀ u ∈ a, isSepPre u.pre
  canon : ∀ u ∈ a, u.canonVal
  last : ∀ l, a.getLast? = some l → shouldTrim l = false

theorem TailOk.nil : TailOk [] := ⟨by simp, by simp, by simp⟩

theorem TailOk.tail {x : MTok} {as : List MTok} (h : TailOk (x :: as)) : TailOk as := by
  refine ⟨fun u hu => h.sep u (by simp [hu]), fun u hu => h.canon u (by simp [hu]), ?_⟩
  intro l hl
  cases as with
  | nil => simp at hl
  | cons y ys => exact h.last l (by simpa [List.getLast?_cons_cons] using hl)

/-- well-formed version: a first token without prefix, then separator-prefixed tokens -/
def MvnWF (v : List MTok) : Prop := ∃ t rest, v = t :: rest ∧ t.pre = [] ∧ t.canonVal ∧ TailOk rest

theorem MTok.equal_comm (a b : MTok) : a.equal b = b.equal a := by
  unfold MTok.equal
  by_cases h1 : a.pre = b.pre <;> by_cases h2 : a.val = b.val <;> simp [h1, h2, eq_comm]

theorem MTok.equal_refl (a : MTok) : a.equal a = true := by simp [MTok.equal]

theorem toBig_zero : toBig ['0'] = some 0 := by decide
theorem intToChars_zero : intToChars 0 = ['0'] := by decide
theorem toBig_nil : toBig [] = none := by decide

/-- the padding token of a separator-prefixed token -/
theorem nullTok_props (t : MTok) (h : isSepPre t.pre) :
    ∃ n, nullTok t = some n ∧ n.pre = t.pre ∧ n.canonVal ∧ (shouldTrim t = false → t.equal n = false) := by
  unfold nullTok
  rcases h with h | h
  · refine ⟨⟨['-'], [], true⟩, by simp [h], by simp [h], ?_, ?_⟩
    · intro n hn; simp [toBig_nil] at hn
    · intro hs
      unfold shouldTrim at hs
      unfold MTok.equal
      simp only [Bool.or_eq_false_iff] at hs
      have : t.val ≠ [] := by
        intro e; rw [e] at hs; simp at hs
      simp [h, this]
  · by_cases hsp : t.val = kSp
    · refine ⟨⟨['.'], [], true⟩, by simp [h, hsp], by simp [h], ?_, ?_⟩
      · intro n hn; simp [toBig_nil] at hn
      · intro _
        unfold MTok.equal
        simp [h, hsp, kSp]
    · refine ⟨⟨['.'], ['0'], true⟩, by simp [h, hsp], by simp [h], ?_, ?_⟩
      · intro n hn
        simp only [toBig_zero, Option.some.injEq] at hn
        subst hn; exact intToChars_zero.symm
      · intro hs
        unfold shouldTrim at hs
        unfold MTok.equal
        simp only [Bool.or_eq_false_iff, decide_eq_false_iff_not] at hs
        simp [h, hs.1.1.1]

theorem getLast?_singleton_of_tail_nil {α} (y : α) : [y].getLast? = some y := rfl

/-- one side exhausted: the longer side decides, consistently in both directions -/
theorem mvnLess_one_sided : ∀ (b : List MTok), TailOk b → b ≠ [] →
    ∃ r, mvnLessL b = some r ∧ mvnLess b [] = some (!r) := by
  intro b; induction b with
  | nil => intro _ h; exact absurd rfl h
  | cons y bs ih =>
    intro hb _
    obtain ⟨n, hn, hpre, hcan, htrim⟩ := nullTok_props y (hb.sep y (by simp))
    simp only [mvnLessL, mvnLess, hn]
    rw [MTok.equal_comm n y]
    cases he : y.equal n with
    | true =>
      simp only [if_true]
      have hbs : bs ≠ [] := by
        intro e; subst e
        have := hb.last y rfl
        rw [htrim this] at he; exact absurd he (by simp)
      obtain ⟨r, h1, h2⟩ := ih hb.tail hbs
      exact ⟨r, h1, h2⟩
    | false =>
      simp only [Bool.false_eq_true, if_false]
      have hne : n.equal y = false := by rw [MTok.equal_comm]; exact he
      exact tokLess_trichotomy n y hne hcan (hb.canon y (by simp)) (Or.inl hpre)

theorem mvnLess_nil_left (b : List MTok) : mvnLess [] b = mvnLessL b := by simp [mvnLess]

/-- two different well-formed tails are strictly ordered, consistently in both directions -/
theorem mvnLess_tails : ∀ (a b : List MTok), TailOk a → TailOk b → mvnEqual a b = false →
    ∃ r, mvnLess a b = some r ∧ mvnLess b a = some (!r) := by
  intro a; induction a with
  | nil =>
    intro b _ hb hne
    cases b with
    | nil => simp [mvnEqual] at hne
    | cons y bs =>
      rw [mvnLess_nil_left]
      exact mvnLess_one_sided (y :: bs) hb (by simp)
  | cons x as ih =>
    intro b ha hb hne
    cases b with
    | nil =>
      obtain ⟨r, h1, h2⟩ := mvnLess_one_sided (x :: as) ha (by simp)
      rw [mvnLess_nil_left]
      exact ⟨!r, h2, by simpa using h1⟩
    | cons y bs =>
      simp only [mvnLess]
      rw [MTok.equal_comm y x]
      cases he : x.equal y with
      | true =>
        simp only [if_true]
        have : mvnEqual as bs = false := by simpa [mvnEqual, he] using hne
        exact ih bs ha.tail hb.tail this
      | false =>
        simp only [Bool.false_eq_true, if_false]
        exact tokLess_trichotomy x y he (ha.canon x (by simp)) (hb.canon y (by simp))
          (Or.inr ⟨ha.sep x (by simp), hb.sep y (by simp)⟩)

theorem mvnLess_wf (v w : List MTok) (hv : MvnWF v) (hw : MvnWF w) (hne : mvnEqual v w = false) :
    ∃ r, mvnLess v w = some r ∧ mvnLess w v = some (!r) := by
  obtain ⟨t, as, rfl, tp, tc, ta⟩ := hv
  obtain ⟨u, bs, rfl, up, uc, ub⟩ := hw
  simp only [mvnLess]
  rw [MTok.equal_comm u t]
  cases he : t.equal u with
  | true =>
    simp only [if_true]
    have : mvnEqual as bs = false := by simpa [mvnEqual, he] using hne
    exact mvnLess_tails as bs ta ub this
  | false =>
    simp only [Bool.false_eq_true, if_false]
    exact tokLess_trichotomy t u he tc uc (Or.inl (tp.trans up.symm))

theorem mvnEqual_refl : ∀ v : List MTok, mvnEqual v v = true := by
  intro v; induction v with
  | nil => rfl
  | cons x xs ih => simp [mvnEqual, MTok.equal_refl, ih]

theorem mvnEqual_comm : ∀ v w : List MTok, mvnEqual v w = mvnEqual w v := by
  intro v; induction v with
  | nil => intro w; cases w <;> rfl
  | cons x xs ih =>
    intro w; cases w with
    | nil => rfl
    | cons y ys => simp [mvnEqual, MTok.equal_comm x y, ih ys]

/-- `mavenVersion.compare` as a total function -/
def cmpMvnT (v w : List MTok) : Ordering :=
  if mvnEqual v w then .eq else if mvnLess v w = some true then .lt else .gt

theorem cmpMvn_eq (v w : List MTok) (hv : MvnWF v) (hw : MvnWF w) : cmpMvn v w = .ord (cmpMvnT v w) := by
  unfold cmpMvn cmpMvnT
  cases he : mvnEqual v w with
  | true => simp
  | false =>
    obtain ⟨r, h1, _⟩ := mvnLess_wf v w hv hw he
    cases r <;> simp [h1]

theorem cmpMvnT_refl (v : List MTok) : cmpMvnT v v = .eq := by simp [cmpMvnT, mvnEqual_refl]

theorem cmpMvnT_swap (v w : List MTok) (hv : MvnWF v) (hw : MvnWF w) : cmpMvnT w v = (cmpMvnT v w).swap := by
  unfold cmpMvnT
  rw [mvnEqual_comm w v]
  cases he : mvnEqual v w with
  | true => simp [Ordering.swap]
  | false =>
    obtain ⟨r, h1, h2⟩ := mvnLess_wf v w hv hw he
    cases r <;> simp [h1, h2, Ordering.swap]

end Scalibr.Semantic
