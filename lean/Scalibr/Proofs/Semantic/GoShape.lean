/-
C07 — the Go-shaped model functions (with `goIndex` / `goSlice` / `goFetch`, whose `none` is a
run-time panic) coincide with their index-free reformulations. These equalities are the content of
the no-crash theorems `C07_<f>_total` for semver, NuGet, CRAN, RubyGems, Red Hat, Packagist and
Debian: every index / slice the Go code performs is in range, on every input.
-/
import Scalibr.Proofs.Semantic.Lex
import Scalibr.Model.Semantic.Parse
namespace Scalibr.Semantic

/-! ## the generic loops -/

theorem goFetch_eq {α : Type} (l : List α) (i : Nat) (d : α) : goFetch l i d = some (l.getD i d) := by
  unfold goFetch goIndex
  by_cases h : l.length ≤ i
  · simp [h, List.getD, List.getElem?_eq_none h]
  · have h' : i < l.length := Nat.lt_of_not_le h
    simp [h, List.getD, List.getElem?_eq_getElem h']

theorem thenGo_some (o r : Ordering) : thenGo o (some r) = some (o.then r) := by
  cases o <;> simp [thenGo, Ordering.then]

theorem drop_of_lt {α : Type} (l : List α) (i : Nat) (d : α) (h : i < l.length) :
    l.drop i = l.getD i d :: l.drop (i + 1) := by
  rw [List.drop_eq_getElem_cons h]
  simp [List.getD, List.getElem?_eq_getElem h]

theorem padLoop_eq {α : Type} (cmp : α → α → Option Ordering) (c : α → α → Ordering)
    (hc : ∀ x y, cmp x y = some (c x y)) (d : α) (a b : List α) :
    ∀ k i, k + i = max a.length b.length → padLoop cmp d a b k i = some (cmpPad c d (a.drop i) (b.drop i)) := by
  intro k
  induction k with
  | zero =>
    intro i hi
    have ha : a.length ≤ i := by omega
    have hb : b.length ≤ i := by omega
    simp [padLoop, List.drop_eq_nil_of_le ha, List.drop_eq_nil_of_le hb, cmpPad, cmpPadL]
  | succ k ih =>
    intro i hi
    simp only [padLoop, goFetch_eq, Option.bind_some, hc, ih (i + 1) (by omega), thenGo_some]
    congr 1
    by_cases ha : i < a.length
    · by_cases hb : i < b.length
      · rw [drop_of_lt a i d ha, drop_of_lt b i d hb]; rfl
      · have hb' : b.length ≤ i := Nat.le_of_not_lt hb
        rw [drop_of_lt a i d ha, List.drop_eq_nil_of_le hb', List.drop_eq_nil_of_le (by omega : b.length ≤ i + 1)]
        rw [cmpPad_nil_right, cmpPad_nil_right]
        simp [cmpPadR, List.getD, List.getElem?_eq_none hb']
    · have ha' : a.length ≤ i := Nat.le_of_not_lt ha
      have hb : i < b.length := by omega
      rw [drop_of_lt b i d hb, List.drop_eq_nil_of_le ha', List.drop_eq_nil_of_le (by omega : a.length ≤ i + 1)]
      simp [cmpPad, cmpPadL, List.getD, List.getElem?_eq_none ha']

/-- the padded loop never indexes out of range -/
theorem cmpPadGo_eq {α : Type} (cmp : α → α → Option Ordering) (c : α → α → Ordering)
    (hc : ∀ x y, cmp x y = some (c x y)) (d : α) (a b : List α) :
    cmpPadGo cmp d a b = some (cmpPad c d a b) := by
  have := padLoop_eq cmp c hc d a b (max a.length b.length) 0 (by omega)
  simpa [cmpPadGo] using this

theorem lexLoop_eq {α : Type} (cmp : α → α → Ordering) (a b : List α) :
    ∀ k i, k + i = min a.length b.length →
      (lexLoop cmp a b k i).bind (fun o => some (o.then (ncmp a.length b.length))) =
        some (cmpLex cmp (a.drop i) (b.drop i)) := by
  intro k
  induction k with
  | zero =>
    intro i hi
    simp only [lexLoop, Option.bind_some, Ordering.then]
    congr 1
    by_cases ha : i < a.length
    · have hb : b.length ≤ i := by omega
      rw [drop_of_lt a i (a.getD i (a.getD i (a.head (by intro e; simp [e] at ha)))) ha, List.drop_eq_nil_of_le hb]
      simp only [cmpLex]
      exact ncmp_gt.mpr (by omega)
    · have ha' : a.length ≤ i := Nat.le_of_not_lt ha
      rw [List.drop_eq_nil_of_le ha']
      by_cases hb : i < b.length
      · rw [List.drop_eq_getElem_cons hb]
        simp only [cmpLex]
        exact ncmp_lt.mpr (by omega)
      · rw [List.drop_eq_nil_of_le (Nat.le_of_not_lt hb)]
        simp only [cmpLex]
        exact ncmp_eq.mpr (by omega)
  | succ k ih =>
    intro i hi
    have ha : i < a.length := by omega
    have hb : i < b.length := by omega
    have ih' := ih (i + 1) (by omega)
    simp only [lexLoop, goIndex, List.getElem?_eq_getElem ha, List.getElem?_eq_getElem hb, Option.bind_some]
    rw [List.drop_eq_getElem_cons ha, List.drop_eq_getElem_cons hb]
    simp only [cmpLex]
    cases hl : lexLoop cmp a b k (i + 1) with
    | none => rw [hl] at ih'; simp at ih'
    | some r =>
      rw [hl] at ih'
      simp only [Option.bind_some, Option.some.injEq] at ih'
      rw [thenGo_some, Option.bind_some, ← ih']
      cases cmp a[i] b[i] <;> simp [Ordering.then]

/-- the first non-zero comparison of the common part -/
def cmpZip {α : Type} (cmp : α → α → Ordering) : List α → List α → Ordering
  | x :: as, y :: bs => (cmp x y).then (cmpZip cmp as bs)
  | _, _ => .eq

theorem lexLoop_zip {α : Type} (cmp : α → α → Ordering) (a b : List α) :
    ∀ k i, k + i = min a.length b.length → lexLoop cmp a b k i = some (cmpZip cmp (a.drop i) (b.drop i)) := by
  intro k
  induction k with
  | zero =>
    intro i hi
    simp only [lexLoop]
    by_cases ha : i < a.length
    · have hb : b.length ≤ i := by omega
      rw [List.drop_eq_nil_of_le hb]
      cases a.drop i <;> simp [cmpZip]
    · rw [List.drop_eq_nil_of_le (Nat.le_of_not_lt ha)]; simp [cmpZip]
  | succ k ih =>
    intro i hi
    have ha : i < a.length := by omega
    have hb : i < b.length := by omega
    simp only [lexLoop, goIndex, List.getElem?_eq_getElem ha, List.getElem?_eq_getElem hb, Option.bind_some,
      ih (i + 1) (by omega), thenGo_some]
    rw [List.drop_eq_getElem_cons ha, List.drop_eq_getElem_cons hb]
    simp only [cmpZip]

/-- the common-prefix loop never indexes out of range -/
theorem cmpLexGo_eq {α : Type} (cmp : α → α → Ordering) (a b : List α) :
    cmpLexGo cmp a b = some (cmpLex cmp a b) := by
  have := lexLoop_eq cmp a b (min a.length b.length) 0 (by omega)
  simpa [cmpLexGo] using this

/-! ## semver-like, NuGet, CRAN -/

theorem goSlice_take {α : Type} (l : List α) (n : Nat) (h : n ≤ l.length) : goSlice l 0 n = some (l.take n) := by
  have : (n : Int) ≤ (l.length : Int) := by omega
  simp [goSlice, this]

theorem goSlice_drop {α : Type} (l : List α) (n : Nat) (h : n ≤ l.length) : goSlice l n l.length = some (l.drop n) := by
  have : (n : Int) ≤ (l.length : Int) := by omega
  simp [goSlice, this]

/-- the slices of `fetchComponentsAndBuild` are behind its guard -/
theorem parseSemverGo_eq (m : Nat) (s : List Char) : parseSemverGo m s = some (parseSemver m s) := by
  unfold parseSemverGo parseSemver
  simp only []
  by_cases h : (parseSemverLike s).comps.length ≤ m
  · simp [h]
  · have h' : m ≤ (parseSemverLike s).comps.length := by omega
    simp [h, goSlice_take _ m h', goSlice_drop _ m h']

theorem splitOn_ne_nil (sep : Char) : ∀ s, splitOn sep s ≠ [] := by
  intro s
  induction s with
  | nil => simp [splitOn]
  | cons c cs ih =>
    simp only [splitOn]
    split
    · simp
    · split <;> simp

theorem buildCore_stripDash (s : List Char) : buildCore s = stripDash ((splitOn '+' s).headD []) := by
  unfold buildCore stripDash
  rfl

/-- `strings.Split` returns at least one part: `parts[0]` exists -/
theorem buildCoreGo_eq (s : List Char) : buildCoreGo s = some (buildCore s) := by
  unfold buildCoreGo goIndex
  rw [buildCore_stripDash]
  cases h : splitOn '+' s with
  | nil => exact absurd h (splitOn_ne_nil '+' s)
  | cons x xs => simp

theorem cmpBuildGo_eq (a b : List Char) : cmpBuildGo a b = some (cmpBuild a b) := by
  unfold cmpBuildGo cmpBuild cmpBuildComps
  simp only [buildCoreGo_eq, Option.bind_some, cmpLexGo_eq]
  split
  · rfl
  · split <;> rfl

theorem compsCmpGo_eq (a b : List Int) : compsCmpGo a b = some (compsCmp a b) :=
  cmpPadGo_eq _ icmp (fun _ _ => rfl) 0 a b

theorem cmpSemverGo_eq (v w : SemV) : cmpSemverGo v w = some (cmpSemver v w) := by
  simp [cmpSemverGo, cmpSemver, compsCmpGo_eq, cmpBuildGo_eq, thenGo_some]

theorem cmpNuGetGo_eq (v w : SemV) : cmpNuGetGo v w = some (cmpNuGet v w) := by
  simp [cmpNuGetGo, cmpNuGet, compsCmpGo_eq, cmpBuildGo_eq, thenGo_some]

theorem cmpCranGo_eq (v w : List Int) : cmpCranGo v w = some (cmpCran v w) := by
  simp [cmpCranGo, cmpCran, compsCmpGo_eq]

@[simp] theorem semverFam_parse (s : List Char) : semverFam.parse s = .ok (parseSemver 3 s) := by
  simp [semverFam, parseSemverGo_eq, PRes.ofGo]
@[simp] theorem semverFam_cmp (v w : SemV) : semverFam.cmp v w = .ord (cmpSemver v w) := by
  simp [semverFam, cmpSemverGo_eq, CRes.ofGo]
@[simp] theorem nugetFam_parse (s : List Char) : nugetFam.parse s = .ok (parseSemver 4 s) := by
  simp [nugetFam, parseSemverGo_eq, PRes.ofGo]
@[simp] theorem nugetFam_cmp (v w : SemV) : nugetFam.cmp v w = .ord (cmpNuGet v w) := by
  simp [nugetFam, cmpNuGetGo_eq, CRes.ofGo]
@[simp] theorem cranFam_parse (s : List Char) : cranFam.parse s = parseCran s := rfl
@[simp] theorem cranFam_cmp (v w : List Int) : cranFam.cmp v w = .ord (cmpCran v w) := by
  simp [cranFam, cmpCranGo_eq, CRes.ofGo]

/-! ## RubyGems -/

theorem removeZeros_snoc (l : List (List Char)) (x : List Char) :
    removeZeros (l ++ [x]) = if x = ['0'] then removeZeros l else l ++ [x] := by
  unfold removeZeros
  simp only [List.reverse_append, List.reverse_cons, List.reverse_nil, List.nil_append, List.cons_append, List.dropWhile_cons]
  by_cases h : x = ['0']
  · simp [h]
  · simp [h]

theorem removeZeros_prefix (l : List (List Char)) : removeZeros l = l.take (removeZeros l).length := by
  have h : l = removeZeros l ++ (l.reverse.takeWhile (· = ['0'])).reverse := by
    have e := congrArg List.reverse (List.takeWhile_append_dropWhile (p := fun x => decide (x = ['0'])) (l := l.reverse))
    rw [List.reverse_append, List.reverse_reverse] at e
    exact e.symm
  generalize removeZeros l = r at h ⊢
  rw [h]; simp

theorem removeZeros_length_le (l : List (List Char)) : (removeZeros l).length ≤ l.length := by
  rw [removeZeros_prefix]; simp only [List.length_take]; omega

/-- the loop of `removeZeros` stays inside the slice: started at `n - 1` it indexes positions `< n` only -/
theorem rzLoop_eq (segs : List (List Char)) :
    ∀ n, n ≤ segs.length → ∃ j : Int, rzLoop segs (n + 1) ((n : Int) - 1) = some j ∧
      max j 0 = ((removeZeros (segs.take n)).length : Int) := by
  intro n
  induction n with
  | zero =>
    intro _
    refine ⟨-1, ?_, ?_⟩
    · simp [rzLoop]
    · simp only [List.take_zero, removeZeros, List.reverse_nil, List.dropWhile_nil, List.length_nil]; omega
  | succ n ih =>
    intro hn
    have hlt : n < segs.length := by omega
    obtain ⟨j, hj, hm⟩ := ih (by omega)
    have h0 : (0 : Int) ≤ ((n + 1 : Nat) : Int) - 1 := by omega
    have hi : (((n + 1 : Nat) : Int) - 1).toNat = n := by omega
    rw [List.take_succ_eq_append_getElem hlt, removeZeros_snoc]
    unfold rzLoop
    simp only [h0, if_true, hi, goIndex, List.getElem?_eq_getElem hlt, Option.bind_some]
    by_cases hz : segs[n] = ['0']
    · simp only [hz, ne_eq, not_true_eq_false, if_false, if_true]
      have e : ((n + 1 : Nat) : Int) - 1 - 1 = (n : Int) - 1 := by omega
      rw [e]
      exact ⟨j, hj, hm⟩
    · simp only [hz, ne_eq, not_false_eq_true, if_true, if_false]
      refine ⟨_, rfl, ?_⟩
      simp only [List.length_append, List.length_take, List.length_cons, List.length_nil]
      omega

/-- `segs[i]` and `segs[:max(i, 0)]` of `removeZeros` are in range -/
theorem removeZerosGo_eq (segs : List (List Char)) : removeZerosGo segs = some (removeZeros segs) := by
  unfold removeZerosGo
  obtain ⟨j, hj, hm⟩ := rzLoop_eq segs segs.length (Nat.le_refl _)
  rw [List.take_length] at hm
  rw [hj, Option.bind_some, hm, goSlice_take _ _ (removeZeros_length_le segs)]
  rw [← removeZeros_prefix]

theorem rubySegsGo_eq (s : List Char) : rubySegsGo s = some (rubySegs s) := by
  simp [rubySegsGo, rubySegs, removeZerosGo_eq]

theorem cmpRubyGo_eq (a b : List (List Char)) : cmpRubyGo a b = some (cmpRuby a b) :=
  cmpPadGo_eq _ rubyElem (fun _ _ => rfl) ['0'] a b

@[simp] theorem rubygemsFam_parse (s : List Char) : rubygemsFam.parse s = .ok (rubySegs s) := by
  simp [rubygemsFam, rubySegsGo_eq, PRes.ofGo]
@[simp] theorem rubygemsFam_cmp (v w : List (List Char)) : rubygemsFam.cmp v w = .ord (cmpRuby v w) := by
  simp [rubygemsFam, cmpRubyGo_eq, CRes.ofGo]

end Scalibr.Semantic
