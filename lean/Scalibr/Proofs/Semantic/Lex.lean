/-
C07 — comparator algebra: the combinators the version comparators are built from preserve
"is a total preorder comparator" (`IsCmp`), and a family whose comparison is such a comparator on
its parsed values satisfies the string-level laws of `Spec.Semantic`.
-/
import Scalibr.Spec.Semantic
namespace Scalibr.Semantic

/-- reflexive and antisymmetric in the `swap` sense (no transitivity claimed) -/
structure IsSym {α : Type} (cmp : α → α → Ordering) : Prop where
  refl : ∀ a, cmp a a = .eq
  swap : ∀ a b, cmp b a = (cmp a b).swap

theorem IsCmp.toSym {α} {cmp : α → α → Ordering} (h : IsCmp cmp) : IsSym cmp := ⟨h.refl, h.swap⟩

theorem IsSym.congr {α} {c c' : α → α → Ordering} (h : IsSym c') (e : ∀ a b, c a b = c' a b) : IsSym c where
  refl := fun a => by rw [e]; exact h.refl a
  swap := fun a b => by rw [e, e]; exact h.swap a b

/-! ## consequences of `IsCmp` -/

theorem IsCmp.eq_trans {α} {cmp : α → α → Ordering} (h : IsCmp cmp) {a b c : α}
    (h1 : cmp a b = .eq) (h2 : cmp b c = .eq) : cmp a c = .eq := by
  have le1 := h.trans_le a b c (by simp [h1]) (by simp [h2])
  have h1' : cmp b a = .eq := by rw [h.swap a b, h1]; rfl
  have h2' : cmp c b = .eq := by rw [h.swap b c, h2]; rfl
  have le2 := h.trans_le c b a (by simp [h2']) (by simp [h1'])
  rw [h.swap a c] at le2
  cases hac : cmp a c <;> simp_all [Ordering.swap]

theorem IsCmp.lt_of_lt_of_le {α} {cmp : α → α → Ordering} (h : IsCmp cmp) {a b c : α}
    (h1 : cmp a b = .lt) (h2 : cmp b c ≠ .gt) : cmp a c = .lt := by
  have le := h.trans_le a b c (by simp [h1]) h2
  cases hac : cmp a c with
  | lt => rfl
  | gt => exact absurd hac le
  | eq =>
    have hca : cmp c a = .eq := by rw [h.swap a c, hac]; rfl
    have := h.trans_le b c a h2 (by simp [hca])
    rw [h.swap a b, h1] at this
    exact absurd rfl this

theorem IsCmp.lt_of_le_of_lt {α} {cmp : α → α → Ordering} (h : IsCmp cmp) {a b c : α}
    (h1 : cmp a b ≠ .gt) (h2 : cmp b c = .lt) : cmp a c = .lt := by
  have le := h.trans_le a b c h1 (by simp [h2])
  cases hac : cmp a c with
  | lt => rfl
  | gt => exact absurd hac le
  | eq =>
    have hca : cmp c a = .eq := by rw [h.swap a c, hac]; rfl
    have := h.trans_le c a b (by simp [hca]) h1
    rw [h.swap b c, h2] at this
    exact absurd rfl this

/-- pointwise equal comparators share the laws -/
theorem IsCmp.congr {α} {c c' : α → α → Ordering} (h : IsCmp c') (e : ∀ a b, c a b = c' a b) : IsCmp c where
  refl := fun a => by rw [e]; exact h.refl a
  swap := fun a b => by rw [e, e]; exact h.swap a b
  trans_le := fun a b c' h1 h2 => by rw [e] at h1 h2 ⊢; exact h.trans_le a b c' h1 h2

theorem IsCmp.on {α} {c : α → α → Ordering} (h : IsCmp c) (P : α → Prop) : IsCmpOn P c where
  refl := fun a _ => h.refl a
  swap := fun a b _ _ => h.swap a b
  trans_le := fun a b c _ _ _ => h.trans_le a b c

/-- a comparator that agrees on `P` with a total preorder comparator is one on `P` -/
theorem IsCmpOn.of_eq {α} {P : α → Prop} {c c' : α → α → Ordering} (h : IsCmp c')
    (e : ∀ a b, P a → P b → c a b = c' a b) : IsCmpOn P c where
  refl := fun a ha => by rw [e a a ha ha]; exact h.refl a
  swap := fun a b ha hb => by rw [e a b ha hb, e b a hb ha]; exact h.swap a b
  trans_le := fun a b c' ha hb hc h1 h2 => by
    rw [e a b ha hb] at h1; rw [e b c' hb hc] at h2; rw [e a c' ha hc]; exact h.trans_le a b c' h1 h2

theorem IsCmpOn.mono {α} {P Q : α → Prop} {c : α → α → Ordering} (h : IsCmpOn P c) (hq : ∀ a, Q a → P a) : IsCmpOn Q c where
  refl := fun a ha => h.refl a (hq a ha)
  swap := fun a b ha hb => h.swap a b (hq a ha) (hq b hb)
  trans_le := fun a b c ha hb hc => h.trans_le a b c (hq a ha) (hq b hb) (hq c hc)

/-! ## base comparators -/

theorem icmp_lt {a b : Int} : icmp a b = .lt ↔ a < b := by
  unfold icmp; split
  · simp_all
  · split <;> simp_all
theorem icmp_eq {a b : Int} : icmp a b = .eq ↔ a = b := by
  unfold icmp; split
  · rename_i h; simp; omega
  · split <;> simp_all
theorem icmp_gt {a b : Int} : icmp a b = .gt ↔ b < a := by
  unfold icmp; split
  · rename_i h; simp; omega
  · split
    · rename_i h1 h2; simp; omega
    · rename_i h1 h2; simp; omega

theorem icmp_isCmp : IsCmp icmp where
  refl := by intro a; exact icmp_eq.mpr rfl
  swap := by
    intro a b
    rcases Int.lt_trichotomy a b with h | h | h
    · rw [icmp_lt.mpr h, icmp_gt.mpr h]; rfl
    · rw [icmp_eq.mpr h, icmp_eq.mpr h.symm]; rfl
    · rw [icmp_gt.mpr h, icmp_lt.mpr h]; rfl
  trans_le := by
    intro a b c h1 h2 h3
    have h3' := icmp_gt.mp h3
    have h1' : a ≤ b := by
      rcases Int.lt_trichotomy a b with h | h | h
      · omega
      · omega
      · exact absurd (icmp_gt.mpr h) h1
    have h2' : b ≤ c := by
      rcases Int.lt_trichotomy b c with h | h | h
      · omega
      · omega
      · exact absurd (icmp_gt.mpr h) h2
    omega

theorem ncmp_lt {a b : Nat} : ncmp a b = .lt ↔ a < b := by
  unfold ncmp; split
  · simp_all
  · split <;> simp_all
theorem ncmp_eq {a b : Nat} : ncmp a b = .eq ↔ a = b := by
  unfold ncmp; split
  · rename_i h; simp; omega
  · split <;> simp_all
theorem ncmp_gt {a b : Nat} : ncmp a b = .gt ↔ b < a := by
  unfold ncmp; split
  · rename_i h; simp; omega
  · split
    · rename_i h1 h2; simp; omega
    · rename_i h1 h2; simp; omega

theorem ncmp_isCmp : IsCmp ncmp where
  refl := by intro a; exact ncmp_eq.mpr rfl
  swap := by
    intro a b
    rcases Nat.lt_trichotomy a b with h | h | h
    · rw [ncmp_lt.mpr h, ncmp_gt.mpr h]; rfl
    · rw [ncmp_eq.mpr h, ncmp_eq.mpr h.symm]; rfl
    · rw [ncmp_gt.mpr h, ncmp_lt.mpr h]; rfl
  trans_le := by
    intro a b c h1 h2 h3
    have h3' := ncmp_gt.mp h3
    have h1' : a ≤ b := by
      rcases Nat.lt_trichotomy a b with h | h | h
      · omega
      · omega
      · exact absurd (ncmp_gt.mpr h) h1
    have h2' : b ≤ c := by
      rcases Nat.lt_trichotomy b c with h | h | h
      · omega
      · omega
      · exact absurd (ncmp_gt.mpr h) h2
    omega

theorem bcmp_isCmp : IsCmp bcmp where
  refl := by intro a; cases a <;> rfl
  swap := by intro a b; cases a <;> cases b <;> rfl
  trans_le := by intro a b c; cases a <;> cases b <;> cases c <;> simp [bcmp]

def unitCmp (_ _ : Unit) : Ordering := .eq
theorem unitCmp_isCmp : IsCmp unitCmp where
  refl := fun _ => rfl
  swap := fun _ _ => rfl
  trans_le := fun _ _ _ _ _ => by simp [unitCmp]

/-! ## combinators -/

/-- compare through a key -/
def cmpOn {α β : Type} (f : β → α) (c : α → α → Ordering) : β → β → Ordering := fun a b => c (f a) (f b)

theorem cmpOn_isCmp {α β : Type} (f : β → α) {c : α → α → Ordering} (h : IsCmp c) : IsCmp (cmpOn f c) where
  refl := fun a => h.refl (f a)
  swap := fun a b => h.swap (f a) (f b)
  trans_le := fun a b c' => h.trans_le (f a) (f b) (f c')

/-- first by `c1`, ties broken by `c2` -/
def thenCmp {α : Type} (c1 c2 : α → α → Ordering) : α → α → Ordering := fun a b => (c1 a b).then (c2 a b)

theorem then_eq_match (o k : Ordering) : (match o with | .eq => k | o => o) = o.then k := by
  cases o <;> rfl

theorem thenCmp_isCmp {α : Type} {c1 c2 : α → α → Ordering} (h1 : IsCmp c1) (h2 : IsCmp c2) : IsCmp (thenCmp c1 c2) where
  refl := fun a => by simp [thenCmp, h1.refl, h2.refl, Ordering.then]
  swap := fun a b => by
    simp only [thenCmp]
    rw [h1.swap a b, h2.swap a b]
    cases c1 a b <;> simp [Ordering.then, Ordering.swap]
  trans_le := fun a b c hab hbc => by
    simp only [thenCmp] at *
    cases e1 : c1 a b with
    | gt => simp [e1, Ordering.then] at hab
    | lt =>
      have hbc' : c1 b c ≠ .gt := by
        intro hg; simp [hg, Ordering.then] at hbc
      rw [h1.lt_of_lt_of_le e1 hbc']; simp [Ordering.then]
    | eq =>
      cases e2 : c1 b c with
      | gt => simp [e2, Ordering.then] at hbc
      | lt =>
        rw [h1.lt_of_le_of_lt (by rw [e1]; simp) e2]; simp [Ordering.then]
      | eq =>
        rw [h1.eq_trans e1 e2]
        simp only [e1, e2, Ordering.then] at hab hbc ⊢
        exact h2.trans_le a b c hab hbc

theorem thenCmp_isSym {α : Type} {c1 c2 : α → α → Ordering} (h1 : IsSym c1) (h2 : IsSym c2) : IsSym (thenCmp c1 c2) where
  refl := fun a => by simp [thenCmp, h1.refl, h2.refl, Ordering.then]
  swap := fun a b => by
    simp only [thenCmp]
    rw [h1.swap a b, h2.swap a b]
    cases c1 a b <;> simp [Ordering.then, Ordering.swap]

theorem cmpOn_isSym {α β : Type} (f : β → α) {c : α → α → Ordering} (h : IsSym c) : IsSym (cmpOn f c) where
  refl := fun a => h.refl (f a)
  swap := fun a b => h.swap (f a) (f b)

/-- disjoint union with the left summand below the right one -/
def cmpSum {α β : Type} (c1 : α → α → Ordering) (c2 : β → β → Ordering) : α ⊕ β → α ⊕ β → Ordering
  | .inl a, .inl b => c1 a b
  | .inl _, .inr _ => .lt
  | .inr _, .inl _ => .gt
  | .inr a, .inr b => c2 a b

theorem cmpSum_isCmp {α β : Type} {c1 : α → α → Ordering} {c2 : β → β → Ordering} (h1 : IsCmp c1) (h2 : IsCmp c2) :
    IsCmp (cmpSum c1 c2) where
  refl := fun a => by cases a <;> simp [cmpSum, h1.refl, h2.refl]
  swap := fun a b => by
    cases a <;> cases b <;> simp [cmpSum, Ordering.swap]
    · exact h1.swap _ _
    · exact h2.swap _ _
  trans_le := fun a b c => by
    cases a <;> cases b <;> cases c <;> simp [cmpSum]
    · exact h1.trans_le _ _ _
    · exact h2.trans_le _ _ _

/-- `none` below every `some` -/
def optLeast {α : Type} (c : α → α → Ordering) : Option α → Option α → Ordering
  | none, none => .eq
  | none, some _ => .lt
  | some _, none => .gt
  | some a, some b => c a b

theorem optLeast_isCmp {α : Type} {c : α → α → Ordering} (h : IsCmp c) : IsCmp (optLeast c) where
  refl := fun a => by cases a <;> simp [optLeast, h.refl]
  swap := fun a b => by
    cases a <;> cases b <;> simp [optLeast, Ordering.swap]
    exact h.swap _ _
  trans_le := fun a b c => by
    cases a <;> cases b <;> cases c <;> simp [optLeast]
    exact h.trans_le _ _ _

/-- `none` above every `some` -/
def optGreatest {α : Type} (c : α → α → Ordering) : Option α → Option α → Ordering
  | none, none => .eq
  | none, some _ => .gt
  | some _, none => .lt
  | some a, some b => c a b

theorem optGreatest_isCmp {α : Type} {c : α → α → Ordering} (h : IsCmp c) : IsCmp (optGreatest c) where
  refl := fun a => by cases a <;> simp [optGreatest, h.refl]
  swap := fun a b => by
    cases a <;> cases b <;> simp [optGreatest, Ordering.swap]
    exact h.swap _ _
  trans_le := fun a b c => by
    cases a <;> cases b <;> cases c <;> simp [optGreatest]
    exact h.trans_le _ _ _

/-! ## lexicographic comparison, a proper prefix being smaller -/

theorem cmpLex_refl {α} {cmp : α → α → Ordering} (hc : IsCmp cmp) : ∀ a, cmpLex cmp a a = .eq := by
  intro a; induction a with
  | nil => rfl
  | cons x xs ih => simp [cmpLex, hc.refl, ih]

theorem cmpLex_swap {α} {cmp : α → α → Ordering} (hc : IsCmp cmp) :
    ∀ a b, cmpLex cmp b a = (cmpLex cmp a b).swap := by
  intro a; induction a with
  | nil => intro b; cases b <;> rfl
  | cons x xs ih =>
    intro b; cases b with
    | nil => rfl
    | cons y ys =>
      simp only [cmpLex]
      rw [hc.swap x y]
      cases cmp x y <;> simp [Ordering.swap]
      exact ih ys

theorem cmpLex_trans {α} {cmp : α → α → Ordering} (hc : IsCmp cmp) :
    ∀ a b c, cmpLex cmp a b ≠ .gt → cmpLex cmp b c ≠ .gt → cmpLex cmp a c ≠ .gt := by
  intro a; induction a with
  | nil => intro b c _ _; cases c <;> simp [cmpLex]
  | cons x xs ih =>
    intro b c h1 h2
    cases b with
    | nil => simp [cmpLex] at h1
    | cons y ys =>
      cases c with
      | nil => simp [cmpLex] at h2
      | cons z zs =>
        simp only [cmpLex] at h1 h2 ⊢
        cases e1 : cmp x y with
        | gt => simp [e1] at h1
        | lt =>
          have : cmp y z ≠ .gt := by intro hg; simp [hg] at h2
          rw [hc.lt_of_lt_of_le e1 this]; simp
        | eq =>
          cases e2 : cmp y z with
          | gt => simp [e2] at h2
          | lt => rw [hc.lt_of_le_of_lt (by rw [e1]; simp) e2]; simp
          | eq =>
            rw [hc.eq_trans e1 e2]
            simp only [e1, e2] at h1 h2 ⊢
            exact ih ys zs h1 h2

theorem cmpLex_isCmp {α} {cmp : α → α → Ordering} (hc : IsCmp cmp) : IsCmp (cmpLex cmp) where
  refl := cmpLex_refl hc
  swap := cmpLex_swap hc
  trans_le := cmpLex_trans hc

theorem strCmp_isCmp : IsCmp strCmp :=
  cmpLex_isCmp (cmpOn_isCmp (fun c : Char => c.toNat) ncmp_isCmp)

/-! ## lexicographic comparison with right padding -/

/-- head and tail with the padding element standing in for a missing head -/
def unc {α} (d : α) : List α → α × List α
  | [] => (d, [])
  | x :: xs => (x, xs)

theorem cmpPad_nil_left {α} (cmp : α → α → Ordering) (d : α) (bs : List α) :
    cmpPad cmp d [] bs = cmpPadL cmp d bs := by simp [cmpPad]

theorem cmpPad_nil_right {α} (cmp : α → α → Ordering) (d : α) (as : List α) :
    cmpPad cmp d as [] = cmpPadR cmp d as := by
  cases as <;> simp [cmpPad, cmpPadL, cmpPadR]

theorem cmpPad_step {α} (cmp : α → α → Ordering) (d : α) (a b : List α) (hne : ¬ (a = [] ∧ b = [])) :
    cmpPad cmp d a b = (cmp (unc d a).1 (unc d b).1).then (cmpPad cmp d (unc d a).2 (unc d b).2) := by
  cases a with
  | nil =>
    cases b with
    | nil => simp at hne
    | cons y ys => simp [cmpPad, cmpPadL, unc]
  | cons x xs =>
    cases b with
    | nil => simp [cmpPad, cmpPadR, unc, cmpPad_nil_right]
    | cons y ys => simp [cmpPad, unc]

theorem cmpPad_refl {α} {cmp : α → α → Ordering} (d : α) (hc : IsSym cmp) : ∀ a, cmpPad cmp d a a = .eq := by
  intro a; induction a with
  | nil => simp [cmpPad, cmpPadL]
  | cons x xs ih => simp [cmpPad, hc.refl, ih]

theorem cmpPad_swap {α} {cmp : α → α → Ordering} (d : α) (hc : IsSym cmp) :
    ∀ n a b, a.length + b.length ≤ n → cmpPad cmp d b a = (cmpPad cmp d a b).swap := by
  intro n
  induction n with
  | zero =>
    intro a b h
    have ha : a = [] := by cases a <;> simp_all
    have hb : b = [] := by cases b <;> simp_all
    subst ha hb; simp [cmpPad, cmpPadL, Ordering.swap]
  | succ n ih =>
    intro a b h
    by_cases hne : a = [] ∧ b = []
    · obtain ⟨ha, hb⟩ := hne; subst ha hb; simp [cmpPad, cmpPadL, Ordering.swap]
    · rw [cmpPad_step cmp d a b hne, cmpPad_step cmp d b a (by intro ⟨x, y⟩; exact hne ⟨y, x⟩)]
      rw [hc.swap (unc d a).1 (unc d b).1]
      have hlen : (unc d a).2.length + (unc d b).2.length ≤ n := by
        cases a <;> cases b <;> simp_all [unc] <;> omega
      cases hxy : cmp (unc d a).1 (unc d b).1 <;> simp [Ordering.swap]
      exact ih _ _ hlen

theorem cmpPad_trans {α} {cmp : α → α → Ordering} (d : α) (hc : IsCmp cmp) :
    ∀ n a b c, a.length + b.length + c.length ≤ n →
      cmpPad cmp d a b ≠ .gt → cmpPad cmp d b c ≠ .gt → cmpPad cmp d a c ≠ .gt := by
  intro n
  induction n with
  | zero =>
    intro a b c h _ _
    have ha : a = [] := by cases a <;> simp_all
    have hc' : c = [] := by cases c <;> simp_all
    subst ha hc'; simp [cmpPad, cmpPadL]
  | succ n ih =>
    intro a b c h h1 h2
    by_cases hall : a = [] ∧ b = [] ∧ c = []
    · obtain ⟨ha, _, hc'⟩ := hall; subst ha hc'; simp [cmpPad, cmpPadL]
    · have hlen : (unc d a).2.length + (unc d b).2.length + (unc d c).2.length ≤ n := by
        cases a <;> cases b <;> cases c <;> simp [unc] at h hall ⊢ <;> omega
      have step : ∀ (u v : List α), cmpPad cmp d u v = (cmp (unc d u).1 (unc d v).1).then (cmpPad cmp d (unc d u).2 (unc d v).2) := by
        intro u v
        by_cases huv : u = [] ∧ v = []
        · obtain ⟨hu, hv⟩ := huv; subst hu hv; simp [cmpPad, cmpPadL, unc, hc.refl]
        · exact cmpPad_step cmp d u v huv
      rw [step a b] at h1; rw [step b c] at h2; rw [step a c]
      generalize (unc d a).1 = x at *
      generalize (unc d b).1 = y at *
      generalize (unc d c).1 = z at *
      cases hxy : cmp x y with
      | gt => simp [hxy] at h1
      | lt =>
        have hyz : cmp y z ≠ .gt := by
          intro hg; rw [hg] at h2; exact h2 rfl
        have := hc.lt_of_lt_of_le hxy hyz
        rw [this]; simp
      | eq =>
        cases hyz : cmp y z with
        | gt => simp [hyz] at h2
        | lt =>
          have := hc.lt_of_le_of_lt (by rw [hxy]; simp : cmp x y ≠ .gt) hyz
          rw [this]; simp
        | eq =>
          have hxz := hc.eq_trans hxy hyz
          simp only [hxy, hyz, hxz] at h1 h2 ⊢
          exact ih _ _ _ hlen h1 h2

theorem cmpPad_isCmp {α} {cmp : α → α → Ordering} (d : α) (hc : IsCmp cmp) : IsCmp (cmpPad cmp d) where
  refl := cmpPad_refl d hc.toSym
  swap := fun a b => cmpPad_swap d hc.toSym _ a b (Nat.le_refl _)
  trans_le := fun a b c => cmpPad_trans d hc _ a b c (Nat.le_refl _)

theorem cmpPad_isSym {α} {cmp : α → α → Ordering} (d : α) (hc : IsSym cmp) : IsSym (cmpPad cmp d) where
  refl := cmpPad_refl d hc
  swap := fun a b => cmpPad_swap d hc _ a b (Nat.le_refl _)

/-- `components.Cmp` is a total preorder comparator on ALL component lists -/
theorem compsCmp_isCmp : IsCmp compsCmp := cmpPad_isCmp 0 icmp_isCmp

/-- padding and mapping commute -/
theorem cmpPad_map {α β} (f : β → α) (c : α → α → Ordering) (d : β) :
    ∀ a b : List β, cmpPad c (f d) (a.map f) (b.map f) = cmpPad (cmpOn f c) d a b := by
  have hL : ∀ b : List β, cmpPadL c (f d) (b.map f) = cmpPadL (cmpOn f c) d b := by
    intro b; induction b with
    | nil => rfl
    | cons y ys ih => simp [cmpPadL, cmpOn, ih]
  have hR : ∀ a : List β, cmpPadR c (f d) (a.map f) = cmpPadR (cmpOn f c) d a := by
    intro a; induction a with
    | nil => rfl
    | cons y ys ih => simp [cmpPadR, cmpOn, ih]
  intro a; induction a with
  | nil => intro b; simp [cmpPad, hL]
  | cons x xs ih =>
    intro b; cases b with
    | nil => simp only [List.map, cmpPad_nil_right]; exact hR (x :: xs)
    | cons y ys => simp [cmpPad, cmpOn, ih]

/-! ## from a family's comparator to the string-level laws -/

/-- what has to be shown about one family: the parser does not crash and establishes `WF`; on `WF`
values the comparison is the total function `c`, which is reflexive and antisymmetric there -/
structure FamLaws (F : Family) (WF : F.V → Prop) (c : F.V → F.V → Ordering) : Prop where
  parse_nopanic : ∀ s, F.parse s ≠ .panic
  parse_wf : ∀ s v, F.parse s = .ok v → WF v
  cmp_eq : ∀ v w, WF v → WF w → F.cmp v w = .ord (c v w)
  refl : ∀ v, WF v → c v v = .eq
  swap : ∀ v w, WF v → WF w → c w v = (c v w).swap

theorem ofOrd_ne_panic (o : Ordering) : Outcome.ofOrd o ≠ .panic := by cases o <;> simp [Outcome.ofOrd]
theorem ofOrd_ne_err (o : Ordering) : Outcome.ofOrd o ≠ .err := by cases o <;> simp [Outcome.ofOrd]
theorem ofOrd_swap (o : Ordering) : Outcome.ofOrd o.swap = (Outcome.ofOrd o).flip := by cases o <;> rfl

theorem FamLaws.compare_ok {F : Family} {WF c} (L : FamLaws F WF c) {a b : List Char} {v w : F.V}
    (ha : F.parse a = .ok v) (hb : F.parse b = .ok w) : F.compareStr a b = .ofOrd (c v w) := by
  simp [Family.compareStr, Family.cmpParsed, ha, hb, L.cmp_eq v w (L.parse_wf a v ha) (L.parse_wf b w hb), CRes.toOutcome]

theorem FamLaws.total {F : Family} {WF c} (L : FamLaws F WF c) (a b : List Char) : F.compareStr a b ≠ .panic := by
  cases ha : F.parse a with
  | panic => exact absurd ha (L.parse_nopanic a)
  | err => simp [Family.compareStr, Family.cmpParsed, ha]
  | ok v =>
    cases hb : F.parse b with
    | panic => exact absurd hb (L.parse_nopanic b)
    | err => simp [Family.compareStr, Family.cmpParsed, ha, hb]
    | ok w => rw [L.compare_ok ha hb]; exact ofOrd_ne_panic _

theorem accepted_iff (F : Family) (a : List Char) : F.accepted a = true ↔ ∃ v, F.parse a = .ok v := by
  unfold Family.accepted
  cases h : F.parse a <;> simp

theorem FamLaws.reflS {F : Family} {WF c} (L : FamLaws F WF c) (a : List Char) (h : F.accepted a = true) :
    F.compareStr a a = .eq := by
  obtain ⟨v, hv⟩ := (accepted_iff F a).mp h
  rw [L.compare_ok hv hv, L.refl v (L.parse_wf a v hv)]; rfl

theorem FamLaws.antisymmS {F : Family} {WF c} (L : FamLaws F WF c) (a b : List Char)
    (ha : F.accepted a = true) (hb : F.accepted b = true) :
    F.compareStr a b ≠ .err ∧ F.compareStr a b = (F.compareStr b a).flip := by
  obtain ⟨v, hv⟩ := (accepted_iff F a).mp ha
  obtain ⟨w, hw⟩ := (accepted_iff F b).mp hb
  rw [L.compare_ok hv hw, L.compare_ok hw hv]
  refine ⟨ofOrd_ne_err _, ?_⟩
  rw [L.swap v w (L.parse_wf a v hv) (L.parse_wf b w hw), ofOrd_swap]
  cases c v w <;> rfl

theorem ofOrd_isLe (o : Ordering) : (Outcome.ofOrd o).isLe = true ↔ o ≠ .gt := by
  cases o <;> simp [Outcome.ofOrd, Outcome.isLe]

/-- transitivity on the strings whose parsed value satisfies `P`, given that `c` is a total preorder
comparator on `P` -/
theorem FamLaws.transS {F : Family} {WF c} (L : FamLaws F WF c) (P : F.V → Prop) (hP : IsCmpOn P c)
    (a b d : List Char) (ha : parsesTo F P a) (hb : parsesTo F P b) (hd : parsesTo F P d)
    (h1 : (F.compareStr a b).isLe = true) (h2 : (F.compareStr b d).isLe = true) :
    (F.compareStr a d).isLe = true ∧
    (F.compareStr a b = .lt ∨ F.compareStr b d = .lt → F.compareStr a d = .lt) ∧
    (F.compareStr a b = .eq → F.compareStr b d = .eq → F.compareStr a d = .eq) := by
  obtain ⟨u, hu, pu⟩ := ha
  obtain ⟨v, hv, pv⟩ := hb
  obtain ⟨w, hw, pw⟩ := hd
  rw [L.compare_ok hu hv] at h1 ⊢
  rw [L.compare_ok hv hw] at h2 ⊢
  rw [L.compare_ok hu hw]
  rw [ofOrd_isLe] at h1 h2 ⊢
  have hle := hP.trans_le u v w pu pv pw h1 h2
  have sw := hP.swap
  refine ⟨hle, ?_, ?_⟩
  · intro hlt
    cases huw : c u w with
    | lt => rfl
    | gt => exact absurd huw hle
    | eq =>
      exfalso
      have hwu : c w u = .eq := by rw [sw u w pu pw, huw]; rfl
      rcases hlt with hlt | hlt
      · -- u < v, v ≤ w, w ≤ u  ⇒  v ≤ u, contradiction
        have huv : c u v = .lt := by cases e : c u v <;> simp [e, Outcome.ofOrd] at hlt ⊢
        have hvu : c v u ≠ .gt := hP.trans_le v w u pv pw pu h2 (by rw [hwu]; simp)
        rw [sw u v pu pv, huv] at hvu; exact hvu rfl
      · have hvw : c v w = .lt := by cases e : c v w <;> simp [e, Outcome.ofOrd] at hlt ⊢
        have hwv : c w v ≠ .gt := hP.trans_le w u v pw pu pv (by rw [hwu]; simp) h1
        rw [sw v w pv pw, hvw] at hwv; exact hwv rfl
  · intro e1 e2
    have huv : c u v = .eq := by cases e : c u v <;> simp [e, Outcome.ofOrd] at e1 ⊢
    have hvw : c v w = .eq := by cases e : c v w <;> simp [e, Outcome.ofOrd] at e2 ⊢
    have hvu : c v u = .eq := by rw [sw u v pu pv, huv]; rfl
    have hwv : c w v = .eq := by rw [sw v w pv pw, hvw]; rfl
    have hge := hP.trans_le w v u pw pv pu (by rw [hwv]; simp) (by rw [hvu]; simp)
    rw [sw u w pu pw] at hge
    cases huw : c u w with
    | eq => rfl
    | lt => simp [huw, Ordering.swap] at hge
    | gt => exact absurd huw hle

end Scalibr.Semantic
