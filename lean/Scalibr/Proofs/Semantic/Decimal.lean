/-
C07 — comparing canonical decimal strings "by length, then as strings" (what rpmvercmp does after
stripping leading zeros) is comparing the numbers.
-/
import Scalibr.Proofs.Semantic.SpecParse
namespace Scalibr.Semantic

theorem foldl_digits_shift : ∀ (cs : List Char) (n : Nat),
    cs.foldl (fun n c => n * 10 + digitVal c) n = n * 10 ^ cs.length + digitsToNat cs := by
  intro cs; induction cs with
  | nil => intro n; simp [digitsToNat]
  | cons c cs ih =>
    intro n
    have h1 := ih (n * 10 + digitVal c)
    have h2 := ih (0 * 10 + digitVal c)
    simp only [digitsToNat, List.foldl_cons, List.length_cons] at h1 h2 ⊢
    rw [h1, h2]
    have e : 10 ^ (cs.length + 1) = 10 * 10 ^ cs.length := by rw [Nat.pow_succ, Nat.mul_comm]
    rw [e, Nat.add_mul, Nat.add_mul, Nat.mul_assoc, Nat.zero_mul]
    omega

theorem digitsToNat_cons (c : Char) (cs : List Char) :
    digitsToNat (c :: cs) = digitVal c * 10 ^ cs.length + digitsToNat cs := by
  have := foldl_digits_shift cs (0 * 10 + digitVal c)
  simp only [digitsToNat, List.foldl_cons] at this ⊢
  rw [this]; simp

theorem digitVal_le (c : Char) (h : isDigit c = true) : digitVal c ≤ 9 ∧ c.toNat = digitVal c + 48 := by
  simp only [isDigit, Bool.and_eq_true, decide_eq_true_eq] at h
  unfold digitVal; omega

theorem digitsToNat_lt : ∀ (cs : List Char), (∀ c ∈ cs, isDigit c = true) → digitsToNat cs < 10 ^ cs.length := by
  intro cs; induction cs with
  | nil => intro _; simp [digitsToNat]
  | cons c cs ih =>
    intro h
    have hc := (digitVal_le c (h c (by simp))).1
    have hr := ih (fun d hd => h d (by simp [hd]))
    rw [digitsToNat_cons, List.length_cons, Nat.pow_succ]
    have hm : digitVal c * 10 ^ cs.length ≤ 9 * 10 ^ cs.length := Nat.mul_le_mul_right _ hc
    generalize digitVal c * 10 ^ cs.length = x at hm
    generalize 10 ^ cs.length = P at hm hr
    omega

theorem digitsToNat_ge (c : Char) (cs : List Char) (hc : isDigit c = true) (h0 : c ≠ '0') :
    10 ^ cs.length ≤ digitsToNat (c :: cs) := by
  rw [digitsToNat_cons]
  have h1 : 1 ≤ digitVal c := by
    have := digitVal_le c hc
    have : c.toNat ≠ 48 := fun e => h0 (char_eq_zero_of_toNat e)
    unfold digitVal
    simp only [isDigit, Bool.and_eq_true, decide_eq_true_eq] at hc
    omega
  have hm : 1 * 10 ^ cs.length ≤ digitVal c * 10 ^ cs.length := Nat.mul_le_mul_right _ h1
  omega

theorem ncmp_add_left (k a b : Nat) : ncmp (k + a) (k + b) = ncmp a b := by
  unfold ncmp
  by_cases h1 : a < b
  · have : k + a < k + b := by omega
    simp [h1, this]
  · by_cases h2 : a = b
    · simp [h2]
    · have h3 : ¬ k + a < k + b := by omega
      have h4 : ¬ k + a = k + b := by omega
      simp [h1, h2, h3, h4]

/-- digit strings of the same length: string order is numeric order -/
theorem strCmp_digits_eqlen : ∀ (x y : List Char), (∀ c ∈ x, isDigit c = true) → (∀ c ∈ y, isDigit c = true) →
    x.length = y.length → strCmp x y = ncmp (digitsToNat x) (digitsToNat y) := by
  intro x; induction x with
  | nil =>
    intro y _ _ hl
    have : y = [] := by cases y <;> simp_all
    subst this; rfl
  | cons c cs ih =>
    intro y hx hy hl
    cases y with
    | nil => simp at hl
    | cons d ds =>
      have hl' : cs.length = ds.length := by simpa using hl
      have hc := digitVal_le c (hx c (by simp))
      have hd := digitVal_le d (hy d (by simp))
      have hr1 := digitsToNat_lt cs (fun e he => hx e (by simp [he]))
      have hr2 := digitsToNat_lt ds (fun e he => hy e (by simp [he]))
      have ih' := ih ds (fun e he => hx e (by simp [he])) (fun e he => hy e (by simp [he])) hl'
      simp only [strCmp, cmpLex] at ih' ⊢
      rw [digitsToNat_cons, digitsToNat_cons, hl'] at *
      generalize 10 ^ ds.length = P at hr1 hr2 ⊢
      by_cases h1 : digitVal c < digitVal d
      · have hn : ncmp c.toNat d.toNat = .lt := ncmp_lt.mpr (by omega)
        rw [hn]
        have hm : (digitVal c + 1) * P ≤ digitVal d * P := Nat.mul_le_mul_right _ (by omega)
        rw [Nat.add_mul, Nat.one_mul] at hm
        symm; apply ncmp_lt.mpr
        generalize digitVal c * P = u at hm ⊢
        generalize digitVal d * P = w at hm ⊢
        omega
      · by_cases h2 : digitVal c = digitVal d
        · have hn : ncmp c.toNat d.toNat = .eq := ncmp_eq.mpr (by omega)
          rw [hn, h2, ncmp_add_left]
          exact ih'
        · have hn : ncmp c.toNat d.toNat = .gt := ncmp_gt.mpr (by omega)
          rw [hn]
          have hm : (digitVal d + 1) * P ≤ digitVal c * P := Nat.mul_le_mul_right _ (by omega)
          rw [Nat.add_mul, Nat.one_mul] at hm
          symm; apply ncmp_gt.mpr
          generalize digitVal c * P = u at hm ⊢
          generalize digitVal d * P = w at hm ⊢
          omega

/-- a decimal string without leading zeros (the empty string stands for 0) -/
def DecCanon (x : List Char) : Prop := (∀ c ∈ x, isDigit c = true) ∧ ∀ c r, x = c :: r → c ≠ '0'

theorem dec_shorter_lt (x y : List Char) (hx : DecCanon x) (hy : DecCanon y) (h : x.length < y.length) :
    digitsToNat x < digitsToNat y := by
  cases y with
  | nil => simp at h
  | cons d ds =>
    have h1 := digitsToNat_lt x hx.1
    have h2 := digitsToNat_ge d ds (hy.1 d (by simp)) (hy.2 d ds rfl)
    have h3 : 10 ^ x.length ≤ 10 ^ ds.length := Nat.pow_le_pow_right (by omega) (by simp at h; omega)
    omega

/-- "longer wins, else compare as strings" on canonical decimal strings = numeric comparison -/
theorem dec_cmp (x y : List Char) (hx : DecCanon x) (hy : DecCanon y) :
    (ncmp x.length y.length).then (strCmp x y) = ncmp (digitsToNat x) (digitsToNat y) := by
  by_cases h1 : x.length < y.length
  · rw [ncmp_lt.mpr h1, ncmp_lt.mpr (dec_shorter_lt x y hx hy h1)]; rfl
  · by_cases h2 : x.length = y.length
    · rw [ncmp_eq.mpr h2]
      exact strCmp_digits_eqlen x y hx.1 hy.1 h2
    · have h3 : y.length < x.length := by omega
      rw [ncmp_gt.mpr h3, ncmp_gt.mpr (dec_shorter_lt y x hy hx h3)]; rfl

/-- the digits of `n` with leading zeros stripped -/
def stripD (n : Nat) : List Char := (D n).dropWhile (· = '0')

theorem stripD_props (n : Nat) : DecCanon (stripD n) ∧ digitsToNat (stripD n) = n := by
  unfold stripD
  by_cases h0 : n = 0
  · subst h0
    have : D 0 = ['0'] := by decide
    rw [this]
    simp [DecCanon, digitsToNat]
  · obtain ⟨c, r, h1, h2⟩ := D_head (n + 1) n (by omega) (by omega)
    have hd : (D n).dropWhile (· = '0') = D n := by rw [h1]; simp [List.dropWhile, h2]
    rw [hd]
    refine ⟨⟨fun x hx => List.all_eq_true.mp (D_all n) x hx, ?_⟩, D_val n⟩
    intro c' r' e
    rw [h1] at e
    injection e with e1 _
    rw [← e1]; exact h2

end Scalibr.Semantic
