/-
C07 — families whose comparison is a plain composition of the combinators of `Lex.lean`:
semver-like, NuGet, CRAN, RubyGems.
-/
import Scalibr.Proofs.Semantic.GoShape
namespace Scalibr.Semantic

/-! ## identifier comparison: "numeric below non-numeric" and "numeric above non-numeric" -/

def classifyNumLow (s : List Char) : Int ⊕ List Char :=
  match toBig s with
  | some x => .inl x
  | none => .inr s

def classifyNumHigh (s : List Char) : List Char ⊕ Int :=
  match toBig s with
  | some x => .inr x
  | none => .inl s

def classifyNumId (s : List Char) : Int ⊕ List Char :=
  match toNumId s with
  | some x => .inl x
  | none => .inr s

theorem identCmp_eq (a b : List Char) :
    identCmp a b = cmpOn classifyNumId (cmpSum icmp strCmp) a b := by
  unfold identCmp cmpOn classifyNumId
  cases toNumId a <;> cases toNumId b <;> rfl

theorem identCmp_isCmp : IsCmp identCmp :=
  (cmpOn_isCmp classifyNumId (cmpSum_isCmp icmp_isCmp strCmp_isCmp)).congr identCmp_eq

theorem rubyElem_eq (a b : List Char) :
    rubyElem a b = cmpOn classifyNumHigh (cmpSum strCmp icmp) a b := by
  unfold rubyElem cmpOn classifyNumHigh
  cases toBig a <;> cases toBig b <;> rfl

theorem rubyElem_isCmp : IsCmp rubyElem :=
  (cmpOn_isCmp classifyNumHigh (cmpSum_isCmp strCmp_isCmp icmp_isCmp)).congr rubyElem_eq

theorem localElem_eq (a b : List Char) :
    localElem a b = cmpOn classifyNumHigh (cmpSum strCmp icmp) a b := by
  unfold localElem cmpOn classifyNumHigh
  cases toBig a <;> cases toBig b <;> rfl

theorem localElem_isCmp : IsCmp localElem :=
  (cmpOn_isCmp classifyNumHigh (cmpSum_isCmp strCmp_isCmp icmp_isCmp)).congr localElem_eq

/-! ## semver build strings -/

/-- `compareBuildComponents` after the metadata / hyphen trimming -/
def cmpBuildCore (a b : List Char) : Ordering :=
  if a.isEmpty && !b.isEmpty then .gt
  else if !a.isEmpty && b.isEmpty then .lt
  else cmpBuildComps (splitOn '.' a) (splitOn '.' b)

theorem cmpBuildCore_eq (a b : List Char) :
    cmpBuildCore a b = thenCmp (cmpOn List.isEmpty bcmp) (cmpOn (splitOn '.') (cmpLex identCmp)) a b := by
  unfold cmpBuildCore thenCmp cmpOn cmpBuildComps
  cases a <;> cases b <;> simp [bcmp, Ordering.then]

theorem cmpBuildCore_isCmp : IsCmp cmpBuildCore :=
  (thenCmp_isCmp (cmpOn_isCmp _ bcmp_isCmp) (cmpOn_isCmp _ (cmpLex_isCmp identCmp_isCmp))).congr cmpBuildCore_eq

theorem cmpBuild_isCmp : IsCmp cmpBuild :=
  (cmpOn_isCmp buildCore cmpBuildCore_isCmp).congr (fun _ _ => rfl)

theorem cmpSemver_isCmp : IsCmp cmpSemver :=
  (thenCmp_isCmp (cmpOn_isCmp SemV.comps compsCmp_isCmp) (cmpOn_isCmp SemV.build cmpBuild_isCmp)).congr (fun _ _ => rfl)

theorem cmpNuGet_isCmp : IsCmp cmpNuGet :=
  (thenCmp_isCmp (cmpOn_isCmp SemV.comps compsCmp_isCmp)
    (cmpOn_isCmp (fun v : SemV => lowerStr v.build) cmpBuild_isCmp)).congr (fun _ _ => rfl)

theorem cmpCran_isCmp : IsCmp cmpCran :=
  (thenCmp_isCmp compsCmp_isCmp (cmpOn_isCmp List.length ncmp_isCmp)).congr (fun _ _ => rfl)

theorem cmpRuby_isCmp : IsCmp cmpRuby := cmpPad_isCmp _ rubyElem_isCmp

/-! ## the families -/

theorem semver_laws : FamLaws semverFam (fun _ => True) cmpSemver where
  parse_nopanic := fun s => by simp
  parse_wf := fun _ _ _ => trivial
  cmp_eq := fun v w _ _ => semverFam_cmp v w
  refl := fun v _ => cmpSemver_isCmp.refl v
  swap := fun v w _ _ => cmpSemver_isCmp.swap v w

theorem nuget_laws : FamLaws nugetFam (fun _ => True) cmpNuGet where
  parse_nopanic := fun s => by simp
  parse_wf := fun _ _ _ => trivial
  cmp_eq := fun v w _ _ => nugetFam_cmp v w
  refl := fun v _ => cmpNuGet_isCmp.refl v
  swap := fun v w _ _ => cmpNuGet_isCmp.swap v w

theorem cran_laws : FamLaws cranFam (fun _ => True) cmpCran where
  parse_nopanic := fun s => by
    simp only [cranFam, parseCran]
    split <;> simp
  parse_wf := fun _ _ _ => trivial
  cmp_eq := fun v w _ _ => cranFam_cmp v w
  refl := fun v _ => cmpCran_isCmp.refl v
  swap := fun v w _ _ => cmpCran_isCmp.swap v w

theorem rubygems_laws : FamLaws rubygemsFam (fun _ => True) cmpRuby where
  parse_nopanic := fun s => by simp
  parse_wf := fun _ _ _ => trivial
  cmp_eq := fun v w _ _ => rubygemsFam_cmp v w
  refl := fun v _ => cmpRuby_isCmp.refl v
  swap := fun v w _ _ => cmpRuby_isCmp.swap v w

end Scalibr.Semantic
