/-
C07 — the CRAN comparison agrees with R's documented ordering (`Spec/Semantic/Cran.lean`) on every
canonically rendered version.
-/
import Scalibr.Spec.Semantic.Cran
import Scalibr.Proofs.Semantic.SpecParse
namespace Scalibr.Semantic
open CranSpec

def castNums (ns : List Nat) : List Int := ns.map (fun (n : Nat) => (n : Int))

/-- the text with every `-` replaced by `.` -/
def dotted : List Nat → List Char
  | [] => []
  | n :: rest => '.' :: (D n ++ dotted rest)

theorem map_dash_D (n : Nat) : (D n).map (fun c => if c = '-' then '.' else c) = D n := by
  have h := D_no n '-' (by decide)
  generalize D n = l at h
  induction l with
  | nil => rfl
  | cons c cs ih =>
    simp only [List.map, h c (by simp), if_false]
    rw [ih (fun d hd => h d (by simp [hd]))]

theorem map_dash_rest : ∀ rest : List (Bool × Nat),
    (renderRest rest).map (fun c => if c = '-' then '.' else c) = dotted (rest.map (·.2)) := by
  intro rest; induction rest with
  | nil => rfl
  | cons p ps ih =>
    obtain ⟨s, n⟩ := p
    cases s <;> simp [renderRest, dotted, map_dash_D, ih]

theorem splitOn_dotted : ∀ (n : Nat) (rest : List Nat),
    splitOn '.' (D n ++ dotted rest) = (n :: rest).map D := by
  intro n rest; induction rest generalizing n with
  | nil => simp only [dotted, List.append_nil, List.map]; exact splitOn_no_sep '.' _ (D_no n '.' (by decide))
  | cons m ms ih =>
    simp only [dotted]
    rw [splitOn_append_sep '.' _ _ (D_no n '.' (by decide)), ih m]
    rfl

theorem cranParts_D : ∀ ns : List Nat, cranParts (ns.map D) = some (castNums ns) := by
  intro ns; induction ns with
  | nil => rfl
  | cons n rest ih =>
    simp only [List.map, cranParts, isEmpty_D, Bool.false_eq_true, if_false, toBig_D, ih, castNums]

theorem parseCran_render (v : V) : parseCran (render v) = .ok (castNums v.nums) := by
  unfold parseCran render
  rw [List.map_append, map_dash_D, map_dash_rest, splitOn_dotted, cranParts_D]
  rfl

theorem eq_then' (x : Ordering) : Ordering.eq.then x = x := rfl

theorem cmpPadL_nonneg : ∀ ms : List Nat, cmpPadL icmp 0 (castNums ms) ≠ .gt := by
  intro ms; induction ms with
  | nil => simp [castNums, cmpPadL]
  | cons m rest ih =>
    simp only [castNums, List.map, cmpPadL]
    have : icmp 0 (m : Int) = ncmp 0 m := icmp_cast 0 m
    rw [this]
    by_cases h : m = 0
    · subst h; rw [ncmp_isCmp.refl, eq_then']; exact ih
    · rw [ncmp_lt.mpr (by omega)]; simp [Ordering.then]

theorem cmpPadR_nonneg : ∀ ns : List Nat, cmpPadR icmp 0 (castNums ns) ≠ .lt := by
  intro ns; induction ns with
  | nil => simp [castNums, cmpPadR]
  | cons n rest ih =>
    simp only [castNums, List.map, cmpPadR]
    have : icmp (n : Int) 0 = ncmp n 0 := icmp_cast n 0
    rw [this]
    by_cases h : n = 0
    · subst h; rw [ncmp_isCmp.refl, eq_then']; exact ih
    · rw [ncmp_gt.mpr (by omega)]; simp [Ordering.then]

theorem ncmp_succ (a b : Nat) : ncmp (a + 1) (b + 1) = ncmp a b := by
  unfold ncmp
  by_cases h1 : a < b
  · have : a + 1 < b + 1 := by omega
    simp [h1, this]
  · by_cases h2 : a = b
    · simp [h2]
    · have h3 : ¬ a + 1 < b + 1 := by omega
      have h4 : ¬ a + 1 = b + 1 := by omega
      simp [h1, h2, h3, h4]

/-- padded comparison followed by the length comparison = lexicographic comparison, for
non-negative components -/
theorem cmpCran_lex : ∀ ns ms : List Nat, cmpCran (castNums ns) (castNums ms) = cmpLex ncmp ns ms := by
  intro ns; induction ns with
  | nil =>
    intro ms
    cases ms with
    | nil => rfl
    | cons m rest =>
      have h := cmpPadL_nonneg (m :: rest)
      simp only [cmpCran, compsCmp, cmpPad, cmpLex, castNums, List.length_map, List.length_nil, List.length_cons]
      have hl : ncmp 0 (rest.length + 1) = .lt := ncmp_lt.mpr (by omega)
      rw [hl]
      simp only [castNums] at h
      rw [List.map_nil, cmpPad_nil_left]
      cases hc : cmpPadL icmp 0 (List.map (fun n : Nat => (n : Int)) (m :: rest)) with
      | lt => rfl
      | eq => rfl
      | gt => exact absurd hc h
  | cons n rest ih =>
    intro ms
    cases ms with
    | nil =>
      have h := cmpPadR_nonneg (n :: rest)
      simp only [cmpCran, compsCmp, cmpPad_nil_right, cmpLex, castNums, List.map_nil, List.length_map, List.length_nil, List.length_cons]
      have hl : ncmp (rest.length + 1) 0 = .gt := ncmp_gt.mpr (by omega)
      rw [hl]
      simp only [castNums] at h
      cases hc : cmpPadR icmp 0 (List.map (fun n : Nat => (n : Int)) (n :: rest)) with
      | lt => exact absurd hc h
      | eq => rfl
      | gt => rfl
    | cons m rest' =>
      have := ih rest'
      simp only [cmpCran, compsCmp, castNums, List.length_map] at this
      simp only [cmpCran, compsCmp, castNums, List.map, cmpPad, cmpLex, List.length_cons, List.length_map, icmp_cast, ncmp_succ]
      rw [← this]
      cases ncmp n m <;> rfl

/-- R's ordering on every canonically rendered version -/
theorem cran_spec (a b : V) : compareStr .cran (render a) (render b) = .ofOrd (CranSpec.specCmp a b) := by
  show cranFam.compareStr (render a) (render b) = _
  simp only [Family.compareStr, Family.cmpParsed, cranFam_parse, cranFam_cmp, parseCran_render, CRes.toOutcome, CranSpec.specCmp, cmpCran_lex]

end Scalibr.Semantic
