/-
C07 — Packagist. The fuel-indexed model of `comparePackagistComponents` equals a structurally
recursive form (`cmpPkS`), which is reflexive and antisymmetric on all component lists. It is a
total preorder on lists without a `#…` component (`#` is the function's internal stand-in for "a
number": with it `1.5 = 1.# = 1.7` although `1.5 < 1.7`).
-/
import Scalibr.Proofs.Semantic.Debian
import Scalibr.Proofs.Semantic.GoShape
namespace Scalibr.Semantic

/-- `comparePackagistComponents(ext, ["#"])` — how a version compares with a proper prefix of it -/
def pkExt : List (List Char) → Ordering
  | [] => .eq
  | x :: xs => if (toBig x).isSome then .gt else (cmpSpecial x ['#']).then (pkExt xs)

/-- structural form of `comparePackagistComponents` -/
def cmpPkS : List (List Char) → List (List Char) → Ordering
  | [], bs => (pkExt bs).swap
  | as, [] => pkExt as
  | x :: as, y :: bs => (pkElem x y).then (cmpPkS as bs)

theorem cmpPkS_nil_right (as : List (List Char)) : cmpPkS as [] = pkExt as := by
  cases as <;> simp [cmpPkS, pkExt, Ordering.swap]

theorem swap_then (a b : Ordering) : (a.then b).swap = a.swap.then b.swap := by
  cases a <;> cases b <;> rfl

theorem cmpSpecial_isCmp : IsCmp cmpSpecial := (cmpOn_isCmp weighPk ncmp_isCmp).congr (fun _ _ => rfl)

theorem toBig_hash : toBig ['#'] = none := by decide

theorem pkElem_hash_right (x : List Char) (h : (toBig x).isSome = false) : pkElem x ['#'] = cmpSpecial x ['#'] := by
  unfold pkElem
  cases hx : toBig x with
  | some v => simp [hx] at h
  | none => simp [toBig_hash]

theorem pkElem_hash_left (y : List Char) (h : (toBig y).isSome = false) : pkElem ['#'] y = cmpSpecial ['#'] y := by
  unfold pkElem
  cases hy : toBig y with
  | some v => simp [hy] at h
  | none => simp [toBig_hash]

theorem cmpPkF_right_nil : ∀ (as : List (List Char)) (n : Nat), 2 * as.length + 1 ≤ n → cmpPkF n as [] = pkExt as := by
  intro as; induction as with
  | nil => intro n h; cases n with
    | zero => omega
    | succ k => simp [cmpPkF, pkExt]
  | cons x xs ih =>
    intro n h
    simp only [List.length_cons] at h
    match n, h with
    | m + 2, h =>
      simp only [cmpPkF, pkExt]
      by_cases hx : (toBig x).isSome = true
      · simp [hx]
      · have hx' : (toBig x).isSome = false := by simpa using hx
        simp only [hx', Bool.false_eq_true, if_false]
        rw [pkElem_hash_right x hx', ih m (by omega)]

theorem cmpPkF_left_nil : ∀ (bs : List (List Char)) (n : Nat), 2 * bs.length + 1 ≤ n → cmpPkF n [] bs = (pkExt bs).swap := by
  intro bs; induction bs with
  | nil => intro n h; cases n with
    | zero => omega
    | succ k => simp [cmpPkF, pkExt, Ordering.swap]
  | cons y ys ih =>
    intro n h
    simp only [List.length_cons] at h
    match n, h with
    | m + 2, h =>
      simp only [cmpPkF, pkExt]
      by_cases hy : (toBig y).isSome = true
      · simp [hy, Ordering.swap]
      · have hy' : (toBig y).isSome = false := by simpa using hy
        simp only [hy', Bool.false_eq_true, if_false]
        rw [pkElem_hash_left y hy', ih m (by omega), swap_then, cmpSpecial_isCmp.swap y ['#']]

/-- enough fuel: the fuel-indexed model is the structural function -/
theorem cmpPkF_eq : ∀ (a b : List (List Char)) (n : Nat), 2 * (a.length + b.length) + 1 ≤ n → cmpPkF n a b = cmpPkS a b := by
  intro a; induction a with
  | nil => intro b n h; simp only [cmpPkS]; exact cmpPkF_left_nil b n (by simp at h; omega)
  | cons x xs ih =>
    intro b n h
    cases b with
    | nil => rw [cmpPkS_nil_right]; exact cmpPkF_right_nil (x :: xs) n (by simp at h ⊢; omega)
    | cons y ys =>
      simp only [List.length_cons] at h
      match n, h with
      | m + 1, h =>
        simp only [cmpPkF, cmpPkS]
        rw [ih ys m (by omega)]

theorem cmpPk_eq (a b : List (List Char)) : cmpPk a b = cmpPkS a b :=
  cmpPkF_eq a b _ (by unfold pkFuel; omega)

/-! ## reflexivity and antisymmetry on all component lists -/

theorem pkElem_isSym : IsSym pkElem where
  refl := fun x => by
    unfold pkElem
    cases toBig x with
    | some v => exact icmp_isCmp.refl v
    | none => exact cmpSpecial_isCmp.refl x
  swap := fun x y => by
    unfold pkElem
    cases toBig x <;> cases toBig y <;> simp only
    · exact cmpSpecial_isCmp.swap _ _
    · exact cmpSpecial_isCmp.swap _ _
    · exact cmpSpecial_isCmp.swap _ _
    · exact icmp_isCmp.swap _ _

theorem swap_swap (o : Ordering) : o.swap.swap = o := by cases o <;> rfl

theorem cmpPkS_isSym : IsSym cmpPkS where
  refl := fun a => by
    induction a with
    | nil => simp [cmpPkS, pkExt, Ordering.swap]
    | cons x xs ih => simp [cmpPkS, pkElem_isSym.refl, ih, Ordering.then]
  swap := fun a => by
    induction a with
    | nil => intro b; rw [cmpPkS_nil_right]; simp [cmpPkS, swap_swap]
    | cons x xs ih =>
      intro b
      cases b with
      | nil => simp [cmpPkS]
      | cons y ys => simp only [cmpPkS]; rw [swap_then, pkElem_isSym.swap x y, ih ys]

/-! ## the Go-shaped function: every index and slice is in range -/

theorem cmpPkS_zip : ∀ a b : List (List Char), cmpPkS a b =
    (cmpZip pkElem a b).then (if b.length < a.length then pkExt (a.drop b.length)
      else if a.length < b.length then (pkExt (b.drop a.length)).swap else .eq) := by
  intro a
  induction a with
  | nil =>
    intro b
    cases b with
    | nil => simp [cmpPkS, cmpZip, pkExt, Ordering.swap, Ordering.then]
    | cons y ys => simp [cmpPkS, cmpZip, Ordering.then]
  | cons x xs ih =>
    intro b
    cases b with
    | nil => simp [cmpPkS, cmpZip, Ordering.then]
    | cons y ys =>
      simp only [cmpPkS, cmpZip, ih ys, List.length_cons, List.drop_succ_cons, Nat.add_lt_add_iff_right]
      cases pkElem x y <;> simp [Ordering.then]

theorem eqThen (o : Ordering) : Ordering.eq.then o = o := rfl

theorem goIndex_drop {α : Type} (l : List α) (n : Nat) (x : α) (xs : List α) (h : l.drop n = x :: xs) :
    goIndex l n = some x := by
  unfold goIndex
  have hn : n < l.length := by
    apply Classical.byContradiction; intro hc
    rw [List.drop_eq_nil_of_le (Nat.le_of_not_lt hc)] at h; cases h
  rw [List.getElem?_eq_getElem hn]
  rw [List.drop_eq_getElem_cons hn] at h
  injection h with h1 _
  rw [h1]

/-- the recursive call against `["#"]`: one loop step, then `a[1]` / `a[1:]` behind `len(a) > 1` -/
theorem cmpPkGo_ext : ∀ (xs : List (List Char)) (x : List Char) (f : Nat), (toBig x).isSome = false → xs.length + 1 ≤ f →
    cmpPkGo f (x :: xs) [['#']] = some ((cmpSpecial x ['#']).then (pkExt xs)) := by
  intro xs
  induction xs with
  | nil =>
    intro x f hx hf
    match f, hf with
    | f' + 1, _ =>
      simp only [cmpPkGo, List.length_cons, List.length_nil, Nat.min_self, Nat.zero_add]
      rw [lexLoop_zip pkElem _ _ 1 0 (by simp)]
      simp only [List.drop_zero, cmpZip, Option.bind_some, pkElem_hash_right x hx, pkExt, Nat.lt_irrefl, if_false]
      cases cmpSpecial x ['#'] <;> simp [Ordering.then]
  | cons x' xs' ih =>
    intro x f hx hf
    simp only [List.length_cons] at hf
    match f, hf with
    | f' + 1, hf =>
      simp only [cmpPkGo, List.length_cons, List.length_nil, Nat.zero_add]
      have hm : min (xs'.length + 1 + 1) 1 = 1 := by omega
      rw [hm, lexLoop_zip pkElem (x :: x' :: xs') [['#']] 1 0 (by simp)]
      simp only [List.drop_zero, cmpZip, Option.bind_some, pkElem_hash_right x hx]
      have h1 : 1 < xs'.length + 1 + 1 := by omega
      have hs : goSlice (x :: x' :: xs') ((1 : Nat) : Int) ((xs'.length + 1 + 1 : Nat) : Int) = some (x' :: xs') := by
        have := goSlice_drop (x :: x' :: xs') 1 (by simp)
        simpa using this
      have hgi : goIndex (x :: x' :: xs') 1 = some x' := rfl
      cases hc : cmpSpecial x ['#'] with
      | lt => simp [Ordering.then]
      | gt => simp [Ordering.then]
      | eq =>
        simp only [eqThen, ne_eq, not_true_eq_false, if_false, h1, if_true, hgi, Option.bind_some, pkExt]
        by_cases hx' : (toBig x').isSome = true
        · simp [hx']
        · have hx'' : (toBig x').isSome = false := by simpa using hx'
          simp only [hx'', Bool.false_eq_true, if_false]
          rw [hs, Option.bind_some, ih x' f' hx'' (by omega)]

theorem cmpPkGo_ext' : ∀ (ys : List (List Char)) (y : List Char) (f : Nat), (toBig y).isSome = false → ys.length + 1 ≤ f →
    cmpPkGo f [['#']] (y :: ys) = some ((cmpSpecial ['#'] y).then (pkExt ys).swap) := by
  intro ys
  induction ys with
  | nil =>
    intro y f hy hf
    match f, hf with
    | f' + 1, _ =>
      simp only [cmpPkGo, List.length_cons, List.length_nil, Nat.min_self, Nat.zero_add]
      rw [lexLoop_zip pkElem _ _ 1 0 (by simp)]
      simp only [List.drop_zero, cmpZip, Option.bind_some, pkElem_hash_left y hy, pkExt, Nat.lt_irrefl, if_false]
      cases cmpSpecial ['#'] y <;> simp [Ordering.then, Ordering.swap]
  | cons y' ys' ih =>
    intro y f hy hf
    simp only [List.length_cons] at hf
    match f, hf with
    | f' + 1, hf =>
      simp only [cmpPkGo, List.length_cons, List.length_nil, Nat.zero_add]
      have hm : min 1 (ys'.length + 1 + 1) = 1 := by omega
      rw [hm, lexLoop_zip pkElem [['#']] (y :: y' :: ys') 1 0 (by simp)]
      simp only [List.drop_zero, cmpZip, Option.bind_some, pkElem_hash_left y hy]
      have h1 : 1 < ys'.length + 1 + 1 := by omega
      have h2 : ¬ (ys'.length + 1 + 1 < 1) := by omega
      have hgi : goIndex (y :: y' :: ys') 1 = some y' := rfl
      cases hc : cmpSpecial ['#'] y with
      | lt => simp [Ordering.then]
      | gt => simp [Ordering.then]
      | eq =>
        simp only [eqThen, ne_eq, not_true_eq_false, if_false, h1, h2, if_true, hgi, Option.bind_some, pkExt]
        by_cases hy' : (toBig y').isSome = true
        · simp [hy', Ordering.swap]
        · have hy'' : (toBig y').isSome = false := by simpa using hy'
          simp only [hy'', Bool.false_eq_true, if_false]
          have hs : goSlice (y :: y' :: ys') ((1 : Nat) : Int) ((ys'.length + 1 + 1 : Nat) : Int) = some (y' :: ys') := by
            have := goSlice_drop (y :: y' :: ys') 1 (by simp)
            simpa using this
          rw [hs, Option.bind_some, ih y' f' hy'' (by omega), swap_then, cmpSpecial_isCmp.swap y' ['#']]

/-- `comparePackagistComponents` never indexes or slices out of range, and the fuel is enough -/
theorem cmpPkGo_eq (a b : List (List Char)) (f : Nat) (hf : a.length + b.length + 2 ≤ f) :
    cmpPkGo f a b = some (cmpPkS a b) := by
  match f, hf with
  | f' + 1, hf =>
    simp only [cmpPkGo]
    rw [lexLoop_zip pkElem a b _ 0 (by simp), cmpPkS_zip]
    simp only [List.drop_zero, Option.bind_some]
    cases hc : cmpZip pkElem a b with
    | lt => simp [Ordering.then]
    | gt => simp [Ordering.then]
    | eq =>
      simp only [eqThen, ne_eq, not_true_eq_false, if_false]
      by_cases h1 : b.length < a.length
      · simp only [h1, if_true]
        cases hd : a.drop b.length with
        | nil =>
          have := congrArg List.length hd
          simp at this; omega
        | cons x xs =>
          have hl : xs.length + 1 ≤ a.length := by
            have := congrArg List.length hd
            simp at this; omega
          rw [goIndex_drop a b.length x xs hd, Option.bind_some, goSlice_drop a b.length (by omega), hd]
          simp only [pkExt, Option.bind_some]
          by_cases hx : (toBig x).isSome = true
          · simp [hx]
          · have hx' : (toBig x).isSome = false := by simpa using hx
            simp only [hx', Bool.false_eq_true, if_false]
            exact cmpPkGo_ext xs x f' hx' (by omega)
      · simp only [h1, if_false]
        by_cases h2 : a.length < b.length
        · simp only [h2, if_true]
          cases hd : b.drop a.length with
          | nil =>
            have := congrArg List.length hd
            simp at this; omega
          | cons y ys =>
            have hl : ys.length + 1 ≤ b.length := by
              have := congrArg List.length hd
              simp at this; omega
            rw [goIndex_drop b a.length y ys hd, Option.bind_some, goSlice_drop b a.length (by omega), hd]
            simp only [pkExt, Option.bind_some]
            by_cases hy : (toBig y).isSome = true
            · simp [hy, Ordering.swap]
            · have hy' : (toBig y).isSome = false := by simpa using hy
              simp only [hy', Bool.false_eq_true, if_false]
              rw [cmpPkGo_ext' ys y f' hy' (by omega), swap_then, cmpSpecial_isCmp.swap y ['#']]
        · simp [h2]

@[simp] theorem packagistFam_parse (s : List Char) : packagistFam.parse s = .ok (parsePk s) := rfl
@[simp] theorem packagistFam_cmp (v w : List (List Char)) : packagistFam.cmp v w = .ord (cmpPkS v w) := by
  simp [packagistFam, cmpPkGoTop, cmpPkGo_eq v w _ (Nat.le_refl _), CRes.ofGo]

theorem packagist_laws : FamLaws packagistFam (fun _ => True) cmpPkS where
  parse_nopanic := fun s => by simp
  parse_wf := fun _ _ _ => trivial
  cmp_eq := fun v w _ _ => packagistFam_cmp v w
  refl := fun v _ => cmpPkS_isSym.refl v
  swap := fun v w _ _ => cmpPkS_isSym.swap v w

/-! ## transitivity without `#` components -/

/-- (class, value): qualifiers by doubled weight, the end of the list at 7, numbers at 8 -/
def pkKey (x : List Char) : Nat × Int :=
  match toBig x with
  | some n => (8, n)
  | none => (2 * weighPk x, 0)

def pkEnd : Nat × Int := (7, 0)

def pkKeyCmp : Nat × Int → Nat × Int → Ordering := thenCmp (cmpOn (·.1) ncmp) (cmpOn (·.2) icmp)

theorem pkKeyCmp_isCmp : IsCmp pkKeyCmp := thenCmp_isCmp (cmpOn_isCmp _ ncmp_isCmp) (cmpOn_isCmp _ icmp_isCmp)

theorem pkKeyCmp_mk (a b : Nat) (x y : Int) : pkKeyCmp (a, x) (b, y) = (ncmp a b).then (icmp x y) := rfl

def noHashC (x : List Char) : Prop := hasPrefix ['#'] x = false

theorem weighPk_ne_four (x : List Char) (h : noHashC x) : weighPk x ≠ 4 := by
  unfold noHashC at h
  unfold weighPk
  repeat' split
  all_goals first | omega | simp_all

theorem weighPk_hash : weighPk ['#'] = 4 := by decide

theorem ncmp_double (a b : Nat) : ncmp (2 * a) (2 * b) = ncmp a b := by
  unfold ncmp
  by_cases h1 : a < b
  · have : 2 * a < 2 * b := by omega
    simp [h1, this]
  · by_cases h2 : a = b
    · simp [h2]
    · have h3 : ¬ 2 * a < 2 * b := by omega
      have h4 : ¬ 2 * a = 2 * b := by omega
      simp [h1, h2, h3, h4]

theorem then_eq_left {a : Ordering} (b : Ordering) (h : a ≠ .eq) : a.then b = a := by
  cases a <;> simp_all [Ordering.then]

theorem pkElem_key (x y : List Char) (hx : noHashC x) (hy : noHashC y) : pkElem x y = pkKeyCmp (pkKey x) (pkKey y) := by
  unfold pkElem pkKey
  cases tx : toBig x with
  | some p =>
    cases ty : toBig y with
    | some q => simp [pkKeyCmp_mk, ncmp_isCmp.refl, Ordering.then]
    | none =>
      simp only [pkKeyCmp_mk, cmpSpecial, weighPk_hash]
      have h4 := weighPk_ne_four y hy
      have : ncmp 8 (2 * weighPk y) = ncmp 4 (weighPk y) := ncmp_double 4 (weighPk y)
      rw [this, then_eq_left]
      intro he; exact h4 (ncmp_eq.mp he).symm
  | none =>
    cases ty : toBig y with
    | some q =>
      simp only [pkKeyCmp_mk, cmpSpecial, weighPk_hash]
      have h4 := weighPk_ne_four x hx
      have : ncmp (2 * weighPk x) 8 = ncmp (weighPk x) 4 := ncmp_double (weighPk x) 4
      rw [this, then_eq_left]
      intro he; exact h4 (ncmp_eq.mp he)
    | none =>
      simp only [pkKeyCmp_mk, cmpSpecial, ncmp_double]
      rw [icmp_isCmp.refl]
      cases ncmp (weighPk x) (weighPk y) <;> rfl

theorem pkExt_key : ∀ (xs : List (List Char)), (∀ x ∈ xs, noHashC x) →
    pkExt xs = cmpPadR pkKeyCmp pkEnd (xs.map pkKey) := by
  intro xs; induction xs with
  | nil => intro _; rfl
  | cons x xs ih =>
    intro h
    have hx := h x (by simp)
    simp only [pkExt, List.map, cmpPadR]
    rw [← ih (fun z hz => h z (by simp [hz]))]
    unfold pkKey pkEnd
    cases tx : toBig x with
    | some p =>
      simp only [Option.isSome, if_true, pkKeyCmp_mk]
      have : ncmp 8 7 = .gt := by decide
      rw [this]; rfl
    | none =>
      simp only [Option.isSome, Bool.false_eq_true, if_false, pkKeyCmp_mk, cmpSpecial, weighPk_hash]
      have h4 := weighPk_ne_four x hx
      have hk : ncmp (2 * weighPk x) 7 = ncmp (weighPk x) 4 := by
        unfold ncmp
        by_cases h1 : weighPk x < 4
        · have : 2 * weighPk x < 7 := by omega
          simp [h1, this]
        · have h2 : ¬ 2 * weighPk x < 7 := by omega
          have h3 : ¬ 2 * weighPk x = 7 := by omega
          simp [h1, h2, h3, h4]
      have hne : ncmp (weighPk x) 4 ≠ .eq := fun he => h4 (ncmp_eq.mp he)
      rw [hk, then_eq_left _ hne]
      have : (ncmp (weighPk x) 4).then (icmp 0 0) = ncmp (weighPk x) 4 := then_eq_left _ hne
      rw [this, then_eq_left _ hne]

theorem cmpPkS_key : ∀ (a b : List (List Char)), (∀ x ∈ a, noHashC x) → (∀ x ∈ b, noHashC x) →
    cmpPkS a b = cmpPad pkKeyCmp pkEnd (a.map pkKey) (b.map pkKey) := by
  intro a; induction a with
  | nil =>
    intro b _ hb
    simp only [cmpPkS, List.map]
    rw [pkExt_key b hb, ← cmpPad_nil_right, cmpPad_swap pkEnd pkKeyCmp_isCmp.toSym _ (b.map pkKey) [] (Nat.le_refl _)]
  | cons x xs ih =>
    intro b ha hb
    cases b with
    | nil => rw [cmpPkS_nil_right, pkExt_key _ ha]; simp only [List.map, cmpPad_nil_right]
    | cons y ys =>
      simp only [cmpPkS, List.map, cmpPad]
      rw [pkElem_key x y (ha x (by simp)) (hb y (by simp)), ih ys (fun z hz => ha z (by simp [hz])) (fun z hz => hb z (by simp [hz]))]

/-- the domain of the transitivity theorem -/
def pkNoHashP (v : List (List Char)) : Prop := pkNoHash v = true

theorem pkNoHashP_iff (v : List (List Char)) (h : pkNoHashP v) : ∀ x ∈ v, noHashC x := by
  intro x hx
  have := List.all_eq_true.mp h x hx
  simpa [noHashC] using this

theorem cmpPkS_isCmpOn : IsCmpOn pkNoHashP cmpPkS :=
  IsCmpOn.of_eq (cmpOn_isCmp (fun v : List (List Char) => v.map pkKey) (cmpPad_isCmp pkEnd pkKeyCmp_isCmp))
    (fun a b ha hb => cmpPkS_key a b (pkNoHashP_iff a ha) (pkNoHashP_iff b hb))

end Scalibr.Semantic
