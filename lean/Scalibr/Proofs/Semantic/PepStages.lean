/-
C07 — PEP 440, part 2: the groups of the recogniser on the pieces of a normalised version text,
and the resulting captures (`matchPep_render`).
-/
import Scalibr.Proofs.Semantic.PepParse
namespace Scalibr.Semantic
open PepSpec

/-! ## the groups of `pypiVersionFinder` -/

def gEpochBody : PP := pSeq (pRun isDigit 1 (some .epoch)) (pLit ['!'])
def gEpoch : PP := pOpt gEpochBody
def itRel : PP := pSeq (pLit ['.']) (pRun isDigit 1 none)
def gRelease (fuel : Nat) : PP := pCapture .release (pSeq (pRun isDigit 1 none) (pStar itRel fuel))
def preAlts : List (List Char) :=
  [['a'], ['b'], ['c'], ['r','c'], ['a','l','p','h','a'], ['b','e','t','a'], ['p','r','e'], ['p','r','e','v','i','e','w']]
def gPreBody : PP :=
  pSeq (pOpt (pChar isSepP)) <| pSeq (pCapLit .preL preAlts) <| pSeq (pOpt (pChar isSepP)) (pOpt (pRun isDigit 1 (some .preN)))
def gPre : PP := pOpt gPreBody
def postAlts : List (List Char) := [['p','o','s','t'], ['r','e','v'], ['r']]
def gPostWord : PP :=
  pSeq (pOpt (pChar isSepP)) <| pSeq (pCapLit .postL postAlts) <| pSeq (pOpt (pChar isSepP)) (pOpt (pRun isDigit 1 (some .postN2)))
def gPostBody : PP := pAlt (pSeq (pLit ['-']) (pRun isDigit 1 (some .postN1))) gPostWord
def gPost : PP := pOpt gPostBody
def gDevBody : PP :=
  pSeq (pOpt (pChar isSepP)) <| pSeq (pCapLit .devL [['d','e','v']]) <| pSeq (pOpt (pChar isSepP)) (pOpt (pRun isDigit 1 (some .devN)))
def gDev : PP := pOpt gDevBody
def itLoc : PP := pSeq (pChar isSepP) (pRun isLocalCh 1 none)
def gLocalBody (fuel : Nat) : PP :=
  pSeq (pLit ['+']) (pCapture .localV (pSeq (pRun isLocalCh 1 none) (pStar itLoc fuel)))
def gLocal (fuel : Nat) : PP := pOpt (gLocalBody fuel)

theorem pepP_eq (fuel : Nat) :
    pepP fuel = pSeq (pRun isWs 0 none) (pSeq (pOpt (pLit ['v'])) (pSeq gEpoch (pSeq (gRelease fuel)
      (pSeq gPre (pSeq gPost (pSeq gDev (pSeq (gLocal fuel) (pRun isWs 0 none)))))))) := rfl

/-! ## texts -/

theorem D_cons (n : Nat) : ∃ d ds, D n = d :: ds ∧ isDigit d = true := by
  cases h : D n with
  | nil => exact absurd h (D_ne n)
  | cons d ds => exact ⟨d, ds, rfl, by have := D_all n; rw [h] at this; simp at this; exact this.1⟩

theorem D_digits (n : Nat) : ∀ x ∈ D n, isDigit x = true := fun x hx => List.all_eq_true.mp (D_all n) x hx

theorem stops_D (f : Char → Bool) (hf : ∀ c, isDigit c = true → f c = false) (n : Nat) (rest : List Char) :
    Stops f (D n ++ rest) := by
  obtain ⟨d, ds, h, hd⟩ := D_cons n
  exact Or.inr ⟨d, ds ++ rest, by rw [h]; rfl, hf d hd⟩

theorem digit_not_sep (c : Char) (h : isDigit c = true) : isSepP c = false := by
  simp only [isDigit, Bool.and_eq_true, decide_eq_true_eq] at h
  simp only [isSepP, Bool.or_eq_false_iff, decide_eq_false_iff_not]
  refine ⟨⟨?_, ?_⟩, ?_⟩ <;> (intro e; subst e; simp at h)

/-- the texts after the pre-release, post-release and development segments -/
def PepSpec.V.t4 (v : V) : List Char := v.localText
def PepSpec.V.t3 (v : V) : List Char := v.devText ++ v.t4
def PepSpec.V.t2 (v : V) : List Char := v.postText ++ v.t3
def PepSpec.V.t1 (v : V) : List Char := v.preText ++ v.t2

theorem render_eq (v : V) : render v = v.epochText ++ (joinNums v.first v.rest ++ v.t1) := rfl

/-- every tail text is empty or starts with `+`, or with `.` followed by a letter -/
inductive TailShape : List Char → Prop
  | nil : TailShape []
  | plus (u) : TailShape ('+' :: u)
  | dot (y u) : isLower y = true → TailShape ('.' :: y :: u)

theorem t4_shape (v : V) : TailShape v.t4 := by
  unfold V.t4 V.localText
  split
  · exact .nil
  · exact .plus _

theorem t3_shape (v : V) : TailShape v.t3 := by
  unfold V.t3 V.devText
  cases v.dev with
  | none => simpa using t4_shape v
  | some n => exact .dot 'd' _ (by decide)

theorem t2_shape (v : V) : TailShape v.t2 := by
  unfold V.t2 V.postText
  cases v.post with
  | none => simpa using t3_shape v
  | some n => exact .dot 'p' _ (by decide)

theorem lower_not_digit (y : Char) (h : isLower y = true) : isDigit y = false := by
  simp only [isLower, Bool.and_eq_true, decide_eq_true_eq] at h
  simp only [isDigit, Bool.and_eq_false_iff, decide_eq_false_iff_not]
  omega

theorem TailShape.stopsDigit {t : List Char} (h : TailShape t) : Stops isDigit t := by
  cases h with
  | nil => exact Or.inl rfl
  | plus u => exact Or.inr ⟨'+', u, rfl, by decide⟩
  | dot y u _ => exact Or.inr ⟨'.', y :: u, rfl, by decide⟩

/-! ## absent groups -/

theorem pOpt_sep_results (s : List Char) (c : Caps) :
    ∀ r ∈ pOpt (pChar isSepP) s c, r.2 = c ∧ (r.1 = s ∨ ∃ x, isSepP x = true ∧ s = x :: r.1) := by
  intro r hr
  simp only [pOpt, pAlt, pEps, List.mem_append, List.mem_singleton] at hr
  rcases hr with hr | hr
  · cases s with
    | nil => simp [pChar] at hr
    | cons x u =>
      simp only [pChar] at hr
      split at hr
      · rename_i hx
        simp only [List.mem_singleton] at hr
        subst hr
        exact ⟨rfl, Or.inr ⟨x, hx, rfl⟩⟩
      · simp at hr
  · subst hr; exact ⟨rfl, Or.inl rfl⟩

/-- a word group (`[sep] word [sep] [digits]`) fails when neither the text nor the text after one
separator starts with one of the words -/
theorem wordGroup_none (name : Cap) (alts : List (List Char)) (k : PP) (s : List Char) (c : Caps)
    (h1 : ∀ a ∈ alts, hasPrefix a s = false)
    (h2 : ∀ x u, s = x :: u → isSepP x = true → ∀ a ∈ alts, hasPrefix a u = false) :
    (pSeq (pOpt (pChar isSepP)) (pSeq (pCapLit name alts) k)) s c = [] := by
  apply pSeq_all_nil
  intro r hr
  obtain ⟨_, hcase⟩ := pOpt_sep_results s c r hr
  apply pSeq_nil
  apply pCapLit_none
  rcases hcase with e | ⟨x, hx, e⟩
  · rw [e]; exact h1
  · exact h2 x r.1 e hx

theorem isPrefix_cons_ne (a : Char) (as : List Char) (b : Char) (bs : List Char) (h : a ≠ b) :
    hasPrefix (a :: as) (b :: bs) = false := by simp [hasPrefix, List.isPrefixOf, h]

theorem isPrefix_nil_right (a : Char) (as : List Char) : hasPrefix (a :: as) [] = false := by
  simp [hasPrefix, List.isPrefixOf]

/-- no word of `alts` starts a text of the given shape, when the words start with letters other
than the letter after the dot -/
theorem shape_no_word (alts : List (List Char)) (t : List Char) (ht : TailShape t)
    (hne : ∀ a ∈ alts, ∃ x xs, a = x :: xs ∧ x ≠ '+' ∧ x ≠ '.')
    (hdot : ∀ y u, t = '.' :: y :: u → ∀ a ∈ alts, hasPrefix a (y :: u) = false) :
    (∀ a ∈ alts, hasPrefix a t = false) ∧
    (∀ x u, t = x :: u → isSepP x = true → ∀ a ∈ alts, hasPrefix a u = false) := by
  cases ht with
  | nil =>
    refine ⟨fun a ha => ?_, fun x u e => by simp at e⟩
    obtain ⟨x, xs, e, _⟩ := hne a ha
    rw [e]; exact isPrefix_nil_right x xs
  | plus u =>
    refine ⟨fun a ha => ?_, fun x u' e hx => ?_⟩
    · obtain ⟨x, xs, e, h1, _⟩ := hne a ha
      rw [e]; exact isPrefix_cons_ne x xs '+' u h1
    · injection e with e1 e2
      subst e1; simp [isSepP] at hx
  | dot y u hy =>
    refine ⟨fun a ha => ?_, fun x u' e _ => ?_⟩
    · obtain ⟨x, xs, e, _, h2⟩ := hne a ha
      rw [e]; exact isPrefix_cons_ne x xs '.' _ h2
    · injection e with e1 e2
      subst e2
      exact hdot y u rfl

theorem gPre_none (v : V) (c : Caps) : Hd gPre v.t2 c (v.t2, c) := by
  apply Hd.optNone
  have hs := t2_shape v
  have key := shape_no_word preAlts v.t2 hs
    (by intro a ha; simp only [preAlts, List.mem_cons, List.not_mem_nil, or_false] at ha
        rcases ha with h | h | h | h | h | h | h | h <;> subst h <;> exact ⟨_, _, rfl, by decide, by decide⟩)
    (by
      intro y u e a ha
      -- the letter after the dot is `p` (of `.post`) or `d` (of `.dev`)
      have hy : (∃ w, y :: u = 'p' :: 'o' :: w) ∨ (∃ w, y :: u = 'd' :: w) := by
        unfold V.t2 V.postText at e
        cases hp : v.post with
        | some n => rw [hp] at e; simp at e; exact Or.inl ⟨_, by rw [← e.1, ← e.2]⟩
        | none =>
          rw [hp] at e
          simp only [List.nil_append, V.t3, V.devText] at e
          cases hd : v.dev with
          | some n => rw [hd] at e; simp at e; exact Or.inr ⟨_, by rw [← e.1, ← e.2]⟩
          | none =>
            rw [hd] at e
            simp only [List.nil_append, V.t4, V.localText] at e
            split at e <;> simp at e
      simp only [preAlts, List.mem_cons, List.not_mem_nil, or_false] at ha
      rcases hy with ⟨w, hw⟩ | ⟨w, hw⟩ <;> rw [hw] <;>
        rcases ha with h | h | h | h | h | h | h | h <;> subst h <;> simp [hasPrefix, List.isPrefixOf])
  exact wordGroup_none .preL preAlts _ v.t2 c key.1 key.2

theorem gPost_none (v : V) (c : Caps) : Hd gPost v.t3 c (v.t3, c) := by
  apply Hd.optNone
  have hs := t3_shape v
  have key := shape_no_word postAlts v.t3 hs
    (by intro a ha; simp only [postAlts, List.mem_cons, List.not_mem_nil, or_false] at ha
        rcases ha with h | h | h <;> subst h <;> exact ⟨_, _, rfl, by decide, by decide⟩)
    (by
      intro y u e a ha
      have hy : ∃ w, y :: u = 'd' :: w := by
        unfold V.t3 V.devText at e
        cases hd : v.dev with
        | some n => rw [hd] at e; simp at e; exact ⟨_, by rw [← e.1, ← e.2]⟩
        | none =>
          rw [hd] at e
          simp only [List.nil_append, V.t4, V.localText] at e
          split at e <;> simp at e
      simp only [postAlts, List.mem_cons, List.not_mem_nil, or_false] at ha
      obtain ⟨w, hw⟩ := hy
      rw [hw]
      rcases ha with h | h | h <;> subst h <;> simp [hasPrefix, List.isPrefixOf])
  have hdash : (pSeq (pLit ['-']) (pRun isDigit 1 (some .postN1))) v.t3 c = [] := by
    apply pSeq_nil
    generalize v.t3 = T at hs ⊢
    cases hs with
    | nil => exact pLit_nil_in '-' c
    | plus u => exact pLit_miss '-' '+' u c (by decide)
    | dot y u _ => exact pLit_miss '-' '.' _ c (by decide)
  simp only [gPostBody, pAlt, hdash, List.nil_append]
  exact wordGroup_none .postL postAlts _ v.t3 c key.1 key.2

theorem gDev_none (v : V) (c : Caps) : Hd gDev v.t4 c (v.t4, c) := by
  apply Hd.optNone
  have hs := t4_shape v
  have key := shape_no_word [['d','e','v']] v.t4 hs
    (by intro a ha; simp only [List.mem_cons, List.not_mem_nil, or_false] at ha
        subst ha; exact ⟨_, _, rfl, by decide, by decide⟩)
    (by
      intro y u e a _
      unfold V.t4 V.localText at e
      split at e <;> simp at e)
  exact wordGroup_none .devL [['d','e','v']] _ v.t4 c key.1 key.2

theorem gLocal_none (fuel : Nat) (c : Caps) : Hd (gLocal fuel) [] c ([], c) := by
  apply Hd.optNone
  exact pSeq_nil (pLit_nil_in '+' c)

/-! ## present groups -/

/-- `word digits` with a stopping tail: the word group takes both -/
theorem wordGroup_some (name nname : Cap) (pre : List (List Char)) (word : List Char) (post : List (List Char))
    (sep : List Char) (hsep : sep = [] ∨ sep = ['.']) (n : Nat) (tail : List Char) (c : Caps)
    (hstop : Stops isDigit tail)
    (hword : Stops isSepP (word ++ (D n ++ tail)))
    (hpre : ∀ a ∈ pre, hasPrefix a (word ++ (D n ++ tail)) = false) :
    Hd (pSeq (pOpt (pChar isSepP)) <| pSeq (pCapLit name (pre ++ word :: post)) <|
        pSeq (pOpt (pChar isSepP)) (pOpt (pRun isDigit 1 (some nname))))
      (sep ++ (word ++ (D n ++ tail))) c (tail, (nname, D n) :: (name, word) :: c) := by
  have h1 : Hd (pOpt (pChar isSepP)) (sep ++ (word ++ (D n ++ tail))) c (word ++ (D n ++ tail), c) := by
    rcases hsep with h | h
    · subst h
      exact Hd.optNone (pChar_miss isSepP _ c hword)
    · subst h
      exact Hd.optSome (Hd.of_eq (by simp [pChar, isSepP]))
  have h2 := Hd.capLit name pre word post (D n ++ tail) c hpre
  have h3 : Hd (pOpt (pChar isSepP)) (D n ++ tail) ((name, word) :: c) (D n ++ tail, (name, word) :: c) :=
    Hd.optNone (pChar_miss isSepP _ _ (stops_D isSepP digit_not_sep n tail))
  have h4 : Hd (pOpt (pRun isDigit 1 (some nname))) (D n ++ tail) ((name, word) :: c) (tail, (nname, D n) :: (name, word) :: c) := by
    apply Hd.optSome
    have := Hd.run isDigit 1 (some nname) (D n) tail ((name, word) :: c) (D_digits n) hstop
      (by obtain ⟨d, ds, h, _⟩ := D_cons n; rw [h]; simp) (Or.inl (D_ne n))
    simpa [capAdd] using this
  exact Hd.seq h1 (Hd.seq h2 (Hd.seq h3 h4))

def PepSpec.V.preCaps (v : V) : Caps :=
  match v.pre with
  | some (ph, n) => [(Cap.preN, D n), (Cap.preL, ph.text)]
  | none => []
def PepSpec.V.postCaps (v : V) : Caps :=
  match v.post with
  | some n => [(Cap.postN2, D n), (Cap.postL, ['p','o','s','t'])]
  | none => []
def PepSpec.V.devCaps (v : V) : Caps :=
  match v.dev with
  | some n => [(Cap.devN, D n), (Cap.devL, ['d','e','v'])]
  | none => []
def PepSpec.V.localCaps (v : V) : Caps :=
  if v.loc.isEmpty then [] else [(Cap.localV, joinDots (v.loc.map LSeg.render))]
def PepSpec.V.epochCaps (v : V) : Caps := if v.epoch = 0 then [] else [(Cap.epoch, D v.epoch)]

theorem stage_pre (v : V) (c : Caps) : Hd gPre v.t1 c (v.t2, v.preCaps ++ c) := by
  unfold V.t1 V.preText V.preCaps
  cases hp : v.pre with
  | none => simpa using gPre_none v c
  | some pn =>
    obtain ⟨ph, n⟩ := pn
    apply Hd.optSome
    have hstop := (t2_shape v).stopsDigit
    cases ph with
    | a =>
      have := wordGroup_some .preL .preN [] ['a'] [['b'], ['c'], ['r','c'], ['a','l','p','h','a'], ['b','e','t','a'], ['p','r','e'], ['p','r','e','v','i','e','w']]
        [] (Or.inl rfl) n v.t2 c hstop (Or.inr ⟨'a', _, rfl, by decide⟩) (by simp)
      simpa [gPreBody, preAlts, Phase.text, D] using this
    | b =>
      have := wordGroup_some .preL .preN [['a']] ['b'] [['c'], ['r','c'], ['a','l','p','h','a'], ['b','e','t','a'], ['p','r','e'], ['p','r','e','v','i','e','w']]
        [] (Or.inl rfl) n v.t2 c hstop (Or.inr ⟨'b', _, rfl, by decide⟩) (by simp [hasPrefix, List.isPrefixOf])
      simpa [gPreBody, preAlts, Phase.text, D] using this
    | rc =>
      have := wordGroup_some .preL .preN [['a'], ['b'], ['c']] ['r','c'] [['a','l','p','h','a'], ['b','e','t','a'], ['p','r','e'], ['p','r','e','v','i','e','w']]
        [] (Or.inl rfl) n v.t2 c hstop (Or.inr ⟨'r', _, rfl, by decide⟩) (by simp [hasPrefix, List.isPrefixOf])
      simpa [gPreBody, preAlts, Phase.text, D] using this

theorem stage_post (v : V) (c : Caps) : Hd gPost v.t2 c (v.t3, v.postCaps ++ c) := by
  unfold V.t2 V.postText V.postCaps
  cases hp : v.post with
  | none => simpa using gPost_none v c
  | some n =>
    apply Hd.optSome
    have hstop := (t3_shape v).stopsDigit
    have hdash : (pSeq (pLit ['-']) (pRun isDigit 1 (some .postN1))) (['.', 'p', 'o', 's', 't'] ++ D n ++ v.t3) c = [] :=
      pSeq_nil (pLit_miss '-' '.' _ c (by decide))
    have := wordGroup_some .postL .postN2 [] ['p','o','s','t'] [['r','e','v'], ['r']]
      ['.'] (Or.inr rfl) n v.t3 c hstop (Or.inr ⟨'p', _, rfl, by decide⟩) (by simp)
    apply Hd.altR
    · simpa [D] using hdash
    · simpa [gPostWord, postAlts, D] using this

theorem stage_dev (v : V) (c : Caps) : Hd gDev v.t3 c (v.t4, v.devCaps ++ c) := by
  unfold V.t3 V.devText V.devCaps
  cases hp : v.dev with
  | none => simpa using gDev_none v c
  | some n =>
    apply Hd.optSome
    have hstop := (t4_shape v).stopsDigit
    have := wordGroup_some .devL .devN [] ['d','e','v'] []
      ['.'] (Or.inr rfl) n v.t4 c hstop (Or.inr ⟨'d', _, rfl, by decide⟩) (by simp)
    simpa [gDevBody, D] using this

/-! ## the local label -/

theorem lseg_chars (s : LSeg) (hw : s.wf = true) : s.render ≠ [] ∧ ∀ x ∈ s.render, isLocalCh x = true := by
  cases s with
  | num n => exact ⟨D_ne n, fun x hx => by simp [isLocalCh, D_digits n x hx]⟩
  | str t =>
    simp only [LSeg.wf, Bool.and_eq_true, Bool.not_eq_true'] at hw
    refine ⟨by intro e; simp only [LSeg.render] at e; rw [e] at hw; simp at hw, fun x hx => ?_⟩
    simpa [isLocalCh, isLocalChar] using List.all_eq_true.mp hw.1.2 x hx

theorem joinDots_flat : ∀ (t : List Char) (ts : List (List Char)),
    joinDots (t :: ts) = t ++ (ts.map (fun u => '.' :: u)).flatten := by
  intro t ts; induction ts generalizing t with
  | nil => simp [joinDots]
  | cons u us ih => simp [joinDots, ih u]

theorem stage_local (v : V) (hw : v.wf = true) (fuel : Nat) (hf : v.loc.length ≤ fuel) (c : Caps) :
    Hd (gLocal fuel) v.t4 c ([], v.localCaps ++ c) := by
  unfold V.t4 V.localText V.localCaps
  cases hl : v.loc with
  | nil => simpa using gLocal_none fuel c
  | cons s rest =>
    simp only [List.isEmpty_cons, Bool.false_eq_true, if_false, List.map]
    apply Hd.optSome
    have hwf : ∀ x ∈ s :: rest, x.wf = true := by
      intro x hx; rw [← hl] at hx; exact List.all_eq_true.mp hw x hx
    obtain ⟨hne, hch⟩ := lseg_chars s (hwf s (by simp))
    have hplus : Hd (pLit ['+']) ('+' :: joinDots (s.render :: rest.map LSeg.render)) c
        (joinDots (s.render :: rest.map LSeg.render), c) := Hd.of_eq (pLit_hit ['+'] _ c)
    refine Hd.seq hplus ?_
    rw [joinDots_flat]
    -- the star over `.segment`
    have hstar := Hd.star itLoc (Stops isLocalCh) [] (fun c => by simp [itLoc, pSeq, pChar]) (Or.inl rfl)
      ((rest.map LSeg.render).map (fun u => '.' :: u)) fuel c
      (by simp only [List.length_map]; rw [hl] at hf; simp at hf; omega)
      (by intro i hi; simp only [List.mem_map] at hi; obtain ⟨u, _, e⟩ := hi; rw [← e]; simp)
      (by intro i hi r _
          simp only [List.mem_map] at hi; obtain ⟨u, _, e⟩ := hi; rw [← e]
          exact Or.inr ⟨'.', u ++ r, rfl, by decide⟩)
      (by
        intro i r c hi hr
        simp only [List.mem_map] at hi
        obtain ⟨u, ⟨x, hx, ex⟩, e⟩ := hi
        subst e; subst ex
        obtain ⟨xne, xch⟩ := lseg_chars x (hwf x (by simp [hx]))
        have a1 : Hd (pChar isSepP) ('.' :: (x.render ++ r)) c (x.render ++ r, c) := Hd.of_eq (by simp [pChar, isSepP])
        have a2 := Hd.run isLocalCh 1 none x.render r c xch hr
          (by cases hxr : x.render with
              | nil => exact absurd hxr xne
              | cons _ _ => simp) (Or.inl xne)
        simpa [itLoc, capAdd] using Hd.seq a1 a2)
    obtain ⟨hs1, hq⟩ := hstar
    simp only [List.append_nil] at hs1 hq
    have hrun := Hd.run isLocalCh 1 none s.render ((rest.map LSeg.render).map (fun u => '.' :: u)).flatten c hch hq
      (by cases hxr : s.render with
          | nil => exact absurd hxr hne
          | cons _ _ => simp) (Or.inl hne)
    simp only [capAdd] at hrun
    have hbody := Hd.seq hrun hs1
    have := Hd.capture .localV (pre := s.render ++ ((rest.map LSeg.render).map (fun u => '.' :: u)).flatten) (rest := []) (by simpa using hbody)
    simpa using this

/-! ## epoch and release -/

theorem joinNums_flat : ∀ (n : Nat) (ms : List Nat),
    joinNums n ms = D n ++ (ms.map (fun m => '.' :: D m)).flatten := by
  intro n ms; induction ms generalizing n with
  | nil => simp [joinNums, D]
  | cons m ms ih => simp [joinNums, ih m, D]

theorem t1_stops (v : V) : Stops isDigit v.t1 ∧ (∀ c, itRel v.t1 c = []) := by
  unfold V.t1 V.preText
  cases hp : v.pre with
  | some pn =>
    obtain ⟨ph, n⟩ := pn
    cases ph <;> simp only [Phase.text, List.cons_append, List.nil_append] <;>
      exact ⟨Or.inr ⟨_, _, rfl, by decide⟩, fun c => pSeq_nil (pLit_miss '.' _ _ c (by decide))⟩
  | none =>
    simp only [List.nil_append]
    have hs := t2_shape v
    refine ⟨hs.stopsDigit, fun c => ?_⟩
    generalize v.t2 = T at hs ⊢
    cases hs with
    | nil => exact pSeq_nil (pLit_nil_in '.' c)
    | plus u => exact pSeq_nil (pLit_miss '.' '+' u c (by decide))
    | dot y u hy =>
      apply pSeq_all_nil
      intro r hr
      have : pLit ['.'] ('.' :: y :: u) c = [(y :: u, c)] := pLit_hit ['.'] (y :: u) c
      rw [this] at hr
      simp only [List.mem_singleton] at hr
      subst hr
      exact pRun_none isDigit 1 none (y :: u) c (Or.inr ⟨y, u, rfl, lower_not_digit y hy⟩) (by omega)

theorem stage_release (v : V) (fuel : Nat) (hf : v.rest.length ≤ fuel) (c : Caps) :
    Hd (gRelease fuel) (joinNums v.first v.rest ++ v.t1) c (v.t1, (Cap.release, joinNums v.first v.rest) :: c) := by
  obtain ⟨hstop, htail⟩ := t1_stops v
  rw [joinNums_flat]
  have hstar := Hd.star itRel (Stops isDigit) v.t1 htail hstop
    (v.rest.map (fun m => '.' :: D m)) fuel c (by simpa using hf)
    (by intro i hi; simp only [List.mem_map] at hi; obtain ⟨u, _, e⟩ := hi; rw [← e]; simp)
    (by intro i hi r _
        simp only [List.mem_map] at hi; obtain ⟨u, _, e⟩ := hi; rw [← e]
        exact Or.inr ⟨'.', D u ++ r, rfl, by decide⟩)
    (by
      intro i r c hi hr
      simp only [List.mem_map] at hi
      obtain ⟨m, _, e⟩ := hi
      subst e
      have a1 : Hd (pLit ['.']) ('.' :: (D m ++ r)) c (D m ++ r, c) := Hd.of_eq (pLit_hit ['.'] _ c)
      have a2 := Hd.run isDigit 1 none (D m) r c (D_digits m) hr
        (by obtain ⟨d, ds, h, _⟩ := D_cons m; rw [h]; simp) (Or.inl (D_ne m))
      simpa [itRel, capAdd] using Hd.seq a1 a2)
  obtain ⟨hs1, hq⟩ := hstar
  have hrun := Hd.run isDigit 1 none (D v.first) ((v.rest.map (fun m => '.' :: D m)).flatten ++ v.t1) c (D_digits _) hq
    (by obtain ⟨d, ds, h, _⟩ := D_cons v.first; rw [h]; simp) (Or.inl (D_ne _))
  simp only [capAdd] at hrun
  have hbody := Hd.seq hrun hs1
  have := Hd.capture .release (pre := D v.first ++ (v.rest.map (fun m => '.' :: D m)).flatten) (rest := v.t1)
    (by simpa [List.append_assoc] using hbody)
  simpa [gRelease, List.append_assoc] using this

theorem mem_drop {α} (l : List α) (k : Nat) (x : α) (h : x ∈ l.drop k) : x ∈ l := (List.drop_sublist k l).subset h

theorem stage_epoch (v : V) (body : List Char) (hb : ∀ x ∈ body, x ≠ '!') (c : Caps) :
    Hd gEpoch (v.epochText ++ body) c (body, v.epochCaps ++ c) := by
  unfold V.epochText V.epochCaps
  by_cases he : v.epoch = 0
  · simp only [he, if_true, List.nil_append]
    apply Hd.optNone
    apply pSeq_all_nil
    intro r hr
    simp only [pRun, List.mem_map] at hr
    obtain ⟨k, _, e⟩ := hr
    subst e
    simp only [pLit]
    have : hasPrefix ['!'] (body.drop k) = false := by
      cases hdk : body.drop k with
      | nil => simp [hasPrefix, List.isPrefixOf]
      | cons x u =>
        have hx : x ∈ body := mem_drop body k x (by rw [hdk]; simp)
        have := hb x hx
        simp [hasPrefix, List.isPrefixOf, Ne.symm this]
    simp [this]
  · simp only [he, if_false, List.append_assoc, List.singleton_append]
    apply Hd.optSome
    have a1 := Hd.run isDigit 1 (some .epoch) (D v.epoch) ('!' :: body) c (D_digits _) (Or.inr ⟨'!', body, rfl, by decide⟩)
      (by obtain ⟨d, ds, h, _⟩ := D_cons v.epoch; rw [h]; simp) (Or.inl (D_ne _))
    have a2 : Hd (pLit ['!']) ('!' :: body) (capAdd (some Cap.epoch) (D v.epoch) c) (body, capAdd (some Cap.epoch) (D v.epoch) c) :=
      Hd.of_eq (pLit_hit ['!'] body _)
    simpa [gEpochBody, capAdd, D] using Hd.seq a1 a2

end Scalibr.Semantic
