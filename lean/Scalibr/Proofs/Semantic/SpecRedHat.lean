/-
C07 — the Red Hat comparison agrees with rpm's documented version comparison
(`Spec/Semantic/RedHat.lean`) on every canonically rendered version.
-/
import Scalibr.Spec.Semantic.RedHat
import Scalibr.Proofs.Semantic.Decimal
import Scalibr.Proofs.Semantic.SpecReaders
namespace Scalibr.Semantic
open RpmSpec

/-! ## tokens -/

/-- the implementation's token for a token of the specification -/
def convTok : Tok → RTok
  | .tilde => .tilde
  | .caret => .caret
  | .num n => .num (stripD n)
  | .alpha s => .alpha s

def convPos : Option Tok → RTok
  | none => .fin
  | some t => convTok t

theorem pos_agree_rpm (x y : Option Tok) : rtokCmp (convPos x) (convPos y) = posCmp x y := by
  unfold rtokCmp posCmp
  cases x with
  | none =>
    cases y with
    | none => rfl
    | some t => cases t <;> simp [convPos, convTok, rkey, rkeyCmp_mk, rank, sameKind] <;> rfl
  | some s =>
    cases y with
    | none => cases s <;> simp [convPos, convTok, rkey, rkeyCmp_mk, rank, sameKind] <;> rfl
    | some t =>
      cases s with
      | tilde => cases t <;> simp [convPos, convTok, rkey, rkeyCmp_mk, rank, sameKind] <;> rfl
      | caret => cases t <;> simp [convPos, convTok, rkey, rkeyCmp_mk, rank, sameKind] <;> rfl
      | alpha a =>
        cases t with
        | alpha b =>
          simp only [convPos, convTok, rkey, rkeyCmp_mk, rank, sameKind, ncmp_isCmp.refl, eq_then']
        | _ => simp [convPos, convTok, rkey, rkeyCmp_mk, rank, sameKind] <;> rfl
      | num a =>
        cases t with
        | num b =>
          simp only [convPos, convTok, rkey, rkeyCmp_mk, rank, sameKind, ncmp_isCmp.refl, eq_then']
          have ha := stripD_props a
          have hb := stripD_props b
          rw [dec_cmp _ _ ha.1 hb.1, ha.2, hb.2]
        | _ => simp [convPos, convTok, rkey, rkeyCmp_mk, rank, sameKind] <;> rfl

theorem label_agree (a b : List Tok) :
    cmpPad rtokCmp RTok.fin (a.map convTok) (b.map convTok) = labelCmp a b := by
  have e1 : a.map convTok = (a.map some).map convPos := by simp [List.map_map, Function.comp_def, convPos]
  have e2 : b.map convTok = (b.map some).map convPos := by simp [List.map_map, Function.comp_def, convPos]
  rw [e1, e2]
  have := cmpPad_map convPos rtokCmp none (a.map some) (b.map some)
  simp only [convPos] at this
  rw [this]
  unfold labelCmp
  exact cmpPad_congr _ _ none (fun _ => True) trivial (fun x y _ _ => pos_agree_rpm x y) _ _ (fun _ _ => trivial) (fun _ _ => trivial)

/-! ## a rendered label tokenises into its tokens -/

theorem tok_text (t : Tok) (hw : t.wf = true) :
    t.text ≠ [] ∧ Shape t.text ∧ (∀ c ∈ t.text, c ≠ ':' ∧ c ≠ '-') := by
  cases t with
  | tilde => exact ⟨by simp [Tok.text], .tilde [], by simp [Tok.text]⟩
  | caret => exact ⟨by simp [Tok.text], .caret [], by simp [Tok.text]⟩
  | num n =>
    obtain ⟨d, ds, hD, hd⟩ := D_cons n
    refine ⟨D_ne n, ?_, fun c hc => ?_⟩
    · show Shape (D n)
      rw [hD]
      exact .digit d ds hd (fun e => by subst e; simp [isDigit] at hd) (fun e => by subst e; simp [isDigit] at hd)
    · have := digit_props c (D_digit_list n c hc); exact ⟨this.1, this.2.1⟩
  | alpha s =>
    simp only [Tok.wf, Bool.and_eq_true, Bool.not_eq_true'] at hw
    cases s with
    | nil => simp at hw
    | cons c cs =>
      have hl : ∀ x ∈ c :: cs, isLetter x = true := fun x hx => List.all_eq_true.mp hw.2 x hx
      have hc := hl c (by simp)
      have hp := letter_props c hc
      refine ⟨by simp [Tok.text], ?_, fun x hx => ?_⟩
      · exact .letter c cs hc hp.1 (fun e => by subst e; simp [isLetter, isLower, isUpper] at hc)
          (fun e => by subst e; simp [isLetter, isLower, isUpper] at hc)
      · have hx' := hl x hx
        constructor <;> (intro e; subst e; simp [isLetter, isLower, isUpper] at hx')

/-- what follows a token in the canonical text stops the token's own run -/
theorem after_tok (t : Tok) (rest : List Tok) (hw : ∀ x ∈ rest, x.wf = true) :
    (∀ n, t = .num n → Stops isDigit (renderToks (some t) rest)) ∧
    (∀ s, t = .alpha s → Stops isLetter (renderToks (some t) rest)) := by
  cases rest with
  | nil => exact ⟨fun _ _ => Or.inl rfl, fun _ _ => Or.inl rfl⟩
  | cons u us =>
    have hu := tok_text u (hw u (by simp))
    constructor
    · intro n e; subst e
      cases u with
      | tilde => exact Or.inr ⟨'~', _, rfl, by decide⟩
      | caret => exact Or.inr ⟨'^', _, rfl, by decide⟩
      | num m => exact Or.inr ⟨'.', _, rfl, by decide⟩
      | alpha s =>
        have := hw (.alpha s) (by simp)
        simp only [Tok.wf, Bool.and_eq_true, Bool.not_eq_true'] at this
        cases s with
        | nil => simp at this
        | cons c cs =>
          have hc : isLetter c = true := by have := this.2; simp at this; exact this.1
          exact Or.inr ⟨c, _, rfl, letter_not_digit c hc⟩
    · intro s e; subst e
      cases u with
      | tilde => exact Or.inr ⟨'~', _, rfl, by decide⟩
      | caret => exact Or.inr ⟨'^', _, rfl, by decide⟩
      | alpha s' => exact Or.inr ⟨'.', _, rfl, by decide⟩
      | num m =>
        obtain ⟨d, ds, hD, hd⟩ := D_cons m
        refine Or.inr ⟨d, ds ++ renderToks (some (.num m)) us, ?_, digit_not_letter d hd⟩
        simp only [renderToks, needSep, Bool.false_eq_true, if_false, List.nil_append, Tok.text]
        have : Nat.toDigits 10 m = d :: ds := hD
        rw [this]; rfl

theorem dropWhile_trim_sep (sep x : List Char) (hs : sep = [] ∨ sep = ['.']) (hx : Shape x) (hne : x ≠ []) :
    (sep ++ x).dropWhile rhTrimmed = x := by
  have hhead : x.dropWhile rhTrimmed = x := by
    cases hx with
    | nil => exact absurd rfl hne
    | tilde r => simp [List.dropWhile, rhTrimmed]
    | caret r => simp [List.dropWhile, rhTrimmed]
    | digit c r h1 h2 h3 => simp [List.dropWhile, rhTrimmed, h1]
    | letter c r h1 h2 h3 h4 => simp [List.dropWhile, rhTrimmed, h1]
  rcases hs with h | h
  · subst h; simpa using hhead
  · subst h
    have : rhTrimmed '.' = true := by decide
    simp only [List.singleton_append, List.dropWhile, this]
    exact hhead

theorem shape_append {x : List Char} (h : Shape x) (hne : x ≠ []) (y : List Char) : Shape (x ++ y) := by
  cases h with
  | nil => exact absurd rfl hne
  | tilde r => exact .tilde _
  | caret r => exact .caret _
  | digit c r h1 h2 h3 => exact .digit c _ h1 h2 h3
  | letter c r h1 h2 h3 h4 => exact .letter c _ h1 h2 h3 h4

theorem rhHead_tok (t : Tok) (hw : t.wf = true) (R : List Char)
    (hn : ∀ n, t = .num n → Stops isDigit R) (ha : ∀ s, t = .alpha s → Stops isLetter R) :
    rhHead (t.text ++ R) = (convTok t, R) := by
  cases t with
  | tilde => simp [Tok.text, rhHead, convTok]
  | caret => simp [Tok.text, rhHead, convTok]
  | num n =>
    obtain ⟨d, ds, hD, hd⟩ := D_cons n
    obtain ⟨tw, dw⟩ := takeWhile_append_stop isDigit (D n) R (D_digit_list n) (hn n rfl)
    have h1 : d ≠ '~' := fun e => by subst e; simp [isDigit] at hd
    have h2 : d ≠ '^' := fun e => by subst e; simp [isDigit] at hd
    show rhHead (D n ++ R) = _
    have hform : D n ++ R = d :: (ds ++ R) := by rw [hD]; rfl
    rw [hform]
    simp only [rhHead, h1, h2, if_false, hd, if_true]
    rw [← hform, tw, dw]
    rfl
  | alpha s =>
    simp only [Tok.wf, Bool.and_eq_true, Bool.not_eq_true'] at hw
    cases s with
    | nil => simp at hw
    | cons c cs =>
      have hl : ∀ x ∈ c :: cs, isLetter x = true := fun x hx => List.all_eq_true.mp hw.2 x hx
      have hc := hl c (by simp)
      have hp := letter_props c hc
      obtain ⟨tw, dw⟩ := takeWhile_append_stop isLetter (c :: cs) R hl (ha (c :: cs) rfl)
      have h1 : c ≠ '~' := fun e => by subst e; simp [isLetter, isLower, isUpper] at hc
      have h2 : c ≠ '^' := fun e => by subst e; simp [isLetter, isLower, isUpper] at hc
      show rhHead ((c :: cs) ++ R) = _
      have hform : (c :: cs) ++ R = c :: (cs ++ R) := rfl
      rw [hform]
      simp only [rhHead, h1, h2, if_false, hp.1, Bool.false_eq_true]
      rw [← hform, tw, dw]
      rfl

theorem rhToks_render : ∀ (toks : List Tok) (prev : Option Tok), (∀ t ∈ toks, t.wf = true) →
    ∀ fuel, (renderToks prev toks).length < fuel → rhToks fuel (renderToks prev toks) = toks.map convTok := by
  intro toks; induction toks with
  | nil => intro _ _ fuel _; simp [renderToks, rhToks_nil]
  | cons t rest ih =>
    intro prev hw fuel hf
    have ht := hw t (by simp)
    have hrest : ∀ x ∈ rest, x.wf = true := fun x hx => hw x (by simp [hx])
    obtain ⟨tne, tshape, _⟩ := tok_text t ht
    obtain ⟨an, aa⟩ := after_tok t rest hrest
    cases fuel with
    | zero => omega
    | succ f =>
      have hsep : (if needSep prev t then ['.'] else []) = [] ∨ (if needSep prev t then ['.'] else []) = ['.'] := by
        cases needSep prev t <;> simp
      have hdrop := dropWhile_trim_sep _ (t.text ++ renderToks (some t) rest) hsep (shape_append tshape tne _)
        (by intro e; exact tne (List.append_eq_nil_iff.mp e).1)
      have hne : (t.text ++ renderToks (some t) rest).isEmpty = false := by
        cases h : t.text with
        | nil => exact absurd h tne
        | cons _ _ => rfl
      have hlen : (renderToks (some t) rest).length < f := by
        simp only [renderToks, List.length_append] at hf
        have : 0 < t.text.length := by
          cases h : t.text with
          | nil => exact absurd h tne
          | cons _ _ => simp
        omega
      simp only [renderToks, rhToks, hdrop, hne, Bool.false_eq_true, if_false, rhHead_tok t ht _ an aa, List.map]
      rw [ih (some t) hrest f hlen]

theorem rhKey_render (toks : List Tok) (hw : ∀ t ∈ toks, t.wf = true) :
    rhKey (renderToks none toks) = toks.map convTok :=
  rhToks_render toks none hw _ (by omega)

theorem rhKey_dash (x : List Char) : rhKey ('-' :: x) = rhKey x := by
  unfold rhKey
  have h1 : ('-' :: x).dropWhile rhTrimmed = x.dropWhile rhTrimmed := by
    have : rhTrimmed '-' = true := by decide
    simp [List.dropWhile, this]
  have : rhToks (('-' :: x).length + 1) ('-' :: x) = rhToks (x.length + 1 + 1) x := by
    simp only [List.length_cons, rhToks, h1]
  rw [this]
  exact rhToks_fuel _ _ x (by omega) (by omega)

/-! ## the three parts -/

theorem renderToks_ne (toks : List Tok) (hw : ∀ t ∈ toks, t.wf = true) (hne : toks ≠ []) : renderToks none toks ≠ [] := by
  cases toks with
  | nil => exact absurd rfl hne
  | cons t rest =>
    intro e
    simp only [renderToks, needSep, Bool.false_eq_true, if_false, List.nil_append] at e
    exact (tok_text t (hw t (by simp))).1 (List.append_eq_nil_iff.mp e).1

theorem comp_label (a b : List Tok) (ha : ∀ t ∈ a, t.wf = true) (hb : ∀ t ∈ b, t.wf = true) (na : a ≠ []) (nb : b ≠ []) :
    cmpRHComp (renderToks none a) (renderToks none b) = labelCmp a b := by
  rw [cmpRHComp_eq]
  unfold cmpRHCompT thenCmp cmpOn
  rw [rhKey_render a ha, rhKey_render b hb, label_agree]
  have h1 : (renderToks none a).isEmpty = false := by
    cases h : renderToks none a with
    | nil => exact absurd h (renderToks_ne a ha na)
    | cons _ _ => rfl
  have h2 : (renderToks none b).isEmpty = false := by
    cases h : renderToks none b with
    | nil => exact absurd h (renderToks_ne b hb nb)
    | cons _ _ => rfl
  simp [h1, h2, bcmp, Ordering.then]

theorem comp_epoch (a b : Nat) : cmpRHComp (D a) (D b) = ncmp a b := by
  have := comp_label [.num a] [.num b] (by simp [Tok.wf]) (by simp [Tok.wf]) (by simp) (by simp)
  simp only [renderToks, needSep, Bool.false_eq_true, if_false, List.nil_append, Tok.text, List.append_nil] at this
  rw [show D a = Nat.toDigits 10 a from rfl, show D b = Nat.toDigits 10 b from rfl, this]
  simp [labelCmp, cmpPad, cmpPadL, posCmp, rank, sameKind, ncmp_isCmp.refl, Ordering.then]
  cases ncmp a b <;> rfl

/-- the release text the implementation keeps (`"-" + release`, or the empty string) -/
theorem comp_release (a b : V) (ha : a.wf = true) (hb : b.wf = true) :
    cmpRHComp a.relText b.relText = relCmp a.release b.release := by
  have wfr : ∀ v : V, v.wf = true → ∀ r, v.release = some r → (∀ t ∈ r, t.wf = true) ∧ r ≠ [] := by
    intro v hv r hr
    simp only [V.wf, hr, Bool.and_eq_true, Bool.not_eq_true'] at hv
    refine ⟨fun t ht => List.all_eq_true.mp hv.2.2 t ht, ?_⟩
    intro e; rw [e] at hv; simp at hv
  unfold V.relText
  cases hra : a.release with
  | none =>
    cases hrb : b.release with
    | none => simp [cmpRHComp, relCmp, cmpRHLoop, startsWith, ncmp]
    | some r => simp [cmpRHComp, relCmp]
  | some r =>
    cases hrb : b.release with
    | none => simp [cmpRHComp, relCmp]
    | some r' =>
      obtain ⟨w1, n1⟩ := wfr a ha r hra
      obtain ⟨w2, n2⟩ := wfr b hb r' hrb
      simp only [relCmp]
      rw [← comp_label r r' w1 w2 n1 n2, cmpRHComp_eq, cmpRHComp_eq]
      unfold cmpRHCompT thenCmp cmpOn
      rw [rhKey_dash, rhKey_dash]
      have h1 : (renderToks none r).isEmpty = false := by
        cases h : renderToks none r with
        | nil => exact absurd h (renderToks_ne r w1 n1)
        | cons _ _ => rfl
      have h2 : (renderToks none r').isEmpty = false := by
        cases h : renderToks none r' with
        | nil => exact absurd h (renderToks_ne r' w2 n2)
        | cons _ _ => rfl
      simp [h1, h2, bcmp, Ordering.then]

/-! ## parsing the canonical text -/

theorem renderToks_chars : ∀ (toks : List Tok) (prev : Option Tok), (∀ t ∈ toks, t.wf = true) →
    ∀ c ∈ renderToks prev toks, c ≠ ':' ∧ c ≠ '-' := by
  intro toks; induction toks with
  | nil => intro _ _ c hc; simp [renderToks] at hc
  | cons t rest ih =>
    intro prev hw c hc
    simp only [renderToks, List.mem_append] at hc
    rcases hc with hc | hc | hc
    · split at hc
      · simp at hc; subst hc; exact ⟨by decide, by decide⟩
      · simp at hc
    · exact (tok_text t (hw t (by simp))).2.2 c hc
    · exact ih (some t) (fun x hx => hw x (by simp [hx])) c hc

theorem parseRH_render (v : V) (hw : v.wf = true) :
    parseRH (render v) = ⟨D v.epoch, renderToks none v.version, v.relText⟩ := by
  have hw' := hw
  simp only [V.wf, Bool.and_eq_true, Bool.not_eq_true'] at hw'
  obtain ⟨⟨_, hver⟩, hrel⟩ := hw'
  have hvw : ∀ t ∈ v.version, t.wf = true := fun t ht => List.all_eq_true.mp hver t ht
  have hvc := renderToks_chars v.version none hvw
  have hbody : ∀ c ∈ renderToks none v.version ++ v.relText, c ≠ ':' := by
    intro c hc
    simp only [List.mem_append] at hc
    rcases hc with hc | hc
    · exact (hvc c hc).1
    · unfold V.relText at hc
      cases hr : v.release with
      | none => rw [hr] at hc; simp at hc
      | some r =>
        rw [hr] at hc hrel
        simp only [Bool.and_eq_true] at hrel
        simp only [List.mem_cons] at hc
        rcases hc with hc | hc
        · subst hc; decide
        · exact (renderToks_chars r none (fun t ht => List.all_eq_true.mp hrel.2 t ht) c hc).1
  have hcutv : cutAt '-' (renderToks none v.version ++ v.relText) =
      (match v.release with
       | some r => some (renderToks none v.version, renderToks none r)
       | none => none) := by
    unfold V.relText
    cases hr : v.release with
    | none => simp only [List.append_nil]; exact cutAt_none '-' _ (fun c hc => (hvc c hc).2)
    | some r => exact cutAt_append_sep '-' _ _ (fun c hc => (hvc c hc).2)
  unfold parseRH render
  by_cases he : v.epoch = 0
  · simp only [he, if_true, List.nil_append]
    rw [cutAt_none ':' _ hbody]
    simp only [cutAt, hcutv]
    cases hr : v.release <;> simp [V.relText, hr, D]
  · simp only [he, if_false, List.append_assoc, List.singleton_append]
    have : cutAt ':' (Nat.toDigits 10 v.epoch ++ ':' :: (renderToks none v.version ++ v.relText)) =
        some (D v.epoch, renderToks none v.version ++ v.relText) :=
      cutAt_append_sep ':' (D v.epoch) _ (D_no v.epoch ':' (by decide))
    rw [this]
    simp only [cutAt_none '-' (D v.epoch) (D_no v.epoch '-' (by decide)), hcutv, isEmpty_D]
    cases hr : v.release <;> simp [V.relText, hr]

/-- rpm's documented version comparison on every canonically rendered version -/
theorem redhat_spec (a b : V) (ha : a.wf = true) (hb : b.wf = true) :
    compareStr .redhat (render a) (render b) = .ofOrd (RpmSpec.specCmp a b) := by
  show redhatFam.compareStr (render a) (render b) = _
  simp only [Family.compareStr, Family.cmpParsed, redhatFam_parse, redhatFam_cmp, CRes.toOutcome, parseRH_render a ha, parseRH_render b hb]
  congr 1
  have split : ∀ v : V, v.wf = true → (∀ t ∈ v.version, t.wf = true) ∧ v.version ≠ [] := by
    intro v hv
    simp only [V.wf, Bool.and_eq_true, Bool.not_eq_true'] at hv
    refine ⟨fun t ht => List.all_eq_true.mp hv.1.2 t ht, ?_⟩
    intro e; rw [e] at hv; simp at hv
  obtain ⟨aw, an⟩ := split a ha
  obtain ⟨bw, bn⟩ := split b hb
  unfold cmpRH RpmSpec.specCmp
  rw [comp_epoch, comp_label _ _ aw bw an bn, comp_release a b ha hb]

end Scalibr.Semantic
