/-
C07 — PyPI: the comparison is a lexicographic product of seven keys; `comparePre` indexes
`pre.letter[0]`, which is safe because `parseLetterVersion` never returns a number without a letter.
-/
import Scalibr.Proofs.Semantic.Simple
namespace Scalibr.Semantic

/-- the invariant `parseLetterVersion` establishes for the pre-release segment -/
def PyV.wf (v : PyV) : Prop := v.pre.num.isSome = true → v.pre.letter ≠ []

/-- (phase, first letter, number): the dev-only trick sorts first, "no pre-release" last -/
def preKey (v : PyV) : Nat × Nat × Int :=
  if preTrick v then (0, 0, 0)
  else
    match v.pre.num with
    | none => (2, 0, 0)
    | some x => (1, (v.pre.letter.headD ' ').toNat, x)

def tripleCmp : Nat × Nat × Int → Nat × Nat × Int → Ordering :=
  thenCmp (cmpOn (·.1) ncmp) (thenCmp (cmpOn (·.2.1) ncmp) (cmpOn (·.2.2) icmp))

theorem tripleCmp_isCmp : IsCmp tripleCmp :=
  thenCmp_isCmp (cmpOn_isCmp _ ncmp_isCmp) (thenCmp_isCmp (cmpOn_isCmp _ ncmp_isCmp) (cmpOn_isCmp _ icmp_isCmp))

def cmpPyPreT (v w : PyV) : Ordering := cmpOn preKey tripleCmp v w

theorem cmpPyPreT_isCmp : IsCmp cmpPyPreT := cmpOn_isCmp preKey tripleCmp_isCmp

theorem ncmp_then_icmp (a b : Nat) (x y : Int) :
    (if a > b then CRes.ord .gt else if a < b then CRes.ord .lt else CRes.ord (icmp x y)) =
      CRes.ord ((ncmp a b).then (icmp x y)) := by
  unfold ncmp
  by_cases h1 : a < b
  · have : ¬ a > b := by omega
    simp [h1, this, Ordering.then]
  · by_cases h2 : a = b
    · subst h2; simp [Ordering.then]
    · have : a > b := by omega
      simp [h1, h2, this, Ordering.then]

theorem preKey_trick (v : PyV) (h : preTrick v = true) : preKey v = (0, 0, 0) := by simp [preKey, h]
theorem preKey_none (v : PyV) (h : preTrick v = false) (hn : v.pre.num = none) : preKey v = (2, 0, 0) := by
  simp [preKey, h, hn]
theorem preKey_some (v : PyV) (h : preTrick v = false) (x : Int) (hn : v.pre.num = some x) (a : Char) (l : List Char)
    (hl : v.pre.letter = a :: l) : preKey v = (1, a.toNat, x) := by
  simp [preKey, h, hn, hl]

theorem tripleCmp_mk (p1 p2 : Nat) (p3 : Int) (q1 q2 : Nat) (q3 : Int) :
    tripleCmp (p1, p2, p3) (q1, q2, q3) = (ncmp p1 q1).then ((ncmp p2 q2).then (icmp p3 q3)) := rfl

theorem ncmp_self (a : Nat) : ncmp a a = .eq := ncmp_isCmp.refl a

theorem cmpPyPre_eq (v w : PyV) (hv : v.wf) (hw : w.wf) : cmpPyPre v w = .ord (cmpPyPreT v w) := by
  unfold cmpPyPreT cmpOn
  cases tv : preTrick v with
  | true =>
    rw [preKey_trick v tv]
    cases tw : preTrick w with
    | true => rw [preKey_trick w tw]; simp [cmpPyPre, tv, tw]; decide
    | false =>
      have hlt : ∀ k, tripleCmp (0, 0, 0) k = .lt ∨ k.1 = 0 := by
        intro k; obtain ⟨k1, k2, k3⟩ := k
        rw [tripleCmp_mk]
        by_cases h0 : k1 = 0
        · exact Or.inr h0
        · left; have : ncmp 0 k1 = .lt := ncmp_lt.mpr (by omega)
          rw [this]; rfl
      cases hwn : w.pre.num with
      | none =>
        rw [preKey_none w tw hwn]; simp [cmpPyPre, tv, tw]; decide
      | some y =>
        have h2 := hw (by simp [hwn])
        cases hm : w.pre.letter with
        | nil => exact absurd hm h2
        | cons b l =>
          rw [preKey_some w tw y hwn b l hm, tripleCmp_mk]
          simp [cmpPyPre, tv, tw]
          have : ncmp 0 1 = .lt := by decide
          rw [this]; rfl
  | false =>
    cases tw : preTrick w with
    | true =>
      rw [preKey_trick w tw]
      cases hvn : v.pre.num with
      | none => rw [preKey_none v tv hvn]; simp [cmpPyPre, tv, tw]; decide
      | some x =>
        have h1 := hv (by simp [hvn])
        cases hl : v.pre.letter with
        | nil => exact absurd hl h1
        | cons a l =>
          rw [preKey_some v tv x hvn a l hl, tripleCmp_mk]
          simp [cmpPyPre, tv, tw]
          have : ncmp 1 0 = .gt := by decide
          rw [this]; rfl
    | false =>
      cases hvn : v.pre.num with
      | none =>
        rw [preKey_none v tv hvn]
        cases hwn : w.pre.num with
        | none => rw [preKey_none w tw hwn]; simp [cmpPyPre, tv, tw, hvn, hwn]; decide
        | some y =>
          have h2 := hw (by simp [hwn])
          cases hm : w.pre.letter with
          | nil => exact absurd hm h2
          | cons b l =>
            rw [preKey_some w tw y hwn b l hm, tripleCmp_mk]
            simp [cmpPyPre, tv, tw, hvn, hwn]
            have : ncmp 2 1 = .gt := by decide
            rw [this]; rfl
      | some x =>
        have h1 := hv (by simp [hvn])
        cases hl : v.pre.letter with
        | nil => exact absurd hl h1
        | cons a l =>
          rw [preKey_some v tv x hvn a l hl]
          cases hwn : w.pre.num with
          | none =>
            rw [preKey_none w tw hwn, tripleCmp_mk]
            simp [cmpPyPre, tv, tw, hvn, hwn]
            have : ncmp 1 2 = .lt := by decide
            rw [this]; rfl
          | some y =>
            have h2 := hw (by simp [hwn])
            cases hm : w.pre.letter with
            | nil => exact absurd hm h2
            | cons b l' =>
              rw [preKey_some w tw y hwn b l' hm, tripleCmp_mk, ncmp_self]
              simp only [cmpPyPre, tv, tw, hvn, hwn, hl, hm, Bool.false_and, Bool.false_eq_true, if_false]
              rw [ncmp_then_icmp]; rfl

/-- legacy versions sort below PEP 440 versions, among themselves by their joined parts -/
def legKey (v : PyV) : List Char ⊕ Unit := if v.legacy.isEmpty then .inr () else .inl v.legacy.flatten

theorem cmpPyLegacy_eq (v w : PyV) : cmpPyLegacy v w = cmpOn legKey (cmpSum strCmp unitCmp) v w := by
  unfold cmpPyLegacy cmpOn legKey
  cases hv : v.legacy.isEmpty <;> cases hw : w.legacy.isEmpty <;> simp [cmpSum, unitCmp]

theorem cmpPyLegacy_isCmp : IsCmp cmpPyLegacy :=
  (cmpOn_isCmp legKey (cmpSum_isCmp strCmp_isCmp unitCmp_isCmp)).congr cmpPyLegacy_eq

theorem cmpPyPost_isCmp : IsCmp cmpPyPost :=
  (cmpOn_isCmp (fun v : PyV => v.post.num) (optLeast_isCmp icmp_isCmp)).congr (fun v w => by
    simp only [cmpPyPost, cmpOn]
    cases v.post.num <;> cases w.post.num <;> rfl)

theorem cmpPyDev_isCmp : IsCmp cmpPyDev :=
  (cmpOn_isCmp (fun v : PyV => v.dev.num) (optGreatest_isCmp icmp_isCmp)).congr (fun v w => by
    simp only [cmpPyDev, cmpOn]
    cases v.dev.num <;> cases w.dev.num <;> rfl)

theorem cmpPyLocal_isCmp : IsCmp cmpPyLocal := cmpLex_isCmp localElem_isCmp

/-- `pypiCompareVersion` as a total function -/
def cmpPyT (v w : PyV) : Ordering :=
  ((cmpPyLegacy v w).then ((icmp v.epoch w.epoch).then (compsCmp v.release w.release))).then
    ((cmpPyPreT v w).then ((cmpPyPost v w).then ((cmpPyDev v w).then (cmpPyLocal v.loc w.loc))))

theorem cmpPyT_isCmp : IsCmp cmpPyT :=
  (thenCmp_isCmp
    (thenCmp_isCmp cmpPyLegacy_isCmp (thenCmp_isCmp (cmpOn_isCmp PyV.epoch icmp_isCmp) (cmpOn_isCmp PyV.release compsCmp_isCmp)))
    (thenCmp_isCmp cmpPyPreT_isCmp (thenCmp_isCmp cmpPyPost_isCmp (thenCmp_isCmp cmpPyDev_isCmp (cmpOn_isCmp PyV.loc cmpPyLocal_isCmp))))).congr
    (fun _ _ => rfl)

theorem cmpPy_eq (v w : PyV) (hv : v.wf) (hw : w.wf) : cmpPy v w = .ord (cmpPyT v w) := by
  unfold cmpPy cmpPyT
  rw [cmpPyPre_eq v w hv hw]
  generalize (cmpPyLegacy v w).then ((icmp v.epoch w.epoch).then (compsCmp v.release w.release)) = o1
  generalize cmpPyPreT v w = o2
  cases o1 <;> cases o2 <;> simp [ordThen, CRes.andThen, Ordering.then]

/-! ## the parser establishes the invariant -/

theorem letterVer_wf (l n : List Char) (ln : LN) (h : letterVer l n = some ln) :
    ln.num.isSome = true → ln.letter ≠ [] := by
  unfold letterVer at h
  by_cases hl : l.isEmpty = true
  · simp only [hl, Bool.not_true, Bool.false_eq_true, if_false] at h
    by_cases hn : n.isEmpty = true
    · simp [hn] at h; subst h; simp
    · simp only [hn, Bool.not_false, if_true] at h
      cases hb : toBig n with
      | none => simp [hb] at h
      | some x => simp [hb] at h; subst h; simp
  · simp only [hl, Bool.not_false, if_true] at h
    intro _
    have hne : lowerStr l ≠ [] := by
      cases l with
      | nil => simp at hl
      | cons a as => simp [lowerStr]
    revert h
    split
    · simp
    · intro h
      injection h with h
      subst h
      simp only
      split
      · simp
      · split
        · simp
        · split
          · simp
          · split
            · simp
            · exact hne

theorem parsePy_wf (s : List Char) (v : PyV) (h : parsePy s = .ok v) : v.wf := by
  unfold parsePy at h
  simp only at h
  split at h
  · injection h with h; subst h; intro hc; simp at hc
  · split at h
    · exact absurd h (by simp)
    · split at h
      · exact absurd h (by simp)
      · split at h
        · exact absurd h (by simp)
        · rename_i pre hpre
          split at h
          · exact absurd h (by simp)
          · split at h
            · exact absurd h (by simp)
            · injection h with h; subst h
              exact letterVer_wf _ _ pre hpre

theorem parsePy_nopanic (s : List Char) : parsePy s ≠ .panic := by
  unfold parsePy
  simp only
  split
  · simp
  · split
    · simp
    · split
      · simp
      · split
        · simp
        · split
          · simp
          · split <;> simp

theorem pypi_laws : FamLaws pypiFam PyV.wf cmpPyT where
  parse_nopanic := parsePy_nopanic
  parse_wf := parsePy_wf
  cmp_eq := cmpPy_eq
  refl := fun v _ => cmpPyT_isCmp.refl v
  swap := fun v w _ _ => cmpPyT_isCmp.swap v w

end Scalibr.Semantic
