/-
C07 — the readers the driver uses for the published-rule oracle invert `render` (CRAN, RubyGems,
Debian/Ubuntu): every well-formed canonical version is read back from its text, so the verdict the
driver prints for a canonical pair is `specCmp` of exactly the versions the agreement theorems
speak about.
-/
import Scalibr.Proofs.Semantic.SpecRubyGems
import Scalibr.Proofs.Semantic.SpecCran
import Scalibr.Proofs.Semantic.PepStages
namespace Scalibr.Semantic

theorem readNum_D (f : List Char → Option Nat)
    (hf : ∀ s, f s = if s.isEmpty || !s.all isDigit then none else some (digitsToNat s)) (n : Nat) : f (D n) = some n := by
  rw [hf]; simp [isEmpty_D, D_all, D_val]

theorem D_digit_list (n : Nat) : ∀ x ∈ D n, isDigit x = true := fun x hx => List.all_eq_true.mp (D_all n) x hx

/-! ## CRAN -/

theorem cran_rest_stops (rest : List (Bool × Nat)) :
    CranSpec.renderRest rest = [] ∨ ∃ c t, CranSpec.renderRest rest = c :: t ∧ isDigit c = false := by
  cases rest with
  | nil => left; rfl
  | cons p ps =>
    obtain ⟨s, n⟩ := p
    right
    cases s
    · exact ⟨'.', _, rfl, by decide⟩
    · exact ⟨'-', _, rfl, by decide⟩

theorem cran_readRest : ∀ (rest : List (Bool × Nat)) (fuel : Nat), (CranSpec.renderRest rest).length < fuel →
    CranSpec.readRest fuel (CranSpec.renderRest rest) = some rest := by
  intro rest; induction rest with
  | nil => intro fuel h; cases fuel with
    | zero => omega
    | succ f => rfl
  | cons p ps ih =>
    intro fuel h
    obtain ⟨s, n⟩ := p
    cases fuel with
    | zero => omega
    | succ f =>
      obtain ⟨tw, dw⟩ := takeWhile_append_stop isDigit (D n) (CranSpec.renderRest ps) (D_digit_list n) (cran_rest_stops ps)
      have hlen : (CranSpec.renderRest ps).length < f := by
        simp only [CranSpec.renderRest, List.length_cons, List.length_append] at h; omega
      have hnum : CranSpec.readNum (D n) = some n := readNum_D CranSpec.readNum (fun _ => rfl) n
      cases s with
      | false =>
        simp only [CranSpec.renderRest, Bool.false_eq_true, if_false, CranSpec.readRest]
        have : (Nat.toDigits 10 n ++ CranSpec.renderRest ps) = D n ++ CranSpec.renderRest ps := rfl
        rw [this, tw, dw, hnum, ih f hlen]
        simp
      | true =>
        simp only [CranSpec.renderRest, if_true, CranSpec.readRest]
        have : (Nat.toDigits 10 n ++ CranSpec.renderRest ps) = D n ++ CranSpec.renderRest ps := rfl
        rw [this, tw, dw, hnum, ih f hlen]
        simp

theorem cran_specParse_render (v : CranSpec.V) : CranSpec.specParse (CranSpec.render v) = some v := by
  unfold CranSpec.specParse CranSpec.render
  have : (Nat.toDigits 10 v.first ++ CranSpec.renderRest v.rest) = D v.first ++ CranSpec.renderRest v.rest := rfl
  rw [this]
  obtain ⟨tw, dw⟩ := takeWhile_append_stop isDigit (D v.first) (CranSpec.renderRest v.rest) (D_digit_list _) (cran_rest_stops v.rest)
  rw [tw, dw, readNum_D CranSpec.readNum (fun _ => rfl), cran_readRest v.rest _ (by simp only [List.length_append]; omega)]

/-! ## RubyGems -/

open RubySpec in
theorem ruby_readRuns_seg (s : Seg) (hw : s.wf = true) (fuel : Nat) (hf : 2 ≤ fuel) :
    readRuns fuel s.render = some [s] := by
  match fuel, hf with
  | f + 2, _ =>
    cases s with
    | num n =>
      obtain ⟨d, ds, hD, hd⟩ := D_cons n
      have htw : (D n).takeWhile isDigit = D n := by
        have := (takeWhile_append_stop isDigit (D n) [] (D_digit_list n) (Or.inl rfl)).1; simpa using this
      have hdw : (D n).dropWhile isDigit = [] := by
        have := (takeWhile_append_stop isDigit (D n) [] (D_digit_list n) (Or.inl rfl)).2; simpa using this
      have hcanon : ((D n).length > 1 && (D n).head? = some '0') = false := by
        cases h : ((D n).length > 1 && (D n).head? = some '0') with
        | false => rfl
        | true =>
          simp only [Bool.and_eq_true, decide_eq_true_eq, beq_iff_eq] at h
          by_cases hn : n < 10
          · have : D n = [n.digitChar] := Nat.toDigits_of_lt_base hn
            rw [this] at h; simp at h
          · obtain ⟨c, r, h1, h2⟩ := D_head (n + 1) n (by omega) (by omega)
            rw [h1] at h; simp at h; exact absurd h.2 h2
      show readRuns (f + 2) (D n) = _
      rw [hD]
      simp only [readRuns, hd, if_true]
      rw [← hD, htw, hdw, hcanon]
      simp [readRuns, D_val]
    | str t =>
      simp only [Seg.wf, Bool.and_eq_true, Bool.not_eq_true'] at hw
      have hl : ∀ x ∈ t, isLetter x = true := fun x hx => List.all_eq_true.mp hw.2 x hx
      cases t with
      | nil => simp at hw
      | cons c cs =>
        have hc := hl c (by simp)
        have hnd := (letter_props c hc).1
        obtain ⟨tw, dw⟩ := takeWhile_append_stop isLetter (c :: cs) [] hl (Or.inl rfl)
        simp only [List.append_nil] at tw dw
        simp only [Seg.render, readRuns, hnd, Bool.false_eq_true, if_false, hc, if_true, tw, dw]

open RubySpec in
theorem ruby_readParts : ∀ (segs : List Seg), (∀ s ∈ segs, s.wf = true) →
    readParts (segs.map Seg.render) = some segs := by
  intro segs; induction segs with
  | nil => intro _; rfl
  | cons s rest ih =>
    intro hw
    have hs := hw s (by simp)
    have hne : s.render.isEmpty = false := by
      cases h : s.render with
      | nil => exact absurd h (render_kind s hs).1
      | cons _ _ => rfl
    have hlen : 2 ≤ s.render.length + 1 := by
      cases h : s.render with
      | nil => rw [h] at hne; simp at hne
      | cons _ _ => simp
    simp only [List.map, readParts, hne, Bool.false_eq_true, if_false, ruby_readRuns_seg s hs _ hlen,
      ih (fun x hx => hw x (by simp [hx]))]
    simp

open RubySpec in
theorem rubygems_specParse_render (v : V) (hw : v.wf = true) : RubySpec.specParse (render v) = some v := by
  have hsegs : ∀ s ∈ v.segs, s.wf = true := by
    simp only [V.wf, Bool.and_eq_true] at hw
    exact fun s hs => List.all_eq_true.mp hw.2 s hs
  have hne : v.segs ≠ [] := by
    intro e; simp only [V.wf, e, Bool.and_eq_true] at hw; simp at hw
  have hsplit : splitOn '.' (render v) = v.segs.map Seg.render := by
    unfold render
    apply splitOn_joinDots
    · intro e; apply hne; simpa using e
    · intro t ht c hc
      simp only [List.mem_map] at ht
      obtain ⟨s, hs, e⟩ := ht
      subst e
      exact ((render_kind s (hsegs s hs)).2 c hc).2
  unfold RubySpec.specParse
  rw [hsplit, ruby_readParts v.segs hsegs]
  obtain ⟨segs⟩ := v
  cases segs with
  | nil => exact absurd rfl hne
  | cons s rest =>
    cases s with
    | num n => rfl
    | str t => simp [V.wf] at hw

/-! ## Debian / Ubuntu -/

open DebSpec in
theorem deb_readPart (h : Bool) : ∀ (segs : List Seg) (first : Bool), partWf h first segs = true →
    ∀ fuel, (renderPart segs).length < fuel → readPart h fuel (renderPart segs) = some segs := by
  intro segs; induction segs with
  | nil => intro _ _ fuel hf; cases fuel with
    | zero => omega
    | succ f => rfl
  | cons s rest ih =>
    intro first hw fuel hf
    simp only [partWf, Bool.and_eq_true] at hw
    obtain ⟨⟨hall, hfirst⟩, hnum⟩ := hw
    have hnd : ∀ c ∈ s.nd, notDigit c = true := by
      intro c hc
      have := (ndChar_props h c (List.all_eq_true.mp hall c hc)).1
      simp [notDigit, this]
    cases fuel with
    | zero => omega
    | succ f =>
      cases hn : s.num with
      | some n =>
        rw [hn] at hnum
        simp only at hnum
        have hR := partWf_head h rest hnum
        have hrender : renderPart (s :: rest) = s.nd ++ (D n ++ renderPart rest) := by
          simp [renderPart, Seg.render, Seg.digits, hn, D]
        have hstop1 : (D n ++ renderPart rest) = [] ∨ ∃ c t, (D n ++ renderPart rest) = c :: t ∧ notDigit c = false := by
          right
          obtain ⟨d, ds, hD, hd⟩ := D_cons n
          exact ⟨d, ds ++ renderPart rest, by rw [hD]; rfl, by simp [notDigit, hd]⟩
        obtain ⟨t1, d1⟩ := takeWhile_append_stop notDigit s.nd (D n ++ renderPart rest) hnd hstop1
        obtain ⟨t2, d2⟩ := takeWhile_append_stop isDigit (D n) (renderPart rest) (D_digit_list n) hR
        have hne : (renderPart (s :: rest)).isEmpty = false := by
          rw [hrender]
          obtain ⟨d, ds, hD, _⟩ := D_cons n
          rw [hD]; cases s.nd <;> simp
        have hlen : (renderPart rest).length < f := by
          rw [hrender] at hf
          simp only [List.length_append] at hf
          have : 0 < (D n).length := by obtain ⟨d, ds, hD, _⟩ := D_cons n; rw [hD]; simp
          omega
        have e1 : (renderPart (s :: rest)).takeWhile (fun c => !isDigit c) = s.nd := by rw [hrender]; exact t1
        have e2 : (renderPart (s :: rest)).dropWhile (fun c => !isDigit c) = D n ++ renderPart rest := by rw [hrender]; exact d1
        simp only [readPart, hne, Bool.false_eq_true, if_false, e1, e2, t2, d2, hall, Bool.not_true, isEmpty_D, D_val,
          ih false hnum f hlen]
        cases s; simp_all
      | none =>
        rw [hn] at hnum
        simp only [Bool.and_eq_true, Bool.not_eq_true'] at hnum
        have hrest : rest = [] := by cases rest <;> simp_all
        subst hrest
        have hrender : renderPart [s] = s.nd := by simp [renderPart, Seg.render, Seg.digits, hn]
        have hne : (renderPart [s]).isEmpty = false := by rw [hrender]; exact hnum.2
        obtain ⟨t1, d1⟩ := takeWhile_append_stop notDigit s.nd [] hnd (Or.inl rfl)
        simp only [List.append_nil] at t1 d1
        have e1 : (renderPart [s]).takeWhile (fun c => !isDigit c) = s.nd := by rw [hrender]; exact t1
        have e2 : (renderPart [s]).dropWhile (fun c => !isDigit c) = [] := by rw [hrender]; exact d1
        simp only [readPart, hne, Bool.false_eq_true, if_false, e1, e2, hall, Bool.not_true, List.takeWhile_nil, List.isEmpty_nil, if_true]
        cases s; simp_all

open DebSpec in
/-- how the canonical text splits at the epoch colon and at the last hyphen -/
theorem deb_cuts (v : V) (hw : v.wf = true) :
    (cutAt ':' (render v) = if v.epoch = 0 then none else some (D v.epoch, bodyOf v)) ∧
    (v.epoch = 0 → render v = bodyOf v) ∧
    (∀ r, v.revision = some r → cutLast '-' (bodyOf v) = some (renderPart v.upstream, renderPart r)) ∧
    (v.revision = none → cutLast '-' (bodyOf v) = none ∧ bodyOf v = renderPart v.upstream) := by
  obtain ⟨epoch, up, rev⟩ := v
  simp only [V.wf, Bool.and_eq_true, Bool.not_eq_true'] at hw
  obtain ⟨⟨_, hup⟩, hrev⟩ := hw
  have hupc := (partWf_chars _ up true hup).2
  have hbody_chars : ∀ c ∈ bodyOf ⟨epoch, up, rev⟩, c ≠ ':' := by
    intro c hc
    simp only [bodyOf, List.mem_append] at hc
    rcases hc with hc | hc
    · rcases hupc c hc with h | h
      · exact (digit_props c h).1
      · exact (ndChar_props _ c h).2.1
    · cases rev with
      | none => simp [V.revTail] at hc
      | some r =>
        simp only [V.revTail, List.mem_cons] at hc
        rcases hc with hc | hc
        · subst hc; decide
        · simp only [Bool.and_eq_true] at hrev
          rcases (partWf_chars false r true hrev.2).2 c hc with h | h
          · exact (digit_props c h).1
          · exact (ndChar_props _ c h).2.1
  have hrender : render ⟨epoch, up, rev⟩ = (if epoch = 0 then [] else D epoch ++ [':']) ++ bodyOf ⟨epoch, up, rev⟩ := rfl
  refine ⟨?_, ?_, ?_, ?_⟩
  · rw [hrender]
    by_cases he : epoch = 0
    · subst he
      simp only [if_true, List.nil_append]
      exact cutAt_none ':' _ hbody_chars
    · simp only [he, if_false, List.append_assoc, List.singleton_append]
      exact cutAt_append_sep ':' (D epoch) _ (D_no epoch ':' (by decide))
  · intro he; simp only at he; rw [hrender]; simp [he]
  · intro r hr
    simp only at hr
    subst hr
    simp only [Bool.and_eq_true] at hrev
    have hr' : ∀ c ∈ renderPart r, c ≠ '-' := by
      intro c hc
      rcases (partWf_chars false r true hrev.2).2 c hc with h | h
      · exact (digit_props c h).2.1
      · exact (ndChar_props false c h).2.2.2 rfl
    simp only [bodyOf, V.revTail]
    exact cutLast_append_sep '-' _ _ hr'
  · intro hr
    simp only at hr
    subst hr
    have hu : ∀ c ∈ renderPart up, c ≠ '-' := by
      intro c hc
      rcases hupc c hc with h | h
      · exact (digit_props c h).2.1
      · exact (ndChar_props false c (by simpa using h)).2.2.2 rfl
    have hbody : bodyOf ⟨epoch, up, none⟩ = renderPart up := by simp [bodyOf, V.revTail]
    exact ⟨by rw [hbody]; exact cutLast_none '-' _ hu, hbody⟩

open DebSpec in
theorem debian_specParse_render (v : V) (hw : v.wf = true) : DebSpec.specParse (render v) = some v := by
  obtain ⟨c1, c2, c3, c4⟩ := deb_cuts v hw
  have hw' := hw
  simp only [V.wf, Bool.and_eq_true, Bool.not_eq_true'] at hw'
  obtain ⟨⟨hune, hup⟩, hrev⟩ := hw'
  have hnum : ∀ n, DebSpec.readNum (D n) = some n := fun n => readNum_D DebSpec.readNum (fun _ => rfl) n
  unfold DebSpec.specParse
  rw [c1]
  obtain ⟨epoch, up, rev⟩ := v
  cases rev with
  | some r =>
    simp only [Bool.and_eq_true, Bool.not_eq_true'] at hrev
    have hu := deb_readPart true up true (by simpa using hup) ((renderPart up).length + 1) (by omega)
    have hr := deb_readPart false r true hrev.2 ((renderPart r).length + 1) (by omega)
    have hl := c3 r rfl
    by_cases he : epoch = 0
    · subst he
      simp only [if_true]
      rw [c2 rfl, hl]
      simp only [hu, hr]
      simp [hune, hrev.1]
    · simp only [he, if_false, hnum, hl, hu, hr]
      simp [hune, hrev.1]
  | none =>
    obtain ⟨hl, hb⟩ := c4 rfl
    have hl' : cutLast '-' (renderPart up) = none := by
      have := hl; rw [hb] at this; exact this
    have hu := deb_readPart false up true (by simpa using hup) ((renderPart up).length + 1) (by omega)
    by_cases he : epoch = 0
    · subst he
      simp only [if_true]
      rw [c2 rfl, hl, hb]
      simp only [hu]
      simp [hune]
    · simp only [he, if_false, hnum, hl, hl', hb, hu]
      simp [hune]

end Scalibr.Semantic
