/-
C07 — agreement of the semver-like comparison with semver.org §11 on canonically rendered
versions (after the repair 6209aa57 an identifier is numeric only when it consists of ASCII digits,
so `-5` is alphanumeric as semver.org says).
-/
import Scalibr.Proofs.Semantic.MavenTok
namespace Scalibr.Semantic

abbrev D (n : Nat) : List Char := Nat.toDigits 10 n

theorem D_all (n : Nat) : (D n).all isDigit = true := (toDigits_props (n + 1) n (by omega)).1
theorem D_val (n : Nat) : digitsToNat (D n) = n := (toDigits_props (n + 1) n (by omega)).2.1
theorem D_ne (n : Nat) : D n ≠ [] := (toDigits_props (n + 1) n (by omega)).2.2

/-! ## the tokeniser on `digits . digits . digits tail` -/

theorem step_digits : ∀ (ds : List Char), ds.all isDigit = true → ∀ st : SLState, st.found = false →
    ds.foldl semverStep st = { st with cur := st.cur ++ ds } := by
  intro ds; induction ds with
  | nil => intro _ st _; simp
  | cons c cs ih =>
    intro h st hf
    simp only [List.all_cons, Bool.and_eq_true] at h
    simp only [List.foldl]
    have : semverStep st c = { st with cur := st.cur ++ [c] } := by simp [semverStep, hf, h.1]
    rw [this, ih h.2 _ (by simpa using hf)]
    simp

theorem step_found : ∀ (r : List Char) (st : SLState), st.found = true →
    r.foldl semverStep st = { st with cur := st.cur ++ r } := by
  intro r; induction r with
  | nil => intro st _; simp
  | cons c cs ih =>
    intro st hf
    simp only [List.foldl]
    have : semverStep st c = { st with cur := st.cur ++ [c] } := by simp [semverStep, hf]
    rw [this, ih _ (by simpa using hf)]
    simp

theorem digit_ne_v (c : Char) (h : isDigit c = true) : c ≠ 'v' := by
  intro e; subst e; simp [isDigit] at h

/-- what follows the three numbers -/
def buildStr (x : SemVer) : List Char :=
  (if x.pre.isEmpty then [] else '-' :: renderPre x.pre) ++ (if x.build.isEmpty then [] else '+' :: x.build)

theorem buildStr_head (x : SemVer) : buildStr x = [] ∨ ∃ c r, buildStr x = c :: r ∧ (c = '-' ∨ c = '+') := by
  unfold buildStr
  cases hp : x.pre.isEmpty <;> cases hb : x.build.isEmpty <;> simp

theorem isEmpty_D (n : Nat) : (D n).isEmpty = false := by
  cases h : D n with
  | nil => exact absurd h (D_ne n)
  | cons _ _ => rfl

theorem fold_two (n1 n2 : Nat) (rest : List Char) :
    (D n1 ++ ('.' :: (D n2 ++ ('.' :: rest)))).foldl semverStep ⟨[], [], false⟩ =
      rest.foldl semverStep ⟨[(n1 : Int), (n2 : Int)], [], false⟩ := by
  rw [List.foldl_append, step_digits (D n1) (D_all n1) _ rfl]
  simp only [List.foldl_cons, List.nil_append]
  have s1 : semverStep ⟨[], D n1, false⟩ '.' = ⟨[(n1 : Int)], [], false⟩ := by
    simp [semverStep, isDigit, isEmpty_D, D_val]
  rw [s1, List.foldl_append, step_digits (D n2) (D_all n2) _ rfl]
  simp only [List.foldl_cons, List.nil_append]
  have s2 : semverStep ⟨[(n1 : Int)], D n2, false⟩ '.' = ⟨[(n1 : Int), (n2 : Int)], [], false⟩ := by
    simp [semverStep, isDigit, isEmpty_D, D_val]
  rw [s2]

theorem fold_third_end (n1 n2 n3 : Nat) :
    (D n3).foldl semverStep ⟨[(n1 : Int), (n2 : Int)], [], false⟩ = ⟨[(n1 : Int), (n2 : Int)], D n3, false⟩ := by
  rw [step_digits (D n3) (D_all n3) _ rfl]; simp

theorem fold_third_tail (n1 n2 n3 : Nat) (c : Char) (r : List Char) (hc : c = '-' ∨ c = '+') :
    (D n3 ++ c :: r).foldl semverStep ⟨[(n1 : Int), (n2 : Int)], [], false⟩ = ⟨[(n1 : Int), (n2 : Int), (n3 : Int)], c :: r, true⟩ := by
  rw [List.foldl_append, step_digits (D n3) (D_all n3) _ rfl]
  simp only [List.foldl_cons, List.nil_append]
  have hcd : isDigit c = false := by rcases hc with hc | hc <;> subst hc <;> decide
  have hcp : c ≠ '.' := by rcases hc with hc | hc <;> subst hc <;> decide
  have s3 : semverStep ⟨[(n1 : Int), (n2 : Int)], D n3, false⟩ c = ⟨[(n1 : Int), (n2 : Int), (n3 : Int)], [c], true⟩ := by
    simp [semverStep, hcd, hcp, isEmpty_D, D_val]
  rw [s3, step_found r _ rfl]
  simp

theorem stripV_D (n : Nat) (rest : List Char) : stripV (D n ++ rest) = D n ++ rest := by
  cases h : D n with
  | nil => exact absurd h (D_ne n)
  | cons c cs =>
    have hc : isDigit c = true := by have := D_all n; rw [h] at this; simp at this; exact this.1
    have := digit_ne_v c hc
    simp only [List.cons_append]
    unfold stripV
    split
    · rename_i r heq; injection heq with e _; exact absurd e this
    · rfl

theorem parseLike_three (n1 n2 n3 : Nat) (tail : List Char)
    (ht : tail = [] ∨ ∃ c r, tail = c :: r ∧ (c = '-' ∨ c = '+')) :
    parseSemverLike (D n1 ++ ('.' :: (D n2 ++ ('.' :: (D n3 ++ tail))))) = ⟨[(n1 : Int), (n2 : Int), (n3 : Int)], tail⟩ := by
  unfold parseSemverLike
  simp only [stripV_D, fold_two]
  rcases ht with ht | ⟨c, r, ht, hc⟩
  · subst ht
    simp only [List.append_nil, fold_third_end]
    simp [isEmpty_D, D_val]
  · subst ht
    simp only [fold_third_tail n1 n2 n3 c r hc]
    simp

theorem parse_render (x : SemVer) :
    parseSemver 3 x.render = ⟨[(x.major : Int), (x.minor : Int), (x.patch : Int)], buildStr x⟩ := by
  unfold parseSemver SemVer.render
  have := parseLike_three x.major x.minor x.patch (buildStr x) (buildStr_head x)
  unfold buildStr at this
  simp only [D] at this
  rw [this]
  simp [buildStr]

/-! ## the three numbers -/

theorem icmp_cast (a b : Nat) : icmp (a : Int) (b : Int) = ncmp a b := by
  unfold icmp ncmp
  by_cases h1 : a < b
  · have : (a : Int) < b := by omega
    simp [h1, this]
  · by_cases h2 : a = b
    · subst h2; simp
    · have h3 : ¬ (a : Int) < b := by omega
      have h4 : ¬ (a : Int) = b := by omega
      simp [h1, h2, h3, h4]

theorem compsCmp_three (a1 a2 a3 b1 b2 b3 : Nat) :
    compsCmp [(a1 : Int), (a2 : Int), (a3 : Int)] [(b1 : Int), (b2 : Int), (b3 : Int)] =
      (ncmp a1 b1).then ((ncmp a2 b2).then (ncmp a3 b3)) := by
  simp only [compsCmp, cmpPad, cmpPadL, icmp_cast]
  cases ncmp a1 b1 <;> cases ncmp a2 b2 <;> cases ncmp a3 b3 <;> rfl

/-! ## the pre-release part -/

theorem splitOn_no_sep (sep : Char) : ∀ (P : List Char), (∀ c ∈ P, c ≠ sep) → splitOn sep P = [P] := by
  intro P; induction P with
  | nil => intro _; rfl
  | cons c cs ih =>
    intro h
    have hc := h c (by simp)
    simp only [splitOn, hc, if_false, ih (fun d hd => h d (by simp [hd]))]

theorem splitOn_append_sep (sep : Char) : ∀ (P rest : List Char), (∀ c ∈ P, c ≠ sep) →
    splitOn sep (P ++ sep :: rest) = P :: splitOn sep rest := by
  intro P; induction P with
  | nil => intro rest _; simp [splitOn]
  | cons c cs ih =>
    intro rest h
    have hc := h c (by simp)
    simp only [List.cons_append, splitOn, hc, if_false, ih rest (fun d hd => h d (by simp [hd]))]

theorem identChar_ne (c : Char) (h : identChar c = true) : c ≠ '+' ∧ c ≠ '.' := by
  constructor <;> (intro e; subst e; simp [identChar, isDigit, isLetter, isLower, isUpper] at h)

theorem digit_identChar (c : Char) (h : isDigit c = true) : identChar c = true := by simp [identChar, h]

theorem render_chars (i : Ident) (hw : i.wf = true) : ∀ c ∈ i.render, identChar c = true := by
  cases i with
  | num n =>
    intro c hc
    exact digit_identChar c (List.all_eq_true.mp (D_all n) c hc)
  | alnum s =>
    intro c hc
    simp only [Ident.wf, Bool.and_eq_true] at hw
    exact List.all_eq_true.mp hw.1.2 c hc

theorem render_ne (i : Ident) (hw : i.wf = true) : i.render ≠ [] := by
  cases i with
  | num n => exact D_ne n
  | alnum s =>
    simp only [Ident.wf, Bool.and_eq_true] at hw
    intro e
    simp only [Ident.render] at e
    rw [e] at hw; simp at hw

theorem renderPre_chars : ∀ (p : List Ident), (∀ i ∈ p, i.wf = true) → ∀ c ∈ renderPre p, identChar c = true ∨ c = '.' := by
  intro p; induction p with
  | nil => intro _ c hc; simp [renderPre] at hc
  | cons i rest ih =>
    intro hw c hc
    cases rest with
    | nil => simp only [renderPre] at hc; exact Or.inl (render_chars i (hw i (by simp)) c hc)
    | cons j rest' =>
      simp only [renderPre, List.mem_append, List.mem_cons] at hc
      rcases hc with hc | hc | hc
      · exact Or.inl (render_chars i (hw i (by simp)) c hc)
      · exact Or.inr hc
      · exact ih (fun k hk => hw k (by simp [hk])) c hc

theorem renderPre_ne (i : Ident) (rest : List Ident) (hw : i.wf = true) : renderPre (i :: rest) ≠ [] := by
  cases rest with
  | nil => exact render_ne i hw
  | cons j r => simp [renderPre]

theorem splitOn_renderPre : ∀ (p : List Ident), p ≠ [] → (∀ i ∈ p, i.wf = true) →
    splitOn '.' (renderPre p) = p.map Ident.render := by
  intro p; induction p with
  | nil => intro h; exact absurd rfl h
  | cons i rest ih =>
    intro _ hw
    have hi : ∀ c ∈ i.render, c ≠ '.' := fun c hc => (identChar_ne c (render_chars i (hw i (by simp)) c hc)).2
    cases rest with
    | nil => simp only [renderPre, List.map]; exact splitOn_no_sep '.' _ hi
    | cons j r =>
      simp only [renderPre, List.map]
      rw [splitOn_append_sep '.' _ _ hi, ih (by simp) (fun k hk => hw k (by simp [hk]))]
      rfl

theorem buildCore_buildStr (x : SemVer) (hw : x.wf = true) : buildCore (buildStr x) = renderPre x.pre := by
  simp only [SemVer.wf, Bool.and_eq_true] at hw
  have hpw : ∀ i ∈ x.pre, i.wf = true := fun i hi => List.all_eq_true.mp hw.1 i hi
  unfold buildCore buildStr
  cases hp : x.pre with
  | nil =>
    simp only [List.isEmpty_nil, if_true, List.nil_append, renderPre]
    cases hb : x.build.isEmpty with
    | true => simp [splitOn]
    | false => simp [splitOn]
  | cons i rest =>
    simp only [List.isEmpty_cons, Bool.false_eq_true, if_false]
    have hnp : ∀ c ∈ '-' :: renderPre (i :: rest), c ≠ '+' := by
      intro c hc
      simp only [List.mem_cons] at hc
      rcases hc with hc | hc
      · subst hc; decide
      · rcases renderPre_chars (i :: rest) (by rw [← hp]; exact hpw) c hc with h | h
        · exact (identChar_ne c h).1
        · subst h; decide
    cases hb : x.build.isEmpty with
    | true =>
      simp only [if_true, List.append_nil]
      rw [splitOn_no_sep '+' _ hnp]
      rfl
    | false =>
      simp only [Bool.false_eq_true, if_false]
      rw [splitOn_append_sep '+' _ _ hnp]
      rfl

theorem toNumId_alnum (s : List Char) (hw : (Ident.alnum s).wf = true) : toNumId s = none := by
  simp only [Ident.wf, Bool.and_eq_true, Bool.not_eq_true', List.any_eq_true] at hw
  obtain ⟨_, c, hc, hcd⟩ := hw
  have hnd : s.all isDigit = false := by
    cases h : s.all isDigit with
    | false => rfl
    | true => have := List.all_eq_true.mp h c hc; simp [this] at hcd
  simp [toNumId, hnd]

theorem toBig_D (n : Nat) : toBig (D n) = some (n : Int) := by
  have := toBig_intToChars (n : Int)
  have hn : ¬ ((n : Int) < 0) := by omega
  simpa [intToChars, hn] using this

theorem toNumId_D (n : Nat) : toNumId (D n) = some (n : Int) := by
  simp [toNumId, D_all, toBig_D]

theorem identCmp_render (i j : Ident) (hi : i.wf = true) (hj : j.wf = true) :
    identCmp i.render j.render = i.cmp j := by
  unfold identCmp
  cases i with
  | num a =>
    cases j with
    | num b => simp only [Ident.render, toNumId_D, Ident.cmp, icmp_cast]
    | alnum t => simp only [Ident.render, toNumId_D, toNumId_alnum t hj, Ident.cmp]
  | alnum s =>
    cases j with
    | num b => simp only [Ident.render, toNumId_D, toNumId_alnum s hi, Ident.cmp]
    | alnum t => simp only [Ident.render, toNumId_alnum s hi, toNumId_alnum t hj, Ident.cmp]

theorem cmpLex_render : ∀ (p q : List Ident), (∀ i ∈ p, i.wf = true) → (∀ i ∈ q, i.wf = true) →
    cmpLex identCmp (p.map Ident.render) (q.map Ident.render) = preCmp p q := by
  intro p; induction p with
  | nil => intro q _ _; cases q <;> rfl
  | cons i rest ih =>
    intro q hp hq
    cases q with
    | nil => rfl
    | cons j rest' =>
      simp only [List.map, cmpLex, preCmp]
      rw [identCmp_render i j (hp i (by simp)) (hq j (by simp)),
        ih rest' (fun k hk => hp k (by simp [hk])) (fun k hk => hq k (by simp [hk]))]

theorem cmpBuild_buildStr (x y : SemVer) (hx : x.wf = true) (hy : y.wf = true) :
    cmpBuild (buildStr x) (buildStr y) = preRule x.pre y.pre := by
  unfold cmpBuild
  simp only [buildCore_buildStr x hx, buildCore_buildStr y hy]
  have hxw : ∀ i ∈ x.pre, i.wf = true := by
    intro i hi
    simp only [SemVer.wf, Bool.and_eq_true] at hx
    exact List.all_eq_true.mp hx.1 i hi
  have hyw : ∀ i ∈ y.pre, i.wf = true := by
    intro i hi
    simp only [SemVer.wf, Bool.and_eq_true] at hy
    exact List.all_eq_true.mp hy.1 i hi
  cases hp : x.pre with
  | nil =>
    cases hq : y.pre with
    | nil => simp [renderPre, preRule, splitOn, cmpBuildComps, cmpLex, identCmp, toNumId, toBig, strCmp, Ordering.then]
    | cons j r =>
      have : (renderPre (j :: r)).isEmpty = false := by
        cases h : renderPre (j :: r) with
        | nil => exact absurd h (renderPre_ne j r (by rw [hq] at hyw; exact hyw j (by simp)))
        | cons _ _ => rfl
      simp [renderPre, preRule, this]
  | cons i rest =>
    have hxe : (renderPre (i :: rest)).isEmpty = false := by
      cases h : renderPre (i :: rest) with
      | nil => exact absurd h (renderPre_ne i rest (by rw [hp] at hxw; exact hxw i (by simp)))
      | cons _ _ => rfl
    cases hq : y.pre with
    | nil => simp [renderPre, preRule, hxe]
    | cons j r =>
      have hye : (renderPre (j :: r)).isEmpty = false := by
        cases h : renderPre (j :: r) with
        | nil => exact absurd h (renderPre_ne j r (by rw [hq] at hyw; exact hyw j (by simp)))
        | cons _ _ => rfl
      rw [hp] at hxw; rw [hq] at hyw
      simp only [hxe, hye, Bool.false_and, Bool.not_false, Bool.and_false, Bool.false_eq_true, if_false, preRule, cmpBuildComps]
      rw [splitOn_renderPre _ (by simp) hxw, splitOn_renderPre _ (by simp) hyw]
      exact cmpLex_render _ _ hxw hyw

/-- semver.org §11 on every canonically rendered version -/
theorem semver_spec (x y : SemVer) (hx : x.wf = true) (hy : y.wf = true) :
    compareStr .semver x.render y.render = .ofOrd (specCmp x y) := by
  show semverFam.compareStr x.render y.render = _
  simp only [Family.compareStr, Family.cmpParsed, semverFam_parse, semverFam_cmp, CRes.toOutcome, parse_render]
  congr 1
  unfold cmpSemver specCmp
  simp only [compsCmp_three, cmpBuild_buildStr x y hx hy]
  cases ncmp x.major y.major <;> cases ncmp x.minor y.minor <;> cases ncmp x.patch y.patch <;> rfl

end Scalibr.Semantic
