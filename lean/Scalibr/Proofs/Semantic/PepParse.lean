/-
C07 — PEP 440, part 1: how the backtracking recogniser of the PyPI model behaves on a normalised
version text. Only the HEAD of the list of parses matters (`FindStringSubmatch` takes the first
parse that consumes everything): `Hd p s c r` says that the highest-priority parse of `p` on `s` is `r`.
-/
import Scalibr.Spec.Semantic.PyPI
import Scalibr.Proofs.Semantic.PyPI
import Scalibr.Proofs.Semantic.SpecNuGet
import Scalibr.Proofs.Semantic.SpecDebian
namespace Scalibr.Semantic
open PepSpec

/-- the first (highest-priority) parse -/
def Hd (p : PP) (s : List Char) (c : Caps) (r : List Char × Caps) : Prop := ∃ t, p s c = r :: t

theorem Hd.seq {a b : PP} {s c r1 r2} (h1 : Hd a s c r1) (h2 : Hd b r1.1 r1.2 r2) : Hd (pSeq a b) s c r2 := by
  obtain ⟨t1, e1⟩ := h1
  obtain ⟨t2, e2⟩ := h2
  exact ⟨t2 ++ t1.flatMap (fun r => b r.1 r.2), by simp [pSeq, e1, e2]⟩

theorem Hd.altL {a b : PP} {s c r} (h : Hd a s c r) : Hd (pAlt a b) s c r := by
  obtain ⟨t, e⟩ := h
  exact ⟨t ++ b s c, by simp [pAlt, e]⟩

theorem Hd.altR {a b : PP} {s c r} (ha : a s c = []) (h : Hd b s c r) : Hd (pAlt a b) s c r := by
  obtain ⟨t, e⟩ := h
  exact ⟨t, by simp [pAlt, ha, e]⟩

theorem Hd.eps (s c) : Hd pEps s c (s, c) := ⟨[], rfl⟩

theorem Hd.optSome {a : PP} {s c r} (h : Hd a s c r) : Hd (pOpt a) s c r := Hd.altL h

theorem Hd.optNone {a : PP} {s c} (ha : a s c = []) : Hd (pOpt a) s c (s, c) := Hd.altR ha (Hd.eps s c)

theorem Hd.of_eq {p : PP} {s c r} (h : p s c = [r]) : Hd p s c r := ⟨[], h⟩

theorem pSeq_nil {a b : PP} {s c} (h : a s c = []) : pSeq a b s c = [] := by simp [pSeq, h]

theorem pSeq_all_nil {a b : PP} {s c} (h : ∀ r ∈ a s c, b r.1 r.2 = []) : pSeq a b s c = [] := by
  simp only [pSeq]
  generalize a s c = l at h
  induction l with
  | nil => rfl
  | cons x xs ih =>
    simp only [List.flatMap_cons, h x (by simp), List.nil_append]
    exact ih (fun r hr => h r (by simp [hr]))

/-- a stopping suffix for a run of `f`-characters: empty, or starting with a non-`f` character -/
def Stops (f : Char → Bool) (t : List Char) : Prop := t = [] ∨ ∃ x u, t = x :: u ∧ f x = false

theorem lengthsDown_head (k min : Nat) (h : min ≤ k) (hp : 0 < k ∨ min = 0) : ∃ t, lengthsDown k min = k :: t := by
  cases k with
  | zero =>
    have : min = 0 := by omega
    subst this; exact ⟨[], by simp [lengthsDown]⟩
  | succ k =>
    refine ⟨lengthsDown k min, ?_⟩
    have : ¬ (k + 1 < min) := by omega
    simp [lengthsDown, this]

/-- the greedy run takes exactly `ds` -/
theorem Hd.run (f : Char → Bool) (min : Nat) (cap : Option Cap) (ds rest : List Char) (c : Caps)
    (hds : ∀ x ∈ ds, f x = true) (hrest : Stops f rest) (hmin : min ≤ ds.length) (hp : ds ≠ [] ∨ min = 0) :
    Hd (pRun f min cap) (ds ++ rest) c (rest, capAdd cap ds c) := by
  obtain ⟨tw, _⟩ := takeWhile_append_stop f ds rest hds hrest
  have hp' : 0 < ds.length ∨ min = 0 := by
    rcases hp with h | h
    · left; cases ds with
      | nil => exact absurd rfl h
      | cons _ _ => simp
    · exact Or.inr h
  obtain ⟨t, ht⟩ := lengthsDown_head ds.length min hmin hp'
  refine ⟨t.map (fun k => ((ds ++ rest).drop k, capAdd cap ((ds ++ rest).take k) c)), ?_⟩
  simp only [pRun, tw, ht, List.map_cons]
  congr 1
  simp

theorem pRun_start (f : Char → Bool) (cap : Option Cap) (s : List Char) (c : Caps) (h : Stops f s) :
    pRun f 0 cap s c = [(s, capAdd cap [] c)] := by
  have : s.takeWhile f = [] := by
    rcases h with h | ⟨x, u, h, hx⟩
    · subst h; rfl
    · subst h; simp [List.takeWhile, hx]
  simp [pRun, this, lengthsDown]

theorem pRun_none (f : Char → Bool) (min : Nat) (cap : Option Cap) (s : List Char) (c : Caps) (h : Stops f s) (hm : 0 < min) :
    pRun f min cap s c = [] := by
  have : s.takeWhile f = [] := by
    rcases h with h | ⟨x, u, h, hx⟩
    · subst h; rfl
    · subst h; simp [List.takeWhile, hx]
  have hm' : ¬ min = 0 := by omega
  simp [pRun, this, lengthsDown, hm']

theorem pLit_hit (l rest : List Char) (c : Caps) : pLit l (l ++ rest) c = [(rest, c)] := by
  have : hasPrefix l (l ++ rest) = true := by simp [hasPrefix]
  simp [pLit, this]

theorem pLit_miss (x y : Char) (rest : List Char) (c : Caps) (h : x ≠ y) : pLit [x] (y :: rest) c = [] := by
  simp [pLit, hasPrefix, List.isPrefixOf, h]

theorem pLit_nil_in (x : Char) (c : Caps) : pLit [x] [] c = [] := by simp [pLit, hasPrefix, List.isPrefixOf]

theorem pChar_miss (f : Char → Bool) (s : List Char) (c : Caps) (h : Stops f s) : pChar f s c = [] := by
  rcases h with h | ⟨x, u, h, hx⟩
  · subst h; rfl
  · subst h; simp [pChar, hx]

/-- the first alternative that is a prefix wins -/
theorem Hd.capLit (name : Cap) (pre : List (List Char)) (alt : List Char) (post : List (List Char)) (rest : List Char) (c : Caps)
    (hpre : ∀ a ∈ pre, hasPrefix a (alt ++ rest) = false) :
    Hd (pCapLit name (pre ++ alt :: post)) (alt ++ rest) c (rest, (name, alt) :: c) := by
  induction pre with
  | nil =>
    have : hasPrefix alt (alt ++ rest) = true := by simp [hasPrefix]
    exact ⟨post.filterMap (fun a => if hasPrefix a (alt ++ rest) then some ((alt ++ rest).drop a.length, (name, a) :: c) else none),
      by simp [pCapLit, List.filterMap_cons, this]⟩
  | cons a as ih =>
    obtain ⟨t, ht⟩ := ih (fun x hx => hpre x (by simp [hx]))
    refine ⟨t, ?_⟩
    have := hpre a (by simp)
    simp only [pCapLit] at ht ⊢
    simp only [List.cons_append, List.filterMap_cons, this, Bool.false_eq_true, if_false]
    exact ht

theorem pCapLit_none (name : Cap) (alts : List (List Char)) (s : List Char) (c : Caps)
    (h : ∀ a ∈ alts, hasPrefix a s = false) : pCapLit name alts s c = [] := by
  induction alts with
  | nil => rfl
  | cons a as ih =>
    have := ih (fun x hx => h x (by simp [hx]))
    simp only [pCapLit] at this ⊢
    simp [List.filterMap_cons, h a (by simp), this]

/-- a capture group records the text its body consumed -/
theorem Hd.capture (name : Cap) {a : PP} {pre rest : List Char} {c c1 : Caps} (h : Hd a (pre ++ rest) c (rest, c1)) :
    Hd (pCapture name a) (pre ++ rest) c (rest, (name, pre) :: c1) := by
  obtain ⟨t, e⟩ := h
  refine ⟨t.map (fun r => (r.1, (name, (pre ++ rest).take ((pre ++ rest).length - r.1.length)) :: r.2)), ?_⟩
  simp only [pCapture, e, List.map_cons]
  congr 1
  simp

/-- the greedy star runs through every repetition `items` and stops at `tail`; `Q` describes the
texts that may follow a repetition -/
theorem Hd.star (it : PP) (Q : List Char → Prop) (tail : List Char) (htail : ∀ c, it tail c = []) (hQ : Q tail) :
    ∀ (items : List (List Char)) (fuel : Nat) (c : Caps), items.length ≤ fuel →
      (∀ i ∈ items, i ≠ []) →
      (∀ i ∈ items, ∀ r, Q r → Q (i ++ r)) →
      (∀ (i : List Char) (rest : List Char) (c : Caps), i ∈ items → Q rest → Hd it (i ++ rest) c (rest, c)) →
      Hd (pStar it fuel) (items.flatten ++ tail) c (tail, c) ∧ Q (items.flatten ++ tail) := by
  intro items; induction items with
  | nil =>
    intro fuel c _ _ _ _
    refine ⟨?_, by simpa using hQ⟩
    cases fuel with
    | zero => exact Hd.eps _ _
    | succ f => exact ⟨[], by simp [pStar, htail]⟩
  | cons i rest ih =>
    intro fuel c hf hne hstep hit
    cases fuel with
    | zero => simp at hf
    | succ f =>
      obtain ⟨⟨t2, ht2⟩, hq2⟩ := ih f c (by simpa using hf) (fun j hj => hne j (by simp [hj]))
        (fun j hj r hr => hstep j (by simp [hj]) r hr) (fun j r c hj hr => hit j r c (by simp [hj]) hr)
      obtain ⟨t, ht⟩ := hit i (rest.flatten ++ tail) c (by simp) hq2
      have hi := hne i (by simp)
      have hlen : (rest.flatten ++ tail).length < (i ++ (rest.flatten ++ tail)).length := by
        have : 0 < i.length := by cases i with
          | nil => exact absurd rfl hi
          | cons _ _ => simp
        simp only [List.length_append]; omega
      refine ⟨⟨t2 ++ (t.flatMap fun r => if r.1.length < (i ++ (rest.flatten ++ tail)).length then pStar it f r.1 r.2 else []) ++
        [(i ++ (rest.flatten ++ tail), c)], ?_⟩, ?_⟩
      · simp only [List.flatten_cons, List.append_assoc, pStar, ht, List.flatMap_cons, hlen, if_true, ht2, List.cons_append]
      · simp only [List.flatten_cons, List.append_assoc]
        exact hstep i (by simp) _ hq2

end Scalibr.Semantic
