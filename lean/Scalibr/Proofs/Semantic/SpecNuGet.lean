/-
C07 — the NuGet comparison agrees with the NuGet documentation (`Spec/Semantic/NuGet.lean`) on every
canonically rendered version. The pre-release part is reduced to the semver.org lemma
(`cmpBuild_buildStr`) on the case-folded version.
-/
import Scalibr.Spec.Semantic.NuGet
import Scalibr.Proofs.Semantic.SpecCran
namespace Scalibr.Semantic
open NuGetSpec

/-! ## the numeric parts: any number of dot-separated numbers -/

theorem fold_dot (cs : List Int) (n : Nat) (rest : List Char) :
    (D n ++ ('.' :: rest)).foldl semverStep ⟨cs, [], false⟩ = rest.foldl semverStep ⟨cs ++ [(n : Int)], [], false⟩ := by
  rw [List.foldl_append, step_digits (D n) (D_all n) _ rfl]
  simp only [List.foldl_cons, List.nil_append]
  have s1 : semverStep ⟨cs, D n, false⟩ '.' = ⟨cs ++ [(n : Int)], [], false⟩ := by
    simp [semverStep, isDigit, isEmpty_D, D_val]
  rw [s1]

theorem fold_end (cs : List Int) (n : Nat) :
    (D n).foldl semverStep ⟨cs, [], false⟩ = ⟨cs, D n, false⟩ := by
  rw [step_digits (D n) (D_all n) _ rfl]; simp

theorem fold_tail (cs : List Int) (n : Nat) (c : Char) (r : List Char) (hc : c = '-' ∨ c = '+') :
    (D n ++ c :: r).foldl semverStep ⟨cs, [], false⟩ = ⟨cs ++ [(n : Int)], c :: r, true⟩ := by
  rw [List.foldl_append, step_digits (D n) (D_all n) _ rfl]
  simp only [List.foldl_cons, List.nil_append]
  have hcd : isDigit c = false := by rcases hc with hc | hc <;> subst hc <;> decide
  have hcp : c ≠ '.' := by rcases hc with hc | hc <;> subst hc <;> decide
  have s3 : semverStep ⟨cs, D n, false⟩ c = ⟨cs ++ [(n : Int)], [c], true⟩ := by
    simp [semverStep, hcd, hcp, isEmpty_D, D_val]
  rw [s3, step_found r _ rfl]
  simp

/-- the last step of `parseSemverLike` -/
def slFinish (st : SLState) : SemV :=
  if !st.found && !st.cur.isEmpty then ⟨st.comps ++ [(digitsToNat st.cur : Int)], []⟩ else ⟨st.comps, st.cur⟩

theorem parseSemverLike_eq (line : List Char) :
    parseSemverLike line = slFinish ((stripV line).foldl semverStep ⟨[], [], false⟩) := rfl

theorem finish_join (tail : List Char) (ht : tail = [] ∨ ∃ c r, tail = c :: r ∧ (c = '-' ∨ c = '+')) :
    ∀ (ms : List Nat) (n : Nat) (cs : List Int),
      slFinish ((joinNums n ms ++ tail).foldl semverStep ⟨cs, [], false⟩) = ⟨cs ++ castNums (n :: ms), tail⟩ := by
  intro ms; induction ms with
  | nil =>
    intro n cs
    simp only [joinNums]
    rcases ht with ht | ⟨c, r, ht, hc⟩
    · subst ht
      rw [List.append_nil]
      show slFinish ((D n).foldl semverStep ⟨cs, [], false⟩) = _
      rw [fold_end]
      simp [slFinish, isEmpty_D, D_val, castNums]
    · subst ht
      show slFinish ((D n ++ c :: r).foldl semverStep ⟨cs, [], false⟩) = _
      rw [fold_tail cs n c r hc]
      simp [slFinish, castNums]
  | cons m ms ih =>
    intro n cs
    simp only [joinNums, List.append_assoc, List.cons_append]
    show slFinish ((D n ++ ('.' :: (joinNums m ms ++ tail))).foldl semverStep ⟨cs, [], false⟩) = _
    rw [fold_dot, ih m (cs ++ [(n : Int)])]
    simp [castNums]

theorem joinNums_head (n : Nat) (ms : List Nat) : ∃ X, joinNums n ms = D n ++ X := by
  cases ms with
  | nil => exact ⟨[], by simp [joinNums, D]⟩
  | cons m ms => exact ⟨'.' :: joinNums m ms, rfl⟩

theorem parseLike_join (n : Nat) (ms : List Nat) (tail : List Char)
    (ht : tail = [] ∨ ∃ c r, tail = c :: r ∧ (c = '-' ∨ c = '+')) :
    parseSemverLike (joinNums n ms ++ tail) = ⟨castNums (n :: ms), tail⟩ := by
  rw [parseSemverLike_eq]
  obtain ⟨X, hX⟩ := joinNums_head n ms
  have : stripV (joinNums n ms ++ tail) = joinNums n ms ++ tail := by
    rw [hX, List.append_assoc]; exact stripV_D n _
  rw [this, finish_join tail ht ms n []]
  simp

theorem tail_head (v : V) : v.tail = [] ∨ ∃ c r, v.tail = c :: r ∧ (c = '-' ∨ c = '+') := by
  unfold V.tail
  cases hp : v.pre.isEmpty <;> cases hb : v.build.isEmpty <;> simp

theorem parse_render_nuget (v : V) :
    parseSemver 4 (render v) = ⟨castNums (v.major :: v.nums), v.tail⟩ := by
  unfold parseSemver render
  rw [parseLike_join v.major v.nums v.tail (tail_head v)]
  have : (castNums (v.major :: v.nums)).length ≤ 4 := by
    simp only [castNums, List.length_map, V.nums, List.length_cons]
    cases v.revision <;> simp
  simp [this]

theorem compsCmp_cast (ns ms : List Nat) : compsCmp (castNums ns) (castNums ms) = cmpPad ncmp 0 ns ms := by
  unfold compsCmp castNums
  have := cmpPad_map (fun (n : Nat) => (n : Int)) icmp 0 ns ms
  simp only [Int.natCast_zero] at this ⊢
  rw [show ((0 : Int)) = ((0 : Nat) : Int) from rfl] at *
  rw [this]
  exact cmpPad_congr _ _ 0 (fun _ => True) trivial (fun a b _ _ => icmp_cast a b) ns ms (fun _ _ => trivial) (fun _ _ => trivial)

theorem nums_cmp (a b : V) :
    cmpPad ncmp 0 (a.major :: a.nums) (b.major :: b.nums) =
      (ncmp a.major b.major).then ((ncmp a.minor b.minor).then ((ncmp a.patch b.patch).then
        (ncmp (a.revision.getD 0) (b.revision.getD 0)))) := by
  simp only [V.nums]
  cases a.revision <;> cases b.revision <;>
    simp [cmpPad, cmpPadL, cmpPadR, Option.toList, ncmp_isCmp.refl] <;>
    (cases ncmp a.major b.major <;> cases ncmp a.minor b.minor <;> cases ncmp a.patch b.patch <;> simp [Ordering.then])

/-! ## case folding -/

theorem goToLower_ascii (c : Char) (h : c.toNat < 128) : goToLower c = lowerAscii c := by
  unfold goToLower lowerAscii
  by_cases hu : isUpper c = true
  · simp [hu]
  · simp [hu, h]

theorem identChar_ascii (c : Char) (h : NuGetSpec.identChar c = true ∨ c = '.' ∨ c = '+') : c.toNat < 128 := by
  rcases h with h | h | h
  · simp only [NuGetSpec.identChar, isDigit, isLetter, isLower, isUpper, Bool.or_eq_true, Bool.and_eq_true, decide_eq_true_eq] at h
    rcases h with (h | h) | h
    · omega
    · omega
    · subst h; decide
  · subst h; decide
  · subst h; decide

theorem lowerStr_ascii (s : List Char) (h : ∀ c ∈ s, c.toNat < 128) : lowerStr s = lower s := by
  induction s with
  | nil => rfl
  | cons c cs ih =>
    simp only [lowerStr, lower, List.map] at ih ⊢
    rw [goToLower_ascii c (h c (by simp)), ih (fun d hd => h d (by simp [hd]))]

theorem toNat_ofNat_small (n : Nat) (h : n < 200) : (Char.ofNat n).toNat = n := by
  have hv : n.isValidChar := Or.inl (by omega)
  unfold Char.ofNat
  rw [dif_pos hv]
  simp [Char.ofNatAux, Char.toNat]

theorem lowerAscii_props (c : Char) (h : NuGetSpec.identChar c = true) :
    Scalibr.Semantic.identChar (lowerAscii c) = true ∧ (isDigit c = false → isDigit (lowerAscii c) = false) ∧
    (isDigit c = true → lowerAscii c = c) := by
  unfold lowerAscii
  by_cases hu : isUpper c = true
  · simp only [hu, if_true]
    simp only [isUpper, Bool.and_eq_true, decide_eq_true_eq] at hu
    have hn : (Char.ofNat (c.toNat + 32)).toNat = c.toNat + 32 := toNat_ofNat_small _ (by omega)
    refine ⟨?_, ?_, ?_⟩
    · simp only [Scalibr.Semantic.identChar, isDigit, isLetter, isLower, isUpper, hn, Bool.or_eq_true, Bool.and_eq_true, decide_eq_true_eq]
      left; right; left; omega
    · intro _; simp only [isDigit, hn, Bool.and_eq_false_iff, decide_eq_false_iff_not]; omega
    · intro hd; simp only [isDigit, Bool.and_eq_true, decide_eq_true_eq] at hd; omega
  · simp only [hu, Bool.false_eq_true, if_false]
    refine ⟨?_, fun h => h, ?_⟩
    · simpa [NuGetSpec.identChar, Scalibr.Semantic.identChar] using h
    · intro _; trivial

/-- the case-folded label as a semver.org identifier -/
def foldLabel : Label → Ident
  | .num n => .num n
  | .alnum s => .alnum (lower s)

/-- the case-folded version as a semver.org version (revision dropped: only the tail matters) -/
def foldSem (v : V) : SemVer := ⟨v.major, v.minor, v.patch, v.pre.map foldLabel, lower v.build⟩

theorem lower_D (n : Nat) : lower (D n) = D n := by
  have h := D_all n
  generalize D n = l at h
  induction l with
  | nil => rfl
  | cons c cs ih =>
    simp only [List.all_cons, Bool.and_eq_true] at h
    simp only [lower, List.map] at ih ⊢
    have : lowerAscii c = c := by
      unfold lowerAscii
      have := digit_not_letter c h.1
      simp only [isLetter, Bool.or_eq_false_iff] at this
      simp [this.2]
    rw [this, ih h.2]

theorem foldLabel_render (l : Label) : lower l.render = (foldLabel l).render := by
  cases l with
  | num n => exact lower_D n
  | alnum s => rfl

theorem lower_renderPre : ∀ p : List Label, lower (NuGetSpec.renderPre p) = Scalibr.Semantic.renderPre (p.map foldLabel) := by
  intro p; induction p with
  | nil => rfl
  | cons i rest ih =>
    cases rest with
    | nil => simp only [NuGetSpec.renderPre, List.map, Scalibr.Semantic.renderPre]; exact foldLabel_render i
    | cons j r =>
      simp only [NuGetSpec.renderPre, List.map, Scalibr.Semantic.renderPre] at ih ⊢
      simp only [lower, List.map_append, List.map_cons] at ih ⊢
      have h1 := foldLabel_render i
      simp only [lower] at h1
      rw [h1, ih]
      rfl

theorem foldLabel_wf (l : Label) (h : l.wf = true) : (foldLabel l).wf = true := by
  cases l with
  | num n => rfl
  | alnum s =>
    simp only [Label.wf, Bool.and_eq_true, Bool.not_eq_true', List.any_eq_true] at h
    obtain ⟨⟨hne, hall⟩, c, hc, hcd⟩ := h
    simp only [foldLabel, Ident.wf, Bool.and_eq_true, Bool.not_eq_true', List.any_eq_true, lower]
    refine ⟨⟨by cases s <;> simp_all, ?_⟩, lowerAscii c, List.mem_map.mpr ⟨c, hc, rfl⟩, ?_⟩
    · rw [List.all_map]
      apply List.all_eq_true.mpr
      intro d hd
      exact (lowerAscii_props d (List.all_eq_true.mp hall d hd)).1
    · have := (lowerAscii_props c (List.all_eq_true.mp hall c hc)).2.1 (by simpa using hcd)
      simp [this]

theorem tail_chars (v : V) (hw : v.wf = true) : ∀ c ∈ v.tail, c.toNat < 128 := by
  simp only [V.wf, Bool.and_eq_true] at hw
  have hpre : ∀ (p : List Label), (∀ l ∈ p, l.wf = true) → ∀ c ∈ NuGetSpec.renderPre p, c.toNat < 128 := by
    intro p; induction p with
    | nil => intro _ c hc; simp [NuGetSpec.renderPre] at hc
    | cons i rest ih =>
      intro hp c hc
      have hi : ∀ c ∈ i.render, c.toNat < 128 := by
        intro c hc
        cases i with
        | num n =>
          have := List.all_eq_true.mp (D_all n) c hc
          exact identChar_ascii c (Or.inl (by simp [NuGetSpec.identChar, this]))
        | alnum s =>
          have := hp (.alnum s) (by simp)
          simp only [Label.wf, Bool.and_eq_true] at this
          exact identChar_ascii c (Or.inl (List.all_eq_true.mp this.1.2 c hc))
      cases rest with
      | nil => exact hi c hc
      | cons j r =>
        simp only [NuGetSpec.renderPre, List.mem_append, List.mem_cons] at hc
        rcases hc with hc | hc | hc
        · exact hi c hc
        · subst hc; decide
        · exact ih (fun l hl => hp l (by simp [hl])) c hc
  intro c hc
  simp only [V.tail, List.mem_append] at hc
  rcases hc with hc | hc
  · split at hc
    · simp at hc
    · simp only [List.mem_cons] at hc
      rcases hc with hc | hc
      · subst hc; decide
      · exact hpre v.pre (fun l hl => List.all_eq_true.mp hw.1 l hl) c hc
  · split at hc
    · simp at hc
    · simp only [List.mem_cons] at hc
      rcases hc with hc | hc
      · subst hc; decide
      · have := List.all_eq_true.mp hw.2 c hc
        simp only [Bool.or_eq_true, decide_eq_true_eq] at this
        rcases this with h | h
        · exact identChar_ascii c (Or.inl h)
        · exact identChar_ascii c (Or.inr (Or.inl h))

theorem lower_preTail (p : List Label) :
    List.map lowerAscii (if p.isEmpty then [] else '-' :: NuGetSpec.renderPre p) =
      if (p.map foldLabel).isEmpty then [] else '-' :: Scalibr.Semantic.renderPre (p.map foldLabel) := by
  cases p with
  | nil => rfl
  | cons i r =>
    have := lower_renderPre (i :: r)
    simp only [lower] at this
    simp [this, lowerAscii, isUpper]

theorem lower_buildTail (b : List Char) :
    List.map lowerAscii (if b.isEmpty then [] else '+' :: b) =
      if (b.map lowerAscii).isEmpty then [] else '+' :: b.map lowerAscii := by
  cases b with
  | nil => rfl
  | cons c cs => simp [lowerAscii, isUpper]

theorem lower_tail (v : V) (hw : v.wf = true) : lowerStr v.tail = buildStr (foldSem v) := by
  rw [lowerStr_ascii _ (tail_chars v hw)]
  simp only [V.tail, buildStr, foldSem, lower, List.map_append]
  rw [lower_preTail, lower_buildTail]
  rfl

theorem foldSem_wf (v : V) (hw : v.wf = true) : (foldSem v).wf = true := by
  simp only [V.wf, Bool.and_eq_true] at hw
  simp only [SemVer.wf, foldSem, Bool.and_eq_true]
  constructor
  · rw [List.all_map]
    apply List.all_eq_true.mpr
    intro l hl
    exact foldLabel_wf l (List.all_eq_true.mp hw.1 l hl)
  · simp only [lower]
    rw [List.all_map]
    apply List.all_eq_true.mpr
    intro c hc
    have := List.all_eq_true.mp hw.2 c hc
    simp only [Function.comp_apply, Bool.or_eq_true, decide_eq_true_eq] at this ⊢
    rcases this with h | h
    · exact Or.inl (lowerAscii_props c h).1
    · subst h; right; decide

/-- semver.org's rule on the case-folded identifiers is NuGet's case-insensitive rule -/
theorem preCmp_fold : ∀ p q : List Label,
    Scalibr.Semantic.preCmp (p.map foldLabel) (q.map foldLabel) = NuGetSpec.preCmp p q := by
  intro p; induction p with
  | nil => intro q; cases q <;> rfl
  | cons i r ih =>
    intro q; cases q with
    | nil => rfl
    | cons j r' =>
      simp only [List.map, Scalibr.Semantic.preCmp, NuGetSpec.preCmp, ih r']
      cases i <;> cases j <;> rfl

theorem preRule_fold (p q : List Label) :
    Scalibr.Semantic.preRule (p.map foldLabel) (q.map foldLabel) = NuGetSpec.preRule p q := by
  cases p with
  | nil => cases q <;> rfl
  | cons i r =>
    cases q with
    | nil => rfl
    | cons j r' => exact preCmp_fold (i :: r) (j :: r')

/-- the NuGet documentation's ordering on every canonically rendered version -/
theorem nuget_spec (a b : V) (ha : a.wf = true) (hb : b.wf = true) :
    compareStr .nuget (render a) (render b) = .ofOrd (NuGetSpec.specCmp a b) := by
  show nugetFam.compareStr (render a) (render b) = _
  simp only [Family.compareStr, Family.cmpParsed, nugetFam_parse, nugetFam_cmp, CRes.toOutcome, parse_render_nuget]
  congr 1
  unfold cmpNuGet NuGetSpec.specCmp
  simp only [compsCmp_cast, nums_cmp, lower_tail a ha, lower_tail b hb,
    cmpBuild_buildStr (foldSem a) (foldSem b) (foldSem_wf a ha) (foldSem_wf b hb)]
  have : (foldSem a).pre = a.pre.map foldLabel ∧ (foldSem b).pre = b.pre.map foldLabel := ⟨rfl, rfl⟩
  rw [this.1, this.2, preRule_fold]
  cases ncmp a.major b.major <;> cases ncmp a.minor b.minor <;> cases ncmp a.patch b.patch <;>
    cases ncmp (a.revision.getD 0) (b.revision.getD 0) <;> rfl

end Scalibr.Semantic
