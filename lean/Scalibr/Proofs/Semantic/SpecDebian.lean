/-
C07 — the Debian/Ubuntu comparison agrees with deb-version(7) (`Spec/Semantic/Debian.lean`) on
every canonically rendered version.
-/
import Scalibr.Spec.Semantic.Debian
import Scalibr.Proofs.Semantic.SpecParse
namespace Scalibr.Semantic
open DebSpec

/-! ## characters -/

theorem letter_range (c : Char) (h : isLetter c = true) :
    (65 ≤ c.toNat ∧ c.toNat ≤ 90) ∨ (97 ≤ c.toNat ∧ c.toNat ≤ 122) := by
  simp only [isLetter, isLower, isUpper, Bool.or_eq_true, Bool.and_eq_true, decide_eq_true_eq] at h
  omega

/-- the four shapes of an allowed non-digit character -/
theorem ndChar_cases (h : Bool) (c : Char) (hc : ndChar h c = true) :
    isLetter c = true ∨ c = '.' ∨ c = '+' ∨ c = '~' ∨ (h = true ∧ c = '-') := by
  simp only [ndChar, Bool.or_eq_true, Bool.and_eq_true, decide_eq_true_eq] at hc
  rcases hc with (((h1 | h1) | h1) | h1) | h1
  · exact Or.inl h1
  · exact Or.inr (Or.inl h1)
  · exact Or.inr (Or.inr (Or.inl h1))
  · exact Or.inr (Or.inr (Or.inr (Or.inl h1)))
  · exact Or.inr (Or.inr (Or.inr (Or.inr h1)))

theorem ndChar_mono (h : Bool) (c : Char) (hc : ndChar h c = true) : ndChar true c = true := by
  rcases ndChar_cases h c hc with h1 | h1 | h1 | h1 | ⟨_, h1⟩
  · simp [ndChar, h1]
  all_goals (subst h1; decide)

theorem ndChar_props (h : Bool) (c : Char) (hc : ndChar h c = true) :
    isDigit c = false ∧ c ≠ ':' ∧ isSpace c = false ∧ (h = false → c ≠ '-') := by
  rcases ndChar_cases h c hc with h1 | h1 | h1 | h1 | ⟨h0, h1⟩
  · have hr := letter_range c h1
    refine ⟨letter_not_digit c h1, ?_, ?_, ?_⟩
    · intro e; subst e; simp [isLetter, isLower, isUpper] at h1
    · simp only [isSpace, Bool.or_eq_false_iff, Bool.and_eq_false_iff, decide_eq_false_iff_not]
      omega
    · intro _ e; subst e; simp [isLetter, isLower, isUpper] at h1
  · subst h1; exact ⟨by decide, by decide, by decide, fun _ => by decide⟩
  · subst h1; exact ⟨by decide, by decide, by decide, fun _ => by decide⟩
  · subst h1; exact ⟨by decide, by decide, by decide, fun _ => by decide⟩
  · subst h1; exact ⟨by decide, by decide, by decide, fun hh => by rw [h0] at hh; exact absurd hh (by simp)⟩

/-! ## the implementation's weights order positions like deb-version's `order` -/

/-- weight of one position of a non-digit run in the implementation; a missing character weighs 2 -/
def posWeight : Option Char → Nat
  | none => 2
  | some c => debWeigh c

/-- the weight ↦ rank translation: strictly increasing on the weights that occur -/
def wRank (n : Nat) : Int := if n = 1 then -1 else if n = 2 then 0 else if n ≤ 122 then n else (n : Int) + 134

def posOk (x : Option Char) : Prop := x = none ∨ ∃ c, x = some c ∧ ndChar true c = true

theorem posWeight_dom (x : Option Char) (hx : posOk x) :
    (posWeight x = 1 ∨ posWeight x = 2 ∨ (65 ≤ posWeight x ∧ posWeight x ≤ 122) ∨ 123 ≤ posWeight x) ∧
    order x = wRank (posWeight x) := by
  rcases hx with hx | ⟨c, hx, hc⟩
  · subst hx; simp [posWeight, order, wRank]
  · subst hx
    rcases ndChar_cases true c hc with h1 | h1 | h1 | h1 | ⟨_, h1⟩
    · have hr := letter_range c h1
      have hne : c ≠ '~' := by intro e; subst e; simp [isLetter, isLower, isUpper] at h1
      have hfb : firstByte c = c.toNat := by simp only [firstByte]; split <;> omega
      have hw : debWeigh c = c.toNat := by
        simp only [debWeigh, hne, if_false, hfb]
        split
        · rename_i hh
          simp only [Bool.or_eq_true, Bool.and_eq_true, decide_eq_true_eq] at hh
          omega
        · rfl
      simp only [posWeight, order, hne, if_false, h1, if_true, hw, wRank]
      constructor
      · omega
      · split
        · omega
        · split
          · omega
          · split
            · rfl
            · omega
    · subst h1; decide
    · subst h1; decide
    · subst h1; decide
    · subst h1; decide

theorem wRank_mono (a b : Nat)
    (ha : a = 1 ∨ a = 2 ∨ (65 ≤ a ∧ a ≤ 122) ∨ 123 ≤ a) (hb : b = 1 ∨ b = 2 ∨ (65 ≤ b ∧ b ≤ 122) ∨ 123 ≤ b) :
    ncmp a b = icmp (wRank a) (wRank b) := by
  have key : (a < b ↔ wRank a < wRank b) ∧ (a = b ↔ wRank a = wRank b) := by
    unfold wRank
    repeat' split
    all_goals omega
  unfold ncmp icmp
  by_cases h1 : a < b
  · simp [h1, key.1.mp h1]
  · have h1' : ¬ wRank a < wRank b := fun h => h1 (key.1.mpr h)
    by_cases h2 : a = b
    · simp [h2]
    · have h2' : ¬ wRank a = wRank b := fun h => h2 (key.2.mpr h)
      simp [h1, h2, h1', h2']

theorem pos_agree (x y : Option Char) (hx : posOk x) (hy : posOk y) :
    ncmp (posWeight x) (posWeight y) = icmp (order x) (order y) := by
  obtain ⟨dx, ox⟩ := posWeight_dom x hx
  obtain ⟨dy, oy⟩ := posWeight_dom y hy
  rw [ox, oy]
  exact wRank_mono _ _ dx dy

/-- the non-digit parts compare as the manual page says -/
theorem nd_agree (a b : List Char) (ha : ∀ c ∈ a, ndChar true c = true) (hb : ∀ c ∈ b, ndChar true c = true) :
    cmpPad ncmp 2 (a.map debWeigh) (b.map debWeigh) = ndCmp a b := by
  have e1 : a.map debWeigh = (a.map some).map posWeight := by simp [List.map_map, Function.comp_def, posWeight]
  have e2 : b.map debWeigh = (b.map some).map posWeight := by simp [List.map_map, Function.comp_def, posWeight]
  rw [e1, e2]
  have := cmpPad_map posWeight ncmp none (a.map some) (b.map some)
  simp only [posWeight] at this
  rw [this]
  unfold ndCmp
  apply cmpPad_congr _ _ none posOk (Or.inl rfl)
  · intro x y hx hy; exact pos_agree x y hx hy
  · intro x hx
    simp only [List.mem_map] at hx
    obtain ⟨c, hc, e⟩ := hx
    exact Or.inr ⟨c, e.symm, ha c hc⟩
  · intro x hx
    simp only [List.mem_map] at hx
    obtain ⟨c, hc, e⟩ := hx
    exact Or.inr ⟨c, e.symm, hb c hc⟩

/-! ## a rendered part tokenises into its segments -/

/-- what the implementation's tokeniser extracts for one segment -/
def segKey (s : Seg) : List Nat × Int := (s.nd.map debWeigh, (s.value : Int))

theorem takeWhile_append_stop {α} (p : α → Bool) (l rest : List α) (hl : ∀ x ∈ l, p x = true)
    (hr : rest = [] ∨ ∃ c t, rest = c :: t ∧ p c = false) :
    (l ++ rest).takeWhile p = l ∧ (l ++ rest).dropWhile p = rest := by
  induction l with
  | nil =>
    rcases hr with hr | ⟨c, t, hr, hc⟩
    · subst hr; simp
    · subst hr; simp [List.takeWhile, List.dropWhile, hc]
  | cons x xs ih =>
    have hx := hl x (by simp)
    have := ih (fun y hy => hl y (by simp [hy]))
    simp [List.takeWhile, List.dropWhile, hx, this.1, this.2]

theorem partWf_head (h : Bool) (segs : List Seg) (hw : partWf h false segs = true) :
    renderPart segs = [] ∨ ∃ c t, renderPart segs = c :: t ∧ isDigit c = false := by
  cases segs with
  | nil => left; rfl
  | cons s rest =>
    right
    simp only [partWf, Bool.false_or, Bool.and_eq_true, Bool.not_eq_true'] at hw
    obtain ⟨⟨hall, hne⟩, _⟩ := hw
    cases hnd : s.nd with
    | nil => rw [hnd] at hne; simp at hne
    | cons c t =>
      refine ⟨c, t ++ s.digits ++ renderPart rest, ?_, ?_⟩
      · simp [renderPart, Seg.render, hnd]
      · rw [hnd] at hall
        simp only [List.all_cons, Bool.and_eq_true] at hall
        exact (ndChar_props h c hall.1).1

theorem debToks_render (h : Bool) : ∀ (segs : List Seg) (first : Bool), partWf h first segs = true →
    ∀ fuel, (renderPart segs).length < fuel → debToks fuel (renderPart segs) = segs.map segKey := by
  intro segs; induction segs with
  | nil => intro _ _ fuel _; simp [renderPart, debToks_nil]
  | cons s rest ih =>
    intro first hw fuel hf
    simp only [partWf, Bool.and_eq_true] at hw
    obtain ⟨⟨hall, hfirst⟩, hnum⟩ := hw
    have hnd : ∀ c ∈ s.nd, notDigit c = true := by
      intro c hc
      have := (ndChar_props h c (List.all_eq_true.mp hall c hc)).1
      simp [notDigit, this]
    cases fuel with
    | zero => omega
    | succ f =>
      cases hn : s.num with
      | some n =>
        rw [hn] at hnum
        simp only at hnum
        -- the rendered part: nd ++ (digits ++ R)
        have hR := partWf_head h rest hnum
        have hrender : renderPart (s :: rest) = s.nd ++ (D n ++ renderPart rest) := by
          simp [renderPart, Seg.render, Seg.digits, hn, D]
        have hdig : ∀ x ∈ D n, isDigit x = true := fun x hx => List.all_eq_true.mp (D_all n) x hx
        have hstop1 : (D n ++ renderPart rest) = [] ∨ ∃ c t, (D n ++ renderPart rest) = c :: t ∧ notDigit c = false := by
          right
          cases hD : D n with
          | nil => exact absurd hD (D_ne n)
          | cons c t =>
            refine ⟨c, t ++ renderPart rest, by simp, ?_⟩
            have : isDigit c = true := hdig c (by rw [hD]; simp)
            simp [notDigit, this]
        obtain ⟨t1, d1⟩ := takeWhile_append_stop notDigit s.nd (D n ++ renderPart rest) hnd hstop1
        obtain ⟨t2, d2⟩ := takeWhile_append_stop isDigit (D n) (renderPart rest) hdig hR
        have hne : (renderPart (s :: rest)).isEmpty = false := by
          rw [hrender]
          cases hD : D n with
          | nil => exact absurd hD (D_ne n)
          | cons c t => cases s.nd <;> simp
        have hlen : (renderPart rest).length < f := by
          rw [hrender] at hf
          simp only [List.length_append] at hf
          have : 0 < (D n).length := by
            cases hD : D n with
            | nil => exact absurd hD (D_ne n)
            | cons _ _ => simp
          omega
        simp only [debToks, hne, Bool.false_eq_true, if_false, List.map]
        have e1 : debElemOf (renderPart (s :: rest)) = segKey s := by
          simp only [debElemOf, hrender, t1, d1, t2, segKey, Seg.value, hn, Option.getD, D_val]
        have e2 : debRestOf (renderPart (s :: rest)) = renderPart rest := by
          simp only [debRestOf, hrender, d1, d2]
        rw [e1, e2, ih false hnum f hlen]
      | none =>
        rw [hn] at hnum
        simp only [Bool.and_eq_true, Bool.not_eq_true'] at hnum
        have hrest : rest = [] := by cases rest <;> simp_all
        subst hrest
        have hrender : renderPart [s] = s.nd := by simp [renderPart, Seg.render, Seg.digits, hn]
        have hne : (renderPart [s]).isEmpty = false := by rw [hrender]; exact hnum.2
        obtain ⟨t1, d1⟩ := takeWhile_append_stop notDigit s.nd [] hnd (Or.inl rfl)
        simp only [List.append_nil] at t1 d1
        simp only [debToks, hne, Bool.false_eq_true, if_false, List.map]
        have e1 : debElemOf (renderPart [s]) = segKey s := by
          simp [debElemOf, hrender, t1, d1, segKey, Seg.value, hn, digitsToNat]
        have e2 : debRestOf (renderPart [s]) = [] := by
          simp [debRestOf, hrender, d1]
        rw [e1, e2, debToks_nil]

theorem debKey_render (h : Bool) (segs : List Seg) (first : Bool) (hw : partWf h first segs = true) :
    debKey (renderPart segs) = segs.map segKey :=
  debToks_render h segs first hw _ (by omega)

theorem partWf_chars (h : Bool) : ∀ (segs : List Seg) (first : Bool), partWf h first segs = true →
    (∀ s ∈ segs, ∀ c ∈ s.nd, ndChar true c = true) ∧
    (∀ c ∈ renderPart segs, isDigit c = true ∨ ndChar h c = true) := by
  intro segs; induction segs with
  | nil => intro _ _; simp [renderPart]
  | cons s rest ih =>
    intro first hw
    simp only [partWf, Bool.and_eq_true] at hw
    obtain ⟨⟨hall, _⟩, hnum⟩ := hw
    have hrest : (∀ t ∈ rest, ∀ c ∈ t.nd, ndChar true c = true) ∧ (∀ c ∈ renderPart rest, isDigit c = true ∨ ndChar h c = true) := by
      cases hn : s.num with
      | some n => rw [hn] at hnum; exact ih false hnum
      | none =>
        rw [hn] at hnum
        simp only [Bool.and_eq_true] at hnum
        have : rest = [] := by cases rest <;> simp_all
        subst this; simp [renderPart]
    constructor
    · intro t ht c hc
      simp only [List.mem_cons] at ht
      rcases ht with ht | ht
      · subst ht; exact ndChar_mono h c (List.all_eq_true.mp hall c hc)
      · exact hrest.1 t ht c hc
    · intro c hc
      simp only [renderPart, Seg.render, List.mem_append] at hc
      rcases hc with (hc | hc) | hc
      · exact Or.inr (List.all_eq_true.mp hall c hc)
      · cases hn : s.num with
        | some n => simp only [Seg.digits, hn] at hc; exact Or.inl (List.all_eq_true.mp (D_all n) c hc)
        | none => simp [Seg.digits, hn] at hc
      · exact hrest.2 c hc

/-- the implementation's padded token comparison of two rendered parts is `partCmp` -/
theorem part_agree (a b : List Seg) (ha : ∀ s ∈ a, ∀ c ∈ s.nd, ndChar true c = true)
    (hb : ∀ s ∈ b, ∀ c ∈ s.nd, ndChar true c = true) :
    cmpPad debElem debPad (a.map segKey) (b.map segKey) = partCmp a b := by
  have hpad : segKey ⟨[], none⟩ = debPad := by simp [segKey, debPad, Seg.value]
  rw [← hpad, cmpPad_map segKey debElem ⟨[], none⟩ a b]
  unfold partCmp
  apply cmpPad_congr _ _ _ (fun s : Seg => ∀ c ∈ s.nd, ndChar true c = true) (by simp)
  · intro s t hs ht
    simp only [cmpOn, debElem, thenCmp, segKey, segCmp]
    rw [nd_agree s.nd t.nd hs ht, icmp_cast]
  · exact ha
  · exact hb

/-! ## parsing the canonical text -/

theorem dropWhile_none {α} (p : α → Bool) (l : List α) (h : ∀ x ∈ l, p x = false) : l.dropWhile p = l := by
  cases l with
  | nil => rfl
  | cons x xs => simp [List.dropWhile, h x (by simp)]

theorem trimSpace_id (s : List Char) (h : ∀ c ∈ s, isSpace c = false) : trimSpace s = s := by
  unfold trimSpace
  rw [dropWhile_none isSpace s h, dropWhile_none isSpace s.reverse (fun c hc => h c (by simpa using hc))]
  simp

theorem cutLast_append_sep (sep : Char) (U R : List Char) (hR : ∀ c ∈ R, c ≠ sep) :
    cutLast sep (U ++ sep :: R) = some (U, R) := by
  unfold cutLast
  have : (U ++ sep :: R).reverse = R.reverse ++ sep :: U.reverse := by simp
  rw [this, cutAt_append_sep sep R.reverse U.reverse (fun c hc => hR c (by simpa using hc))]
  simp

theorem cutLast_none (sep : Char) (U : List Char) (hU : ∀ c ∈ U, c ≠ sep) : cutLast sep U = none := by
  unfold cutLast
  rw [cutAt_none sep U.reverse (fun c hc => hU c (by simpa using hc))]

theorem digit_props (c : Char) (h : isDigit c = true) : c ≠ ':' ∧ c ≠ '-' ∧ isSpace c = false := by
  simp only [isDigit, Bool.and_eq_true, decide_eq_true_eq] at h
  refine ⟨?_, ?_, ?_⟩
  · intro e; subst e; simp at h
  · intro e; subst e; simp at h
  · simp only [isSpace, Bool.or_eq_false_iff, Bool.and_eq_false_iff, decide_eq_false_iff_not]
    omega

/-- the body `upstream[-revision]` of a canonical version -/
def bodyOf (v : V) : List Char := renderPart v.upstream ++ v.revTail

theorem parseDeb_render (v : V) (hw : v.wf = true) :
    parseDeb (render v) = .ok ⟨(v.epoch : Int), renderPart v.upstream, renderPart v.rev⟩ := by
  obtain ⟨epoch, up, rev⟩ := v
  simp only [V.wf, Bool.and_eq_true, Bool.not_eq_true'] at hw
  obtain ⟨⟨_, hup⟩, hrev⟩ := hw
  have hupc := (partWf_chars _ up true hup).2
  -- characters of the body
  have hbody_chars : ∀ c ∈ bodyOf ⟨epoch, up, rev⟩, c ≠ ':' ∧ isSpace c = false := by
    intro c hc
    simp only [bodyOf, List.mem_append] at hc
    rcases hc with hc | hc
    · rcases hupc c hc with h | h
      · exact ⟨(digit_props c h).1, (digit_props c h).2.2⟩
      · exact ⟨(ndChar_props _ c h).2.1, (ndChar_props _ c h).2.2.1⟩
    · cases rev with
      | none => simp [V.revTail] at hc
      | some r =>
        simp only [V.revTail, List.mem_cons] at hc
        rcases hc with hc | hc
        · subst hc; exact ⟨by decide, by decide⟩
        · simp only [Bool.and_eq_true] at hrev
          rcases (partWf_chars false r true hrev.2).2 c hc with h | h
          · exact ⟨(digit_props c h).1, (digit_props c h).2.2⟩
          · exact ⟨(ndChar_props _ c h).2.1, (ndChar_props _ c h).2.2.1⟩
  have hrender : render ⟨epoch, up, rev⟩ = (if epoch = 0 then [] else D epoch ++ [':']) ++ bodyOf ⟨epoch, up, rev⟩ := rfl
  -- no white space anywhere
  have hns : ∀ c ∈ render ⟨epoch, up, rev⟩, isSpace c = false := by
    intro c hc
    rw [hrender] at hc
    simp only [List.mem_append] at hc
    rcases hc with hc | hc
    · split at hc
      · simp at hc
      · simp only [List.mem_append, List.mem_singleton] at hc
        rcases hc with hc | hc
        · exact (digit_props c (List.all_eq_true.mp (D_all epoch) c hc)).2.2
        · subst hc; decide
    · exact (hbody_chars c hc).2
  -- the epoch cut
  have hcut : cutAt ':' (render ⟨epoch, up, rev⟩) =
      if epoch = 0 then none else some (D epoch, bodyOf ⟨epoch, up, rev⟩) := by
    rw [hrender]
    by_cases he : epoch = 0
    · subst he
      simp only [if_true, List.nil_append]
      exact cutAt_none ':' _ (fun c hc => (hbody_chars c hc).1)
    · simp only [he, if_false, List.append_assoc, List.singleton_append]
      exact cutAt_append_sep ':' (D epoch) _ (D_no epoch ':' (by decide))
  have hrender0 : epoch = 0 → render ⟨epoch, up, rev⟩ = bodyOf ⟨epoch, up, rev⟩ := by
    intro he; rw [hrender]; simp [he]
  -- the revision cut
  cases rev with
  | some r =>
    simp only [Bool.and_eq_true] at hrev
    have hr : ∀ c ∈ renderPart r, c ≠ '-' := by
      intro c hc
      rcases (partWf_chars false r true hrev.2).2 c hc with h | h
      · exact (digit_props c h).2.1
      · exact (ndChar_props false c h).2.2.2 rfl
    have hlast : cutLast '-' (bodyOf ⟨epoch, up, some r⟩) = some (renderPart up, renderPart r) := by
      simp only [bodyOf, V.revTail]
      exact cutLast_append_sep '-' _ _ hr
    unfold parseDeb
    simp only [trimSpace_id _ hns, hcut]
    by_cases he : epoch = 0
    · subst he
      simp [hrender0 rfl, hlast, V.rev]
    · simp [he, toBig_D, hlast, V.rev]
  | none =>
    have hu : ∀ c ∈ renderPart up, c ≠ '-' := by
      intro c hc
      rcases hupc c hc with h | h
      · exact (digit_props c h).2.1
      · exact (ndChar_props false c (by simpa using h)).2.2.2 rfl
    have hbody : bodyOf ⟨epoch, up, none⟩ = renderPart up := by simp [bodyOf, V.revTail]
    have hlast : cutLast '-' (bodyOf ⟨epoch, up, none⟩) = none := by
      rw [hbody]; exact cutLast_none '-' _ hu
    have hlast' : cutLast '-' (renderPart up) = none := cutLast_none '-' _ hu
    have hzero : renderPart (V.rev ⟨epoch, up, none⟩) = ['0'] := rfl
    unfold parseDeb
    simp only [trimSpace_id _ hns, hcut]
    by_cases he : epoch = 0
    · subst he
      simp [hrender0 rfl, hlast, hlast', hzero, hbody]
    · simp [he, toBig_D, hlast, hlast', hzero, hbody]

/-- deb-version(7) on every canonically rendered version -/
theorem debian_spec (a b : V) (ha : a.wf = true) (hb : b.wf = true) :
    compareStr .debian (render a) (render b) = .ofOrd (DebSpec.specCmp a b) := by
  show debianFam.compareStr (render a) (render b) = _
  rw [debian_laws.compare_ok ((debianFam_parse _).trans (parseDeb_render a ha)) ((debianFam_parse _).trans (parseDeb_render b hb))]
  congr 1
  -- well-formedness of the four parts
  have wfparts : ∀ v : V, v.wf = true →
      partWf v.revision.isSome true v.upstream = true ∧ partWf false true v.rev = true := by
    intro v hv
    simp only [V.wf, Bool.and_eq_true] at hv
    refine ⟨hv.1.2, ?_⟩
    cases hr : v.revision with
    | some r => rw [hr] at hv; simp only [Bool.and_eq_true] at hv; simpa [V.rev, hr] using hv.2.2
    | none => simp [V.rev, hr, partWf, ndChar]
  obtain ⟨au, ar⟩ := wfparts a ha
  obtain ⟨bu, br⟩ := wfparts b hb
  simp only [cmpDebT, DebSpec.specCmp, icmp_cast]
  rw [debKey_render _ _ _ au, debKey_render _ _ _ bu, debKey_render _ _ _ ar, debKey_render _ _ _ br,
    part_agree _ _ (partWf_chars _ _ _ au).1 (partWf_chars _ _ _ bu).1,
    part_agree _ _ (partWf_chars _ _ _ ar).1 (partWf_chars _ _ _ br).1]

end Scalibr.Semantic
