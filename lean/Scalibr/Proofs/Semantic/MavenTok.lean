/-
C07 — Maven, part 1: two different tokens are strictly ordered one way or the other
(`tokLess_trichotomy`), provided numeric values are written canonically and the prefixes are
comparable (equal, or both a separator).
-/
import Scalibr.Proofs.Semantic.RedHat
namespace Scalibr.Semantic

/-! ## decimal rendering round trip -/

theorem digitsToNat_append (xs : List Char) (c : Char) : digitsToNat (xs ++ [c]) = digitsToNat xs * 10 + digitVal c := by
  simp [digitsToNat, List.foldl_append]

theorem digitChar_props (n : Nat) (h : n < 10) : isDigit n.digitChar = true ∧ digitVal n.digitChar = n ∧ n.digitChar ≠ '-' ∧ n.digitChar ≠ '+' := by
  have : n = 0 ∨ n = 1 ∨ n = 2 ∨ n = 3 ∨ n = 4 ∨ n = 5 ∨ n = 6 ∨ n = 7 ∨ n = 8 ∨ n = 9 := by omega
  rcases this with h | h | h | h | h | h | h | h | h | h <;> subst h <;> decide

theorem toDigits_props : ∀ (k n : Nat), n < k →
    (Nat.toDigits 10 n).all isDigit = true ∧ digitsToNat (Nat.toDigits 10 n) = n ∧ Nat.toDigits 10 n ≠ [] := by
  intro k; induction k with
  | zero => intro n h; omega
  | succ k ih =>
    intro n h
    by_cases hlt : n < 10
    · rw [Nat.toDigits_of_lt_base hlt]
      obtain ⟨h1, h2, _⟩ := digitChar_props n hlt
      simp [digitsToNat, h1, h2]
    · have hq : 0 < n / 10 := by omega
      have hr : n % 10 < 10 := by omega
      have e : n = 10 * (n / 10) + n % 10 := by omega
      have := @Nat.toDigits_append_toDigits 10 (n / 10) (n % 10) (by omega) hq hr
      rw [← e] at this
      rw [← this, Nat.toDigits_of_lt_base hr]
      obtain ⟨a1, a2, a3⟩ := ih (n / 10) (by omega)
      obtain ⟨h1, h2, _⟩ := digitChar_props (n % 10) hr
      refine ⟨by simp [a1, h1], ?_, by simp⟩
      rw [digitsToNat_append, a2, h2]; omega

theorem toBig_intToChars (n : Int) : toBig (intToChars n) = some n := by
  unfold intToChars
  obtain ⟨a1, a2, a3⟩ := toDigits_props (n.natAbs + 1) n.natAbs (by omega)
  by_cases hn : n < 0
  · simp only [hn, if_true, toBig]
    have : (Nat.toDigits 10 n.natAbs).isEmpty = false := by
      cases h : Nat.toDigits 10 n.natAbs with
      | nil => exact absurd h a3
      | cons _ _ => rfl
    simp only [this, a1, Bool.not_true, Bool.or_self, Bool.false_eq_true, if_false, a2]
    congr 1; omega
  · simp only [hn, if_false]
    cases h : Nat.toDigits 10 n.natAbs with
    | nil => exact absurd h a3
    | cons c cs =>
      have hc : isDigit c = true := by rw [h] at a1; simp at a1; exact a1.1
      have h1 : c ≠ '-' := by intro e; subst e; simp [isDigit] at hc
      have h2 : c ≠ '+' := by intro e; subst e; simp [isDigit] at hc
      rw [toBig_cons c cs h1 h2, ← h, a1, a2]
      have : (Nat.toDigits 10 n.natAbs).isEmpty = false := by rw [h]; rfl
      simp only [this, Bool.not_true, Bool.or_self, Bool.false_eq_true, if_false]
      congr 1; omega

/-! ## strings -/

theorem char_eq_of_toNat {a b : Char} (h : a.toNat = b.toNat) : a = b := by
  apply Char.ext
  apply UInt32.toNat_inj.mp
  exact h

theorem strCmp_eq_iff : ∀ (a b : List Char), strCmp a b = .eq ↔ a = b := by
  intro a; induction a with
  | nil => intro b; cases b <;> simp [strCmp, cmpLex]
  | cons x xs ih =>
    intro b
    cases b with
    | nil => simp [strCmp, cmpLex]
    | cons y ys =>
      have ih' := ih ys
      simp only [strCmp] at ih' ⊢
      simp only [cmpLex]
      constructor
      · intro h
        cases e : ncmp x.toNat y.toNat with
        | eq =>
          rw [e] at h
          have := ih'.mp h
          rw [char_eq_of_toNat (ncmp_eq.mp e), this]
        | lt => rw [e] at h; simp [Ordering.then] at h
        | gt => rw [e] at h; simp [Ordering.then] at h
      · intro h
        injection h with h1 h2
        subst h1
        rw [ncmp_isCmp.refl]
        exact ih'.mpr h2

theorem strCmp_lt_xor {a b : List Char} (h : a ≠ b) :
    decide (strCmp b a = .lt) = !decide (strCmp a b = .lt) := by
  have hs := strCmp_isCmp.swap a b
  cases e : strCmp a b with
  | eq => exact absurd ((strCmp_eq_iff a b).mp e) h
  | lt => rw [e] at hs; simp [hs, Ordering.swap]
  | gt => rw [e] at hs; simp [hs, Ordering.swap]

/-! ## tokens -/

/-- a numeric value is the decimal rendering of its number -/
def MTok.canonVal (t : MTok) : Prop := ∀ n, toBig t.val = some n → t.val = intToChars n

def isSepPre (p : List Char) : Prop := p = ['-'] ∨ p = ['.']

theorem keywordIdx_inj (v w : List Char) (h : keywordIdx v = keywordIdx w) (hv : keywordIdx v ≠ 7) : v = w := by
  unfold keywordIdx at h hv
  repeat' split at h
  all_goals first | omega | simp_all

theorem qualOrder_sep (t : MTok) (h : isSepPre t.pre) :
    (t.pre = ['-'] ∧ (qualOrder t = some 1 ∨ qualOrder t = some 2)) ∨ (t.pre = ['.'] ∧ (qualOrder t = some 0 ∨ qualOrder t = some 3)) := by
  unfold qualOrder
  rcases h with h | h
  · left; refine ⟨h, ?_⟩
    rw [h]; cases (toBig t.val).isSome <;> simp
  · right; refine ⟨h, ?_⟩
    rw [h]; cases (toBig t.val).isSome <;> simp

/-- two different tokens with comparable prefixes: exactly one is below the other, and `lessThan`
does not fail -/
theorem tokLess_trichotomy (x y : MTok) (hne : x.equal y = false) (hx : x.canonVal) (hy : y.canonVal)
    (hp : x.pre = y.pre ∨ (isSepPre x.pre ∧ isSepPre y.pre)) :
    ∃ r, tokLess x y = some r ∧ tokLess y x = some (!r) := by
  by_cases hpe : x.pre = y.pre
  · have hvne : x.val ≠ y.val := by
      intro hv; simp [MTok.equal, hpe, hv] at hne
    unfold tokLess
    simp only [hpe, if_true]
    cases tx : toBig x.val with
    | some a =>
      cases ty : toBig y.val with
      | some b =>
        have : a ≠ b := by
          intro e; subst e
          exact hvne ((hx a tx).trans (hy a ty).symm)
        refine ⟨decide (a < b), rfl, ?_⟩
        simp only [Option.some.injEq]
        by_cases hab : a < b
        · have : ¬ b < a := by omega
          simp [hab, this]
        · have : b < a := by omega
          simp [hab, this]
      | none =>
        cases hn : x.isNull with
        | false => exact ⟨false, by simp, by simp⟩
        | true =>
          simp only [Option.isSome, Bool.not_true, Bool.and_false, Bool.false_eq_true, if_false, Bool.false_and]
          by_cases h7 : keywordIdx x.val = 7 ∧ keywordIdx y.val = 7
          · obtain ⟨h1, h2⟩ := h7
            refine ⟨decide (strCmp x.val y.val = .lt), by simp [h1, h2], ?_⟩
            simp only [h1, h2, decide_true, Bool.and_self, if_true, Option.some.injEq]
            exact strCmp_lt_xor hvne
          · have hk : keywordIdx x.val ≠ keywordIdx y.val := by
              intro e
              by_cases h1 : keywordIdx x.val = 7
              · exact h7 ⟨h1, e ▸ h1⟩
              · exact hvne (keywordIdx_inj _ _ e h1)
            have h7' : ¬ (keywordIdx y.val = 7 ∧ keywordIdx x.val = 7) := fun ⟨a, b⟩ => h7 ⟨b, a⟩
            refine ⟨decide (keywordIdx x.val < keywordIdx y.val), by simp [h7], ?_⟩
            simp only [decide_eq_true_eq, Bool.and_eq_true, h7', if_false, Option.some.injEq]
            by_cases hlt : keywordIdx x.val < keywordIdx y.val
            · have : ¬ keywordIdx y.val < keywordIdx x.val := by omega
              simp [hlt, this]
            · have : keywordIdx y.val < keywordIdx x.val := by omega
              simp [hlt, this]
    | none =>
      cases ty : toBig y.val with
      | some b =>
        cases hn : y.isNull with
        | false => exact ⟨true, by simp, by simp⟩
        | true =>
          simp only [Option.isSome, Bool.not_true, Bool.and_false, Bool.false_eq_true, if_false, Bool.false_and]
          by_cases h7 : keywordIdx x.val = 7 ∧ keywordIdx y.val = 7
          · obtain ⟨h1, h2⟩ := h7
            refine ⟨decide (strCmp x.val y.val = .lt), by simp [h1, h2], ?_⟩
            simp only [h1, h2, decide_true, Bool.and_self, if_true, Option.some.injEq]
            exact strCmp_lt_xor hvne
          · have hk : keywordIdx x.val ≠ keywordIdx y.val := by
              intro e
              by_cases h1 : keywordIdx x.val = 7
              · exact h7 ⟨h1, e ▸ h1⟩
              · exact hvne (keywordIdx_inj _ _ e h1)
            have h7' : ¬ (keywordIdx y.val = 7 ∧ keywordIdx x.val = 7) := fun ⟨a, b⟩ => h7 ⟨b, a⟩
            refine ⟨decide (keywordIdx x.val < keywordIdx y.val), by simp [h7], ?_⟩
            simp only [decide_eq_true_eq, Bool.and_eq_true, h7', if_false, Option.some.injEq]
            by_cases hlt : keywordIdx x.val < keywordIdx y.val
            · have : ¬ keywordIdx y.val < keywordIdx x.val := by omega
              simp [hlt, this]
            · have : keywordIdx y.val < keywordIdx x.val := by omega
              simp [hlt, this]
      | none =>
        simp only [Option.isSome, Bool.false_and, Bool.false_eq_true, if_false]
        by_cases h7 : keywordIdx x.val = 7 ∧ keywordIdx y.val = 7
        · obtain ⟨h1, h2⟩ := h7
          refine ⟨decide (strCmp x.val y.val = .lt), by simp [h1, h2], ?_⟩
          simp only [h1, h2, decide_true, Bool.and_self, if_true, Option.some.injEq]
          exact strCmp_lt_xor hvne
        · have hk : keywordIdx x.val ≠ keywordIdx y.val := by
            intro e
            by_cases h1 : keywordIdx x.val = 7
            · exact h7 ⟨h1, e ▸ h1⟩
            · exact hvne (keywordIdx_inj _ _ e h1)
          have h7' : ¬ (keywordIdx y.val = 7 ∧ keywordIdx x.val = 7) := fun ⟨a, b⟩ => h7 ⟨b, a⟩
          refine ⟨decide (keywordIdx x.val < keywordIdx y.val), by simp [h7], ?_⟩
          simp only [decide_eq_true_eq, Bool.and_eq_true, h7', if_false, Option.some.injEq]
          by_cases hlt : keywordIdx x.val < keywordIdx y.val
          · have : ¬ keywordIdx y.val < keywordIdx x.val := by omega
            simp [hlt, this]
          · have : keywordIdx y.val < keywordIdx x.val := by omega
            simp [hlt, this]
  · have hsep : isSepPre x.pre ∧ isSepPre y.pre := by
      rcases hp with h | h
      · exact absurd h hpe
      · exact h
    have hpe' : ¬ y.pre = x.pre := fun e => hpe e.symm
    unfold tokLess
    simp only [hpe, hpe', if_false]
    rcases qualOrder_sep x hsep.1 with ⟨px, qx⟩ | ⟨px, qx⟩ <;> rcases qualOrder_sep y hsep.2 with ⟨py, qy⟩ | ⟨py, qy⟩
    · exact absurd (px.trans py.symm) hpe
    · rcases qx with qx | qx <;> rcases qy with qy | qy <;> rw [qx, qy] <;> exact ⟨_, rfl, by decide⟩
    · rcases qx with qx | qx <;> rcases qy with qy | qy <;> rw [qx, qy] <;> exact ⟨_, rfl, by decide⟩
    · exact absurd (px.trans py.symm) hpe

end Scalibr.Semantic
