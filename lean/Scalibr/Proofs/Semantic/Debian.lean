/-
C07 — Debian / Ubuntu. `compareDebianVersions` walks both strings at once; it equals the padded
lexicographic comparison of the two strings' own token lists (non-digit prefix as weights, digit
prefix as a number), which makes it a total preorder comparator by the algebra of `Lex.lean`.
-/
import Scalibr.Proofs.Semantic.Alpine
namespace Scalibr.Semantic

def notDigit (c : Char) : Bool := !isDigit c

/-- one (non-digit prefix, digit prefix) pair and what is left -/
def debElemOf (a : List Char) : List Nat × Int :=
  ((a.takeWhile notDigit).map debWeigh, (digitsToNat ((a.dropWhile notDigit).takeWhile isDigit) : Int))

def debRestOf (a : List Char) : List Char := (a.dropWhile notDigit).dropWhile isDigit

/-- the token list of one string -/
def debToks : Nat → List Char → List (List Nat × Int)
  | 0, _ => []
  | fuel + 1, a => if a.isEmpty then [] else debElemOf a :: debToks fuel (debRestOf a)

/-- non-digit parts by padded weights (a missing character weighs 2), then the numbers -/
def debElem : List Nat × Int → List Nat × Int → Ordering :=
  thenCmp (cmpOn (·.1) (cmpPad ncmp 2)) (cmpOn (·.2) icmp)

theorem debElem_isCmp : IsCmp debElem :=
  thenCmp_isCmp (cmpOn_isCmp _ (cmpPad_isCmp 2 ncmp_isCmp)) (cmpOn_isCmp _ icmp_isCmp)

def debPad : List Nat × Int := ([], 0)

theorem debElemOf_nil : debElemOf [] = debPad := by simp [debElemOf, debPad, digitsToNat]
theorem debRestOf_nil : debRestOf [] = [] := by simp [debRestOf]
theorem debToks_nil (n : Nat) : debToks n [] = [] := by cases n <;> simp [debToks]

theorem cmpDebNonDigit_eq (ap bp : List Char) :
    cmpDebNonDigit ap bp = cmpPad ncmp 2 (ap.map debWeigh) (bp.map debWeigh) := by
  unfold cmpDebNonDigit
  split
  · rename_i h; subst h; exact (cmpPad_refl 2 ncmp_isCmp.toSym _).symm
  · rfl

theorem dropWhile_of_takeWhile_nil {α} (p : α → Bool) (l : List α) (h : l.takeWhile p = []) : l.dropWhile p = l := by
  cases l with
  | nil => rfl
  | cons x xs =>
    by_cases hx : p x = true
    · simp [List.takeWhile, hx] at h
    · simp [List.dropWhile, hx]

theorem debDigitPrefix_eq (s : List Char) :
    debDigitPrefix s = some ((digitsToNat (s.takeWhile isDigit) : Int), s.dropWhile isDigit) := by
  unfold debDigitPrefix
  simp only
  cases hds : s.takeWhile isDigit with
  | nil => simp [digitsToNat, dropWhile_of_takeWhile_nil isDigit s hds]
  | cons c cs =>
    have hall : (c :: cs).all isDigit = true := by rw [← hds]; exact List.all_takeWhile
    have hc : isDigit c = true := by simp at hall; exact hall.1
    have h1 : c ≠ '-' := by intro e; subst e; simp [isDigit] at hc
    have h2 : c ≠ '+' := by intro e; subst e; simp [isDigit] at hc
    rw [toBig_cons c cs h1 h2, hall]
    simp

theorem ordThen_ordThen (x y : Ordering) (k : Unit → CRes) :
    ordThen x (fun _ => ordThen y k) = ordThen (x.then y) k := by
  cases x <;> cases y <;> rfl

theorem ordThen_ord (x y : Ordering) : ordThen x (fun _ => .ord y) = .ord (x.then y) := by
  cases x <;> rfl

/-- one iteration of the loop, in terms of the two strings' own first tokens -/
theorem cmpDebStr_succ (fuel : Nat) (a b : List Char) (h : ¬ (a = [] ∧ b = [])) :
    cmpDebStr (fuel + 1) a b =
      ordThen (debElem (debElemOf a) (debElemOf b)) (fun _ => cmpDebStr fuel (debRestOf a) (debRestOf b)) := by
  have hne : (a.isEmpty && b.isEmpty) = false := by
    cases a <;> cases b <;> simp at h ⊢
  simp only [cmpDebStr, hne, Bool.false_eq_true, if_false, cmpDebNonDigit_eq, debDigitPrefix_eq]
  rw [ordThen_ordThen]
  rfl

theorem debToks_unc (fuel : Nat) (a : List Char) :
    unc debPad (debToks (fuel + 1) a) = (debElemOf a, debToks fuel (debRestOf a)) := by
  cases a with
  | nil => simp [debToks, unc, debElemOf_nil, debRestOf_nil, debToks_nil]
  | cons x xs => simp [debToks, unc]

/-- the simultaneous loop = padded comparison of the token lists (any fuel) -/
theorem cmpDebStr_eq (fuel : Nat) : ∀ a b : List Char,
    cmpDebStr fuel a b = .ord (cmpPad debElem debPad (debToks fuel a) (debToks fuel b)) := by
  induction fuel with
  | zero => intro a b; simp [cmpDebStr, debToks, cmpPad, cmpPadL]
  | succ n ih =>
    intro a b
    by_cases h : a = [] ∧ b = []
    · obtain ⟨ha, hb⟩ := h; subst ha hb
      simp [cmpDebStr, debToks, cmpPad, cmpPadL]
    · rw [cmpDebStr_succ n a b h, ih]
      have hne : ¬ (debToks (n + 1) a = [] ∧ debToks (n + 1) b = []) := by
        intro ⟨h1, h2⟩
        apply h
        constructor
        · cases a with
          | nil => rfl
          | cons x xs => simp [debToks] at h1
        · cases b with
          | nil => rfl
          | cons x xs => simp [debToks] at h2
      rw [cmpPad_step debElem debPad _ _ hne, debToks_unc, debToks_unc, ordThen_ord]

theorem length_dropWhile_le {α} (p : α → Bool) (l : List α) : (l.dropWhile p).length ≤ l.length := by
  induction l with
  | nil => simp
  | cons x xs ih =>
    simp only [List.dropWhile]
    split
    · simp only [List.length_cons]; omega
    · simp

theorem debRestOf_length (a : List Char) (h : a ≠ []) : (debRestOf a).length < a.length := by
  cases a with
  | nil => exact absurd rfl h
  | cons c cs =>
    unfold debRestOf
    by_cases hc : notDigit c = true
    · have h1 : ((c :: cs).dropWhile notDigit) = cs.dropWhile notDigit := by simp [List.dropWhile, hc]
      rw [h1]
      have := length_dropWhile_le isDigit (cs.dropWhile notDigit)
      have := length_dropWhile_le notDigit cs
      simp only [List.length_cons]; omega
    · have hd : isDigit c = true := by simp [notDigit] at hc; exact hc
      have h1 : ((c :: cs).dropWhile notDigit) = c :: cs := by simp [List.dropWhile, hc]
      rw [h1]
      have h2 : (c :: cs).dropWhile isDigit = cs.dropWhile isDigit := by simp [List.dropWhile, hd]
      rw [h2]
      have := length_dropWhile_le isDigit cs
      simp only [List.length_cons]; omega

/-- any fuel above the length yields the same token list -/
theorem debToks_fuel : ∀ (n m : Nat) (a : List Char), a.length < n → a.length < m → debToks n a = debToks m a := by
  intro n; induction n with
  | zero => intro m a h; omega
  | succ n ih =>
    intro m a hn hm
    cases m with
    | zero => omega
    | succ m =>
      cases a with
      | nil => simp [debToks]
      | cons c cs =>
        simp only [debToks, List.isEmpty_cons, Bool.false_eq_true, if_false]
        have := debRestOf_length (c :: cs) (by simp)
        rw [ih m (debRestOf (c :: cs)) (by omega) (by omega)]

/-- the tokens of a string -/
def debKey (a : List Char) : List (List Nat × Int) := debToks (a.length + 1) a

theorem cmpDebStr_key (a b : List Char) :
    cmpDebStr (debFuel a b) a b = .ord (cmpPad debElem debPad (debKey a) (debKey b)) := by
  rw [cmpDebStr_eq]
  unfold debKey debFuel
  rw [debToks_fuel (a.length + b.length + 1) (a.length + 1) a (by omega) (by omega),
    debToks_fuel (a.length + b.length + 1) (b.length + 1) b (by omega) (by omega)]

/-- `debianVersion.compare` as a total function: epoch, then upstream tokens, then revision tokens -/
def cmpDebT (v w : DebV) : Ordering :=
  (icmp v.epoch w.epoch).then ((cmpPad debElem debPad (debKey v.upstream) (debKey w.upstream)).then
    (cmpPad debElem debPad (debKey v.revision) (debKey w.revision)))

theorem cmpDeb_eq (v w : DebV) : cmpDeb v w = .ord (cmpDebT v w) := by
  unfold cmpDeb cmpDebT
  rw [cmpDebStr_key, cmpDebStr_key]
  cases icmp v.epoch w.epoch <;> simp [ordThen, Ordering.then]
  cases cmpPad debElem debPad (debKey v.upstream) (debKey w.upstream) <;> simp [CRes.andThen]

theorem cmpDebT_isCmp : IsCmp cmpDebT :=
  (thenCmp_isCmp (cmpOn_isCmp DebV.epoch icmp_isCmp)
    (thenCmp_isCmp (cmpOn_isCmp (fun v : DebV => debKey v.upstream) (cmpPad_isCmp debPad debElem_isCmp))
      (cmpOn_isCmp (fun v : DebV => debKey v.revision) (cmpPad_isCmp debPad debElem_isCmp)))).congr (fun _ _ => rfl)

theorem parseDeb_nopanic (s : List Char) : parseDeb s ≠ .panic := by
  unfold parseDeb
  simp only
  repeat' split
  all_goals simp

theorem debian_laws : FamLaws debianFam (fun _ => True) cmpDebT where
  parse_nopanic := parseDeb_nopanic
  parse_wf := fun _ _ _ => trivial
  cmp_eq := fun v w _ _ => cmpDeb_eq v w
  refl := fun v _ => cmpDebT_isCmp.refl v
  swap := fun v w _ _ => cmpDebT_isCmp.swap v w

end Scalibr.Semantic
