/-
C07 — Debian / Ubuntu. `compareDebianVersions` walks both strings at once; it equals the padded
lexicographic comparison of the two strings' own token lists (non-digit prefix as weights, digit
prefix as a number), which makes it a total preorder comparator by the algebra of `Lex.lean`.
-/
import Scalibr.Proofs.Semantic.Alpine
import Scalibr.Proofs.Semantic.GoShape
namespace Scalibr.Semantic

def notDigit (c : Char) : Bool := !isDigit c

/-- one (non-digit prefix, digit prefix) pair and what is left -/
def debElemOf (a : List Char) : List Nat × Int :=
  ((a.takeWhile notDigit).map debWeigh, (digitsToNat ((a.dropWhile notDigit).takeWhile isDigit) : Int))

def debRestOf (a : List Char) : List Char := (a.dropWhile notDigit).dropWhile isDigit

/-- the token list of one string -/
def debToks : Nat → List Char → List (List Nat × Int)
  | 0, _ => []
  | fuel + 1, a => if a.isEmpty then [] else debElemOf a :: debToks fuel (debRestOf a)

/-- non-digit parts by padded weights (a missing character weighs 2), then the numbers -/
def debElem : List Nat × Int → List Nat × Int → Ordering :=
  thenCmp (cmpOn (·.1) (cmpPad ncmp 2)) (cmpOn (·.2) icmp)

theorem debElem_isCmp : IsCmp debElem :=
  thenCmp_isCmp (cmpOn_isCmp _ (cmpPad_isCmp 2 ncmp_isCmp)) (cmpOn_isCmp _ icmp_isCmp)

def debPad : List Nat × Int := ([], 0)

theorem debElemOf_nil : debElemOf [] = debPad := by simp [debElemOf, debPad, digitsToNat]
theorem debRestOf_nil : debRestOf [] = [] := by simp [debRestOf]
theorem debToks_nil (n : Nat) : debToks n [] = [] := by cases n <;> simp [debToks]

theorem cmpDebNonDigit_eq (ap bp : List Char) :
    cmpDebNonDigit ap bp = cmpPad ncmp 2 (ap.map debWeigh) (bp.map debWeigh) := by
  unfold cmpDebNonDigit
  split
  · rename_i h; subst h; exact (cmpPad_refl 2 ncmp_isCmp.toSym _).symm
  · rfl

theorem dropWhile_of_takeWhile_nil {α} (p : α → Bool) (l : List α) (h : l.takeWhile p = []) : l.dropWhile p = l := by
  cases l with
  | nil => rfl
  | cons x xs =>
    by_cases hx : p x = true
    · simp [List.takeWhile, hx] at h
    · simp [List.dropWhile, hx]

theorem debDigitPrefix_eq (s : List Char) :
    debDigitPrefix s = some ((digitsToNat (s.takeWhile isDigit) : Int), s.dropWhile isDigit) := by
  unfold debDigitPrefix
  simp only
  cases hds : s.takeWhile isDigit with
  | nil => simp [digitsToNat, dropWhile_of_takeWhile_nil isDigit s hds]
  | cons c cs =>
    have hall : (c :: cs).all isDigit = true := by rw [← hds]; exact List.all_takeWhile
    have hc : isDigit c = true := by simp at hall; exact hall.1
    have h1 : c ≠ '-' := by intro e; subst e; simp [isDigit] at hc
    have h2 : c ≠ '+' := by intro e; subst e; simp [isDigit] at hc
    rw [toBig_cons c cs h1 h2, hall]
    simp

theorem ordThen_ordThen (x y : Ordering) (k : Unit → CRes) :
    ordThen x (fun _ => ordThen y k) = ordThen (x.then y) k := by
  cases x <;> cases y <;> rfl

theorem ordThen_ord (x y : Ordering) : ordThen x (fun _ => .ord y) = .ord (x.then y) := by
  cases x <;> rfl

/-- one iteration of the loop, in terms of the two strings' own first tokens -/
theorem cmpDebStr_succ (fuel : Nat) (a b : List Char) (h : ¬ (a = [] ∧ b = [])) :
    cmpDebStr (fuel + 1) a b =
      ordThen (debElem (debElemOf a) (debElemOf b)) (fun _ => cmpDebStr fuel (debRestOf a) (debRestOf b)) := by
  have hne : (a.isEmpty && b.isEmpty) = false := by
    cases a <;> cases b <;> simp at h ⊢
  simp only [cmpDebStr, hne, Bool.false_eq_true, if_false, cmpDebNonDigit_eq, debDigitPrefix_eq]
  rw [ordThen_ordThen]
  rfl

theorem debToks_unc (fuel : Nat) (a : List Char) :
    unc debPad (debToks (fuel + 1) a) = (debElemOf a, debToks fuel (debRestOf a)) := by
  cases a with
  | nil => simp [debToks, unc, debElemOf_nil, debRestOf_nil, debToks_nil]
  | cons x xs => simp [debToks, unc]

/-- the simultaneous loop = padded comparison of the token lists (any fuel) -/
theorem cmpDebStr_eq (fuel : Nat) : ∀ a b : List Char,
    cmpDebStr fuel a b = .ord (cmpPad debElem debPad (debToks fuel a) (debToks fuel b)) := by
  induction fuel with
  | zero => intro a b; simp [cmpDebStr, debToks, cmpPad, cmpPadL]
  | succ n ih =>
    intro a b
    by_cases h : a = [] ∧ b = []
    · obtain ⟨ha, hb⟩ := h; subst ha hb
      simp [cmpDebStr, debToks, cmpPad, cmpPadL]
    · rw [cmpDebStr_succ n a b h, ih]
      have hne : ¬ (debToks (n + 1) a = [] ∧ debToks (n + 1) b = []) := by
        intro ⟨h1, h2⟩
        apply h
        constructor
        · cases a with
          | nil => rfl
          | cons x xs => simp [debToks] at h1
        · cases b with
          | nil => rfl
          | cons x xs => simp [debToks] at h2
      rw [cmpPad_step debElem debPad _ _ hne, debToks_unc, debToks_unc, ordThen_ord]

theorem length_dropWhile_le {α} (p : α → Bool) (l : List α) : (l.dropWhile p).length ≤ l.length := by
  induction l with
  | nil => simp
  | cons x xs ih =>
    simp only [List.dropWhile]
    split
    · simp only [List.length_cons]; omega
    · simp

theorem debRestOf_length (a : List Char) (h : a ≠ []) : (debRestOf a).length < a.length := by
  cases a with
  | nil => exact absurd rfl h
  | cons c cs =>
    unfold debRestOf
    by_cases hc : notDigit c = true
    · have h1 : ((c :: cs).dropWhile notDigit) = cs.dropWhile notDigit := by simp [List.dropWhile, hc]
      rw [h1]
      have := length_dropWhile_le isDigit (cs.dropWhile notDigit)
      have := length_dropWhile_le notDigit cs
      simp only [List.length_cons]; omega
    · have hd : isDigit c = true := by simp [notDigit] at hc; exact hc
      have h1 : ((c :: cs).dropWhile notDigit) = c :: cs := by simp [List.dropWhile, hc]
      rw [h1]
      have h2 : (c :: cs).dropWhile isDigit = cs.dropWhile isDigit := by simp [List.dropWhile, hd]
      rw [h2]
      have := length_dropWhile_le isDigit cs
      simp only [List.length_cons]; omega

/-- any fuel above the length yields the same token list -/
theorem debToks_fuel : ∀ (n m : Nat) (a : List Char), a.length < n → a.length < m → debToks n a = debToks m a := by
  intro n; induction n with
  | zero => intro m a h; omega
  | succ n ih =>
    intro m a hn hm
    cases m with
    | zero => omega
    | succ m =>
      cases a with
      | nil => simp [debToks]
      | cons c cs =>
        simp only [debToks, List.isEmpty_cons, Bool.false_eq_true, if_false]
        have := debRestOf_length (c :: cs) (by simp)
        rw [ih m (debRestOf (c :: cs)) (by omega) (by omega)]

/-- the tokens of a string -/
def debKey (a : List Char) : List (List Nat × Int) := debToks (a.length + 1) a

theorem cmpDebStr_key (a b : List Char) :
    cmpDebStr (debFuel a b) a b = .ord (cmpPad debElem debPad (debKey a) (debKey b)) := by
  rw [cmpDebStr_eq]
  unfold debKey debFuel
  rw [debToks_fuel (a.length + b.length + 1) (a.length + 1) a (by omega) (by omega),
    debToks_fuel (a.length + b.length + 1) (b.length + 1) b (by omega) (by omega)]

/-- `debianVersion.compare` as a total function: epoch, then upstream tokens, then revision tokens -/
def cmpDebT (v w : DebV) : Ordering :=
  (icmp v.epoch w.epoch).then ((cmpPad debElem debPad (debKey v.upstream) (debKey w.upstream)).then
    (cmpPad debElem debPad (debKey v.revision) (debKey w.revision)))

theorem cmpDeb_eq (v w : DebV) : cmpDeb v w = .ord (cmpDebT v w) := by
  unfold cmpDeb cmpDebT
  rw [cmpDebStr_key, cmpDebStr_key]
  cases icmp v.epoch w.epoch <;> simp [ordThen, Ordering.then]
  cases cmpPad debElem debPad (debKey v.upstream) (debKey w.upstream) <;> simp [CRes.andThen]

theorem cmpDebT_isCmp : IsCmp cmpDebT :=
  (thenCmp_isCmp (cmpOn_isCmp DebV.epoch icmp_isCmp)
    (thenCmp_isCmp (cmpOn_isCmp (fun v : DebV => debKey v.upstream) (cmpPad_isCmp debPad debElem_isCmp))
      (cmpOn_isCmp (fun v : DebV => debKey v.revision) (cmpPad_isCmp debPad debElem_isCmp)))).congr (fun _ _ => rfl)

theorem parseDeb_nopanic (s : List Char) : parseDeb s ≠ .panic := by
  unfold parseDeb
  simp only
  repeat' split
  all_goals simp

/-! ## the Go-shaped functions: every index and slice is in range -/

theorem take_takeWhile {α : Type} (p : α → Bool) (s : List α) : s.take (s.takeWhile p).length = s.takeWhile p := by
  have h := @List.takeWhile_append_dropWhile _ p s
  calc s.take (s.takeWhile p).length = (s.takeWhile p ++ s.dropWhile p).take (s.takeWhile p).length := by rw [h]
    _ = s.takeWhile p := List.take_left' rfl

theorem drop_takeWhile {α : Type} (p : α → Bool) (s : List α) : s.drop (s.takeWhile p).length = s.dropWhile p := by
  have h := @List.takeWhile_append_dropWhile _ p s
  calc s.drop (s.takeWhile p).length = (s.takeWhile p ++ s.dropWhile p).drop (s.takeWhile p).length := by rw [h]
    _ = s.dropWhile p := List.drop_left' rfl

theorem length_takeWhile_le {α : Type} (p : α → Bool) (s : List α) : (s.takeWhile p).length ≤ s.length := by
  have h := congrArg List.length (@List.takeWhile_append_dropWhile _ p s)
  simp only [List.length_append] at h; omega

theorem goSlice_eq {α : Type} (l : List α) (lo hi : Int) (a b : Nat) (hlo : lo = a) (hhi : hi = b)
    (h1 : a ≤ b) (h2 : b ≤ l.length) : goSlice l lo hi = some ((l.take b).drop a) := by
  subst hlo hhi
  have c : (0 : Int) ≤ (a : Int) ∧ (a : Int) ≤ (b : Int) ∧ (b : Int) ≤ (l.length : Int) := by omega
  simp [goSlice, c]

/-- the index the two prefix splitters slice at is the length of the prefix, hence in range -/
theorem idx_split (p : Char → Bool) (s : List Char) :
    let i := indexFunc p s
    let i' := if i = -1 then (s.length : Int) else i
    (i = 0 ↔ (s.takeWhile fun c => !p c).length = 0 ∧ 0 < s.length) ∧
      goSlice s 0 i' = some (s.takeWhile fun c => !p c) ∧ goSlice s i' s.length = some (s.dropWhile fun c => !p c) := by
  have hle := length_takeWhile_le (fun c => !p c) s
  simp only [indexFunc]
  by_cases hn : (s.takeWhile fun c => !p c).length < s.length
  · simp only [hn, if_true]
    have hne : ¬ (((s.takeWhile fun c => !p c).length : Int) = -1) := by omega
    simp only [hne, if_false]
    refine ⟨by omega, ?_, ?_⟩
    · rw [goSlice_eq s 0 _ 0 _ rfl rfl (Nat.zero_le _) hle, List.drop_zero, take_takeWhile]
    · rw [goSlice_eq s _ _ _ s.length rfl rfl hle (Nat.le_refl _), List.take_length, drop_takeWhile]
  · simp only [hn, if_false, if_true]
    have he : (s.takeWhile fun c => !p c).length = s.length := by omega
    refine ⟨by omega, ?_, ?_⟩
    · rw [goSlice_eq s 0 _ 0 s.length rfl rfl (Nat.zero_le _) (Nat.le_refl _), List.drop_zero, ← he, take_takeWhile]
    · rw [goSlice_eq s _ _ s.length s.length rfl rfl (Nat.le_refl _) (Nat.le_refl _), List.take_length, ← drop_takeWhile, he]

theorem debNonDigitPrefixGo_eq (s : List Char) :
    debNonDigitPrefixGo s = some (s.takeWhile (fun c => !isDigit c), s.dropWhile (fun c => !isDigit c)) := by
  obtain ⟨h0, h1, h2⟩ := idx_split isDigit s
  unfold debNonDigitPrefixGo
  simp only []
  by_cases hz : (indexFunc isDigit s = 0 || s.isEmpty) = true
  · simp only [hz, if_true]
    have hl : (s.takeWhile fun c => !isDigit c).length = 0 := by
      simp only [Bool.or_eq_true, decide_eq_true_eq, List.isEmpty_iff] at hz
      rcases hz with hz | hz
      · exact (h0.mp hz).1
      · subst hz; rfl
    have ht : (s.takeWhile fun c => !isDigit c) = [] := List.eq_nil_of_length_eq_zero hl
    have hd := drop_takeWhile (fun c => !isDigit c) s
    rw [hl, List.drop_zero] at hd
    rw [ht, ← hd]
  · simp only [hz, Bool.false_eq_true, if_false, h1, h2, Option.bind_some]

theorem debDigitPrefixGo_eq (s : List Char) : debDigitPrefixGo s = some (debDigitPrefix s) := by
  obtain ⟨h0, h1, h2⟩ := idx_split (fun c => !isDigit c) s
  simp only [Bool.not_not] at h0 h1 h2
  unfold debDigitPrefixGo debDigitPrefix
  simp only []
  by_cases hz : (indexFunc (fun c => !isDigit c) s = 0 || s.isEmpty) = true
  · simp only [hz, if_true]
    have hl : (s.takeWhile isDigit).length = 0 := by
      simp only [Bool.or_eq_true, decide_eq_true_eq, List.isEmpty_iff] at hz
      rcases hz with hz | hz
      · exact (h0.mp hz).1
      · subst hz; rfl
    have ht : s.takeWhile isDigit = [] := List.eq_nil_of_length_eq_zero hl
    simp [ht]
  · simp only [hz, Bool.false_eq_true, if_false, h1, h2, Option.bind_some]
    have hne : (s.takeWhile isDigit).isEmpty = false := by
      simp only [Bool.or_eq_true, decide_eq_true_eq, List.isEmpty_iff, not_or] at hz
      cases ht : s.takeWhile isDigit with
      | nil =>
        exfalso
        apply hz.1
        apply h0.mpr
        refine ⟨by rw [ht]; rfl, ?_⟩
        cases s with
        | nil => exact absurd rfl hz.2
        | cons c r => simp
      | cons c r => rfl
    simp only [hne, Bool.false_eq_true, if_false]
    cases toBig (s.takeWhile isDigit) <;> rfl

/-- `weighDebianChar` on a string -/
def debWeighS (x : List Char) : Nat :=
  if x = ['~'] then 1
  else
    match x with
    | [] => 2
    | c :: _ =>
      let n := firstByte c
      if n < 65 || (n > 90 && n < 97) || n > 122 then n + 122 else n

/-- `char[0]` is behind the `char == ""` test -/
theorem debWeighGo_eq (x : List Char) : debWeighGo x = some (debWeighS x) := by
  unfold debWeighGo debWeighS
  by_cases h : x = ['~']
  · simp [h]
  · cases x with
    | nil => simp
    | cons c r => simp [h, goIndex]

theorem debWeighS_single (c : Char) : debWeighS [c] = debWeigh c := by
  unfold debWeighS debWeigh
  by_cases h : c = '~'
  · simp [h]
  · simp [h]

theorem cmpDebNonDigitGo_eq (ap bp : List Char) : cmpDebNonDigitGo ap bp = some (cmpDebNonDigit ap bp) := by
  unfold cmpDebNonDigitGo cmpDebNonDigit
  by_cases h : ap = bp
  · simp [h]
  · simp only [h, if_false]
    rw [cmpPadGo_eq debWeighCmpGo (cmpOn debWeighS ncmp) (fun x y => by simp [debWeighCmpGo, debWeighGo_eq, cmpOn])]
    have e : (2 : Nat) = debWeighS [] := rfl
    have m : ∀ l : List Char, l.map debWeigh = (l.map fun c => [c]).map debWeighS := by
      intro l; simp [List.map_map, Function.comp_def, debWeighS_single]
    rw [e, m ap, m bp, cmpPad_map]

theorem ordAndThenGo (d : Ordering) (k : CRes) : (CRes.ord d).andThenGo (some k) = some (ordThen d fun _ => k) := by
  cases d <;> rfl

theorem andThenGo_some (r k : CRes) : r.andThenGo (some k) = some (r.andThen fun _ => k) := by
  cases r with
  | ord o => cases o <;> rfl
  | err => rfl
  | panic => rfl

theorem cmpDebStrGo_eq : ∀ (f : Nat) (a b : List Char), cmpDebStrGo f a b = some (cmpDebStr f a b) := by
  intro f
  induction f with
  | zero => intro a b; rfl
  | succ f ih =>
    intro a b
    simp only [cmpDebStrGo, cmpDebStr, debNonDigitPrefixGo_eq, cmpDebNonDigitGo_eq, debDigitPrefixGo_eq, Option.bind_some, ih]
    split
    · rfl
    · cases debDigitPrefix (a.dropWhile fun c => !isDigit c) with
      | none => exact ordAndThenGo _ _
      | some xa =>
        cases debDigitPrefix (b.dropWhile fun c => !isDigit c) with
        | none => exact ordAndThenGo _ _
        | some yb =>
          simp only [ordAndThenGo]

theorem cmpDebGo_eq (v w : DebV) : cmpDebGo v w = some (cmpDeb v w) := by
  simp only [cmpDebGo, cmpDeb, cmpDebStrGo_eq, Option.bind_some, andThenGo_some]
  congr 1
  cases icmp v.epoch w.epoch <;> rfl

/-! `splitAround` -/

theorem cutAt_eq (c : Char) : ∀ s : List Char,
    cutAt c s = if (s.takeWhile fun x => !decide (x = c)).length < s.length
      then some (s.take (s.takeWhile fun x => !decide (x = c)).length, s.drop ((s.takeWhile fun x => !decide (x = c)).length + 1))
      else none := by
  intro s
  induction s with
  | nil => simp [cutAt]
  | cons x xs ih =>
    by_cases h : x = c
    · simp [cutAt, h]
    · simp only [cutAt, h, if_false, ih, List.takeWhile_cons, decide_false, Bool.not_false, if_true, List.length_cons,
        Nat.add_lt_add_iff_right, List.take_succ_cons, List.drop_succ_cons]
      by_cases hl : (xs.takeWhile fun x => !decide (x = c)).length < xs.length <;> simp [hl]

theorem contains_iff_idx (c : Char) : ∀ s : List Char,
    s.contains c = decide ((s.takeWhile fun x => !decide (x = c)).length < s.length) := by
  intro s
  induction s with
  | nil => simp
  | cons x xs ih =>
    by_cases h : x = c
    · simp [h]
    · have h' : ¬ c = x := fun e => h e.symm
      simp only [List.contains_cons, ih, List.takeWhile_cons, h, decide_false, Bool.not_false, if_true, List.length_cons,
        Nat.add_lt_add_iff_right]
      simp [h']

theorem splitAroundGo_fwd (s : List Char) (c : Char) (h : s.contains c = true) :
    ∃ a b, cutAt c s = some (a, b) ∧ splitAroundGo s c false = some (a, b) := by
  rw [contains_iff_idx] at h
  have hlt := of_decide_eq_true h
  refine ⟨_, _, by rw [cutAt_eq, if_pos hlt], ?_⟩
  unfold splitAroundGo indexFunc
  simp only [Bool.false_eq_true, if_false, hlt, if_true]
  have hne : ¬ (((s.takeWhile fun x => !decide (x = c)).length : Int) = -1) := by omega
  simp only [hne, if_false]
  rw [goSlice_eq s 0 _ 0 _ rfl rfl (Nat.zero_le _) (by omega),
    goSlice_eq s _ _ ((s.takeWhile fun x => !decide (x = c)).length + 1) s.length (by omega) rfl (by omega) (Nat.le_refl _)]
  simp

theorem splitAroundGo_rev (s : List Char) (c : Char) (h : s.contains c = true) :
    ∃ a b, cutLast c s = some (a, b) ∧ splitAroundGo s c true = some (a, b) := by
  have hr : s.reverse.contains c = true := by
    rw [List.contains_iff_mem] at h ⊢
    exact List.mem_reverse.mpr h
  rw [contains_iff_idx] at hr
  have hlt := of_decide_eq_true hr
  rw [List.length_reverse] at hlt
  have hm : ∀ x : Char, (x ≠ c) = (¬ x = c) := fun _ => rfl
  refine ⟨_, _, by unfold cutLast; rw [cutAt_eq, List.length_reverse, if_pos hlt], ?_⟩
  unfold splitAroundGo lastIndexOf
  have hp : (fun x : Char => decide (x ≠ c)) = fun x => !decide (x = c) := by
    funext x; simp
  simp only [if_true, hp, hlt]
  have hne : ¬ ((s.length : Int) - 1 - ((s.reverse.takeWhile fun x => !decide (x = c)).length : Int) = -1) := by omega
  simp only [hne, if_false]
  rw [goSlice_eq s 0 _ 0 (s.length - ((s.reverse.takeWhile fun x => !decide (x = c)).length + 1)) rfl (by omega) (Nat.zero_le _) (by omega),
    goSlice_eq s _ _ (s.length - (s.reverse.takeWhile fun x => !decide (x = c)).length) s.length (by omega) rfl (by omega) (Nat.le_refl _)]
  simp only [Option.bind_some, List.drop_zero, List.take_length, List.drop_reverse, List.take_reverse, List.reverse_reverse]

/-- `parseDebianVersion`: the slices of `splitAround` are in range -/
theorem parseDebGo_eq (s : List Char) : parseDebGo s = some (parseDeb s) := by
  unfold parseDebGo parseDeb
  simp only []
  generalize trimSpace s = t
  have tail : ∀ (ep : Option (Int × List Char)),
      (match ep with
        | none => some PRes.err
        | some er =>
          if er.2.contains '-' = true then (splitAroundGo er.2 '-' true).bind fun q => some (PRes.ok (⟨er.1, q.1, q.2⟩ : DebV))
          else some (PRes.ok ⟨er.1, er.2, ['0']⟩)) =
      some (match ep with
        | none => PRes.err
        | some (epoch, rest) =>
          match cutLast '-' rest with
          | some (up, rev) => PRes.ok ⟨epoch, up, rev⟩
          | none => PRes.ok ⟨epoch, rest, ['0']⟩) := by
    intro ep
    cases ep with
    | none => rfl
    | some er =>
      obtain ⟨epoch, rest⟩ := er
      simp only []
      by_cases hc : rest.contains '-' = true
      · obtain ⟨a, b, h1, h2⟩ := splitAroundGo_rev rest '-' hc
        simp only [hc, if_true, h1, h2, Option.bind_some]
      · have hn : cutLast '-' rest = none := by
          unfold cutLast
          rw [cutAt_eq, List.length_reverse]
          have : ¬ ((rest.reverse.takeWhile fun x => !decide (x = '-')).length < rest.length) := by
            intro hlt
            apply hc
            have := (contains_iff_idx '-' rest.reverse).trans (decide_eq_true (by rw [List.length_reverse]; exact hlt))
            rw [List.contains_iff_mem] at this ⊢
            exact List.mem_reverse.mp this
          simp only [this, if_false]
        simp only [hc, Bool.false_eq_true, if_false, hn]
  by_cases hc : t.contains ':' = true
  · obtain ⟨a, b, h1, h2⟩ := splitAroundGo_fwd t ':' hc
    simp only [hc, if_true, h1, h2, Option.bind_some]
    cases toBig a with
    | none => exact tail none
    | some n => exact tail (some (n, b))
  · have hn : cutAt ':' t = none := by
      rw [cutAt_eq]
      have : ¬ ((t.takeWhile fun x => !decide (x = ':')).length < t.length) := by
        intro hlt; exact hc ((contains_iff_idx ':' t).trans (decide_eq_true hlt))
      simp [this]
    simp only [hc, Bool.false_eq_true, if_false, hn, Option.bind_some]
    exact tail (some (0, t))

@[simp] theorem debianFam_parse (s : List Char) : debianFam.parse s = parseDeb s := by
  simp [debianFam, parseDebGo_eq, PRes.joinGo]
@[simp] theorem debianFam_cmp (v w : DebV) : debianFam.cmp v w = cmpDeb v w := by
  simp [debianFam, cmpDebGo_eq, CRes.joinGo]

theorem debian_laws : FamLaws debianFam (fun _ => True) cmpDebT where
  parse_nopanic := fun s => by rw [debianFam_parse]; exact parseDeb_nopanic s
  parse_wf := fun _ _ _ => trivial
  cmp_eq := fun v w _ _ => (debianFam_cmp v w).trans (cmpDeb_eq v w)
  refl := fun v _ => cmpDebT_isCmp.refl v
  swap := fun v w _ _ => cmpDebT_isCmp.swap v w

end Scalibr.Semantic
