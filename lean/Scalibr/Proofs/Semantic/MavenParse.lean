/-
C07 — Maven, part 3: `newMavenVersion` never indexes out of range (and the model's fuel is
enough), and its result is well-formed in the sense of `MvnWF`: the first token has no prefix, all
later ones a separator prefix, numeric values are canonical, and the last token was not trimmable.
-/
import Scalibr.Proofs.Semantic.MavenCmp
namespace Scalibr.Semantic

/-! ## the raw tokens -/

theorem normTok_canon (p piece : List Char) (isLast : Bool) : (⟨p, normTok piece isLast, false⟩ : MTok).canonVal := by
  intro m hm
  simp only at hm ⊢
  unfold normTok at hm ⊢
  simp only at hm ⊢
  split at hm
  · rename_i n hn
    rw [toBig_intToChars] at hm
    injection hm with hm; subst hm
    simp [hn]
  · rename_i hn
    rw [hn] at hm; exact absurd hm (by simp)

/-- shape of the tokens of one raw token -/
theorem piecesToToks_shape : ∀ (pieces : List (List Char)) (first : Bool) (pre : List Char), pieces ≠ [] →
    ∃ tok tl, piecesToToks first pre pieces = tok :: tl ∧ tok.pre = (if first then pre else ['-']) ∧
      (∀ u ∈ tl, u.pre = ['-']) ∧ (∀ u ∈ tok :: tl, u.canonVal) := by
  intro pieces; induction pieces with
  | nil => intro _ _ h; exact absurd rfl h
  | cons p ps ih =>
    intro first pre _
    cases ps with
    | nil =>
      refine ⟨_, [], rfl, rfl, by simp, ?_⟩
      intro u hu; simp at hu; subst hu; exact normTok_canon _ _ _
    | cons q rest =>
      obtain ⟨tok, tl, h1, h2, h3, h4⟩ := ih false pre (by simp)
      refine ⟨⟨if first then pre else ['-'], normTok p false, false⟩, tok :: tl, by simp [piecesToToks, h1], rfl, ?_, ?_⟩
      · intro u hu
        simp only [List.mem_cons] at hu
        rcases hu with hu | hu
        · subst hu; simpa using h2
        · exact h3 u hu
      · intro u hu
        simp only [List.mem_cons] at hu
        rcases hu with hu | hu
        · subst hu; exact normTok_canon _ _ _
        · exact h4 u (by simpa using hu)

theorem cutTransitions_ne_nil : ∀ s : List Char, cutTransitions s ≠ [] := by
  intro s; cases s with
  | nil => simp [cutTransitions]
  | cons c rest =>
    simp only [cutTransitions]
    split
    · simp
    · split
      · simp
      · split <;> simp

theorem fixQuirk_ne_nil : ∀ (l : List (List Char)) (carry : List Char), l ≠ [] → fixQuirk carry l ≠ [] := by
  intro l carry h
  cases l with
  | nil => exact absurd rfl h
  | cons p ps =>
    cases ps with
    | nil => simp [fixQuirk]
    | cons q rest =>
      simp only [fixQuirk]
      repeat' split
      all_goals simp

theorem mvnSplit_shape : ∀ (s cur pre : List Char),
    ∃ x rest, mvnSplit cur pre s = (pre, x) :: rest ∧ ∀ pr ∈ rest, isSepPre pr.1 := by
  intro s; induction s with
  | nil => intro cur pre; exact ⟨cur.reverse, [], rfl, by simp⟩
  | cons c cs ih =>
    intro cur pre
    simp only [mvnSplit]
    split
    · rename_i hc
      obtain ⟨x, rest, h1, h2⟩ := ih [] [c]
      refine ⟨cur.reverse, ([c], x) :: rest, by rw [h1], ?_⟩
      intro pr hpr
      simp only [List.mem_cons] at hpr
      rcases hpr with hpr | hpr
      · subst hpr
        simp only [Bool.or_eq_true, decide_eq_true_eq] at hc
        rcases hc with hc | hc
        · left; simp [hc]
        · right; simp [hc]
      · exact h2 pr hpr
    · exact ih (c :: cur) pre

/-- the raw token list: first token without prefix, later ones with a separator prefix, canonical values -/
def RawOk (ts : List MTok) : Prop :=
  ∃ t rest, ts = t :: rest ∧ t.pre = [] ∧ (∀ u ∈ rest, isSepPre u.pre) ∧ (∀ u ∈ ts, u.canonVal)

def groupToks (pr : List Char × List Char) : List MTok := piecesToToks true pr.1 (fixQuirk [] (cutTransitions pr.2))

theorem groupToks_shape (pr : List Char × List Char) :
    ∃ tok tl, groupToks pr = tok :: tl ∧ tok.pre = pr.1 ∧ (∀ u ∈ tl, u.pre = ['-']) ∧ (∀ u ∈ tok :: tl, u.canonVal) := by
  obtain ⟨tok, tl, h1, h2, h3, h4⟩ := piecesToToks_shape (fixQuirk [] (cutTransitions pr.2)) true pr.1
    (fixQuirk_ne_nil _ _ (cutTransitions_ne_nil _))
  exact ⟨tok, tl, h1, by simpa using h2, h3, h4⟩

theorem flatMap_groups_sep : ∀ (rest : List (List Char × List Char)), (∀ pr ∈ rest, isSepPre pr.1) →
    (∀ u ∈ rest.flatMap groupToks, isSepPre u.pre) ∧ (∀ u ∈ rest.flatMap groupToks, u.canonVal) := by
  intro rest; induction rest with
  | nil => intro _; simp
  | cons pr ps ih =>
    intro h
    obtain ⟨tok, tl, h1, h2, h3, h4⟩ := groupToks_shape pr
    have hps := ih (fun q hq => h q (by simp [hq]))
    constructor
    · intro u hu
      simp only [List.flatMap_cons, List.mem_append, h1, List.mem_cons] at hu
      rcases hu with (hu | hu) | hu
      · subst hu; rw [h2]; exact h pr (by simp)
      · left; exact h3 u hu
      · exact hps.1 u hu
    · intro u hu
      simp only [List.flatMap_cons, List.mem_append, h1] at hu
      rcases hu with hu | hu
      · exact h4 u hu
      · exact hps.2 u hu

theorem rawToks_ok (s : List Char) : RawOk (rawToks s) := by
  obtain ⟨x, rest, h1, h2⟩ := mvnSplit_shape s [] []
  have e : rawToks s = groupToks ([], x) ++ rest.flatMap groupToks := by
    unfold rawToks
    rw [h1]
    rfl
  obtain ⟨tok, tl, g1, g2, g3, g4⟩ := groupToks_shape ([], x)
  obtain ⟨f1, f2⟩ := flatMap_groups_sep rest h2
  refine ⟨tok, tl ++ rest.flatMap groupToks, by rw [e, g1]; rfl, g2, ?_, ?_⟩
  · intro u hu
    simp only [List.mem_append] at hu
    rcases hu with hu | hu
    · left; exact g3 u hu
    · exact f1 u hu
  · intro u hu
    rw [e, g1] at hu
    simp only [List.cons_append, List.mem_cons, List.mem_append] at hu
    rcases hu with hu | hu | hu
    · exact g4 u (by simp [hu])
    · exact g4 u (by simp [hu])
    · exact f2 u hu

/-! ## the trailing-trim loop -/

theorem RawOk.erase {ts : List MTok} (h : RawOk ts) (k : Nat) (hk : 0 < k) : RawOk (ts.eraseIdx k) := by
  obtain ⟨t, rest, rfl, h1, h2, h3⟩ := h
  cases k with
  | zero => omega
  | succ k =>
    refine ⟨t, rest.eraseIdx k, rfl, h1, ?_, ?_⟩
    · intro u hu; exact h2 u (List.mem_of_mem_eraseIdx hu)
    · intro u hu
      have hu' : u ∈ t :: rest.eraseIdx k := hu
      simp only [List.mem_cons] at hu'
      rcases hu' with hu' | hu'
      · exact h3 u (by simp [hu'])
      · exact h3 u (by simp [List.mem_of_mem_eraseIdx hu'])

/-- the inner loop neither indexes out of range nor runs out of fuel, and ends properly: below the
first token, or on a token with prefix "-" -/
theorem walkDown_ok (ts : List MTok) : ∀ (f : Nat) (j : Int), j ≤ (ts.length : Int) - 1 → -1 ≤ j → j + 1 < f →
    ∃ j', walkDown ts f j = some j' ∧ j' ≤ j ∧ (j' < 0 ∨ ∃ t, ts[j'.toNat]? = some t ∧ t.pre = ['-']) := by
  intro f; induction f with
  | zero => intro j _ h1 h2; omega
  | succ f ih =>
    intro j hj hlo hf
    simp only [walkDown]
    by_cases h0 : j ≥ 0
    · simp only [h0, if_true]
      have hlt : j.toNat < ts.length := by omega
      rw [List.getElem?_eq_getElem hlt]
      simp only
      split
      · obtain ⟨j', e1, e2, e3⟩ := ih (j - 1) (by omega) (by omega) (by omega)
        exact ⟨j', e1, by omega, e3⟩
      · rename_i hpre
        refine ⟨j, rfl, Int.le_refl _, Or.inr ⟨ts[j.toNat], List.getElem?_eq_getElem hlt, ?_⟩⟩
        simpa using hpre
    · simp only [h0, if_false]
      exact ⟨j, rfl, Int.le_refl _, Or.inl (by omega)⟩

/-- the last token is not trimmable unless the list is a single token -/
def LastOk (ts : List MTok) : Prop := 2 ≤ ts.length → ∀ l, ts.getLast? = some l → shouldTrim l = false

theorem getLast?_eraseIdx_of_lt (ts : List MTok) (k : Nat) (hk : k + 1 < ts.length) :
    (ts.eraseIdx k).getLast? = ts.getLast? := by
  rw [List.getLast?_eq_getElem?, List.getLast?_eq_getElem?, List.getElem?_eraseIdx]
  have hl : (ts.eraseIdx k).length = ts.length - 1 := by
    rw [List.length_eraseIdx]; simp; omega
  rw [hl]
  have : ¬ (ts.length - 1 - 1 < k) := by omega
  simp only [this, if_false]
  congr 1; omega

/-- the loop: no failure, the shape is kept, and the result's last token is not trimmable -/
theorem trimLoop_ok : ∀ (fuel : Nat) (ts : List MTok) (i : Int), RawOk ts → i ≤ (ts.length : Int) - 1 → i < fuel → 0 < fuel →
    (i < (ts.length : Int) - 1 → ∀ l, ts.getLast? = some l → shouldTrim l = false) →
    ∃ out, trimLoop fuel ts i = some out ∧ RawOk out ∧ LastOk out := by
  intro fuel; induction fuel with
  | zero =>
    intro ts i hr hi hf hp hl
    omega
  | succ fuel ih =>
    intro ts i hr hi hf _ hl
    simp only [trimLoop]
    by_cases h0 : i ≤ 0
    · simp only [h0, if_true]
      refine ⟨ts, rfl, hr, ?_⟩
      intro h2 l hlast
      exact hl (by omega) l hlast
    · simp only [h0, if_false]
      have hlt : i.toNat < ts.length := by omega
      rw [List.getElem?_eq_getElem hlt]
      simp only
      split
      · -- trim this token
        have hlen : ((ts.eraseIdx i.toNat).length : Int) = ts.length - 1 := by
          rw [List.length_eraseIdx]; simp [hlt]; omega
        apply ih (ts.eraseIdx i.toNat) (i - 1) (hr.erase i.toNat (by omega)) (by omega) (by omega) (by omega)
        intro hlt' l hlast
        rw [getLast?_eraseIdx_of_lt ts i.toNat (by omega)] at hlast
        exact hl (by omega) l hlast
      · rename_i hnt
        obtain ⟨j, e1, e2, _⟩ := walkDown_ok ts (ts.length + 2) i hi (by omega) (by omega)
        rw [e1]
        simp only
        apply ih ts (j - 1) hr (by omega) (by omega) (by omega)
        intro _ l hlast
        by_cases hil : i < (ts.length : Int) - 1
        · exact hl hil l hlast
        · have hi' : i.toNat = ts.length - 1 := by omega
          rw [List.getLast?_eq_getElem?, ← hi', List.getElem?_eq_getElem hlt] at hlast
          injection hlast with hlast
          subst hlast
          simpa using hnt

theorem RawOk.length_pos {ts : List MTok} (h : RawOk ts) : 0 < ts.length := by
  obtain ⟨t, rest, rfl, _⟩ := h; simp

theorem parseMvn_ok (s : List Char) : ∃ v, parseMvn s = .ok v ∧ MvnWF v := by
  have hr := rawToks_ok s
  have hpos := hr.length_pos
  obtain ⟨out, h1, h2, h3⟩ := trimLoop_ok ((rawToks s).length + 2) (rawToks s) (((rawToks s).length : Int) - 1) hr
    (Int.le_refl _) (by omega) (by omega) (by intro h; omega)
  refine ⟨out, by simp [parseMvn, h1], ?_⟩
  obtain ⟨t, rest, rfl, p1, p2, p3⟩ := h2
  refine ⟨t, rest, rfl, p1, p3 t (by simp), ⟨p2, fun u hu => p3 u (by simp [hu]), ?_⟩⟩
  intro l hl
  cases rest with
  | nil => simp at hl
  | cons y ys =>
    apply h3 (by simp) l
    simpa [List.getLast?_cons_cons] using hl

theorem maven_laws : FamLaws mavenFam MvnWF cmpMvnT where
  parse_nopanic := fun s => by
    obtain ⟨v, h, _⟩ := parseMvn_ok s
    show parseMvn s ≠ .panic
    rw [h]; simp
  parse_wf := fun s v h => by
    obtain ⟨v', h', wf⟩ := parseMvn_ok s
    have : parseMvn s = .ok v := h
    rw [h'] at this
    injection this with this
    subst this; exact wf
  cmp_eq := cmpMvn_eq
  refl := fun v _ => cmpMvnT_refl v
  swap := fun v w hv hw => cmpMvnT_swap v w hv hw

end Scalibr.Semantic
