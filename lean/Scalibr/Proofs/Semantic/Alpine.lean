/-
C07 — Alpine. Reflexivity / antisymmetry / no crash hold for every string; transitivity only on
valid versions whose later components are written without a leading zero (`alpCanon`): otherwise
`alpineNumberComponent.Cmp` switches between string and numeric comparison depending on the
partner (`index` of a padded component is 0) — the known finding.
-/
import Scalibr.Proofs.Semantic.Simple
namespace Scalibr.Semantic

/-- what the parser guarantees about a number component -/
def ANum.good (c : ANum) : Prop := c.orig ≠ [] ∧ c.orig.all isDigit = true ∧ c.val = (digitsToNat c.orig : Int)

def AlpV.good (v : AlpV) : Prop := ∀ c ∈ v.comps, c.good

/-- `alpineNumberComponent.Cmp` as a total function -/
def cmpANumT (a b : ANum) : Ordering :=
  if a.idx ≠ 0 && b.idx ≠ 0 && (startsWith0 a.orig || startsWith0 b.orig) then strCmp a.orig b.orig
  else icmp a.val b.val
where startsWith0 : List Char → Bool
  | x :: _ => x = '0'
  | [] => false

theorem cmpANum_eq (a b : ANum) (ha : a.orig ≠ []) (hb : b.orig ≠ []) : cmpANum a b = .ord (cmpANumT a b) := by
  unfold cmpANum cmpANumT
  cases hao : a.orig with
  | nil => exact absurd hao ha
  | cons x xs =>
    cases hbo : b.orig with
    | nil => exact absurd hbo hb
    | cons y ys =>
      by_cases h1 : a.idx = 0
      · simp [h1]
      · by_cases h2 : b.idx = 0
        · simp [h2]
        · by_cases hx : x = '0'
          · simp [h1, h2, hx, cmpANumT.startsWith0]
          · by_cases hy : y = '0'
            · simp [h1, h2, hx, hy, cmpANumT.startsWith0]
            · simp [h1, h2, hx, hy, cmpANumT.startsWith0]

theorem padANum_orig : padANum.orig ≠ [] := by simp [padANum]

theorem cmpACompsL_eq (b : List ANum) (hb : ∀ c ∈ b, c.orig ≠ []) :
    cmpACompsL b = .ord (cmpPadL cmpANumT padANum b) := by
  induction b with
  | nil => rfl
  | cons y ys ih =>
    have hy := hb y (by simp)
    have := ih (fun c hc => hb c (by simp [hc]))
    simp only [cmpACompsL, cmpPadL, cmpANum_eq padANum y padANum_orig hy, this]
    cases cmpANumT padANum y <;> simp [CRes.andThen, Ordering.then]

theorem cmpACompsR_eq (a : List ANum) (ha : ∀ c ∈ a, c.orig ≠ []) :
    cmpACompsR a = .ord (cmpPadR cmpANumT padANum a) := by
  induction a with
  | nil => rfl
  | cons y ys ih =>
    have hy := ha y (by simp)
    have := ih (fun c hc => ha c (by simp [hc]))
    simp only [cmpACompsR, cmpPadR, cmpANum_eq y padANum hy padANum_orig, this]
    cases cmpANumT y padANum <;> simp [CRes.andThen, Ordering.then]

theorem cmpAComps_eq (a b : List ANum) (ha : ∀ c ∈ a, c.orig ≠ []) (hb : ∀ c ∈ b, c.orig ≠ []) :
    cmpAComps a b = .ord (cmpPad cmpANumT padANum a b) := by
  induction a generalizing b with
  | nil => simp only [cmpAComps, cmpPad]; exact cmpACompsL_eq b hb
  | cons x xs ih =>
    cases b with
    | nil => simp only [cmpAComps, cmpPad_nil_right]; exact cmpACompsR_eq (x :: xs) ha
    | cons y ys =>
      have hx := ha x (by simp)
      have hy := hb y (by simp)
      have := ih ys (fun c hc => ha c (by simp [hc])) (fun c hc => hb c (by simp [hc]))
      simp only [cmpAComps, cmpPad, cmpANum_eq x y hx hy, this]
      cases cmpANumT x y <;> simp [CRes.andThen, Ordering.then]

/-- the comparison of two versions that are not both flagged invalid -/
def cmpAlpValid (v w : AlpV) : Ordering :=
  (cmpPad cmpANumT padANum v.comps w.comps).then ((cmpALetters v.letter w.letter).then ((cmpASufs v.sufs w.sufs).then
    ((icmp v.build w.build).then (cmpARemainder v.remainder w.remainder))))

/-- `alpineVersion.compare` as a total function -/
def cmpAlpT (v w : AlpV) : Ordering :=
  if v.invalid && w.invalid then strCmp v.original w.original else cmpAlpValid v w

theorem cmpAlp_eq (v w : AlpV) (hv : v.good) (hw : w.good) : cmpAlp v w = .ord (cmpAlpT v w) := by
  unfold cmpAlp cmpAlpT cmpAlpValid
  split
  · rfl
  · rw [cmpAComps_eq v.comps w.comps (fun c hc => (hv c hc).1) (fun c hc => (hw c hc).1)]
    cases cmpPad cmpANumT padANum v.comps w.comps <;> simp [CRes.andThen, Ordering.then]

/-! ## reflexivity and antisymmetry (all parsed values) -/

theorem cmpANumT_isSym : IsSym cmpANumT where
  refl := fun a => by
    unfold cmpANumT; split
    · exact strCmp_isCmp.refl _
    · exact icmp_isCmp.refl _
  swap := fun a b => by
    unfold cmpANumT
    have hc : (b.idx ≠ 0 && a.idx ≠ 0 && (cmpANumT.startsWith0 b.orig || cmpANumT.startsWith0 a.orig)) =
        (a.idx ≠ 0 && b.idx ≠ 0 && (cmpANumT.startsWith0 a.orig || cmpANumT.startsWith0 b.orig)) := by
      rw [Bool.and_comm (decide (b.idx ≠ 0)), Bool.or_comm]
    rw [hc]
    split
    · exact strCmp_isCmp.swap _ _
    · exact icmp_isCmp.swap _ _

theorem cmpALetters_eq (a b : List Char) :
    cmpALetters a b = thenCmp (cmpOn (fun s : List Char => !s.isEmpty) bcmp) strCmp a b := by
  unfold cmpALetters thenCmp cmpOn
  cases a <;> cases b <;> simp [bcmp, Ordering.then, strCmp, cmpLex]

theorem cmpALetters_isCmp : IsCmp cmpALetters :=
  (thenCmp_isCmp (cmpOn_isCmp _ bcmp_isCmp) strCmp_isCmp).congr cmpALetters_eq

theorem cmpASuf_eq (a b : ASuf) : cmpASuf a b = thenCmp (cmpOn ASuf.w ncmp) (cmpOn ASuf.n icmp) a b := by
  unfold cmpASuf thenCmp cmpOn ncmp
  by_cases h1 : a.w < b.w
  · have : ¬ a.w > b.w := by omega
    simp [h1, this, Ordering.then]
  · by_cases h2 : a.w = b.w
    · simp [h2, Ordering.then]
    · have : a.w > b.w := by omega
      simp [h1, h2, this, Ordering.then]

theorem cmpASuf_isCmp : IsCmp cmpASuf :=
  (thenCmp_isCmp (cmpOn_isCmp _ ncmp_isCmp) (cmpOn_isCmp _ icmp_isCmp)).congr cmpASuf_eq

theorem cmpASufs_isCmp : IsCmp cmpASufs := cmpPad_isCmp _ cmpASuf_isCmp

theorem cmpARemainder_eq (a b : List Char) : cmpARemainder a b = cmpOn List.isEmpty bcmp a b := by
  unfold cmpARemainder cmpOn
  cases a <;> cases b <;> simp [bcmp]

theorem cmpARemainder_isCmp : IsCmp cmpARemainder := (cmpOn_isCmp _ bcmp_isCmp).congr cmpARemainder_eq

theorem cmpAlpValid_isSym : IsSym cmpAlpValid :=
  (thenCmp_isSym (cmpOn_isSym AlpV.comps (cmpPad_isSym padANum cmpANumT_isSym))
    (thenCmp_isSym (cmpOn_isSym AlpV.letter cmpALetters_isCmp.toSym)
      (thenCmp_isSym (cmpOn_isSym AlpV.sufs cmpASufs_isCmp.toSym)
        (thenCmp_isSym (cmpOn_isSym AlpV.build icmp_isCmp.toSym) (cmpOn_isSym AlpV.remainder cmpARemainder_isCmp.toSym))))).congr
    (fun _ _ => rfl)

theorem cmpAlpT_isSym : IsSym cmpAlpT where
  refl := fun v => by
    unfold cmpAlpT; split
    · exact strCmp_isCmp.refl _
    · exact cmpAlpValid_isSym.refl v
  swap := fun v w => by
    unfold cmpAlpT
    rw [Bool.and_comm w.invalid]
    split
    · exact strCmp_isCmp.swap _ _
    · exact cmpAlpValid_isSym.swap v w

/-! ## transitivity on valid versions with canonical later components -/

theorem foldl_digits_ge (ys : List Char) (n : Nat) : n ≤ ys.foldl (fun n c => n * 10 + digitVal c) n := by
  induction ys generalizing n with
  | nil => simp
  | cons y ys ih =>
    simp only [List.foldl]
    have := ih (n * 10 + digitVal y)
    omega

theorem char_eq_zero_of_toNat {c : Char} (h : c.toNat = 48) : c = '0' := by
  apply Char.ext
  have : c.val.toNat = 48 := h
  apply UInt32.toNat_inj.mp
  simpa using this

theorem digitsToNat_pos (y : Char) (ys : List Char) (hd : isDigit y = true) (h0 : y ≠ '0') :
    0 < digitsToNat (y :: ys) := by
  unfold digitsToNat
  simp only [List.foldl]
  have hge := foldl_digits_ge ys (0 * 10 + digitVal y)
  have : 1 ≤ digitVal y := by
    unfold digitVal
    simp only [isDigit, Bool.and_eq_true, decide_eq_true_eq] at hd
    have : y.toNat ≠ 48 := fun h => h0 (char_eq_zero_of_toNat h)
    omega
  omega

def ANum.canon (c : ANum) : Prop := aNumCanon c = true

theorem strCmp_zero_pos (y : Char) (ys : List Char) (hd : isDigit y = true) (h0 : y ≠ '0') :
    strCmp ['0'] (y :: ys) = .lt := by
  have : (48 : Nat) < y.toNat := by
    simp only [isDigit, Bool.and_eq_true, decide_eq_true_eq] at hd
    have : y.toNat ≠ 48 := fun h => h0 (char_eq_zero_of_toNat h)
    omega
  simp only [strCmp, cmpLex]
  have h : ncmp ('0' : Char).toNat y.toNat = .lt := ncmp_lt.mpr (by simpa using this)
  rw [h]; rfl

theorem strCmp_pos_zero (y : Char) (ys : List Char) (hd : isDigit y = true) (h0 : y ≠ '0') :
    strCmp (y :: ys) ['0'] = .gt := by
  rw [strCmp_isCmp.swap ['0'] (y :: ys), strCmp_zero_pos y ys hd h0]; rfl

/-- on good, canonically written components the comparison is the numeric one -/
theorem cmpANumT_canon (a b : ANum) (ga : a.good) (gb : b.good) (ca : a.canon) (cb : b.canon) :
    cmpANumT a b = icmp a.val b.val := by
  unfold cmpANumT
  split
  · rename_i hc
    simp only [ne_eq, Bool.and_eq_true, decide_eq_true_eq, Bool.or_eq_true] at hc
    obtain ⟨⟨hai, hbi⟩, h0⟩ := hc
    obtain ⟨hane, had, hav⟩ := ga
    obtain ⟨hbne, hbd, hbv⟩ := gb
    -- shapes allowed by `canon` for components of index ≠ 0
    have shape : ∀ c : ANum, c.idx ≠ 0 → c.canon → c.orig ≠ [] →
        c.orig = ['0'] ∨ ∃ y ys, c.orig = y :: ys ∧ y ≠ '0' := by
      intro c hi hcan hne
      unfold ANum.canon aNumCanon at hcan
      cases ho : c.orig with
      | nil => exact absurd ho hne
      | cons y ys =>
        simp only [hi, decide_false, Bool.false_or, ho, Bool.or_eq_true, decide_eq_true_eq, ne_eq] at hcan
        rcases hcan with h | h
        · exact Or.inl h
        · exact Or.inr ⟨y, ys, rfl, h⟩
    rcases shape a hai ca hane with ha | ⟨x, xs, ha, hx⟩ <;> rcases shape b hbi cb hbne with hb | ⟨y, ys, hb, hy⟩
    · rw [ha, hb, hav, hbv, ha, hb]; rfl
    · have hyd : isDigit y = true := by rw [hb] at hbd; simp at hbd; exact hbd.1
      rw [ha, hb, strCmp_zero_pos y ys hyd hy, hav, hbv, ha, hb]
      have := digitsToNat_pos y ys hyd hy
      symm; apply icmp_lt.mpr
      simp [digitsToNat, digitVal] at this ⊢
      omega
    · have hxd : isDigit x = true := by rw [ha] at had; simp at had; exact had.1
      rw [ha, hb, strCmp_pos_zero x xs hxd hx, hav, hbv, ha, hb]
      have := digitsToNat_pos x xs hxd hx
      symm; apply icmp_gt.mpr
      simp [digitsToNat, digitVal] at this ⊢
      omega
    · exfalso
      rw [ha, hb] at h0
      simp [cmpANumT.startsWith0, hx, hy] at h0
  · rfl

theorem padANum_good : padANum.good := by
  refine ⟨by simp [padANum], by simp [padANum, isDigit], ?_⟩
  simp [padANum, digitsToNat, digitVal]

theorem padANum_canon : padANum.canon := by simp [ANum.canon, aNumCanon, padANum]

theorem cmpPad_congr {α} (c c' : α → α → Ordering) (d : α) (Q : α → Prop) (hd : Q d)
    (h : ∀ a b, Q a → Q b → c a b = c' a b) :
    ∀ a b : List α, (∀ x ∈ a, Q x) → (∀ x ∈ b, Q x) → cmpPad c d a b = cmpPad c' d a b := by
  have hL : ∀ b : List α, (∀ x ∈ b, Q x) → cmpPadL c d b = cmpPadL c' d b := by
    intro b; induction b with
    | nil => intro _; rfl
    | cons y ys ih =>
      intro hb
      simp only [cmpPadL, h d y hd (hb y (by simp)), ih (fun x hx => hb x (by simp [hx]))]
  have hR : ∀ a : List α, (∀ x ∈ a, Q x) → cmpPadR c d a = cmpPadR c' d a := by
    intro a; induction a with
    | nil => intro _; rfl
    | cons y ys ih =>
      intro ha
      simp only [cmpPadR, h y d (ha y (by simp)) hd, ih (fun x hx => ha x (by simp [hx]))]
  intro a; induction a with
  | nil => intro b _ hb; simp only [cmpPad]; exact hL b hb
  | cons x xs ih =>
    intro b ha hb
    cases b with
    | nil => simp only [cmpPad_nil_right]; exact hR (x :: xs) ha
    | cons y ys =>
      simp only [cmpPad, h x y (ha x (by simp)) (hb y (by simp)),
        ih ys (fun z hz => ha z (by simp [hz])) (fun z hz => hb z (by simp [hz]))]

/-- the domain of the transitivity theorem -/
def AlpV.canonValid (v : AlpV) : Prop := v.good ∧ v.invalid = false ∧ alpCanon v = true

/-- on that domain the comparison is a lexicographic product of total preorders -/
def cmpAlpCanon (v w : AlpV) : Ordering :=
  (cmpPad (cmpOn ANum.val icmp) padANum v.comps w.comps).then ((cmpALetters v.letter w.letter).then ((cmpASufs v.sufs w.sufs).then
    ((icmp v.build w.build).then (cmpARemainder v.remainder w.remainder))))

theorem cmpAlpCanon_isCmp : IsCmp cmpAlpCanon :=
  (thenCmp_isCmp (cmpOn_isCmp AlpV.comps (cmpPad_isCmp padANum (cmpOn_isCmp ANum.val icmp_isCmp)))
    (thenCmp_isCmp (cmpOn_isCmp AlpV.letter cmpALetters_isCmp)
      (thenCmp_isCmp (cmpOn_isCmp AlpV.sufs cmpASufs_isCmp)
        (thenCmp_isCmp (cmpOn_isCmp AlpV.build icmp_isCmp) (cmpOn_isCmp AlpV.remainder cmpARemainder_isCmp))))).congr
    (fun _ _ => rfl)

theorem cmpAlpT_canon (v w : AlpV) (hv : v.canonValid) (hw : w.canonValid) : cmpAlpT v w = cmpAlpCanon v w := by
  obtain ⟨gv, iv, cv⟩ := hv
  obtain ⟨gw, iw, cw⟩ := hw
  unfold cmpAlpT cmpAlpValid cmpAlpCanon
  simp only [iv, iw, Bool.false_and, Bool.false_eq_true, if_false]
  have hQ : ∀ (u : AlpV), u.good → alpCanon u = true → ∀ x ∈ u.comps, x.good ∧ x.canon := by
    intro u gu cu x hx
    refine ⟨gu x hx, ?_⟩
    unfold alpCanon at cu
    exact List.all_eq_true.mp cu x hx
  rw [cmpPad_congr cmpANumT (cmpOn ANum.val icmp) padANum (fun c => c.good ∧ c.canon) ⟨padANum_good, padANum_canon⟩
    (fun a b ha hb => cmpANumT_canon a b ha.1 hb.1 ha.2 hb.2) v.comps w.comps (hQ v gv cv) (hQ w gw cw)]

theorem cmpAlpT_isCmpOn : IsCmpOn AlpV.canonValid cmpAlpT := IsCmpOn.of_eq cmpAlpCanon_isCmp cmpAlpT_canon

/-! ## the parser establishes `good` -/

theorem toBig_cons (c : Char) (cs : List Char) (h1 : c ≠ '-') (h2 : c ≠ '+') :
    toBig (c :: cs) = if (c :: cs).isEmpty || !(c :: cs).all isDigit then none else some ((digitsToNat (c :: cs) : Nat) : Int) := by
  unfold toBig
  split
  · rename_i ds heq; injection heq with e1 e2; exact absurd e1 h1
  · rename_i ds heq; injection heq with e1 e2; exact absurd e1 h2
  · rfl

theorem toBig_of_digits (d : List Char) (v : Int) (hd : d.all isDigit = true) (h : toBig d = some v) :
    d ≠ [] ∧ v = (digitsToNat d : Int) := by
  cases d with
  | nil => simp [toBig] at h
  | cons c cs =>
    have hc : isDigit c = true := by simp at hd; exact hd.1
    have h1 : c ≠ '-' := by intro e; subst e; simp [isDigit] at hc
    have h2 : c ≠ '+' := by intro e; subst e; simp [isDigit] at hc
    rw [toBig_cons c cs h1 h2, hd] at h
    simp at h
    exact ⟨by simp, h.symm⟩

theorem alpComps_good (parts : List (List Char)) (hp : ∀ p ∈ parts, p.all isDigit = true) :
    ∀ (i : Nat) (cs : List ANum), alpComps i parts = some cs → ∀ c ∈ cs, c.good := by
  induction parts with
  | nil => intro i cs h; simp [alpComps] at h; subst h; simp
  | cons d ds ih =>
    intro i cs h
    simp only [alpComps] at h
    cases hb : toBig d with
    | none => simp [hb] at h
    | some v =>
      simp only [hb] at h
      cases hr : alpComps (i + 1) ds with
      | none => simp [hr] at h
      | some rest =>
        simp only [hr, Option.some.injEq] at h
        subst h
        intro c hc
        simp only [List.mem_cons] at hc
        rcases hc with hc | hc
        · subst hc
          have hd := hp d (by simp)
          obtain ⟨h1, h2⟩ := toBig_of_digits d v hd hb
          exact ⟨h1, hd, h2⟩
        · exact ih (fun p hp' => hp p (by simp [hp'])) (i + 1) rest hr c hc

theorem alpNumPrefix_chars : ∀ (fuel : Nat) (s : List Char), ∀ c ∈ alpNumPrefix fuel s, isDigit c = true ∨ c = '.' := by
  intro fuel; induction fuel with
  | zero => intro s c hc; simp [alpNumPrefix] at hc
  | succ n ih =>
    intro s c hc
    simp only [alpNumPrefix] at hc
    split at hc
    · simp at hc
    · have htw : ∀ x ∈ s.takeWhile isDigit, isDigit x = true := fun x hx => List.all_eq_true.mp List.all_takeWhile x hx
      split at hc
      · rename_i r _
        simp only [List.append_assoc, List.mem_append, List.mem_cons, List.not_mem_nil, or_false] at hc
        rcases hc with hc | hc | hc
        · exact Or.inl (htw c hc)
        · exact Or.inr hc
        · exact ih r c hc
      · exact Or.inl (htw c hc)

theorem splitOn_dot_digits : ∀ (s : List Char), (∀ c ∈ s, isDigit c = true ∨ c = '.') →
    ∀ p ∈ splitOn '.' s, p.all isDigit = true := by
  intro s; induction s with
  | nil => intro _ p hp; simp [splitOn] at hp; subst hp; rfl
  | cons c cs ih =>
    intro h p hp
    have ih' := ih (fun x hx => h x (by simp [hx]))
    simp only [splitOn] at hp
    split at hp
    · simp only [List.mem_cons] at hp
      rcases hp with hp | hp
      · subst hp; rfl
      · exact ih' p hp
    · rename_i hne
      have hcd : isDigit c = true := by
        rcases h c (by simp) with h1 | h1
        · exact h1
        · exact absurd h1 hne
      split at hp
      · simp at hp; subst hp; simp [hcd]
      · rename_i hd tl heq
        simp only [List.mem_cons] at hp
        rcases hp with hp | hp
        · subst hp
          have := ih' hd (by rw [heq]; simp)
          simp [hcd, this]
        · exact ih' p (by rw [heq]; simp [hp])

theorem parseAlpRest_comps (s : List Char) (comps : List ANum) (str : List Char) (v : AlpV)
    (h : parseAlpRest s comps str = .ok v) : v.comps = comps := by
  unfold parseAlpRest at h
  simp only at h
  repeat' split at h
  all_goals first | (cases h; rfl) | (simp at h)

theorem parseAlpRest_nopanic (s : List Char) (comps : List ANum) (str : List Char) :
    parseAlpRest s comps str ≠ .panic := by
  unfold parseAlpRest
  simp only
  repeat' split
  all_goals simp

theorem parseAlp_good (s : List Char) (v : AlpV) (h : parseAlp s = .ok v) : v.good := by
  unfold parseAlp at h
  simp only at h
  split at h
  · have := parseAlpRest_comps _ _ _ _ h
    intro c hc; rw [this] at hc; simp at hc
  · split at h
    · exact absurd h (by simp)
    · rename_i comps hcomps
      have := parseAlpRest_comps _ _ _ _ h
      intro c hc; rw [this] at hc
      exact alpComps_good _ (splitOn_dot_digits _ (alpNumPrefix_chars _ _)) 0 comps hcomps c hc

theorem parseAlp_nopanic (s : List Char) : parseAlp s ≠ .panic := by
  unfold parseAlp
  simp only
  split
  · exact parseAlpRest_nopanic _ _ _
  · split
    · simp
    · exact parseAlpRest_nopanic _ _ _

theorem alpine_laws : FamLaws alpineFam AlpV.good cmpAlpT where
  parse_nopanic := parseAlp_nopanic
  parse_wf := parseAlp_good
  cmp_eq := cmpAlp_eq
  refl := fun v _ => cmpAlpT_isSym.refl v
  swap := fun v w _ _ => cmpAlpT_isSym.swap v w

end Scalibr.Semantic
