/-
C07 — Maven, part 4: transitivity on canonical token lists
    first number, then '.'-prefixed numbers (no trailing zero), then only '-'-prefixed tokens
(what `N(.N)*(-qualifier | -N)*` strings parse to). On this class `compare` is the lexicographic
product of  first number / padded dot-numbers / padded dash tokens,  each a total preorder.
The cycle of the known finding needs a '.'-prefixed qualifier (`1.foo`), which is outside the class.
-/
import Scalibr.Proofs.Semantic.MavenParse
namespace Scalibr.Semantic

/-! ## tokens of the class -/

/-- a real (non-padding) dash token: a non-empty non-numeric qualifier, or a number -/
def DTok.ok : DTok → Prop
  | .endd => False
  | .q s => toBig s = none ∧ s ≠ []
  | .n _ => True

def nullDot : MTok := ⟨['.'], intToChars 0, true⟩

def dkey : DTok → Nat × List Char × Int
  | .endd => (5, [], 0)
  | .q s => (keywordIdx s, if keywordIdx s = 7 then s else [], 0)
  | .n v => (8, [], v)

def dkeyCmp : Nat × List Char × Int → Nat × List Char × Int → Ordering :=
  thenCmp (cmpOn (·.1) ncmp) (thenCmp (cmpOn (·.2.1) strCmp) (cmpOn (·.2.2) icmp))

theorem dkeyCmp_isCmp : IsCmp dkeyCmp :=
  thenCmp_isCmp (cmpOn_isCmp _ ncmp_isCmp) (thenCmp_isCmp (cmpOn_isCmp _ strCmp_isCmp) (cmpOn_isCmp _ icmp_isCmp))

def dCmp (a b : DTok) : Ordering := dkeyCmp (dkey a) (dkey b)

theorem dCmp_isCmp : IsCmp dCmp := cmpOn_isCmp dkey dkeyCmp_isCmp

theorem dkeyCmp_mk (a1 : Nat) (a2 : List Char) (a3 : Int) (b1 : Nat) (b2 : List Char) (b3 : Int) :
    dkeyCmp (a1, a2, a3) (b1, b2, b3) = (ncmp a1 b1).then ((strCmp a2 b2).then (icmp a3 b3)) := rfl

/-! ## facts about single tokens -/

theorem intToChars_inj {a b : Int} (h : intToChars a = intToChars b) : a = b := by
  have := toBig_intToChars a
  rw [h, toBig_intToChars] at this
  injection this with this
  exact this.symm

theorem toBig_kSp : toBig kSp = none := by decide

theorem itc_ne_sp (a : Int) : intToChars a ≠ kSp := by
  intro h
  have := toBig_intToChars a
  rw [h, toBig_kSp] at this
  exact absurd this (by simp)

theorem itc_ne_nil (a : Int) : intToChars a ≠ [] := by
  intro h
  have := toBig_intToChars a
  rw [h, toBig_nil] at this
  exact absurd this (by simp)

theorem keywordIdx_nil : keywordIdx [] = 5 := by decide

theorem keywordIdx_five (s : List Char) (h : keywordIdx s = 5) : s = [] := by
  have := keywordIdx_inj s [] (by rw [h, keywordIdx_nil]) (by rw [h]; decide)
  exact this

theorem keywordIdx_le (s : List Char) : keywordIdx s ≤ 7 := by
  unfold keywordIdx
  repeat' split
  all_goals omega

/-- same prefix, both numeric: numeric comparison whatever the null flags -/
theorem tokLess_num (p : List Char) (a b : Int) (n1 n2 : Bool) :
    tokLess ⟨p, intToChars a, n1⟩ ⟨p, intToChars b, n2⟩ = some (decide (a < b)) := by
  simp [tokLess, toBig_intToChars]

theorem equal_num (p : List Char) (a b : Int) (n1 n2 : Bool) :
    (⟨p, intToChars a, n1⟩ : MTok).equal ⟨p, intToChars b, n2⟩ = decide (a = b) := by
  unfold MTok.equal
  by_cases h : a = b
  · subst h; simp
  · have : intToChars a ≠ intToChars b := fun e => h (intToChars_inj e)
    simp [h, this]

theorem nullTok_dot (a : Int) : nullTok (dotTok a) = some nullDot := by
  simp [nullTok, dotTok, nullDot, itc_ne_sp, intToChars_zero]

theorem nullTok_dash (d : DTok) : nullTok d.tok = some DTok.endd.tok := by
  cases d <;> simp [nullTok, DTok.tok]

theorem icmp_lt_iff (a b : Int) : decide (icmp a b = .lt) = decide (a < b) := by
  by_cases h : a < b
  · simp [h, icmp_lt.mpr h]
  · have : icmp a b ≠ .lt := fun e => h (icmp_lt.mp e)
    simp [h, this]

theorem icmp_eq_iff (a b : Int) : decide (icmp a b = .eq) = decide (a = b) := by
  by_cases h : a = b
  · subst h; simp [icmp_isCmp.refl]
  · have : icmp a b ≠ .eq := fun e => h (icmp_eq.mp e)
    simp [h, this]

theorem eq_then (x : Ordering) : Ordering.eq.then x = x := rfl

theorem then_icmp00 (o : Ordering) : o.then (icmp 0 0) = o := by
  have : icmp (0 : Int) 0 = .eq := by decide
  rw [this]; cases o <;> rfl

/-- dash tokens (padding included on at most one side): `equal` and `lessThan` are `dCmp` -/
theorem dash_pair (x y : DTok) (hx : x.ok ∨ x = .endd) (hy : y.ok ∨ y = .endd) (hne : ¬ (x = .endd ∧ y = .endd)) :
    x.tok.equal y.tok = decide (dCmp x y = .eq) ∧
    (x.tok.equal y.tok = false → tokLess x.tok y.tok = some (decide (dCmp x y = .lt))) := by
  cases x with
  | endd =>
    cases y with
    | endd => exact absurd ⟨rfl, rfl⟩ hne
    | q s =>
      have hs : toBig s = none ∧ s ≠ [] := by
        rcases hy with h | h
        · exact h
        · exact absurd h (by simp)
      have h5 : keywordIdx s ≠ 5 := fun e => hs.2 (keywordIdx_five s e)
      have hle := keywordIdx_le s
      constructor
      · simp only [DTok.tok, MTok.equal, dCmp, dkey, dkeyCmp_mk]
        have hne' : ([] : List Char) ≠ s := fun e => hs.2 e.symm
        have : ncmp 5 (keywordIdx s) ≠ .eq := fun e => h5 (ncmp_eq.mp e).symm
        have hk : (ncmp 5 (keywordIdx s)).then ((strCmp [] (if keywordIdx s = 7 then s else [])).then (icmp 0 0)) ≠ .eq := by
          rw [then_eq_left _ this]; exact this
        simp [hne', hk]
      · intro _
        simp only [DTok.tok]
        simp only [tokLess, toBig_nil, hs.1, keywordIdx_nil, dCmp, dkey, dkeyCmp_mk]
        have : ncmp 5 (keywordIdx s) ≠ .eq := fun e => h5 (ncmp_eq.mp e).symm
        simp only [then_eq_left _ this]
        by_cases hlt : 5 < keywordIdx s
        · simp [hlt, ncmp_lt.mpr hlt]
        · have : ncmp 5 (keywordIdx s) ≠ .lt := fun e => hlt (ncmp_lt.mp e)
          simp [hlt, this]
    | n v =>
      constructor
      · simp only [DTok.tok, MTok.equal, dCmp, dkey, dkeyCmp_mk]
        have h1 : ([] : List Char) ≠ intToChars v := fun e => itc_ne_nil v e.symm
        have h2 : ncmp 5 8 = .lt := by decide
        simp [h1, h2, Ordering.then]
      · intro _
        simp only [DTok.tok]
        simp only [tokLess, toBig_nil, toBig_intToChars, dCmp, dkey, dkeyCmp_mk]
        have h2 : ncmp 5 8 = .lt := by decide
        simp [h2, Ordering.then]
  | q s =>
    have hs : toBig s = none ∧ s ≠ [] := by
      rcases hx with h | h
      · exact h
      · exact absurd h (by simp)
    have h5 : keywordIdx s ≠ 5 := fun e => hs.2 (keywordIdx_five s e)
    have hle := keywordIdx_le s
    cases y with
    | endd =>
      constructor
      · simp only [DTok.tok, MTok.equal, dCmp, dkey, dkeyCmp_mk]
        have : ncmp (keywordIdx s) 5 ≠ .eq := fun e => h5 (ncmp_eq.mp e)
        have hk : (ncmp (keywordIdx s) 5).then ((strCmp (if keywordIdx s = 7 then s else []) []).then (icmp 0 0)) ≠ .eq := by
          rw [then_eq_left _ this]; exact this
        simp [hs.2, hk]
      · intro _
        simp only [DTok.tok]
        simp only [tokLess, toBig_nil, hs.1, keywordIdx_nil, dCmp, dkey, dkeyCmp_mk]
        have : ncmp (keywordIdx s) 5 ≠ .eq := fun e => h5 (ncmp_eq.mp e)
        simp only [then_eq_left _ this]
        by_cases hlt : keywordIdx s < 5
        · have h7 : ¬ keywordIdx s = 7 := by omega
          simp [hlt, ncmp_lt.mpr hlt, h7]
        · have hn : ncmp (keywordIdx s) 5 ≠ .lt := fun e => hlt (ncmp_lt.mp e)
          simp [hlt, hn]
    | q t =>
      have ht : toBig t = none ∧ t ≠ [] := by
        rcases hy with h | h
        · exact h
        · exact absurd h (by simp)
      constructor
      · simp only [DTok.tok, MTok.equal, dCmp, dkey, dkeyCmp_mk]
        by_cases hst : s = t
        · subst hst
          simp [ncmp_isCmp.refl, strCmp_isCmp.refl, icmp_isCmp.refl, Ordering.then]
        · have : ((ncmp (keywordIdx s) (keywordIdx t)).then ((strCmp (if keywordIdx s = 7 then s else []) (if keywordIdx t = 7 then t else [])).then (icmp 0 0))) ≠ .eq := by
            intro e
            by_cases hk : keywordIdx s = keywordIdx t
            · rw [hk, ncmp_isCmp.refl, eq_then] at e
              by_cases h7 : keywordIdx t = 7
              · rw [h7] at hk
                simp only [hk, h7, if_true, then_icmp00] at e
                exact hst ((strCmp_eq_iff s t).mp e)
              · exact hst (keywordIdx_inj s t hk (by rw [hk]; exact h7))
            · have : ncmp (keywordIdx s) (keywordIdx t) ≠ .eq := fun e' => hk (ncmp_eq.mp e')
              rw [then_eq_left _ this] at e
              exact this e
          simp [hst, this]
      · intro hne'
        have hst : s ≠ t := by
          intro e; subst e; simp [DTok.tok, MTok.equal] at hne'
        simp only [DTok.tok]
        simp only [tokLess, hs.1, ht.1, dCmp, dkey, dkeyCmp_mk]
        simp only [Option.isSome, Bool.false_and, Bool.false_eq_true, if_false]
        by_cases h77 : keywordIdx s = 7 ∧ keywordIdx t = 7
        · obtain ⟨h1, h2⟩ := h77
          simp only [h1, h2, decide_true, Bool.and_self, if_true, ncmp_isCmp.refl, then_icmp00, eq_then]
        · have hk : keywordIdx s ≠ keywordIdx t := by
            intro e
            by_cases h1 : keywordIdx s = 7
            · exact h77 ⟨h1, e ▸ h1⟩
            · exact hst (keywordIdx_inj s t e h1)
          have hn : ncmp (keywordIdx s) (keywordIdx t) ≠ .eq := fun e' => hk (ncmp_eq.mp e')
          simp only [then_eq_left _ hn]
          have hc : ¬ ((decide (keywordIdx s = 7) && decide (keywordIdx t = 7)) = true) := by
            intro hc
            simp only [Bool.and_eq_true, decide_eq_true_eq] at hc
            exact h77 hc
          rw [if_pos trivial, if_neg hc]
          · by_cases hlt : keywordIdx s < keywordIdx t
            · simp [hlt, ncmp_lt.mpr hlt]
            · have : ncmp (keywordIdx s) (keywordIdx t) ≠ .lt := fun e => hlt (ncmp_lt.mp e)
              simp [hlt, this]
    | n v =>
      constructor
      · simp only [DTok.tok, MTok.equal, dCmp, dkey, dkeyCmp_mk]
        have h1 : s ≠ intToChars v := by
          intro e; have := toBig_intToChars v; rw [← e, hs.1] at this; exact absurd this (by simp)
        have h2 : ncmp (keywordIdx s) 8 = .lt := ncmp_lt.mpr (by omega)
        simp [h1, h2, Ordering.then]
      · intro _
        simp only [DTok.tok]
        simp only [tokLess, hs.1, toBig_intToChars, dCmp, dkey, dkeyCmp_mk]
        have h2 : ncmp (keywordIdx s) 8 = .lt := ncmp_lt.mpr (by omega)
        simp [h2, Ordering.then]
  | n v =>
    cases y with
    | endd =>
      constructor
      · simp only [DTok.tok, MTok.equal, dCmp, dkey, dkeyCmp_mk]
        have h2 : ncmp 8 5 = .gt := by decide
        simp [itc_ne_nil v, h2, Ordering.then]
      · intro _
        simp only [DTok.tok]
        simp only [tokLess, toBig_nil, toBig_intToChars, dCmp, dkey, dkeyCmp_mk]
        have h2 : ncmp 8 5 = .gt := by decide
        simp [h2, Ordering.then]
    | q t =>
      have ht : toBig t = none ∧ t ≠ [] := by
        rcases hy with h | h
        · exact h
        · exact absurd h (by simp)
      have hle := keywordIdx_le t
      constructor
      · simp only [DTok.tok, MTok.equal, dCmp, dkey, dkeyCmp_mk]
        have h1 : intToChars v ≠ t := by
          intro e; have := toBig_intToChars v; rw [e, ht.1] at this; exact absurd this (by simp)
        have h2 : ncmp 8 (keywordIdx t) = .gt := ncmp_gt.mpr (by omega)
        simp [h1, h2, Ordering.then]
      · intro _
        simp only [DTok.tok]
        simp only [tokLess, ht.1, toBig_intToChars, dCmp, dkey, dkeyCmp_mk]
        have h2 : ncmp 8 (keywordIdx t) = .gt := ncmp_gt.mpr (by omega)
        simp [h2, Ordering.then]
    | n w =>
      constructor
      · simp only [DTok.tok, dCmp, dkey, dkeyCmp_mk, equal_num]
        have h2 : ncmp 8 8 = .eq := by decide
        simp only [h2, eq_then, strCmp_isCmp.refl]
        exact (icmp_eq_iff v w).symm
      · intro _
        simp only [DTok.tok, tokLess_num, dCmp, dkey, dkeyCmp_mk]
        have h2 : ncmp 8 8 = .eq := by decide
        simp only [h2, eq_then, strCmp_isCmp.refl, icmp_lt_iff]

/-! ## lists of dash tokens: uniform padding -/

theorem dash_ne_endd (x : DTok) (hx : x.ok) : x.tok.equal DTok.endd.tok = false ∧ DTok.endd.tok.equal x.tok = false := by
  cases x with
  | endd => exact absurd hx (by simp [DTok.ok])
  | q s =>
    have : s ≠ [] := hx.2
    simp [DTok.tok, MTok.equal, this, Ne.symm this]
  | n v => simp [DTok.tok, MTok.equal, itc_ne_nil v, Ne.symm (itc_ne_nil v)]

theorem dCmp_endd_ne (x : DTok) (hx : x.ok) : dCmp x .endd ≠ .eq ∧ dCmp .endd x ≠ .eq := by
  have h1 := (dash_pair x .endd (Or.inl hx) (Or.inr rfl) (by intro ⟨a, _⟩; subst a; exact hx)).1
  have h2 := (dash_pair .endd x (Or.inr rfl) (Or.inl hx) (by intro ⟨_, b⟩; subst b; exact hx)).1
  rw [(dash_ne_endd x hx).1] at h1
  rw [(dash_ne_endd x hx).2] at h2
  constructor
  · intro e; rw [e] at h1; simp at h1
  · intro e; rw [e] at h2; simp at h2

theorem decide_then_lt (o k : Ordering) (h : o ≠ .eq) : decide (o.then k = .lt) = decide (o = .lt) := by
  rw [then_eq_left _ h]

theorem dash_lists : ∀ (xs ys : List DTok), (∀ x ∈ xs, x.ok) → (∀ y ∈ ys, y.ok) →
    mvnLess (xs.map DTok.tok) (ys.map DTok.tok) = some (decide (cmpPad dCmp .endd xs ys = .lt)) ∧
    mvnEqual (xs.map DTok.tok) (ys.map DTok.tok) = decide (cmpPad dCmp .endd xs ys = .eq) := by
  intro xs; induction xs with
  | nil =>
    intro ys _ hy
    induction ys with
    | nil => simp [mvnLess, mvnLessL, mvnEqual, cmpPad, cmpPadL]
    | cons y ys' _ =>
      have hyo := hy y (by simp)
      have hp := dash_pair .endd y (Or.inr rfl) (Or.inl hyo) (by intro ⟨_, b⟩; subst b; exact hyo)
      have hne := (dash_ne_endd y hyo).2
      have hd := (dCmp_endd_ne y hyo).2
      simp only [List.map, mvnLess, mvnLessL, nullTok_dash, hne, Bool.false_eq_true, if_false, mvnEqual, cmpPad, cmpPadL]
      rw [hp.2 hne]
      simp only [then_eq_left _ hd]
      simp [hd]
  | cons x xs' ih =>
    intro ys hx hy
    have hxo := hx x (by simp)
    cases ys with
    | nil =>
      have hp := dash_pair x .endd (Or.inl hxo) (Or.inr rfl) (by intro ⟨a, _⟩; subst a; exact hxo)
      have hne := (dash_ne_endd x hxo).1
      have hd := (dCmp_endd_ne x hxo).1
      simp only [List.map, mvnLess, nullTok_dash, hne, Bool.false_eq_true, if_false, mvnEqual, cmpPad_nil_right, cmpPadR]
      rw [hp.2 hne]
      simp only [then_eq_left _ hd]
      simp [hd]
    | cons y ys' =>
      have hyo := hy y (by simp)
      have hp := dash_pair x y (Or.inl hxo) (Or.inl hyo) (by intro ⟨a, _⟩; subst a; exact hxo)
      have ih' := ih ys' (fun z hz => hx z (by simp [hz])) (fun z hz => hy z (by simp [hz]))
      simp only [List.map, mvnLess, mvnEqual, cmpPad]
      cases he : x.tok.equal y.tok with
      | true =>
        have hde : dCmp x y = .eq := by
          have := hp.1; rw [he] at this; simpa using this.symm
        simp only [if_true, Bool.true_and, hde, eq_then]
        exact ih'
      | false =>
        have hde : dCmp x y ≠ .eq := by
          intro e; have := hp.1; rw [he, e] at this; simp at this
        simp only [Bool.false_eq_true, if_false, Bool.false_and, then_eq_left _ hde]
        exact ⟨hp.2 he, by simp [hde]⟩

/-! ## the dot-number phase -/

/-- non-negative, no trailing zero -/
def NumsOk (as : List Int) : Prop := (∀ a ∈ as, 0 ≤ a) ∧ (∀ l, as.getLast? = some l → l ≠ 0)

theorem NumsOk.tail {a : Int} {as : List Int} (h : NumsOk (a :: as)) : NumsOk as := by
  refine ⟨fun b hb => h.1 b (by simp [hb]), ?_⟩
  intro l hl
  cases as with
  | nil => simp at hl
  | cons b bs => exact h.2 l (by simpa [List.getLast?_cons_cons] using hl)

theorem NumsOk.head_zero_tail_ne {as : List Int} (h : NumsOk (0 :: as)) : as ≠ [] := by
  intro e; subst e
  exact h.2 0 rfl rfl

theorem nullDot_equal_dot (b : Int) : nullDot.equal (dotTok b) = decide (0 = b) := equal_num ['.'] 0 b true false
theorem dot_equal_nullDot (a : Int) : (dotTok a).equal nullDot = decide (a = 0) := equal_num ['.'] a 0 false true
theorem dot_equal_dot (a b : Int) : (dotTok a).equal (dotTok b) = decide (a = b) := equal_num ['.'] a b false false
theorem tokLess_nullDot_dot (b : Int) : tokLess nullDot (dotTok b) = some (decide (0 < b)) := tokLess_num ['.'] 0 b true false
theorem tokLess_dot_nullDot (a : Int) : tokLess (dotTok a) nullDot = some (decide (a < 0)) := tokLess_num ['.'] a 0 false true
theorem tokLess_dot_dot (a b : Int) : tokLess (dotTok a) (dotTok b) = some (decide (a < b)) := tokLess_num ['.'] a b false false

theorem qualOrder_dot (a : Int) : qualOrder (dotTok a) = some 3 := by
  simp [qualOrder, dotTok, toBig_intToChars]

theorem qualOrder_dash (x : DTok) (hx : x.ok) : qualOrder x.tok = some 1 ∨ qualOrder x.tok = some 2 := by
  cases x with
  | endd => exact absurd hx (by simp [DTok.ok])
  | q s => left; simp [qualOrder, DTok.tok, hx.1]
  | n v => right; simp [qualOrder, DTok.tok, toBig_intToChars]

theorem dash_dot (x : DTok) (hx : x.ok) (b : Int) :
    x.tok.equal (dotTok b) = false ∧ (dotTok b).equal x.tok = false ∧
    tokLess x.tok (dotTok b) = some true ∧ tokLess (dotTok b) x.tok = some false := by
  have hpre : x.tok.pre = ['-'] := by cases x <;> rfl
  have hq := qualOrder_dash x hx
  have h1 : ¬ (x.tok.pre = (dotTok b).pre) := by rw [hpre]; simp [dotTok]
  have h2 : ¬ ((dotTok b).pre = x.tok.pre) := by rw [hpre]; simp [dotTok]
  refine ⟨by simp [MTok.equal, h1], by simp [MTok.equal, h2], ?_, ?_⟩
  · unfold tokLess
    rw [if_neg h1, qualOrder_dot]
    rcases hq with hq | hq <;> rw [hq] <;> rfl
  · unfold tokLess
    rw [if_neg h2, qualOrder_dot]
    rcases hq with hq | hq <;> rw [hq] <;> rfl

/-- the left side is exhausted, the right side still has dot-numbers: less -/
theorem lessL_dots : ∀ (bs : List Int), NumsOk bs → bs ≠ [] → ∀ rest : List MTok,
    mvnLessL (bs.map dotTok ++ rest) = some true := by
  intro bs; induction bs with
  | nil => intro _ h; exact absurd rfl h
  | cons b bs' ih =>
    intro hb _ rest
    simp only [List.map, List.cons_append, mvnLessL, nullTok_dot, nullDot_equal_dot, tokLess_nullDot_dot]
    by_cases h0 : 0 = b
    · subst h0
      simp only [decide_true, if_true]
      exact ih hb.tail hb.head_zero_tail_ne rest
    · have hpos : 0 < b := by have := hb.1 b (by simp); omega
      simp [h0, hpos]

theorem less_dots_nil : ∀ (as : List Int), NumsOk as → as ≠ [] → ∀ rest : List MTok,
    mvnLess (as.map dotTok ++ rest) [] = some false := by
  intro as; induction as with
  | nil => intro _ h; exact absurd rfl h
  | cons a as' ih =>
    intro ha _ rest
    simp only [List.map, List.cons_append, mvnLess, nullTok_dot, dot_equal_nullDot, tokLess_dot_nullDot]
    by_cases h0 : a = 0
    · subst h0
      simp only [decide_true, if_true]
      exact ih ha.tail ha.head_zero_tail_ne rest
    · have hpos : ¬ a < 0 := by have := ha.1 a (by simp); omega
      simp [h0, hpos]

theorem cmpPadL_nums : ∀ (bs : List Int), NumsOk bs → bs ≠ [] → cmpPadL icmp 0 bs = .lt := by
  intro bs; induction bs with
  | nil => intro _ h; exact absurd rfl h
  | cons b bs' ih =>
    intro hb _
    simp only [cmpPadL]
    by_cases h0 : 0 = b
    · subst h0
      rw [icmp_isCmp.refl, eq_then]
      exact ih hb.tail hb.head_zero_tail_ne
    · have hpos : 0 < b := by have := hb.1 b (by simp); omega
      rw [icmp_lt.mpr hpos]; rfl

theorem cmpPadR_nums : ∀ (as : List Int), NumsOk as → as ≠ [] → cmpPadR icmp 0 as = .gt := by
  intro as; induction as with
  | nil => intro _ h; exact absurd rfl h
  | cons a as' ih =>
    intro ha _
    simp only [cmpPadR]
    by_cases h0 : a = 0
    · subst h0
      rw [icmp_isCmp.refl, eq_then]
      exact ih ha.tail ha.head_zero_tail_ne
    · have hpos : 0 < a := by have := ha.1 a (by simp); omega
      rw [icmp_gt.mpr hpos]; rfl

/-- dot-numbers then dash tokens, on both sides -/
theorem phase_lemma : ∀ (as bs : List Int) (xs ys : List DTok), NumsOk as → NumsOk bs →
    (∀ x ∈ xs, x.ok) → (∀ y ∈ ys, y.ok) →
    mvnLess (as.map dotTok ++ xs.map DTok.tok) (bs.map dotTok ++ ys.map DTok.tok) =
      some (decide ((cmpPad icmp 0 as bs).then (cmpPad dCmp .endd xs ys) = .lt)) ∧
    mvnEqual (as.map dotTok ++ xs.map DTok.tok) (bs.map dotTok ++ ys.map DTok.tok) =
      decide ((cmpPad icmp 0 as bs).then (cmpPad dCmp .endd xs ys) = .eq) := by
  intro as; induction as with
  | nil =>
    intro bs xs ys _ hb hx hy
    cases bs with
    | nil =>
      simp only [List.map, List.nil_append, cmpPad, cmpPadL, eq_then]
      exact dash_lists xs ys hx hy
    | cons b bs' =>
      have hK : cmpPad icmp 0 [] (b :: bs') = .lt := by
        simp only [cmpPad]; exact cmpPadL_nums (b :: bs') hb (by simp)
      simp only [hK]
      have hlt : (Ordering.lt.then (cmpPad dCmp DTok.endd xs ys)) = .lt := rfl
      simp only [hlt, decide_true]
      cases xs with
      | nil =>
        simp only [List.map, List.nil_append, mvnLess]
        refine ⟨lessL_dots (b :: bs') hb (by simp) _, ?_⟩
        simp [mvnEqual]
      | cons x xs' =>
        have hd := dash_dot x (hx x (by simp)) b
        simp only [List.map, List.cons_append, List.nil_append, mvnLess, mvnEqual, hd.1, Bool.false_eq_true, if_false, hd.2.2.1, Bool.false_and]
        simp
  | cons a as' ih =>
    intro bs xs ys ha hb hx hy
    cases bs with
    | nil =>
      have hK : cmpPad icmp 0 (a :: as') [] = .gt := by
        rw [cmpPad_nil_right]; exact cmpPadR_nums (a :: as') ha (by simp)
      simp only [hK]
      have hgt : (Ordering.gt.then (cmpPad dCmp DTok.endd xs ys)) = .gt := rfl
      simp only [hgt]
      cases ys with
      | nil =>
        simp only [List.map, List.nil_append]
        refine ⟨?_, ?_⟩
        · have := less_dots_nil (a :: as') ha (by simp) (xs.map DTok.tok)
          simpa using this
        · simp [mvnEqual]
      | cons y ys' =>
        have hd := dash_dot y (hy y (by simp)) a
        simp only [List.map, List.cons_append, List.nil_append, mvnLess, mvnEqual, hd.2.1, Bool.false_eq_true, if_false, hd.2.2.2, Bool.false_and]
        simp
    | cons b bs' =>
      have ih' := ih bs' xs ys ha.tail hb.tail hx hy
      simp only [List.map, List.cons_append, mvnLess, mvnEqual, dot_equal_dot, tokLess_dot_dot, cmpPad]
      by_cases hab : a = b
      · subst hab
        simp only [decide_true, if_true, Bool.true_and, icmp_isCmp.refl, eq_then]
        exact ih'
      · have hne : icmp a b ≠ .eq := fun e => hab (icmp_eq.mp e)
        simp only [hab, decide_false, Bool.false_eq_true, if_false, Bool.false_and]
        have : ((icmp a b).then (cmpPad icmp 0 as' bs')).then (cmpPad dCmp DTok.endd xs ys) = icmp a b := by
          rw [then_eq_left _ hne, then_eq_left _ hne]
        simp only [this, icmp_lt_iff]
        simp [hne]

/-! ## whole versions of the class -/

/-- the key of a canonical version: first number, dot-numbers (padded with 0), dash tokens (padded
with the end marker) -/
def canonKeyCmp (c d : Int × List Int × List DTok) : Ordering :=
  (icmp c.1 d.1).then ((cmpPad icmp 0 c.2.1 d.2.1).then (cmpPad dCmp .endd c.2.2 d.2.2))

theorem canonKeyCmp_isCmp : IsCmp canonKeyCmp :=
  (thenCmp_isCmp (cmpOn_isCmp (·.1) icmp_isCmp)
    (thenCmp_isCmp (cmpOn_isCmp (·.2.1) (cmpPad_isCmp 0 icmp_isCmp)) (cmpOn_isCmp (·.2.2) (cmpPad_isCmp DTok.endd dCmp_isCmp)))).congr
    (fun _ _ => rfl)

def CanonOk (c : Int × List Int × List DTok) : Prop := NumsOk c.2.1 ∧ ∀ x ∈ c.2.2, x.ok

theorem cmpMvnT_canon (c d : Int × List Int × List DTok) (hc : CanonOk c) (hd : CanonOk d) :
    cmpMvnT (canonToks c.1 c.2.1 c.2.2) (canonToks d.1 d.2.1 d.2.2) = canonKeyCmp c d := by
  obtain ⟨n0, as, xs⟩ := c
  obtain ⟨m0, bs, ys⟩ := d
  obtain ⟨ph1, ph2⟩ := phase_lemma as bs xs ys hc.1 hd.1 hc.2 hd.2
  simp only [canonToks, cmpMvnT, mvnEqual, mvnLess, headTok, equal_num, tokLess_num, canonKeyCmp]
  generalize (cmpPad icmp 0 as bs).then (cmpPad dCmp DTok.endd xs ys) = K at ph1 ph2
  by_cases h0 : n0 = m0
  · subst h0
    simp only [decide_true, Bool.true_and, if_true, icmp_isCmp.refl, eq_then]
    rw [ph2, ph1]
    cases K <;> simp
  · have hne : icmp n0 m0 ≠ .eq := fun e => h0 (icmp_eq.mp e)
    simp only [h0, decide_false, Bool.false_and, Bool.false_eq_true, if_false, then_eq_left _ hne]
    by_cases hlt : n0 < m0
    · simp [hlt, icmp_lt.mpr hlt]
    · have hg : m0 < n0 := by omega
      simp [hlt, icmp_gt.mpr hg]

/-- the class as a predicate on token lists -/
def MvnCanonP (v : List MTok) : Prop := ∃ c : Int × List Int × List DTok, CanonOk c ∧ v = canonToks c.1 c.2.1 c.2.2

theorem cmpMvnT_isCmpOn : IsCmpOn MvnCanonP cmpMvnT where
  refl := fun a _ => cmpMvnT_refl a
  swap := fun a b ⟨c, hc, ea⟩ ⟨d, hd, eb⟩ => by
    subst ea eb
    rw [cmpMvnT_canon c d hc hd, cmpMvnT_canon d c hd hc]
    exact canonKeyCmp_isCmp.swap c d
  trans_le := fun a b e ⟨c, hc, ea⟩ ⟨d, hd, eb⟩ ⟨f, hf, ee⟩ => by
    subst ea eb ee
    rw [cmpMvnT_canon c d hc hd, cmpMvnT_canon d f hd hf, cmpMvnT_canon c f hc hf]
    exact canonKeyCmp_isCmp.trans_le c d f

/-! ## the decoder of `Spec.Semantic` is sound -/

theorem tok_eta (t : MTok) (p v : List Char) (hp : t.pre = p) (hv : t.val = v) (hn : t.isNull = false) : t = ⟨p, v, false⟩ := by
  cases t; simp_all

theorem decDash_sound : ∀ (ts : List MTok) (ds : List DTok), decDash ts = some ds →
    ts = ds.map DTok.tok ∧ ∀ x ∈ ds, x.ok := by
  intro ts; induction ts with
  | nil => intro ds h; simp [decDash] at h; subst h; simp
  | cons t rest ih =>
    intro ds h
    simp only [decDash] at h
    split at h
    · rename_i hc
      simp only [Bool.and_eq_true, decide_eq_true_eq, Bool.not_eq_true'] at hc
      split at h
      · rename_i v hv
        split at h
        · rename_i hval
          cases hr : decDash rest with
          | none => simp [hr] at h
          | some ds' =>
            simp only [hr, Option.map_some, Option.some.injEq] at h
            subst h
            obtain ⟨e1, e2⟩ := ih ds' hr
            refine ⟨?_, ?_⟩
            · simp only [List.map, DTok.tok]
              rw [← e1, tok_eta t ['-'] (intToChars v) hc.1 hval hc.2]
            · intro x hx
              simp only [List.mem_cons] at hx
              rcases hx with hx | hx
              · subst hx; trivial
              · exact e2 x hx
        · exact absurd h (by simp)
      · rename_i hv
        split at h
        · rename_i hval
          cases hr : decDash rest with
          | none => simp [hr] at h
          | some ds' =>
            simp only [hr, Option.map_some, Option.some.injEq] at h
            subst h
            obtain ⟨e1, e2⟩ := ih ds' hr
            refine ⟨?_, ?_⟩
            · simp only [List.map, DTok.tok]
              rw [← e1, tok_eta t ['-'] t.val hc.1 rfl hc.2]
            · intro x hx
              simp only [List.mem_cons] at hx
              rcases hx with hx | hx
              · subst hx; exact ⟨hv, hval⟩
              · exact e2 x hx
        · exact absurd h (by simp)
    · exact absurd h (by simp)

theorem decDots_sound : ∀ (ts : List MTok) (as : List Int) (ds : List DTok), decDots ts = some (as, ds) →
    ts = as.map dotTok ++ ds.map DTok.tok ∧ (∀ a ∈ as, 0 ≤ a) ∧ ∀ x ∈ ds, x.ok := by
  intro ts; induction ts with
  | nil => intro as ds h; simp [decDots] at h; obtain ⟨h1, h2⟩ := h; subst h1 h2; simp
  | cons t rest ih =>
    intro as ds h
    simp only [decDots] at h
    split at h
    · rename_i hp
      split at h
      · rename_i hn
        simp only [Bool.not_eq_true'] at hn
        split at h
        · rename_i v hv
          split at h
          · rename_i hc
            simp only [Bool.and_eq_true, decide_eq_true_eq] at hc
            cases hr : decDots rest with
            | none => simp [hr] at h
            | some p =>
              simp only [hr, Option.map_some, Option.some.injEq, Prod.mk.injEq] at h
              obtain ⟨h1, h2⟩ := h
              subst h1 h2
              obtain ⟨e1, e2, e3⟩ := ih p.1 p.2 (by rw [hr])
              refine ⟨?_, ?_, e3⟩
              · simp only [List.map, List.cons_append, dotTok]
                rw [← e1, tok_eta t ['.'] (intToChars v) hp hc.1 hn]
              · intro a ha
                simp only [List.mem_cons] at ha
                rcases ha with ha | ha
                · subst ha; exact hc.2
                · exact e2 a ha
          · exact absurd h (by simp)
        · exact absurd h (by simp)
      · exact absurd h (by simp)
    · cases hr : decDash (t :: rest) with
      | none => simp [hr] at h
      | some ds' =>
        simp only [hr, Option.map_some, Option.some.injEq, Prod.mk.injEq] at h
        obtain ⟨h1, h2⟩ := h
        subst h1 h2
        obtain ⟨e1, e2⟩ := decDash_sound (t :: rest) ds' hr
        exact ⟨by simpa using e1, by simp, e2⟩

theorem mvnCanonToks_sound (v : List MTok) (h : mvnCanonToks v = true) : MvnCanonP v := by
  unfold mvnCanonToks at h
  cases hd : decMvn v with
  | none => simp [hd] at h
  | some c =>
    obtain ⟨n0, as, ds⟩ := c
    simp only [hd] at h
    cases v with
    | nil => simp [decMvn] at hd
    | cons t rest =>
      simp only [decMvn] at hd
      split at hd
      · rename_i hc
        simp only [Bool.and_eq_true, decide_eq_true_eq, Bool.not_eq_true'] at hc
        split at hd
        · rename_i v0 hv
          split at hd
          · rename_i hval
            cases hr : decDots rest with
            | none => simp [hr] at hd
            | some p =>
              simp only [hr, Option.map_some, Option.some.injEq, Prod.mk.injEq] at hd
              obtain ⟨h1, h2, h3⟩ := hd
              subst h1 h2 h3
              obtain ⟨e1, e2, e3⟩ := decDots_sound rest p.1 p.2 (by rw [hr])
              refine ⟨(v0, p.1, p.2), ⟨⟨e2, ?_⟩, e3⟩, ?_⟩
              · intro l hl e0
                subst e0
                simp only [hl] at h
                simp at h
              · simp only [canonToks, headTok]
                rw [← e1, tok_eta t [] (intToChars v0) hc.1 hval hc.2]
          · exact absurd hd (by simp)
        · exact absurd hd (by simp)
      · exact absurd hd (by simp)

end Scalibr.Semantic
