/-
C07 — from the string-level laws (`Total`, `Refl`, `Antisymm`, `TransOn`) to the vocabulary of
`Spec/VersionOrder.lean` (`TotalPreorderOn`, `RankFor`), and: a comparison that answers is a
comparison of accepted strings.
-/
import Scalibr.Proofs.Semantic.Lex
import Scalibr.Spec.Semantic.Grammar
import Scalibr.Proofs.VersionOrder
namespace Scalibr.Semantic

/-- if the comparison answers `<`, `=` or `>` then the receiver was accepted by `Parse` -/
theorem accepted_of_ofOrd {f : Fam} {a b : List Char} {o : Ordering} (h : compareStr f a b = .ofOrd o) :
    accepted f a = true := by
  unfold compareStr Family.compareStr Family.cmpParsed at h
  unfold accepted Family.accepted
  cases hp : f.family.parse a with
  | panic => rw [hp] at h; exact absurd h.symm (ofOrd_ne_panic o)
  | err => rw [hp] at h; exact absurd h.symm (ofOrd_ne_err o)
  | ok v => rfl

theorem TransOn.mono {f : Fam} {P Q : List Char → Prop} (h : ∀ s, Q s → P s) (t : TransOn f P) : TransOn f Q :=
  fun a b c qa qb qc => t a b c (h a qa) (h b qb) (h c qc)

/-- the string-level laws on a domain `P` of accepted strings give the laws of a total preorder, in
the shape C11 / C18 consume, on every list of versions drawn from `P` -/
theorem preorder_on {f : Fam} {P : List Char → Prop} (ht : Total f) (hr : Refl f) (ha : Antisymm f)
    (htr : TransOn f P) (hacc : ∀ s, P s → accepted f s = true) (vs : List (List Char))
    (hvs : ∀ s ∈ vs, P s) : Upgrade.TotalPreorderOn (cmpOrd f) vs := by
  have ok : ∀ a b, P a → P b →
      compareStr f a b ≠ .err ∧ compareStr f a b ≠ .panic ∧ compareStr f a b = (compareStr f b a).flip :=
    fun a b pa pb => ⟨(ha a b (hacc a pa) (hacc b pb)).1, ht a b, (ha a b (hacc a pa) (hacc b pb)).2⟩
  constructor
  · intro a ma
    simp only [cmpOrd, hr a (hacc a (hvs a ma))]
  · intro a ma b mb
    obtain ⟨e1, p1, f1⟩ := ok a b (hvs a ma) (hvs b mb)
    obtain ⟨e2, p2, _⟩ := ok b a (hvs b mb) (hvs a ma)
    unfold cmpOrd
    revert e1 p1 f1 e2 p2
    generalize compareStr f a b = x
    generalize compareStr f b a = y
    cases y <;> cases x <;> simp [Outcome.flip]
  · intro a ma b mb c mc h1 h2
    obtain ⟨e1, p1, _⟩ := ok a b (hvs a ma) (hvs b mb)
    obtain ⟨e2, p2, _⟩ := ok b c (hvs b mb) (hvs c mc)
    obtain ⟨e3, p3, _⟩ := ok a c (hvs a ma) (hvs c mc)
    have l1 : (compareStr f a b).isLe = true := by
      revert h1 e1 p1; unfold cmpOrd; cases compareStr f a b <;> simp [Outcome.isLe]
    have l2 : (compareStr f b c).isLe = true := by
      revert h2 e2 p2; unfold cmpOrd; cases compareStr f b c <;> simp [Outcome.isLe]
    have l3 := (htr a b c (hvs a ma) (hvs b mb) (hvs c mc) l1 l2).1
    revert l3; unfold cmpOrd; cases compareStr f a c <;> simp [Outcome.isLe]

end Scalibr.Semantic
