/-
C07 — the reader `specParse` that the driver uses for the semver.org oracle inverts `render`:
every well-formed `SemVer` is read back from its canonical text. Together with `semver_spec` this
ties the oracle's verdict (`spec=`) to the theorem's statement.
-/
import Scalibr.Proofs.Semantic.SemverSpec
namespace Scalibr.Semantic

theorem cutAt_none (sep : Char) : ∀ (P : List Char), (∀ c ∈ P, c ≠ sep) → cutAt sep P = none := by
  intro P; induction P with
  | nil => intro _; rfl
  | cons c cs ih =>
    intro h
    simp only [cutAt, h c (by simp), if_false, ih (fun d hd => h d (by simp [hd]))]

theorem cutAt_append_sep (sep : Char) : ∀ (P rest : List Char), (∀ c ∈ P, c ≠ sep) →
    cutAt sep (P ++ sep :: rest) = some (P, rest) := by
  intro P; induction P with
  | nil => intro rest _; simp [cutAt]
  | cons c cs ih =>
    intro rest h
    simp only [List.cons_append, cutAt, h c (by simp), if_false, ih rest (fun d hd => h d (by simp [hd]))]

theorem D_head (k : Nat) : ∀ m, m < k → 0 < m → ∃ c r, D m = c :: r ∧ c ≠ '0' := by
  induction k with
  | zero => intro m h; omega
  | succ k ih =>
    intro m hk hm
    by_cases hlt : m < 10
    · refine ⟨m.digitChar, [], Nat.toDigits_of_lt_base hlt, ?_⟩
      have : m = 1 ∨ m = 2 ∨ m = 3 ∨ m = 4 ∨ m = 5 ∨ m = 6 ∨ m = 7 ∨ m = 8 ∨ m = 9 := by omega
      rcases this with h | h | h | h | h | h | h | h | h <;> subst h <;> decide
    · have hq : 0 < m / 10 := by omega
      have hr : m % 10 < 10 := by omega
      have e : m = 10 * (m / 10) + m % 10 := by omega
      have happ := @Nat.toDigits_append_toDigits 10 (m / 10) (m % 10) (by omega) hq hr
      rw [← e] at happ
      obtain ⟨c, r, h1, h2⟩ := ih (m / 10) (by omega) hq
      refine ⟨c, r ++ Nat.toDigits 10 (m % 10), ?_, h2⟩
      show Nat.toDigits 10 m = _
      rw [← happ]
      have : Nat.toDigits 10 (m / 10) = c :: r := h1
      rw [this]; rfl

theorem specNum_D (n : Nat) : specNum (D n) = some n := by
  unfold specNum
  simp only [isEmpty_D, D_all, Bool.not_true, Bool.or_self, Bool.false_eq_true, if_false]
  have hno : ¬ (((D n).length > 1 && (D n).head? = some '0') = true) := by
    intro h
    simp only [Bool.and_eq_true, decide_eq_true_eq, beq_iff_eq] at h
    by_cases hn : n < 10
    · have : D n = [n.digitChar] := Nat.toDigits_of_lt_base hn
      rw [this] at h; simp at h
    · obtain ⟨c, r, h1, h2⟩ := D_head (n + 1) n (by omega) (by omega)
      rw [h1] at h
      simp at h
      exact h2 h.2
  have h2 : ((D n).length > 1 && (D n).head? = some '0') = false := by
    cases h : ((D n).length > 1 && (D n).head? = some '0') with
    | false => rfl
    | true => exact absurd h hno
  simp [h2, D_val]

theorem specIdent_render (i : Ident) (hw : i.wf = true) : specIdent i.render = some i := by
  cases i with
  | num n =>
    simp only [Ident.render, specIdent, isEmpty_D, D_all]
    have : (D n).all identChar = true := List.all_eq_true.mpr (fun c hc => digit_identChar c (List.all_eq_true.mp (D_all n) c hc))
    simp [this, specNum_D]
  | alnum s =>
    simp only [Ident.wf, Bool.and_eq_true, Bool.not_eq_true', List.any_eq_true] at hw
    obtain ⟨⟨hne, hall⟩, c, hc, hcd⟩ := hw
    have hnd : s.all isDigit = false := by
      cases h : s.all isDigit with
      | false => rfl
      | true => have := List.all_eq_true.mp h c hc; simp [this] at hcd
    simp [Ident.render, specIdent, hne, hall, hnd]

theorem specIdents_render : ∀ (p : List Ident), (∀ i ∈ p, i.wf = true) → specIdents (p.map Ident.render) = some p := by
  intro p; induction p with
  | nil => intro _; rfl
  | cons i rest ih =>
    intro h
    simp only [List.map, specIdents, specIdent_render i (h i (by simp)), ih (fun k hk => h k (by simp [hk]))]

theorem D_no (n : Nat) (sep : Char) (hs : isDigit sep = false) : ∀ c ∈ D n, c ≠ sep := by
  intro c hc e
  have := List.all_eq_true.mp (D_all n) c hc
  rw [e, hs] at this; exact absurd this (by simp)

/-- reading back the canonical text -/
theorem specParse_render (x : SemVer) (hw : x.wf = true) (hb : x.buildWf = true) : specParse x.render = some x := by
  obtain ⟨a, b, c, pre, build⟩ := x
  simp only [SemVer.wf, Bool.and_eq_true] at hw
  have hpw : ∀ i ∈ pre, i.wf = true := fun i hi => List.all_eq_true.mp hw.1 i hi
  -- the text and its parts
  let core : List Char := D a ++ ('.' :: (D b ++ ('.' :: D c)))
  let P : List Char := if pre.isEmpty then [] else '-' :: renderPre pre
  let B : List Char := if build.isEmpty then [] else '+' :: build
  have hrender : SemVer.render ⟨a, b, c, pre, build⟩ = (core ++ P) ++ B := by
    simp only [SemVer.render, core, P, B, D, List.append_assoc, List.cons_append]
  have hcore_dash : ∀ ch ∈ core, ch ≠ '-' := by
    intro ch hch
    simp only [core, List.mem_append, List.mem_cons] at hch
    rcases hch with h | h | h | h | h
    · exact D_no a '-' (by decide) ch h
    · rw [h]; decide
    · exact D_no b '-' (by decide) ch h
    · rw [h]; decide
    · exact D_no c '-' (by decide) ch h
  have hcore_plus : ∀ ch ∈ core, ch ≠ '+' := by
    intro ch hch
    simp only [core, List.mem_append, List.mem_cons] at hch
    rcases hch with h | h | h | h | h
    · exact D_no a '+' (by decide) ch h
    · rw [h]; decide
    · exact D_no b '+' (by decide) ch h
    · rw [h]; decide
    · exact D_no c '+' (by decide) ch h
  have hP_plus : ∀ ch ∈ P, ch ≠ '+' := by
    intro ch hch
    simp only [P] at hch
    split at hch
    · simp at hch
    · simp only [List.mem_cons] at hch
      rcases hch with h | h
      · rw [h]; decide
      · rcases renderPre_chars pre hpw ch h with h' | h'
        · exact (identChar_ne ch h').1
        · rw [h']; decide
  have hmain_plus : ∀ ch ∈ core ++ P, ch ≠ '+' := by
    intro ch hch
    simp only [List.mem_append] at hch
    rcases hch with h | h
    · exact hcore_plus ch h
    · exact hP_plus ch h
  have hsplit : splitOn '.' core = [D a, D b, D c] := by
    simp only [core]
    rw [splitOn_append_sep '.' _ _ (D_no a '.' (by decide)), splitOn_append_sep '.' _ _ (D_no b '.' (by decide)),
      splitOn_no_sep '.' _ (D_no c '.' (by decide))]
  -- cut at '+'
  have hcutPlus : cutAt '+' ((core ++ P) ++ B) = if build.isEmpty then none else some (core ++ P, build) := by
    simp only [B]
    split
    · rw [List.append_nil]; exact cutAt_none '+' _ hmain_plus
    · exact cutAt_append_sep '+' _ _ hmain_plus
  -- cut at '-'
  have hcutDash : cutAt '-' (core ++ P) = if pre.isEmpty then none else some (core, renderPre pre) := by
    simp only [P]
    split
    · rw [List.append_nil]; exact cutAt_none '-' _ hcore_dash
    · exact cutAt_append_sep '-' _ _ hcore_dash
  unfold specParse
  rw [hrender, hcutPlus]
  cases hbe : build.isEmpty with
  | true =>
    have hbn : build = [] := by cases build <;> simp_all
    simp only [if_true, B, hbe, List.append_nil, hcutDash]
    cases hpe : pre.isEmpty with
    | true =>
      have hpn : pre = [] := by cases pre <;> simp_all
      have hPn : core ++ P = core := by simp [P, hpe]
      simp [hPn, hsplit, specNum_D, hpn, hbn]
    | false =>
      have hpne : pre ≠ [] := by intro e; rw [e] at hpe; simp at hpe
      simp [hsplit, specNum_D, splitOn_renderPre pre hpne hpw, specIdents_render pre hpw, hbn]
  | false =>
    have hbok : ((splitOn '.' build).all fun i => !i.isEmpty && i.all identChar) = true := by
      simpa [SemVer.buildWf, hbe] using hb
    simp only [Bool.false_eq_true, if_false, hcutDash]
    cases hpe : pre.isEmpty with
    | true =>
      have hpn : pre = [] := by cases pre <;> simp_all
      have hPn : core ++ P = core := by simp [P, hpe]
      simp [hPn, hsplit, specNum_D, hpn, hbok]
    | false =>
      have hpne : pre ≠ [] := by intro e; rw [e] at hpe; simp at hpe
      simp [hsplit, specNum_D, splitOn_renderPre pre hpne hpw, specIdents_render pre hpw, hbok]

end Scalibr.Semantic
