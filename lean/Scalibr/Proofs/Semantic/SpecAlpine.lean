/-
C07 — the model of `version-alpine.go` agrees with the documented Alpine suffix rule
(`Spec/Semantic/Alpine.lean`) on every pair of well-formed versions that differ in their suffixes only.
-/
import Scalibr.Spec.Semantic.Alpine
import Scalibr.Proofs.Semantic.SpecReaders
import Scalibr.Proofs.Semantic.Fuel
namespace Scalibr.Semantic
open ApkSpec

/-! ## the text after the numbers -/

/-- empty, or starting with a character that is neither a digit nor a dot -/
def NoNum (rest : List Char) : Prop := rest = [] ∨ ∃ c t, rest = c :: t ∧ isDigit c = false ∧ c ≠ '.'

/-- empty, or starting with one of `_`, `~`, `-` -/
def Sep (rest : List Char) : Prop := rest = [] ∨ ∃ c t, rest = c :: t ∧ (c = '_' ∨ c = '~' ∨ c = '-')

theorem Sep.noDigit {rest : List Char} (h : Sep rest) : rest = [] ∨ ∃ c t, rest = c :: t ∧ isDigit c = false := by
  rcases h with h | ⟨c, t, e, hc⟩
  · exact .inl h
  · refine .inr ⟨c, t, e, ?_⟩
    rcases hc with hc | hc | hc <;> subst hc <;> decide

theorem Sep.noNum {rest : List Char} (h : Sep rest) : NoNum rest := by
  rcases h with h | ⟨c, t, e, hc⟩
  · exact .inl h
  · refine .inr ⟨c, t, e, ?_⟩
    rcases hc with hc | hc | hc <;> subst hc <;> decide

theorem Sep.notLower {rest : List Char} (h : Sep rest) : alpLetterOf rest = [] := by
  rcases h with h | ⟨c, t, e, hc⟩
  · subst h; rfl
  · subst e
    rcases hc with hc | hc | hc <;> subst hc <;> rfl

theorem sep_rev (r : Option Nat) : Sep (renderRev r) := by
  cases r with
  | none => exact .inl rfl
  | some n => exact .inr ⟨'-', _, rfl, .inr (.inr rfl)⟩

theorem sep_tail (v : V) : Sep v.tail := by
  unfold V.tail renderHash
  by_cases h : v.hash.isEmpty = true
  · simp only [h, if_true, List.nil_append]; exact sep_rev _
  · simp only [h]; exact .inr ⟨'~', _, rfl, .inr (.inl rfl)⟩

def sufDigits (s : Suf) : List Char := match s.num with | some n => D n | none => []

theorem sufRender_eq (s : Suf) : s.render = '_' :: (s.kind.name ++ sufDigits s) := by
  unfold Suf.render sufDigits; cases s.num <;> rfl

theorem sep_sufs (ss : List Suf) (tail : List Char) (ht : Sep tail) : Sep (renderSufs ss ++ tail) := by
  cases ss with
  | nil => simpa [renderSufs] using ht
  | cons s rest =>
    refine .inr ⟨'_', (s.kind.name ++ sufDigits s) ++ (renderSufs rest ++ tail), ?_, .inl rfl⟩
    rw [renderSufs, sufRender_eq]; simp

/-! ## number components -/

def NumsWf (nums : List (List Char)) : Prop := ∀ d ∈ nums, d ≠ [] ∧ d.all isDigit = true

theorem apk_joinDots_eq : ∀ l : List (List Char), ApkSpec.joinDots l = RubySpec.joinDots l := by
  intro l
  induction l with
  | nil => rfl
  | cons t rest ih =>
    cases rest with
    | nil => rfl
    | cons u more => simp only [ApkSpec.joinDots, RubySpec.joinDots, ih]

theorem alpNumPrefix_render : ∀ (nums : List (List Char)), nums ≠ [] → NumsWf nums → ∀ (rest : List Char), NoNum rest →
    ∀ fuel, (ApkSpec.joinDots nums ++ rest).length < fuel → alpNumPrefix fuel (ApkSpec.joinDots nums ++ rest) = ApkSpec.joinDots nums := by
  intro nums
  induction nums with
  | nil => intro h; exact absurd rfl h
  | cons d more ih =>
    intro _ hw rest hr fuel hf
    obtain ⟨hd1, hd2⟩ := hw d (by simp)
    have hdig : ∀ x ∈ d, isDigit x = true := fun x hx => List.all_eq_true.mp hd2 x hx
    match fuel, hf with
    | f + 1, hf =>
      cases more with
      | nil =>
        simp only [ApkSpec.joinDots] at hf ⊢
        have hstop : rest = [] ∨ ∃ c t, rest = c :: t ∧ isDigit c = false := by
          rcases hr with h | ⟨c, t, e, h1, _⟩
          · exact .inl h
          · exact .inr ⟨c, t, e, h1⟩
        obtain ⟨e1, e2⟩ := takeWhile_append_stop isDigit d rest hdig hstop
        simp only [alpNumPrefix, e1, e2]
        have hne : d.isEmpty = false := by cases d <;> simp at hd1 ⊢
        simp only [hne, Bool.false_eq_true, if_false]
        rcases hr with h | ⟨c, t, e, _, h2⟩
        · subst h; rfl
        · subst e
          split
          · rename_i r heq; injection heq with h3 _; exact absurd h3 h2
          · rfl
      | cons u more' =>
        simp only [ApkSpec.joinDots, List.append_assoc, List.cons_append] at hf ⊢
        have hstop : ('.' :: (ApkSpec.joinDots (u :: more') ++ rest)) = [] ∨
            ∃ c t, ('.' :: (ApkSpec.joinDots (u :: more') ++ rest)) = c :: t ∧ isDigit c = false :=
          .inr ⟨'.', _, rfl, by decide⟩
        obtain ⟨e1, e2⟩ := takeWhile_append_stop isDigit d _ hdig hstop
        simp only [alpNumPrefix, e1, e2]
        have hne : d.isEmpty = false := by cases d <;> simp at hd1 ⊢
        simp only [hne, Bool.false_eq_true, if_false]
        rw [ih (by simp) (fun x hx => hw x (by simp [hx])) rest hr f (by simp at hf ⊢; omega)]
        simp

theorem stripPrefix_append (p r : List Char) : stripPrefix p (p ++ r) = r := by
  unfold stripPrefix hasPrefix
  have : p.isPrefixOf (p ++ r) = true := by
    induction p with
    | nil => simp
    | cons c cs ih => simp [List.isPrefixOf, ih]
  simp [this]

theorem toBig_digits (d : List Char) (h1 : d ≠ []) (h2 : d.all isDigit = true) : ∃ v, toBig d = some v := by
  cases d with
  | nil => exact absurd rfl h1
  | cons c cs =>
    have hc : isDigit c = true := by simp at h2; exact h2.1
    have n1 : c ≠ '-' := by intro e; subst e; simp [isDigit] at hc
    have n2 : c ≠ '+' := by intro e; subst e; simp [isDigit] at hc
    rw [toBig_cons c cs n1 n2, h2]
    refine ⟨((digitsToNat (c :: cs) : Nat) : Int), ?_⟩
    simp

theorem alpComps_some : ∀ (nums : List (List Char)), NumsWf nums → ∀ i, ∃ cs, alpComps i nums = some cs := by
  intro nums
  induction nums with
  | nil => intro _ i; exact ⟨[], rfl⟩
  | cons d more ih =>
    intro hw i
    obtain ⟨h1, h2⟩ := hw d (by simp)
    obtain ⟨v, hv⟩ := toBig_digits d h1 h2
    obtain ⟨cs, hcs⟩ := ih (fun x hx => hw x (by simp [hx])) (i + 1)
    exact ⟨⟨d, v, i⟩ :: cs, by simp [alpComps, hv, hcs]⟩

theorem joinDots_ne (nums : List (List Char)) (hn : nums ≠ []) (hw : NumsWf nums) : (ApkSpec.joinDots nums).isEmpty = false := by
  cases nums with
  | nil => exact absurd rfl hn
  | cons d more =>
    have := (hw d (by simp)).1
    cases more <;> cases d <;> simp_all [ApkSpec.joinDots]

/-- the numeric part is recognised and handed over as SOME component list that depends on the digit
runs only -/
theorem parseAlp_nums (nums : List (List Char)) (hn : nums ≠ []) (hw : NumsWf nums) :
    ∃ cs, ∀ rest, NoNum rest →
      parseAlp (ApkSpec.joinDots nums ++ rest) = parseAlpRest (ApkSpec.joinDots nums ++ rest) cs rest := by
  obtain ⟨cs, hcs⟩ := alpComps_some nums hw 0
  refine ⟨cs, fun rest hr => ?_⟩
  unfold parseAlp
  simp only [alpNumPrefix_render nums hn hw rest hr _ (Nat.lt_succ_self _), joinDots_ne nums hn hw, Bool.false_eq_true, if_false]
  have hsplit : splitOn '.' (ApkSpec.joinDots nums) = nums := by
    rw [apk_joinDots_eq]
    apply splitOn_joinDots nums hn
    intro t ht c hc e
    have := List.all_eq_true.mp (hw t ht).2 c hc
    rw [e] at this; exact absurd this (by decide)
  rw [hsplit, hcs, stripPrefix_append]

/-! ## suffixes -/

/-- what the suffix expression reports for one suffix: whole match, name, digits -/
def sufMatch (s : Suf) : List Char × List Char × List Char :=
  (s.render, s.kind.name, match s.num with | some n => D n | none => [])

theorem sufMatch_eq (s : Suf) : sufMatch s = (s.render, s.kind.name, sufDigits s) := rfl

theorem sufDigits_all (s : Suf) : ∀ x ∈ sufDigits s, isDigit x = true := by
  unfold sufDigits
  cases s.num with
  | none => intro x hx; simp at hx
  | some n => exact D_digit_list n

/-- the first name of the expression's alternation that matches is the suffix's own name -/
theorem find_name (k : Kind) (X : List Char) (hX : X = [] ∨ ∃ c t, X = c :: t ∧ c ≠ 'r') :
    sufNames.find? (fun n => hasPrefix n (k.name ++ X)) = some k.name := by
  cases k
  case p =>
    rcases hX with h | ⟨c, t, e, hc⟩
    · subst h; decide
    · subst e
      have hr : ('r' == c) = false := by
        simp only [beq_eq_false_iff_ne, ne_eq]; exact fun e => hc e.symm
      simp [sufNames, List.find?, hasPrefix, Kind.name, List.isPrefixOf, hr]
  all_goals simp [sufNames, List.find?, hasPrefix, Kind.name, List.isPrefixOf]

theorem findSufs_none : ∀ (t : List Char), (∀ c ∈ t, c ≠ '_') → ∀ fuel, findSufs fuel t = [] := by
  intro t
  induction t with
  | nil => intro _ fuel; cases fuel <;> simp [findSufs]
  | cons c r ih =>
    intro h fuel
    cases fuel with
    | zero => rfl
    | succ f => rw [findSufs_cons_ne f c r (h c (by simp))]; exact ih (fun x hx => h x (by simp [hx])) f

theorem digit_ne_r {c : Char} (h : isDigit c = true) : c ≠ 'r' := by
  intro e; subst e; simp [isDigit] at h

theorem findSufs_render : ∀ (ss : List Suf) (tail : List Char), Sep tail → (∀ c ∈ tail, c ≠ '_') →
    ∀ fuel, (renderSufs ss ++ tail).length < fuel → findSufs fuel (renderSufs ss ++ tail) = ss.map sufMatch := by
  intro ss
  induction ss with
  | nil => intro tail _ hn fuel _; simpa [renderSufs] using findSufs_none tail hn fuel
  | cons s more ih =>
    intro tail ht hn fuel hf
    match fuel, hf with
    | f + 1, hf =>
      have hsep := sep_sufs more tail ht
      simp only [renderSufs, sufRender_eq, List.cons_append, List.append_assoc] at hf ⊢
      have hX : (sufDigits s ++ (renderSufs more ++ tail)) = [] ∨
          ∃ c t, (sufDigits s ++ (renderSufs more ++ tail)) = c :: t ∧ c ≠ 'r' := by
        cases hd : sufDigits s with
        | nil =>
          simp only [List.nil_append]
          rcases hsep with h | ⟨c, t, e, hc⟩
          · exact .inl h
          · refine .inr ⟨c, t, e, ?_⟩
            rcases hc with hc | hc | hc <;> subst hc <;> decide
        | cons x xs =>
          refine .inr ⟨x, _, rfl, digit_ne_r (sufDigits_all s x (by rw [hd]; simp))⟩
      simp only [findSufs, find_name s.kind _ hX, List.drop_left]
      obtain ⟨e1, e2⟩ := takeWhile_append_stop isDigit (sufDigits s) (renderSufs more ++ tail) (sufDigits_all s) hsep.noDigit
      simp only [e1, List.drop_left, List.map_cons, sufMatch_eq, sufRender_eq]
      rw [ih tail ht hn f (by simp at hf ⊢; omega)]
      rfl

def convSuf (s : Suf) : ASuf := ⟨sufWeight s.kind.name, (s.value : Int)⟩

theorem toBig_sufDigits (s : Suf) : toBig (if (sufDigits s).isEmpty then ['0'] else sufDigits s) = some (s.value : Int) := by
  unfold sufDigits Suf.value
  cases s.num with
  | none => decide
  | some n =>
    have : (D n).isEmpty = false := by
      cases h : D n with
      | nil => exact absurd h (D_ne n)
      | cons _ _ => rfl
    simp only [this, Bool.false_eq_true, if_false, Option.getD_some]
    exact toBig_D n

theorem alpSufStep_match (str : List Char) (acc : List ASuf) (s : Suf) (rest : List Char) :
    alpSufStep (some (s.render ++ rest, acc)) (sufMatch s) = some (rest, acc ++ [convSuf s]) := by
  show alpSufStep (some (s.render ++ rest, acc)) (s.render, s.kind.name, sufDigits s) = _
  simp only [alpSufStep, toBig_sufDigits, stripPrefix_append, convSuf]

theorem alpSufFold_render : ∀ (ss : List Suf) (tail : List Char) (acc : List ASuf),
    (ss.map sufMatch).foldl alpSufStep (some (renderSufs ss ++ tail, acc)) = some (tail, acc ++ ss.map convSuf) := by
  intro ss
  induction ss with
  | nil => intro tail acc; simp [renderSufs]
  | cons s more ih =>
    intro tail acc
    simp only [List.map_cons, List.foldl_cons, renderSufs, List.append_assoc, alpSufStep_match [] acc s]
    rw [ih tail (acc ++ [convSuf s])]
    simp

/-! ## hash and revision -/

theorem isHex_eq (c : Char) : ApkSpec.isHex c = isHexLower c := rfl

theorem hex_not_us (h : List Char) (hh : h.all ApkSpec.isHex = true) : ∀ c ∈ h, c ≠ '_' := by
  intro c hc e
  have := List.all_eq_true.mp hh c hc
  rw [e] at this; exact absurd this (by decide)

theorem tail_no_us (v : V) (hh : v.hash.all ApkSpec.isHex = true) : ∀ c ∈ v.tail, c ≠ '_' := by
  intro c hc
  unfold V.tail renderHash at hc
  have hrev : ∀ x ∈ renderRev v.rev, x ≠ '_' := by
    intro x hx
    cases hr : v.rev with
    | none => rw [hr] at hx; simp [renderRev] at hx
    | some n =>
      rw [hr] at hx
      simp only [renderRev, List.mem_cons] at hx
      rcases hx with hx | hx | hx
      · subst hx; decide
      · subst hx; decide
      · intro e; have := D_digit_list n x hx; rw [e] at this; exact absurd this (by decide)
  by_cases he : v.hash.isEmpty = true
  · simp only [he, if_true, List.nil_append] at hc; exact hrev c hc
  · have hc' : c ∈ ('~' :: v.hash) ++ renderRev v.rev := by simpa [he] using hc
    rcases List.mem_append.mp hc' with h | h
    · rcases List.mem_cons.mp h with h | h
      · subst h; decide
      · exact hex_not_us _ hh c h
    · exact hrev c h

theorem alpHashOf_tail (v : V) (hh : v.hash.all ApkSpec.isHex = true) : alpHashOf v.tail = renderHash v.hash := by
  unfold V.tail renderHash
  by_cases he : v.hash.isEmpty = true
  · simp only [he, if_true, List.nil_append]
    cases v.rev <;> rfl
  · simp only [he, Bool.false_eq_true, if_false, List.cons_append]
    have hstop : renderRev v.rev = [] ∨ ∃ c t, renderRev v.rev = c :: t ∧ isHexLower c = false := by
      cases v.rev with
      | none => exact .inl rfl
      | some n => exact .inr ⟨'-', _, rfl, by decide⟩
    obtain ⟨e1, _⟩ := takeWhile_append_stop isHexLower v.hash (renderRev v.rev)
      (fun x hx => by rw [← isHex_eq]; exact List.all_eq_true.mp hh x hx) hstop
    simp only [alpHashOf, e1, he, Bool.false_eq_true, if_false]

def revVal (r : Option Nat) : Int := ((r.getD 0 : Nat) : Int)

/-- everything after the number components of a rendered version is read as written -/
theorem parseAlpRest_render (v : V) (hl : ∀ c, v.letter = some c → isLower c = true) (hh : v.hash.all ApkSpec.isHex = true)
    (s : List Char) (cs : List ANum) :
    parseAlpRest s cs (renderLetter v.letter ++ (renderSufs v.sufs ++ v.tail)) =
      .ok ⟨s, false, [], cs, renderLetter v.letter, v.sufs.map convSuf, revVal v.rev⟩ := by
  have hsep := sep_sufs v.sufs v.tail (sep_tail v)
  have hlet : alpLetterOf (renderLetter v.letter ++ (renderSufs v.sufs ++ v.tail)) = renderLetter v.letter := by
    cases hL : v.letter with
    | none => simpa [renderLetter] using hsep.notLower
    | some c => simp [renderLetter, alpLetterOf, hl c hL]
  unfold parseAlpRest
  simp only [hlet, stripPrefix_append]
  rw [findSufs_render v.sufs v.tail (sep_tail v) (tail_no_us v hh) _ (Nat.lt_succ_self _)]
  have hf := alpSufFold_render v.sufs v.tail []
  unfold alpSufFold
  rw [hf]
  simp only [List.nil_append, alpHashOf_tail v hh]
  have htail : stripPrefix (renderHash v.hash) v.tail = renderRev v.rev := by
    unfold V.tail; exact stripPrefix_append _ _
  rw [htail]
  cases hr : v.rev with
  | none => simp [renderRev, revVal]
  | some n =>
    have hne : (D n).isEmpty = false := by
      cases h : D n with
      | nil => exact absurd h (D_ne n)
      | cons _ _ => rfl
    have htw : (D n).takeWhile isDigit = D n := by
      have := (takeWhile_append_stop isDigit (D n) [] (D_digit_list n) (.inl rfl)).1
      simpa using this
    simp only [renderRev, List.isEmpty_cons, Bool.false_eq_true, if_false, htw, hne, toBig_D, List.drop_length, revVal,
      Option.getD_some]

/-! ## the comparison -/

def convSlot : Option Suf → ASuf
  | none => padASuf
  | some s => convSuf s

theorem sufWeight_rank (k : Kind) : sufWeight k.name = k.rank := by cases k <;> decide

theorem slot_agree (x y : Option Suf) : cmpOn convSlot cmpASuf x y = slotCmp x y := by
  have key : ∀ z : Option Suf, (convSlot z).w = (slotKey z).1 ∧ (convSlot z).n = (((slotKey z).2 : Nat) : Int) := by
    intro z
    cases z with
    | none => exact ⟨rfl, rfl⟩
    | some s => exact ⟨sufWeight_rank s.kind, rfl⟩
  unfold cmpOn cmpASuf slotCmp
  rw [(key x).1, (key y).1, (key x).2, (key y).2, icmp_cast]
  unfold ncmp
  by_cases h1 : (slotKey x).1 < (slotKey y).1
  · have h2 : ¬ (slotKey x).1 > (slotKey y).1 := by omega
    simp [h1, h2, Ordering.then]
  · by_cases h3 : (slotKey x).1 = (slotKey y).1
    · simp [h3, Ordering.then]
    · have h2 : (slotKey x).1 > (slotKey y).1 := by omega
      simp [h1, h2, h3, Ordering.then]

theorem cmpASufs_spec (a b : List Suf) : cmpASufs (a.map convSuf) (b.map convSuf) = sufCmp a b := by
  unfold cmpASufs sufCmp
  have e : ∀ l : List Suf, l.map convSuf = (l.map some).map convSlot := by
    intro l; simp [List.map_map, Function.comp_def, convSlot]
  have hp : padASuf = convSlot none := rfl
  rw [e a, e b, hp, cmpPad_map]
  have : cmpOn convSlot cmpASuf = slotCmp := funext fun x => funext fun y => slot_agree x y
  rw [this]

/-- The documented Alpine suffix order, on every pair of well-formed versions that agree on digits,
letter, hash and revision -/
theorem alpine_suffix_spec (a b : V) (ha : a.wf = true) (hb : b.wf = true) (hs : sameBase a b = true) :
    compareStr .alpine (render a) (render b) = .ofOrd (ApkSpec.specCmp a b) := by
  have split : ∀ v : V, v.wf = true → v.nums ≠ [] ∧ NumsWf v.nums ∧ (∀ c, v.letter = some c → isLower c = true) ∧
      v.hash.all ApkSpec.isHex = true := by
    intro v hv
    simp only [V.wf, Bool.and_eq_true, Bool.not_eq_true', List.all_eq_true] at hv
    obtain ⟨⟨⟨h1, h2⟩, h3⟩, h4⟩ := hv
    refine ⟨by intro e; rw [e] at h1; simp at h1, ?_, ?_, List.all_eq_true.mpr h4⟩
    · intro d hd
      have := h2 d hd
      try simp only [Bool.and_eq_true, Bool.not_eq_true', List.all_eq_true] at this
      exact ⟨by intro e; rw [e] at this; simp at this, List.all_eq_true.mpr this.2⟩
    · intro c hc; rw [hc] at h3; exact h3
  obtain ⟨an, aw, al, ah⟩ := split a ha
  obtain ⟨_, _, bl, bh⟩ := split b hb
  simp only [sameBase, Bool.and_eq_true, decide_eq_true_eq] at hs
  obtain ⟨⟨⟨s1, s2⟩, s3⟩, s4⟩ := hs
  obtain ⟨cs, hcs⟩ := parseAlp_nums a.nums an aw
  have restA : NoNum (renderLetter a.letter ++ (renderSufs a.sufs ++ a.tail)) := by
    cases hL : a.letter with
    | none => simpa [renderLetter] using (sep_sufs a.sufs a.tail (sep_tail a)).noNum
    | some c =>
      refine .inr ⟨c, _, rfl, ?_, ?_⟩
      · have := al c hL; simp [isLower, isDigit] at this ⊢; omega
      · intro e; have := al c hL; rw [e] at this; exact absurd this (by decide)
  have restB : NoNum (renderLetter b.letter ++ (renderSufs b.sufs ++ b.tail)) := by
    cases hL : b.letter with
    | none => simpa [renderLetter] using (sep_sufs b.sufs b.tail (sep_tail b)).noNum
    | some c =>
      refine .inr ⟨c, _, rfl, ?_, ?_⟩
      · have := bl c hL; simp [isLower, isDigit] at this ⊢; omega
      · intro e; have := bl c hL; rw [e] at this; exact absurd this (by decide)
  have pa : parseAlp (render a) = .ok ⟨render a, false, [], cs, renderLetter a.letter, a.sufs.map convSuf, revVal a.rev⟩ := by
    unfold render
    rw [hcs _ restA]
    exact parseAlpRest_render a al ah _ cs
  have pb : parseAlp (render b) = .ok ⟨render b, false, [], cs, renderLetter a.letter, b.sufs.map convSuf, revVal a.rev⟩ := by
    unfold render
    rw [← s1, hcs _ restB, s2, s4]
    exact parseAlpRest_render b bl bh _ cs
  show alpineFam.compareStr (render a) (render b) = _
  rw [alpine_laws.compare_ok pa pb]
  congr 1
  simp only [cmpAlpT, Bool.false_and, Bool.false_eq_true, if_false, cmpAlpValid, cmpASufs_spec]
  rw [cmpPad_refl padANum cmpANumT_isSym cs, cmpALetters_isCmp.refl, icmp_isCmp.refl, cmpARemainder_isCmp.refl]
  simp only [Ordering.then, ApkSpec.specCmp]
  cases sufCmp a.sufs b.sufs <;> rfl

end Scalibr.Semantic
