/-
C07 — the fuel of the remaining fuel-indexed recognisers is adequate: any amount above the length of
the argument yields the same result (Alpine number prefix and suffix finder, PyPI legacy splitter
and the greedy star of the PEP 440 recogniser). The models call them with `length + 1`.
(Debian, Red Hat, Packagist: see `debToks_fuel`, `rhToks_fuel`, `cmpPkF_eq`; Maven: exhaustion is a
`panic` outcome, excluded by `C07_maven_total`.)
-/
import Scalibr.Proofs.Semantic.Debian
namespace Scalibr.Semantic

theorem length_drop_takeWhile_lt (p : Char → Bool) (c : Char) (r : List Char) (h : p c = true) :
    ((c :: r).drop ((c :: r).takeWhile p).length).length < (c :: r).length := by
  simp only [List.takeWhile, h, List.length_cons, List.drop_succ_cons, List.length_drop]
  omega

theorem alpNumPrefix_fuel : ∀ (n m : Nat) (s : List Char), s.length < n → s.length < m →
    alpNumPrefix n s = alpNumPrefix m s := by
  intro n; induction n with
  | zero => intro m s h; omega
  | succ n ih =>
    intro m s hn hm
    cases m with
    | zero => omega
    | succ m =>
      simp only [alpNumPrefix]
      split
      · rfl
      · have hle := length_dropWhile_le isDigit s
        split
        · rename_i r heq
          have : r.length < s.length := by
            have : (s.dropWhile isDigit).length = r.length + 1 := by rw [heq]; simp
            omega
          rw [ih m r (by omega) (by omega)]
        · rfl

theorem findSufs_cons_ne (n : Nat) (c : Char) (r : List Char) (h : c ≠ '_') :
    findSufs (n + 1) (c :: r) = findSufs n r := by
  simp only [findSufs]

theorem findSufs_fuel : ∀ (n m : Nat) (s : List Char), s.length < n → s.length < m →
    findSufs n s = findSufs m s := by
  intro n; induction n with
  | zero => intro m s h; omega
  | succ n ih =>
    intro m s hn hm
    cases m with
    | zero => omega
    | succ m =>
      cases s with
      | nil => simp [findSufs]
      | cons c r =>
        simp only [List.length_cons] at hn hm
        by_cases hc : c = '_'
        · subst hc
          simp only [findSufs]
          cases hf : List.find? (fun nm => hasPrefix nm r) sufNames with
          | none => exact ih m r (by omega) (by omega)
          | some nm =>
            simp only
            have h1 : ((r.drop nm.length).drop ((r.drop nm.length).takeWhile isDigit).length).length ≤ r.length := by
              simp only [List.length_drop]; omega
            rw [ih m _ (by omega) (by omega)]
        · rw [findSufs_cons_ne n c r hc, findSufs_cons_ne m c r hc]
          exact ih m r (by omega) (by omega)

theorem legacySplits_fuel : ∀ (n m : Nat) (s : List Char), s.length < n → s.length < m →
    legacySplits n s = legacySplits m s := by
  intro n; induction n with
  | zero => intro m s h; omega
  | succ n ih =>
    intro m s hn hm
    cases m with
    | zero => omega
    | succ m =>
      cases s with
      | nil => simp [legacySplits]
      | cons c r =>
        simp only [legacySplits]
        simp only [List.length_cons] at hn hm
        split
        · rename_i hd
          have := length_drop_takeWhile_lt isDigit c r hd
          simp only [List.length_cons] at this
          rw [ih m _ (by omega) (by omega)]
        · split
          · rename_i hl
            have := length_drop_takeWhile_lt isLower c r hl
            simp only [List.length_cons] at this
            rw [ih m _ (by omega) (by omega)]
          · split
            · rw [ih m r (by omega) (by omega)]
            · exact ih m r (by omega) (by omega)

theorem flatMap_congr' {α β} (l : List α) (f g : α → List β) (h : ∀ x ∈ l, f x = g x) : l.flatMap f = l.flatMap g := by
  induction l with
  | nil => rfl
  | cons x xs ih =>
    simp only [List.flatMap_cons]
    rw [h x (by simp), ih (fun y hy => h y (by simp [hy]))]

/-- the greedy star of the PEP 440 recogniser: fuel above the length of the input is enough, for
any inner recogniser (an iteration is only continued when it consumed input) -/
theorem pStar_fuel (a : PP) : ∀ (n m : Nat) (s : List Char) (c : Caps), s.length < n → s.length < m →
    pStar a n s c = pStar a m s c := by
  intro n; induction n with
  | zero => intro m s c h; omega
  | succ n ih =>
    intro m s c hn hm
    cases m with
    | zero => omega
    | succ m =>
      simp only [pStar]
      congr 1
      apply flatMap_congr'
      intro r _
      split
      · rename_i hlt
        exact ih m r.1 r.2 (by omega) (by omega)
      · rfl

end Scalibr.Semantic
