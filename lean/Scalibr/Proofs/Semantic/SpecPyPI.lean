/-
C07 — PEP 440, part 3: `parsePyPIVersion` on a normalised version text yields the version's own
fields, and the comparison agrees with PEP 440 (`Spec/Semantic/PyPI.lean`).
-/
import Scalibr.Proofs.Semantic.PepStages
namespace Scalibr.Semantic
open PepSpec

/-! ## the whole recogniser -/

def PepSpec.V.relText (v : V) : List Char := joinNums v.first v.rest

/-- the captures of the highest-priority full parse -/
def PepSpec.V.caps (v : V) : Caps :=
  v.localCaps ++ (v.devCaps ++ (v.postCaps ++ (v.preCaps ++ ((Cap.release, v.relText) :: (v.epochCaps ++ [])))))

theorem joinNums_dotted (n : Nat) (ms : List Nat) : joinNums n ms = D n ++ dotted ms := by
  induction ms generalizing n with
  | nil => simp [joinNums, dotted, D]
  | cons m ms ih => simp [joinNums, dotted, ih m, D]

theorem render_head (v : V) : ∃ d u, render v = d :: u ∧ isDigit d = true := by
  rw [render_eq]
  unfold V.epochText
  split
  · obtain ⟨d, ds, h, hd⟩ := D_cons v.first
    exact ⟨d, ds ++ dotted v.rest ++ v.t1, by simp [joinNums_dotted, h], hd⟩
  · obtain ⟨d, ds, h, hd⟩ := D_cons v.epoch
    exact ⟨d, ds ++ ['!'] ++ (joinNums v.first v.rest ++ v.t1), by simp [D] at h; simp [h], hd⟩

theorem lseg_no_bang (s : LSeg) (hw : s.wf = true) : ∀ x ∈ s.render, isLocalCh x = true := (lseg_chars s hw).2

theorem localCh_props (x : Char) (h : isLocalCh x = true) : x ≠ '!' ∧ isSepP x = false ∧ x.toNat < 128 ∧ isUpper x = false := by
  simp only [isLocalCh, isDigit, isLower, Bool.or_eq_true, Bool.and_eq_true, decide_eq_true_eq] at h
  refine ⟨?_, ?_, ?_, ?_⟩
  · intro e; subst e; simp at h
  · simp only [isSepP, Bool.or_eq_false_iff, decide_eq_false_iff_not]
    refine ⟨⟨?_, ?_⟩, ?_⟩ <;> (intro e; subst e; simp at h)
  · omega
  · simp only [isUpper, Bool.and_eq_false_iff, decide_eq_false_iff_not]; omega

/-- characters of a normalised text: digits, lower-case letters, `.`, `+`, `!` -/
def pepChar (x : Char) : Bool := isLocalCh x || x = '.' || x = '+'

theorem joinDots_chars : ∀ (ts : List (List Char)), (∀ t ∈ ts, ∀ x ∈ t, isLocalCh x = true) →
    ∀ x ∈ joinDots ts, pepChar x = true := by
  intro ts; induction ts with
  | nil => intro _ x hx; simp [joinDots] at hx
  | cons t rest ih =>
    intro h x hx
    cases rest with
    | nil => simp only [joinDots] at hx; simp [pepChar, h t (by simp) x hx]
    | cons u r =>
      simp only [joinDots, List.mem_append, List.mem_cons] at hx
      rcases hx with hx | hx | hx
      · simp [pepChar, h t (by simp) x hx]
      · subst hx; decide
      · exact ih (fun t' ht' => h t' (by simp [ht'])) x hx

theorem D_pepChar (n : Nat) : ∀ x ∈ D n, pepChar x = true := by
  intro x hx; simp [pepChar, isLocalCh, D_digits n x hx]

theorem body_chars (v : V) (hw : v.wf = true) : ∀ x ∈ joinNums v.first v.rest ++ v.t1, pepChar x = true := by
  have hdot : ∀ ms : List Nat, ∀ x ∈ dotted ms, pepChar x = true := by
    intro ms; induction ms with
    | nil => intro x hx; simp [dotted] at hx
    | cons m ms ih =>
      intro x hx
      simp only [dotted, List.mem_cons, List.mem_append] at hx
      rcases hx with hx | hx | hx
      · subst hx; decide
      · exact D_pepChar m x hx
      · exact ih x hx
  intro x hx
  rw [joinNums_dotted] at hx
  simp only [V.t1, V.t2, V.t3, V.t4, List.mem_append] at hx
  rcases hx with (hx | hx) | hx | hx | hx | hx
  · exact D_pepChar _ x hx
  · exact hdot _ x hx
  · unfold V.preText at hx
    cases hp : v.pre with
    | none => rw [hp] at hx; simp at hx
    | some pn =>
      obtain ⟨ph, n⟩ := pn
      rw [hp] at hx
      simp only [List.mem_append] at hx
      rcases hx with hx | hx
      · cases ph with
        | a => simp [Phase.text] at hx; subst hx; decide
        | b => simp [Phase.text] at hx; subst hx; decide
        | rc => simp [Phase.text] at hx; rcases hx with hx | hx <;> subst hx <;> decide
      · exact D_pepChar n x hx
  · unfold V.postText at hx
    cases hp : v.post with
    | none => rw [hp] at hx; simp at hx
    | some n =>
      rw [hp] at hx
      simp only [List.mem_append, List.mem_cons, List.not_mem_nil, or_false] at hx
      rcases hx with (hx | hx | hx | hx | hx) | hx
      · subst hx; decide
      · subst hx; decide
      · subst hx; decide
      · subst hx; decide
      · subst hx; decide
      · exact D_pepChar n x hx
  · unfold V.devText at hx
    cases hp : v.dev with
    | none => rw [hp] at hx; simp at hx
    | some n =>
      rw [hp] at hx
      simp only [List.mem_append, List.mem_cons, List.not_mem_nil, or_false] at hx
      rcases hx with (hx | hx | hx | hx) | hx
      · subst hx; decide
      · subst hx; decide
      · subst hx; decide
      · subst hx; decide
      · exact D_pepChar n x hx
  · unfold V.localText at hx
    split at hx
    · simp at hx
    · simp only [List.mem_cons] at hx
      rcases hx with hx | hx
      · subst hx; decide
      · apply joinDots_chars _ _ x hx
        intro t ht
        simp only [List.mem_map] at ht
        obtain ⟨s, hs, e⟩ := ht
        subst e
        exact (lseg_chars s (List.all_eq_true.mp hw s hs)).2

theorem pepChar_props (x : Char) (h : pepChar x = true) : x ≠ '!' ∧ x.toNat < 128 ∧ isUpper x = false := by
  simp only [pepChar, Bool.or_eq_true, decide_eq_true_eq] at h
  rcases h with (h | h) | h
  · exact ⟨(localCh_props x h).1, (localCh_props x h).2.2.1, (localCh_props x h).2.2.2⟩
  · subst h; exact ⟨by decide, by decide, by decide⟩
  · subst h; exact ⟨by decide, by decide, by decide⟩

theorem length_dotted (ms : List Nat) : ms.length ≤ (dotted ms).length := by
  induction ms with
  | nil => simp [dotted]
  | cons m ms ih => simp only [dotted, List.length_cons, List.length_append]; omega

theorem length_joinDots : ∀ (ts : List (List Char)), (∀ t ∈ ts, t ≠ []) → ts.length ≤ (joinDots ts).length := by
  intro ts; induction ts with
  | nil => intro _; simp [joinDots]
  | cons t rest ih =>
    intro h
    have ht : 0 < t.length := by
      cases ht : t with
      | nil => exact absurd ht (h t (by simp))
      | cons _ _ => simp
    cases rest with
    | nil => simp only [joinDots, List.length_cons, List.length_nil]; omega
    | cons u r =>
      have := ih (fun t' ht' => h t' (by simp [ht']))
      simp only [joinDots, List.length_cons, List.length_append] at this ⊢
      omega

/-- the highest-priority parse of the whole expression on a normalised text -/
theorem pepP_render (v : V) (hw : v.wf = true) (fuel : Nat) (h1 : v.rest.length ≤ fuel) (h2 : v.loc.length ≤ fuel) :
    Hd (pepP fuel) (render v) [] ([], v.caps) := by
  obtain ⟨d, u, hr, hd⟩ := render_head v
  rw [pepP_eq]
  -- leading white space and the optional `v`
  have s1 : Hd (pRun isWs 0 none) (render v) [] (render v, []) := by
    apply Hd.of_eq
    have := pRun_start isWs none (render v) [] (by
      rw [hr]; exact Or.inr ⟨d, u, rfl, by
        simp only [isDigit, Bool.and_eq_true, decide_eq_true_eq] at hd
        simp only [isWs, Bool.or_eq_false_iff, decide_eq_false_iff_not]
        refine ⟨⟨⟨⟨?_, ?_⟩, ?_⟩, ?_⟩, ?_⟩
        · intro e; subst e; simp at hd
        · intro e; subst e; simp at hd
        · intro e; subst e; simp at hd
        · intro e; subst e; simp at hd
        · omega⟩)
    simpa [capAdd] using this
  have s2 : Hd (pOpt (pLit ['v'])) (render v) [] (render v, []) := by
    apply Hd.optNone
    rw [hr]
    exact pLit_miss 'v' d u [] (fun e => by subst e; simp [isDigit] at hd)
  have hbang : ∀ x ∈ joinNums v.first v.rest ++ v.t1, x ≠ '!' := fun x hx => (pepChar_props x (body_chars v hw x hx)).1
  have s3 : Hd gEpoch (render v) [] (joinNums v.first v.rest ++ v.t1, v.epochCaps ++ []) := by
    rw [render_eq]; exact stage_epoch v _ hbang []
  have s4 := stage_release v fuel h1 (v.epochCaps ++ [])
  have s5 := stage_pre v ((Cap.release, joinNums v.first v.rest) :: (v.epochCaps ++ []))
  have s6 := stage_post v (v.preCaps ++ ((Cap.release, joinNums v.first v.rest) :: (v.epochCaps ++ [])))
  have s7 := stage_dev v (v.postCaps ++ (v.preCaps ++ ((Cap.release, joinNums v.first v.rest) :: (v.epochCaps ++ []))))
  have s8 := stage_local v hw fuel h2 (v.devCaps ++ (v.postCaps ++ (v.preCaps ++ ((Cap.release, joinNums v.first v.rest) :: (v.epochCaps ++ [])))))
  have s9 : Hd (pRun isWs 0 none) [] v.caps ([], v.caps) := by
    apply Hd.of_eq
    have := pRun_start isWs none [] v.caps (Or.inl rfl)
    simpa [capAdd] using this
  exact Hd.seq s1 (Hd.seq s2 (Hd.seq s3 (Hd.seq s4 (Hd.seq s5 (Hd.seq s6 (Hd.seq s7 (Hd.seq s8 s9)))))))

theorem render_length (v : V) (hw : v.wf = true) : v.rest.length ≤ (render v).length ∧ v.loc.length ≤ (render v).length := by
  rw [render_eq]
  simp only [List.length_append, joinNums_dotted, V.t1, V.t2, V.t3, V.t4]
  have h1 := length_dotted v.rest
  constructor
  · omega
  · unfold V.localText
    split
    · rename_i h; have : v.loc = [] := by cases hl : v.loc <;> simp_all
      simp [this]
    · have := length_joinDots (v.loc.map LSeg.render) (by
        intro t ht; simp only [List.mem_map] at ht; obtain ⟨s, hs, e⟩ := ht; subst e
        exact (lseg_chars s (List.all_eq_true.mp hw s hs)).1)
      simp only [List.length_map] at this
      simp only [List.length_cons]; omega

theorem matchPep_render (v : V) (hw : v.wf = true) : matchPep (render v) = some v.caps := by
  obtain ⟨l1, l2⟩ := render_length v hw
  obtain ⟨t, ht⟩ := pepP_render v hw ((render v).length + 1) (by omega) (by omega)
  simp [matchPep, ht]

theorem lowerStr_render (v : V) (hw : v.wf = true) : lowerStr (render v) = render v := by
  have hall : ∀ x ∈ render v, x.toNat < 128 ∧ isUpper x = false := by
    intro x hx
    rw [render_eq] at hx
    simp only [List.mem_append] at hx
    rcases hx with hx | hx
    · unfold V.epochText at hx
      split at hx
      · simp at hx
      · simp only [List.mem_append, List.mem_singleton] at hx
        rcases hx with hx | hx
        · have := pepChar_props x (D_pepChar v.epoch x hx); exact ⟨this.2.1, this.2.2⟩
        · subst hx; exact ⟨by decide, by decide⟩
    · have := pepChar_props x (body_chars v hw x (by simpa [List.mem_append] using hx)); exact ⟨this.2.1, this.2.2⟩
  generalize render v = l at hall
  induction l with
  | nil => rfl
  | cons c cs ih =>
    have hc := hall c (by simp)
    simp only [lowerStr, List.map] at ih ⊢
    rw [ih (fun x hx => hall x (by simp [hx]))]
    have : goToLower c = c := by
      rw [goToLower_ascii c hc.1]; simp [lowerAscii, hc.2]
    rw [this]

/-! ## the fields read off the captures -/

def phaseLN (p : Option (Phase × Nat)) : LN :=
  match p with
  | some (ph, n) => ⟨ph.text, some (n : Int)⟩
  | none => ⟨[], none⟩

def wordLN (w : List Char) (p : Option Nat) : LN :=
  match p with
  | some n => ⟨w, some (n : Int)⟩
  | none => ⟨[], none⟩

def PepSpec.V.locTexts (v : V) : List (List Char) := if v.loc.isEmpty then [[]] else v.loc.map LSeg.render

/-- the parsed form of a normalised version -/
def PepSpec.V.parsed (v : V) : PyV :=
  ⟨(v.epoch : Int), castNums v.release, phaseLN v.pre, wordLN ['p','o','s','t'] v.post, wordLN ['d','e','v'] v.dev, v.locTexts, []⟩

theorem pyInts_D : ∀ ns : List Nat, pyInts (ns.map D) = some (castNums ns) := by
  intro ns; induction ns with
  | nil => rfl
  | cons n rest ih => simp only [List.map, pyInts, toBig_D, ih, castNums]

theorem splitOnP_no_sep (p : Char → Bool) : ∀ (t : List Char), (∀ x ∈ t, p x = false) → splitOnP p t = [t] := by
  intro t; induction t with
  | nil => intro _; rfl
  | cons c cs ih =>
    intro h
    simp only [splitOnP, h c (by simp), Bool.false_eq_true, if_false, ih (fun d hd => h d (by simp [hd]))]

theorem splitOnP_append_sep (p : Char → Bool) (sep : Char) (hs : p sep = true) : ∀ (t rest : List Char), (∀ x ∈ t, p x = false) →
    splitOnP p (t ++ sep :: rest) = t :: splitOnP p rest := by
  intro t; induction t with
  | nil => intro rest _; simp [splitOnP, hs]
  | cons c cs ih =>
    intro rest h
    simp only [List.cons_append, splitOnP, h c (by simp), Bool.false_eq_true, if_false, ih rest (fun d hd => h d (by simp [hd]))]

theorem splitOnP_joinDots : ∀ (ts : List (List Char)), ts ≠ [] → (∀ t ∈ ts, ∀ x ∈ t, isSepP x = false) →
    splitOnP isSepP (joinDots ts) = ts := by
  intro ts; induction ts with
  | nil => intro h; exact absurd rfl h
  | cons t rest ih =>
    intro _ h
    cases rest with
    | nil => simp only [joinDots]; exact splitOnP_no_sep isSepP t (h t (by simp))
    | cons u r =>
      simp only [joinDots]
      rw [splitOnP_append_sep isSepP '.' (by decide) t _ (h t (by simp)), ih (by simp) (fun x hx => h x (by simp [hx]))]

theorem lowerStr_local (t : List Char) (h : ∀ x ∈ t, isLocalCh x = true) : lowerStr t = t := by
  induction t with
  | nil => rfl
  | cons c cs ih =>
    have hc := localCh_props c (h c (by simp))
    simp only [lowerStr, List.map] at ih ⊢
    rw [ih (fun x hx => h x (by simp [hx])), goToLower_ascii c hc.2.2.1]
    simp [lowerAscii, hc.2.2.2]

theorem letterVer_phase (p : Option (Phase × Nat)) :
    letterVer (match p with
      | some (ph, _) => ph.text
      | none => []) (match p with
      | some (_, n) => D n
      | none => []) = some (phaseLN p) := by
  cases p with
  | none => simp [letterVer, phaseLN]
  | some pn =>
    obtain ⟨ph, n⟩ := pn
    cases ph <;> simp [letterVer, phaseLN, Phase.text, isEmpty_D, toBig_D, lowerStr, goToLower, isUpper]

theorem letterVer_word (w : List Char) (hw : w = ['p','o','s','t'] ∨ w = ['d','e','v']) (p : Option Nat) :
    letterVer (match p with
      | some _ => w
      | none => []) (match p with
      | some n => D n
      | none => []) = some (wordLN w p) := by
  cases p with
  | none => simp [letterVer, wordLN]
  | some n =>
    rcases hw with h | h <;> subst h <;> simp [letterVer, wordLN, isEmpty_D, toBig_D, lowerStr, goToLower, isUpper]

/-- `capOf` on the captures of a normalised version -/
theorem capOf_caps (v : V) :
    capOf v.caps .epoch = (if v.epoch = 0 then [] else D v.epoch) ∧
    capOf v.caps .release = v.relText ∧
    capOf v.caps .preL = (match v.pre with
      | some (ph, _) => ph.text
      | none => []) ∧
    capOf v.caps .preN = (match v.pre with
      | some (_, n) => D n
      | none => []) ∧
    capOf v.caps .postN1 = [] ∧
    capOf v.caps .postL = (match v.post with
      | some _ => ['p','o','s','t']
      | none => []) ∧
    capOf v.caps .postN2 = (match v.post with
      | some n => D n
      | none => []) ∧
    capOf v.caps .devL = (match v.dev with
      | some _ => ['d','e','v']
      | none => []) ∧
    capOf v.caps .devN = (match v.dev with
      | some n => D n
      | none => []) ∧
    capOf v.caps .localV = (if v.loc.isEmpty then [] else joinDots (v.loc.map LSeg.render)) := by
  unfold V.caps V.localCaps V.devCaps V.postCaps V.preCaps V.epochCaps
  cases v.pre <;> cases v.post <;> cases v.dev <;> cases v.loc.isEmpty <;> by_cases he : v.epoch = 0 <;>
    simp [capOf, he, List.find?]

theorem parsePy_render (v : V) (hw : v.wf = true) : parsePy (render v) = .ok v.parsed := by
  unfold parsePy
  simp only [lowerStr_render v hw, matchPep_render v hw]
  obtain ⟨c1, c2, c3, c4, c5, c6, c7, c8, c9, c10⟩ := capOf_caps v
  simp only [c1, c2, c3, c4, c5, c6, c7, c8, c9, c10]
  have hep : (if (if v.epoch = 0 then [] else D v.epoch).isEmpty = true then some (0 : Int) else toBig (if v.epoch = 0 then [] else D v.epoch)) = some (v.epoch : Int) := by
    by_cases he : v.epoch = 0
    · simp [he]
    · simp [he, isEmpty_D, toBig_D]
  have hrel : pyInts (splitOn '.' v.relText) = some (castNums v.release) := by
    unfold V.relText V.release
    rw [joinNums_dotted, splitOn_dotted, pyInts_D]
  have hloc : List.map lowerStr (splitOnP isSepP (if v.loc.isEmpty = true then [] else joinDots (v.loc.map LSeg.render))) = v.locTexts := by
    unfold V.locTexts
    cases hl : v.loc.isEmpty with
    | true => simp [splitOnP, lowerStr]
    | false =>
      simp only [Bool.false_eq_true, if_false]
      have hne : v.loc.map LSeg.render ≠ [] := by
        intro e; cases hv : v.loc <;> simp_all
      have hch : ∀ t ∈ v.loc.map LSeg.render, ∀ x ∈ t, isLocalCh x = true := by
        intro t ht
        simp only [List.mem_map] at ht
        obtain ⟨s, hs, e⟩ := ht
        subst e
        exact (lseg_chars s (List.all_eq_true.mp hw s hs)).2
      rw [splitOnP_joinDots _ hne (fun t ht x hx => (localCh_props x (hch t ht x hx)).2.1)]
      rw [List.map_map]
      apply List.map_congr_left
      intro s hs
      exact lowerStr_local _ (hch s.render (List.mem_map.mpr ⟨s, hs, rfl⟩))
  simp only [hep, hrel, letterVer_phase, List.isEmpty_nil, if_true, letterVer_word _ (Or.inl rfl), letterVer_word _ (Or.inr rfl), hloc]
  rfl

/-! ## the comparison -/

theorem parsed_wf (v : V) : v.parsed.wf := by
  intro h
  simp only [V.parsed, phaseLN] at h ⊢
  cases hp : v.pre with
  | none => rw [hp] at h; simp at h
  | some pn => obtain ⟨ph, n⟩ := pn; cases ph <;> simp [Phase.text]

theorem preTrick_parsed (v : V) :
    preTrick v.parsed = (match v.pre, v.post, v.dev with
      | none, none, some _ => true
      | _, _, _ => false) := by
  simp only [preTrick, V.parsed, phaseLN, wordLN]
  cases v.pre <;> cases v.post <;> cases v.dev <;> simp

/-- code of the first letter of a phase: `a` < `b` < `r` as the ranks 0 < 1 < 2 -/
def phaseCode : Phase → Nat
  | .a => 97
  | .b => 98
  | .rc => 114

theorem preKey_parsed (v : V) :
    preKey v.parsed = (match v.pre, v.post, v.dev with
      | none, none, some _ => (0, 0, 0)
      | some (ph, n), _, _ => (1, phaseCode ph, (n : Int))
      | none, _, _ => (2, 0, 0)) := by
  unfold preKey
  rw [preTrick_parsed]
  simp only [V.parsed, phaseLN]
  cases hp : v.pre with
  | none => cases v.post <;> cases v.dev <;> simp
  | some pn => obtain ⟨ph, n⟩ := pn; cases ph <;> simp [Phase.text, phaseCode]

theorem phase_codes (p q : Phase) : ncmp (phaseCode p) (phaseCode q) = ncmp p.rank q.rank := by
  cases p <;> cases q <;> decide

theorem stage_agree (a b : V) : cmpPyPreT a.parsed b.parsed = stageCmp a.stage b.stage := by
  unfold cmpPyPreT cmpOn
  rw [preKey_parsed, preKey_parsed]
  unfold V.stage stageCmp
  cases ha : a.pre with
  | none =>
    cases hb : b.pre with
    | none => cases a.post <;> cases a.dev <;> cases b.post <;> cases b.dev <;> simp [tripleCmp_mk, ncmp, icmp, Ordering.then]
    | some qn => obtain ⟨q, m⟩ := qn; cases a.post <;> cases a.dev <;> simp [tripleCmp_mk, ncmp, Ordering.then]
  | some pn =>
    obtain ⟨p, n⟩ := pn
    cases hb : b.pre with
    | none => cases b.post <;> cases b.dev <;> simp [tripleCmp_mk, ncmp, Ordering.then]
    | some qn =>
      obtain ⟨q, m⟩ := qn
      simp only [tripleCmp_mk, phase_codes, icmp_cast, ncmp_self]

theorem post_agree (a b : V) : cmpPyPost a.parsed b.parsed = postCmp a.post b.post := by
  simp only [cmpPyPost, V.parsed, wordLN]
  cases a.post <;> cases b.post <;> simp [postCmp, icmp_cast]

theorem dev_agree (a b : V) : cmpPyDev a.parsed b.parsed = devCmp a.dev b.dev := by
  simp only [cmpPyDev, V.parsed, wordLN]
  cases a.dev <;> cases b.dev <;> simp [devCmp, icmp_cast]

theorem toBig_nil' : toBig [] = none := by decide

theorem toBig_lseg (s : LSeg) (hw : s.wf = true) :
    toBig s.render = (match s with
      | .num n => some (n : Int)
      | .str _ => none) := by
  cases s with
  | num n => exact toBig_D n
  | str t =>
    simp only [LSeg.wf, Bool.and_eq_true, Bool.not_eq_true', List.any_eq_true] at hw
    obtain ⟨⟨hne, hall⟩, y, hy, hyl⟩ := hw
    simp only [LSeg.render]
    have hnd : t.all isDigit = false := by
      cases h : t.all isDigit with
      | false => rfl
      | true =>
        have := List.all_eq_true.mp h y hy
        rw [lower_not_digit y hyl] at this; exact absurd this (by simp)
    cases t with
    | nil => simp at hne
    | cons c cs =>
      have hc : isLocalChar c = true := by simp at hall; exact hall.1
      have hp := localCh_props c (by simpa [isLocalCh, isLocalChar] using hc)
      have h1 : c ≠ '-' := by intro e; subst e; simp [isSepP] at hp
      have h2 : c ≠ '+' := by
        intro e; subst e
        simp [isLocalChar, isDigit, isLower] at hc
      rw [toBig_cons c cs h1 h2, hnd]
      simp

theorem localElem_render (s t : LSeg) (hs : s.wf = true) (ht : t.wf = true) : localElem s.render t.render = s.cmp t := by
  unfold localElem
  rw [toBig_lseg s hs, toBig_lseg t ht]
  cases s <;> cases t <;> simp [LSeg.cmp, icmp_cast, LSeg.render]

theorem cmpLex_lsegs : ∀ (p q : List LSeg), (∀ s ∈ p, s.wf = true) → (∀ s ∈ q, s.wf = true) →
    cmpLex localElem (p.map LSeg.render) (q.map LSeg.render) = cmpLex LSeg.cmp p q := by
  intro p; induction p with
  | nil => intro q _ _; cases q <;> rfl
  | cons s rest ih =>
    intro q hp hq
    cases q with
    | nil => rfl
    | cons t rest' =>
      simp only [List.map, cmpLex]
      rw [localElem_render s t (hp s (by simp)) (hq t (by simp)), ih rest' (fun k hk => hp k (by simp [hk])) (fun k hk => hq k (by simp [hk]))]

theorem localElem_nil_lt (s : LSeg) (hs : s.wf = true) : localElem [] s.render = .lt ∧ localElem s.render [] = .gt := by
  unfold localElem
  rw [toBig_lseg s hs, toBig_nil']
  cases s with
  | num n => simp
  | str t =>
    simp only [LSeg.wf, Bool.and_eq_true, Bool.not_eq_true'] at hs
    simp only [LSeg.render]
    cases t with
    | nil => simp at hs
    | cons c cs => simp [strCmp, cmpLex]

theorem local_agree (a b : V) (ha : a.wf = true) (hb : b.wf = true) :
    cmpPyLocal a.locTexts b.locTexts = localCmp a.loc b.loc := by
  have wa : ∀ s ∈ a.loc, s.wf = true := fun s hs => List.all_eq_true.mp ha s hs
  have wb : ∀ s ∈ b.loc, s.wf = true := fun s hs => List.all_eq_true.mp hb s hs
  unfold cmpPyLocal localCmp V.locTexts
  cases hla : a.loc with
  | nil =>
    cases hlb : b.loc with
    | nil => simp [cmpLex, localElem, toBig_nil', strCmp]
    | cons t rest =>
      rw [hlb] at wb
      simp only [List.isEmpty_nil, if_true, List.isEmpty_cons, Bool.false_eq_true, if_false, List.map, cmpLex,
        (localElem_nil_lt t (wb t (by simp))).1]
      rfl
  | cons s rest =>
    rw [hla] at wa
    cases hlb : b.loc with
    | nil =>
      simp only [List.isEmpty_nil, if_true, List.isEmpty_cons, Bool.false_eq_true, if_false, List.map, cmpLex,
        (localElem_nil_lt s (wa s (by simp))).2]
      rfl
    | cons t rest' =>
      rw [hlb] at wb
      simp only [List.isEmpty_cons, Bool.false_eq_true, if_false]
      exact cmpLex_lsegs _ _ wa wb

/-- PEP 440 on every normalised version -/
theorem pypi_spec (a b : V) (ha : a.wf = true) (hb : b.wf = true) :
    compareStr .pypi (render a) (render b) = .ofOrd (PepSpec.specCmp a b) := by
  show pypiFam.compareStr (render a) (render b) = _
  rw [pypi_laws.compare_ok (parsePy_render a ha) (parsePy_render b hb)]
  congr 1
  unfold cmpPyT PepSpec.specCmp
  rw [stage_agree, post_agree, dev_agree]
  have hleg : cmpPyLegacy a.parsed b.parsed = .eq := by simp [cmpPyLegacy, V.parsed]
  have hloc : cmpPyLocal a.parsed.loc b.parsed.loc = localCmp a.loc b.loc := local_agree a b ha hb
  have hrel : compsCmp a.parsed.release b.parsed.release = cmpPad ncmp 0 a.release b.release := compsCmp_cast _ _
  have hep : icmp a.parsed.epoch b.parsed.epoch = ncmp a.epoch b.epoch := icmp_cast _ _
  rw [hleg, hloc, hrel, hep]
  cases ncmp a.epoch b.epoch <;> cases cmpPad ncmp 0 a.release b.release <;> cases stageCmp a.stage b.stage <;> rfl

end Scalibr.Semantic
