/-
C07 — the RubyGems comparison agrees with the `Gem::Version` documentation
(`Spec/Semantic/RubyGems.lean`) on every canonically rendered version.
-/
import Scalibr.Spec.Semantic.RubyGems
import Scalibr.Proofs.Semantic.SpecDebian
namespace Scalibr.Semantic
open RubySpec

/-! ## segment texts -/

theorem letter_props (c : Char) (h : isLetter c = true) : isDigit c = false ∧ c ≠ '.' ∧ c ≠ '-' ∧ c ≠ '+' ∧ c ≠ '0' := by
  have hr := letter_range c h
  refine ⟨letter_not_digit c h, ?_, ?_, ?_, ?_⟩ <;> (intro e; subst e; simp [isLetter, isLower, isUpper] at h)

/-- the text of a well-formed segment: non-empty, all digits or all letters -/
theorem render_kind (s : Seg) (hw : s.wf = true) :
    s.render ≠ [] ∧ (∀ c ∈ s.render, isDigit c = s.isNum ∧ c ≠ '.') := by
  cases s with
  | num n =>
    refine ⟨D_ne n, fun c hc => ?_⟩
    have hd := List.all_eq_true.mp (D_all n) c hc
    exact ⟨by simp [Seg.isNum, hd], fun e => by subst e; simp [isDigit] at hd⟩
  | str t =>
    simp only [Seg.wf, Bool.and_eq_true, Bool.not_eq_true'] at hw
    refine ⟨by intro e; simp only [Seg.render] at e; rw [e] at hw; simp at hw, fun c hc => ?_⟩
    have hl := List.all_eq_true.mp hw.2 c hc
    exact ⟨by simp [Seg.isNum, (letter_props c hl).1], (letter_props c hl).2.1⟩

theorem toBig_render (s : Seg) (hw : s.wf = true) :
    toBig s.render = match s with
      | .num n => some (n : Int)
      | .str _ => none := by
  cases s with
  | num n => exact toBig_D n
  | str t =>
    simp only [Seg.wf, Bool.and_eq_true, Bool.not_eq_true'] at hw
    simp only [Seg.render]
    cases t with
    | nil => simp at hw
    | cons c cs =>
      have hl : isLetter c = true := by have := hw.2; simp at this; exact this.1
      have hp := letter_props c hl
      rw [toBig_cons c cs hp.2.2.1 hp.2.2.2.1]
      simp [hp.1]

theorem toBig_isSome_render (s : Seg) (hw : s.wf = true) : (toBig s.render).isSome = s.isNum := by
  rw [toBig_render s hw]; cases s <;> rfl

/-! ## `canonicalizeRubyGemVersion` leaves the canonical text alone -/

/-- a run of characters of one kind, none of them a dot, entered with `check = false` or with the
same kind: it is appended unchanged -/
theorem fold_run (k : Bool) : ∀ (t : List Char) (st : RubyState), (∀ c ∈ t, isDigit c = k ∧ c ≠ '.') →
    (st.check = false ∨ st.prevDigit = k) → t ≠ [] →
    t.foldl rubyStep st = ⟨st.res ++ t, true, k⟩ := by
  intro t; induction t with
  | nil => intro _ _ _ h; exact absurd rfl h
  | cons c cs ih =>
    intro st hk hst _
    have hc := hk c (by simp)
    have hstep : rubyStep st c = ⟨st.res ++ [c], true, k⟩ := by
      simp only [rubyStep, hc.2, if_false, hc.1]
      rcases hst with h | h
      · simp [h]
      · simp [h]
    simp only [List.foldl, hstep]
    cases cs with
    | nil => simp
    | cons d ds =>
      rw [ih ⟨st.res ++ [c], true, k⟩ (fun x hx => hk x (by simp [hx])) (Or.inr rfl) (by simp)]
      simp

theorem fold_join : ∀ (segs : List Seg) (st : RubyState), (∀ s ∈ segs, s.wf = true) → st.check = false → segs ≠ [] →
    ∃ k, (joinDots (segs.map Seg.render)).foldl rubyStep st = ⟨st.res ++ joinDots (segs.map Seg.render), true, k⟩ := by
  intro segs; induction segs with
  | nil => intro _ _ _ h; exact absurd rfl h
  | cons s rest ih =>
    intro st hw hst _
    obtain ⟨hne, hk⟩ := render_kind s (hw s (by simp))
    cases rest with
    | nil =>
      refine ⟨s.isNum, ?_⟩
      simp only [List.map, joinDots]
      exact fold_run s.isNum s.render st hk (Or.inl hst) hne
    | cons u r =>
      simp only [List.map, joinDots, List.foldl_append, List.foldl_cons]
      rw [fold_run s.isNum s.render st hk (Or.inl hst) hne]
      have hdot : rubyStep ⟨st.res ++ s.render, true, s.isNum⟩ '.' = ⟨st.res ++ s.render ++ ['.'], false, s.isNum⟩ := by
        simp [rubyStep]
      rw [hdot]
      obtain ⟨k, hk'⟩ := ih ⟨st.res ++ s.render ++ ['.'], false, s.isNum⟩ (fun x hx => hw x (by simp [hx])) rfl (by simp)
      refine ⟨k, ?_⟩
      simp only [List.map] at hk'
      rw [hk']
      simp

theorem canonRuby_render (v : V) (hw : ∀ s ∈ v.segs, s.wf = true) (hne : v.segs ≠ []) :
    canonRuby (render v) = render v := by
  unfold canonRuby render
  obtain ⟨k, hk⟩ := fold_join v.segs ⟨[], false, true⟩ hw rfl hne
  rw [hk]; simp

theorem splitOn_joinDots : ∀ (ts : List (List Char)), ts ≠ [] → (∀ t ∈ ts, ∀ c ∈ t, c ≠ '.') →
    splitOn '.' (joinDots ts) = ts := by
  intro ts; induction ts with
  | nil => intro h; exact absurd rfl h
  | cons t rest ih =>
    intro _ h
    cases rest with
    | nil => simp only [joinDots]; exact splitOn_no_sep '.' t (h t (by simp))
    | cons u r =>
      simp only [joinDots]
      rw [splitOn_append_sep '.' t _ (h t (by simp)), ih (by simp) (fun x hx => h x (by simp [hx]))]

/-! ## grouping and dropping zeros commute with rendering -/

theorem takeWhile_map_render : ∀ (segs : List Seg), (∀ s ∈ segs, s.wf = true) →
    (segs.map Seg.render).takeWhile (fun x => (toBig x).isSome) = (segs.takeWhile Seg.isNum).map Seg.render ∧
    (segs.map Seg.render).dropWhile (fun x => (toBig x).isSome) = (segs.dropWhile Seg.isNum).map Seg.render := by
  intro segs; induction segs with
  | nil => intro _; simp
  | cons s rest ih =>
    intro hw
    have h1 := toBig_isSome_render s (hw s (by simp))
    have := ih (fun x hx => hw x (by simp [hx]))
    cases hs : s.isNum with
    | true => simp [List.takeWhile, List.dropWhile, h1, hs, this.1, this.2]
    | false => simp [List.takeWhile, List.dropWhile, h1, hs]

theorem D_eq_zero (n : Nat) (h : D n = ['0']) : n = 0 := by
  have := D_val n
  rw [h] at this
  simpa [digitsToNat, digitVal] using this.symm

theorem render_zero_iff (s : Seg) (hw : s.wf = true) : (s.render = ['0']) ↔ s = .num 0 := by
  constructor
  · intro h
    cases s with
    | num n => rw [D_eq_zero n h]
    | str t =>
      simp only [Seg.wf, Bool.and_eq_true] at hw
      simp only [Seg.render] at h
      rw [h] at hw
      simp [isLetter, isLower, isUpper] at hw
  · intro h; subst h; rfl

theorem dropWhile_map_zero : ∀ (l : List Seg), (∀ s ∈ l, s.wf = true) →
    (l.map Seg.render).dropWhile (· = ['0']) = (l.dropWhile (· = .num 0)).map Seg.render := by
  intro l; induction l with
  | nil => intro _; rfl
  | cons s rest ih =>
    intro hw
    have hi := render_zero_iff s (hw s (by simp))
    by_cases hz : s = .num 0
    · have : s.render = ['0'] := hi.mpr hz
      simp only [List.map, List.dropWhile, this, hz, decide_true]
      exact ih (fun x hx => hw x (by simp [hx]))
    · have : ¬ s.render = ['0'] := fun e => hz (hi.mp e)
      simp [List.dropWhile, this, hz]

theorem removeZeros_map (l : List Seg) (hw : ∀ s ∈ l, s.wf = true) :
    removeZeros (l.map Seg.render) = (dropTrailingZeros l).map Seg.render := by
  unfold removeZeros dropTrailingZeros
  rw [← List.map_reverse, dropWhile_map_zero l.reverse (fun s hs => hw s (by simpa using hs)), List.map_reverse]

theorem mem_takeWhile {α} (p : α → Bool) (l : List α) (x : α) (h : x ∈ l.takeWhile p) : x ∈ l :=
  (List.takeWhile_sublist p).subset h

theorem mem_dropWhile {α} (p : α → Bool) (l : List α) (x : α) (h : x ∈ l.dropWhile p) : x ∈ l :=
  (List.dropWhile_sublist p).subset h

theorem mem_dropTrailingZeros (l : List Seg) (x : Seg) (h : x ∈ dropTrailingZeros l) : x ∈ l := by
  unfold dropTrailingZeros at h
  have := mem_dropWhile _ _ x (by simpa using h)
  simpa using this

/-- the implementation's segments of the canonical text are the rendered canonical segments -/
theorem rubySegs_render (v : V) (hw : ∀ s ∈ v.segs, s.wf = true) (hne : v.segs ≠ []) :
    rubySegs (render v) = (canonicalSegments v).map Seg.render := by
  unfold rubySegs
  simp only [canonRuby_render v hw hne]
  have hsplit : splitOn '.' (render v) = v.segs.map Seg.render := by
    unfold render
    apply splitOn_joinDots
    · intro e; apply hne; simpa using e
    · intro t ht c hc
      simp only [List.mem_map] at ht
      obtain ⟨s, hs, e⟩ := ht
      subst e
      exact ((render_kind s (hw s hs)).2 c hc).2
  obtain ⟨h1, h2⟩ := takeWhile_map_render v.segs hw
  rw [hsplit, h1, h2,
    removeZeros_map _ (fun s hs => hw s (mem_takeWhile _ _ s hs)),
    removeZeros_map _ (fun s hs => hw s (mem_dropWhile _ _ s hs))]
  simp [canonicalSegments]

theorem rubyElem_render (s t : Seg) (hs : s.wf = true) (ht : t.wf = true) :
    rubyElem s.render t.render = s.cmp t := by
  unfold rubyElem
  rw [toBig_render s hs, toBig_render t ht]
  cases s <;> cases t <;> simp [Seg.cmp, icmp_cast, Seg.render]

theorem canonical_wf (v : V) (hw : ∀ s ∈ v.segs, s.wf = true) : ∀ s ∈ canonicalSegments v, s.wf = true := by
  intro s hs
  simp only [canonicalSegments, List.mem_append] at hs
  rcases hs with hs | hs
  · exact hw s (mem_takeWhile _ _ s (mem_dropTrailingZeros _ s hs))
  · exact hw s (mem_dropWhile _ _ s (mem_dropTrailingZeros _ s hs))

/-- `Gem::Version#<=>` on every canonically rendered version -/
theorem rubygems_spec (a b : V) (ha : a.wf = true) (hb : b.wf = true) :
    compareStr .rubygems (render a) (render b) = .ofOrd (RubySpec.specCmp a b) := by
  have split : ∀ v : V, v.wf = true → (∀ s ∈ v.segs, s.wf = true) ∧ v.segs ≠ [] := by
    intro v hv
    simp only [V.wf, Bool.and_eq_true] at hv
    refine ⟨fun s hs => List.all_eq_true.mp hv.2 s hs, ?_⟩
    intro e; rw [e] at hv; simp at hv
  obtain ⟨aw, an⟩ := split a ha
  obtain ⟨bw, bn⟩ := split b hb
  show rubygemsFam.compareStr (render a) (render b) = _
  simp only [Family.compareStr, Family.cmpParsed, rubygemsFam_parse, rubygemsFam_cmp, CRes.toOutcome, rubySegs_render a aw an, rubySegs_render b bw bn]
  congr 1
  unfold cmpRuby RubySpec.specCmp
  have hpad : Seg.render (.num 0) = ['0'] := rfl
  rw [← hpad, cmpPad_map Seg.render rubyElem (.num 0)]
  apply cmpPad_congr _ _ _ (fun s : Seg => s.wf = true) rfl
  · intro s t hs ht; exact rubyElem_render s t hs ht
  · exact canonical_wf a aw
  · exact canonical_wf b bw

end Scalibr.Semantic
