/-
C07 — Red Hat. The rpmvercmp-like loop equals the padded lexicographic comparison of the two
strings' own token lists, tokens being `~`, `^`, a letter run or a digit run (leading zeros
stripped), ordered  ~  <  end of string  <  ^  <  letters  <  digits.
-/
import Scalibr.Proofs.Semantic.Packagist
namespace Scalibr.Semantic

inductive RTok
  | tilde
  | fin
  | caret
  | alpha (s : List Char)
  | num (s : List Char)
deriving Repr

/-- (class, length for digit runs, text) -/
def rkey : RTok → Nat × Nat × List Char
  | .tilde => (0, 0, [])
  | .fin => (1, 0, [])
  | .caret => (2, 0, [])
  | .alpha s => (3, 0, s)
  | .num s => (4, s.length, s)

def rkeyCmp : Nat × Nat × List Char → Nat × Nat × List Char → Ordering :=
  thenCmp (cmpOn (·.1) ncmp) (thenCmp (cmpOn (·.2.1) ncmp) (cmpOn (·.2.2) strCmp))

theorem rkeyCmp_isCmp : IsCmp rkeyCmp :=
  thenCmp_isCmp (cmpOn_isCmp _ ncmp_isCmp) (thenCmp_isCmp (cmpOn_isCmp _ ncmp_isCmp) (cmpOn_isCmp _ strCmp_isCmp))

def rtokCmp (a b : RTok) : Ordering := rkeyCmp (rkey a) (rkey b)

theorem rtokCmp_isCmp : IsCmp rtokCmp := cmpOn_isCmp rkey rkeyCmp_isCmp

theorem rkeyCmp_mk (a1 a2 : Nat) (a3 : List Char) (b1 b2 : Nat) (b3 : List Char) :
    rkeyCmp (a1, a2, a3) (b1, b2, b3) = (ncmp a1 b1).then ((ncmp a2 b2).then (strCmp a3 b3)) := rfl

/-- first token of a string from which the junk has been trimmed, and the rest -/
def rhHead (a : List Char) : RTok × List Char :=
  match a with
  | [] => (.fin, [])
  | c :: r =>
    if c = '~' then (.tilde, r)
    else if c = '^' then (.caret, r)
    else if isDigit c then (.num ((a.takeWhile isDigit).dropWhile (· = '0')), a.dropWhile isDigit)
    else (.alpha (a.takeWhile isLetter), a.dropWhile isLetter)

def rhToks : Nat → List Char → List RTok
  | 0, _ => []
  | fuel + 1, a =>
    let a' := a.dropWhile rhTrimmed
    if a'.isEmpty then [] else (rhHead a').1 :: rhToks fuel (rhHead a').2

/-- shape of a trimmed string -/
inductive Shape : List Char → Prop
  | nil : Shape []
  | tilde (r) : Shape ('~' :: r)
  | caret (r) : Shape ('^' :: r)
  | digit (c r) : isDigit c = true → c ≠ '~' → c ≠ '^' → Shape (c :: r)
  | letter (c r) : isLetter c = true → isDigit c = false → c ≠ '~' → c ≠ '^' → Shape (c :: r)

theorem head_dropWhile {α} (p : α → Bool) (l : List α) :
    l.dropWhile p = [] ∨ ∃ c r, l.dropWhile p = c :: r ∧ p c = false := by
  induction l with
  | nil => left; rfl
  | cons x xs ih =>
    by_cases hx : p x = true
    · simp only [List.dropWhile, hx]; exact ih
    · right; exact ⟨x, xs, by simp [List.dropWhile, hx], by simpa using hx⟩

theorem shape_trim (a : List Char) : Shape (a.dropWhile rhTrimmed) := by
  rcases head_dropWhile rhTrimmed a with h | ⟨c, r, h, hc⟩
  · rw [h]; exact .nil
  · rw [h]
    by_cases h1 : c = '~'
    · subst h1; exact .tilde r
    · by_cases h2 : c = '^'
      · subst h2; exact .caret r
      · by_cases h3 : isDigit c = true
        · exact .digit c r h3 h1 h2
        · have h3' : isDigit c = false := by simpa using h3
          have : isLetter c = true := by
            simp only [rhTrimmed, h3', h1, h2, ne_eq, not_false_eq_true, decide_true, Bool.not_false,
              Bool.and_true, Bool.not_eq_false'] at hc
            exact hc
          exact .letter c r this h3' h1 h2

theorem tilde_not_digit : isDigit '~' = false := by decide
theorem caret_not_digit : isDigit '^' = false := by decide
theorem tilde_not_letter : isLetter '~' = false := by decide
theorem caret_not_letter : isLetter '^' = false := by decide

theorem letter_not_digit (c : Char) (h : isLetter c = true) : isDigit c = false := by
  simp only [isLetter, isLower, isUpper, Bool.or_eq_true, Bool.and_eq_true, decide_eq_true_eq] at h
  simp only [isDigit, Bool.and_eq_false_iff, decide_eq_false_iff_not]
  omega

theorem digit_not_letter (c : Char) (h : isDigit c = true) : isLetter c = false := by
  cases hl : isLetter c with
  | false => rfl
  | true => rw [letter_not_digit c hl] at h; exact absurd h (by simp)

theorem ncmp_len_then (x y : List Char) (k : Ordering) :
    (if x.length > y.length then Ordering.gt else if x.length < y.length then Ordering.lt else (strCmp x y).then k) =
      ((ncmp x.length y.length).then (strCmp x y)).then k := by
  unfold ncmp
  by_cases h1 : x.length < y.length
  · have : ¬ x.length > y.length := by omega
    simp [h1, this, Ordering.then]
  · by_cases h2 : x.length = y.length
    · simp [h2, Ordering.then]
    · have : x.length > y.length := by omega
      simp [h1, h2, this, Ordering.then]

theorem takeWhile_cons_pos {α} (p : α → Bool) (c : α) (r : List α) (h : p c = true) :
    (c :: r).takeWhile p = c :: r.takeWhile p := by simp [List.takeWhile, h]

theorem takeWhile_cons_neg {α} (p : α → Bool) (c : α) (r : List α) (h : p c = false) :
    (c :: r).takeWhile p = [] := by simp [List.takeWhile, h]

/-- one iteration of the loop in terms of the first tokens of the two trimmed strings -/
theorem cmpRHLoop_succ (fuel : Nat) (a b : List Char) :
    cmpRHLoop (fuel + 1) a b =
      if (a.dropWhile rhTrimmed).isEmpty && (b.dropWhile rhTrimmed).isEmpty then .eq
      else (rtokCmp (rhHead (a.dropWhile rhTrimmed)).1 (rhHead (b.dropWhile rhTrimmed)).1).then
        (cmpRHLoop fuel (rhHead (a.dropWhile rhTrimmed)).2 (rhHead (b.dropWhile rhTrimmed)).2) := by
  have sa := shape_trim a
  have sb := shape_trim b
  simp only [cmpRHLoop]
  generalize a.dropWhile rhTrimmed = a' at sa ⊢
  generalize b.dropWhile rhTrimmed = b' at sb ⊢
  cases sa with
  | nil =>
    cases sb with
    | nil => simp [startsWith, ncmp]
    | tilde r => simp [startsWith, rhHead, rtokCmp, rkey, rkeyCmp_mk, ncmp, Ordering.then]
    | caret r => simp [startsWith, rhHead, rtokCmp, rkey, rkeyCmp_mk, ncmp, Ordering.then]
    | digit c r h1 h2 h3 => simp [startsWith, rhHead, rtokCmp, rkey, rkeyCmp_mk, ncmp, Ordering.then, h1, h2, h3]
    | letter c r h1 h2 h3 h4 => simp [startsWith, rhHead, rtokCmp, rkey, rkeyCmp_mk, ncmp, Ordering.then, h1, h2, h3, h4]
  | tilde ra =>
    cases sb with
    | nil => simp [startsWith, rhHead, rtokCmp, rkey, rkeyCmp_mk, ncmp, Ordering.then]
    | tilde r => simp [startsWith, rhHead, rtokCmp, rkey, rkeyCmp_mk, ncmp, Ordering.then, strCmp, cmpLex]
    | caret r => simp [startsWith, rhHead, rtokCmp, rkey, rkeyCmp_mk, ncmp, Ordering.then]
    | digit c r h1 h2 h3 => simp [startsWith, rhHead, rtokCmp, rkey, rkeyCmp_mk, ncmp, Ordering.then, h1, h2, h3]
    | letter c r h1 h2 h3 h4 => simp [startsWith, rhHead, rtokCmp, rkey, rkeyCmp_mk, ncmp, Ordering.then, h1, h2, h3, h4]
  | caret ra =>
    cases sb with
    | nil => simp [startsWith, rhHead, rtokCmp, rkey, rkeyCmp_mk, ncmp, Ordering.then]
    | tilde r => simp [startsWith, rhHead, rtokCmp, rkey, rkeyCmp_mk, ncmp, Ordering.then]
    | caret r => simp [startsWith, rhHead, rtokCmp, rkey, rkeyCmp_mk, ncmp, Ordering.then, strCmp, cmpLex]
    | digit c r h1 h2 h3 => simp [startsWith, rhHead, rtokCmp, rkey, rkeyCmp_mk, ncmp, Ordering.then, h1, h2, h3]
    | letter c r h1 h2 h3 h4 => simp [startsWith, rhHead, rtokCmp, rkey, rkeyCmp_mk, ncmp, Ordering.then, h1, h2, h3, h4]
  | digit ca ra g1 g2 g3 =>
    have gl := digit_not_letter ca g1
    cases sb with
    | nil => simp [startsWith, rhHead, rtokCmp, rkey, rkeyCmp_mk, ncmp, Ordering.then, g1, g2, g3]
    | tilde r => simp [startsWith, rhHead, rtokCmp, rkey, rkeyCmp_mk, ncmp, Ordering.then, g1, g2, g3]
    | caret r => simp [startsWith, rhHead, rtokCmp, rkey, rkeyCmp_mk, ncmp, Ordering.then, g1, g2, g3]
    | digit c r h1 h2 h3 =>
      simp only [startsWith, g2, g3, h2, h3, decide_false, Bool.false_and, Bool.false_eq_true, if_false,
        List.isEmpty_cons, Bool.or_self, List.headD_cons, g1, if_true, rhHead, rtokCmp, rkey, rkeyCmp_mk, h1]
      rw [takeWhile_cons_pos isDigit c r h1]
      simp only [List.isEmpty_cons, Bool.false_eq_true, if_false]
      rw [← takeWhile_cons_pos isDigit c r h1, ncmp_len_then]
      have : ncmp 4 4 = .eq := by decide
      rw [this]; rfl
    | letter c r h1 h2 h3 h4 =>
      simp only [startsWith, g2, g3, h3, h4, decide_false, Bool.false_and, Bool.false_eq_true, if_false,
        List.isEmpty_cons, Bool.or_self, List.headD_cons, g1, if_true, rhHead, rtokCmp, rkey, rkeyCmp_mk, h2]
      rw [takeWhile_cons_neg isDigit c r h2]
      simp only [List.isEmpty_nil, if_true]
      have : ncmp 4 3 = .gt := by decide
      rw [this]; rfl
  | letter ca ra g1 g2 g3 g4 =>
    cases sb with
    | nil => simp [startsWith, rhHead, rtokCmp, rkey, rkeyCmp_mk, ncmp, Ordering.then, g1, g2, g3, g4]
    | tilde r => simp [startsWith, rhHead, rtokCmp, rkey, rkeyCmp_mk, ncmp, Ordering.then, g1, g2, g3, g4]
    | caret r => simp [startsWith, rhHead, rtokCmp, rkey, rkeyCmp_mk, ncmp, Ordering.then, g1, g2, g3, g4]
    | digit c r h1 h2 h3 =>
      have hl := digit_not_letter c h1
      simp only [startsWith, g3, g4, h2, h3, decide_false, Bool.false_and, Bool.false_eq_true, if_false,
        List.isEmpty_cons, Bool.or_self, List.headD_cons, g2, rhHead, rtokCmp, rkey, rkeyCmp_mk, h1, if_true]
      rw [takeWhile_cons_neg isLetter c r hl]
      simp only [List.isEmpty_nil, if_true]
      have : ncmp 3 4 = .lt := by decide
      rw [this]; rfl
    | letter c r h1 h2 h3 h4 =>
      simp only [startsWith, g3, g4, h3, h4, decide_false, Bool.false_and, Bool.false_eq_true, if_false,
        List.isEmpty_cons, Bool.or_self, List.headD_cons, g2, rhHead, rtokCmp, rkey, rkeyCmp_mk, h2]
      rw [takeWhile_cons_pos isLetter c r h1]
      simp only [List.isEmpty_cons, Bool.false_eq_true, if_false]
      rw [← takeWhile_cons_pos isLetter c r h1]
      have h33 : ncmp 3 3 = .eq := by decide
      have h00 : ncmp 0 0 = .eq := by decide
      rw [h33, h00]; rfl

theorem rhHead_nil : rhHead [] = (.fin, []) := rfl

theorem rhToks_nil (n : Nat) : rhToks n [] = [] := by cases n <;> simp [rhToks]

theorem rhHead_fst_fin_rest (a : List Char) (h : a = []) : (rhHead a).2 = [] := by subst h; rfl

theorem rhToks_unc (fuel : Nat) (a : List Char) :
    unc RTok.fin (rhToks (fuel + 1) a) = ((rhHead (a.dropWhile rhTrimmed)).1, rhToks fuel (rhHead (a.dropWhile rhTrimmed)).2) := by
  simp only [rhToks]
  cases h : a.dropWhile rhTrimmed with
  | nil => simp [unc, rhHead, rhToks_nil]
  | cons c r => simp [unc]

theorem cmpRHLoop_eq (fuel : Nat) : ∀ a b : List Char,
    cmpRHLoop fuel a b = cmpPad rtokCmp RTok.fin (rhToks fuel a) (rhToks fuel b) := by
  induction fuel with
  | zero => intro a b; simp [cmpRHLoop, rhToks, cmpPad, cmpPadL]
  | succ n ih =>
    intro a b
    rw [cmpRHLoop_succ]
    by_cases h : ((a.dropWhile rhTrimmed).isEmpty && (b.dropWhile rhTrimmed).isEmpty) = true
    · simp only [h, if_true]
      simp only [Bool.and_eq_true] at h
      simp [rhToks, h.1, h.2, cmpPad, cmpPadL]
    · simp only [h, Bool.false_eq_true, if_false]
      have hne : ¬ (rhToks (n + 1) a = [] ∧ rhToks (n + 1) b = []) := by
        intro ⟨h1, h2⟩
        apply h
        simp only [rhToks] at h1 h2
        have e1 : (a.dropWhile rhTrimmed).isEmpty = true := by
          cases he : (a.dropWhile rhTrimmed).isEmpty with
          | true => rfl
          | false => simp [he] at h1
        have e2 : (b.dropWhile rhTrimmed).isEmpty = true := by
          cases he : (b.dropWhile rhTrimmed).isEmpty with
          | true => rfl
          | false => simp [he] at h2
        simp [e1, e2]
      rw [cmpPad_step rtokCmp RTok.fin _ _ hne, rhToks_unc, rhToks_unc, ih]

theorem rhHead_rest_length (a : List Char) (sh : Shape a) (h : a ≠ []) : (rhHead a).2.length < a.length := by
  cases sh with
  | nil => exact absurd rfl h
  | tilde r => simp [rhHead]
  | caret r => simp [rhHead]
  | digit c r h1 h2 h3 =>
    simp only [rhHead, h2, h3, if_false, h1, if_true]
    have e : (c :: r).dropWhile isDigit = r.dropWhile isDigit := by simp [List.dropWhile, h1]
    rw [e]
    have := length_dropWhile_le isDigit r
    simp only [List.length_cons]; omega
  | letter c r h1 h2 h3 h4 =>
    simp only [rhHead, h3, h4, if_false, h2, Bool.false_eq_true]
    have e : (c :: r).dropWhile isLetter = r.dropWhile isLetter := by simp [List.dropWhile, h1]
    rw [e]
    have := length_dropWhile_le isLetter r
    simp only [List.length_cons]; omega

/-- any fuel above the length yields the same token list -/
theorem rhToks_fuel : ∀ (n m : Nat) (a : List Char), a.length < n → a.length < m → rhToks n a = rhToks m a := by
  intro n; induction n with
  | zero => intro m a h; omega
  | succ n ih =>
    intro m a hn hm
    cases m with
    | zero => omega
    | succ m =>
      simp only [rhToks]
      have hle := length_dropWhile_le rhTrimmed a
      cases he : (a.dropWhile rhTrimmed).isEmpty with
      | true => simp
      | false =>
        simp only [Bool.false_eq_true, if_false]
        have hne : a.dropWhile rhTrimmed ≠ [] := by intro hh; rw [hh] at he; simp at he
        have := rhHead_rest_length _ (shape_trim a) hne
        rw [ih m _ (by omega) (by omega)]

/-- the tokens of a string -/
def rhKey (a : List Char) : List RTok := rhToks (a.length + 1) a

/-- `compareRedHatComponents`: the empty string first, then the tokens -/
def cmpRHCompT : List Char → List Char → Ordering :=
  thenCmp (cmpOn (fun s : List Char => !s.isEmpty) bcmp) (cmpOn rhKey (cmpPad rtokCmp RTok.fin))

theorem cmpRHCompT_isCmp : IsCmp cmpRHCompT :=
  thenCmp_isCmp (cmpOn_isCmp _ bcmp_isCmp) (cmpOn_isCmp rhKey (cmpPad_isCmp RTok.fin rtokCmp_isCmp))

theorem cmpRHComp_eq (a b : List Char) : cmpRHComp a b = cmpRHCompT a b := by
  unfold cmpRHComp cmpRHCompT thenCmp cmpOn
  rw [cmpRHLoop_eq]
  unfold rhKey
  rw [rhToks_fuel (a.length + b.length + 2) (a.length + 1) a (by omega) (by omega),
    rhToks_fuel (a.length + b.length + 2) (b.length + 1) b (by omega) (by omega)]
  cases a <;> cases b <;> simp [bcmp, Ordering.then]

theorem cmpRH_isCmp : IsCmp cmpRH :=
  (thenCmp_isCmp (cmpOn_isCmp RHV.epoch cmpRHCompT_isCmp)
    (thenCmp_isCmp (cmpOn_isCmp RHV.version cmpRHCompT_isCmp) (cmpOn_isCmp RHV.release cmpRHCompT_isCmp))).congr
    (fun v w => by
      simp only [cmpRH, cmpRHComp_eq]
      rfl)

/-! ## the Go-shaped loop: every `a[ai]` is behind its guard -/

theorem rhTrimGo_eq : ∀ (f : Nat) (a : List Char), a.length < f → rhTrimGo f a = some (a.dropWhile rhTrimmed) := by
  intro f
  induction f with
  | zero => intro a h; omega
  | succ f ih =>
    intro a h
    cases a with
    | nil => simp [rhTrimGo]
    | cons c r =>
      simp only [rhTrimGo, List.length_cons, Nat.zero_lt_succ, if_true, goIndex, List.getElem?_cons_zero, Option.bind_some,
        List.tail_cons, List.dropWhile_cons]
      by_cases hc : rhTrimmed c = true
      · simp only [hc, if_true]; exact ih r (by simp at h; omega)
      · simp [hc]

theorem startsWithGo_eq (c : Char) (a : List Char) : startsWithGo c a = some (startsWith c a) := by
  cases a <;> simp [startsWithGo, startsWith, goIndex]

theorem cmpRHLoopGo_eq : ∀ (f : Nat) (a b : List Char), cmpRHLoopGo f a b = some (cmpRHLoop f a b) := by
  intro f
  induction f with
  | zero => intro a b; rfl
  | succ f ih =>
    intro a b
    simp only [cmpRHLoopGo, cmpRHLoop, rhTrimGo_eq _ _ (Nat.lt_succ_self _), startsWithGo_eq, Option.bind_some, ih, thenGo_some]
    generalize a.dropWhile rhTrimmed = a'
    generalize b.dropWhile rhTrimmed = b'
    cases a' with
    | nil => simp [startsWith, apply_ite some]
    | cons c r => simp [goIndex, apply_ite some]

theorem cmpRHCompGo_eq (a b : List Char) : cmpRHCompGo a b = some (cmpRHComp a b) := by
  simp [cmpRHCompGo, cmpRHComp, cmpRHLoopGo_eq, apply_ite some]

theorem cmpRHGo_eq (v w : RHV) : cmpRHGo v w = some (cmpRH v w) := by
  simp [cmpRHGo, cmpRH, cmpRHCompGo_eq, thenGo_some]

@[simp] theorem redhatFam_parse (s : List Char) : redhatFam.parse s = .ok (parseRH s) := rfl
@[simp] theorem redhatFam_cmp (v w : RHV) : redhatFam.cmp v w = .ord (cmpRH v w) := by
  simp [redhatFam, cmpRHGo_eq, CRes.ofGo]

theorem redhat_laws : FamLaws redhatFam (fun _ => True) cmpRH where
  parse_nopanic := fun s => by simp
  parse_wf := fun _ _ _ => trivial
  cmp_eq := fun v w _ _ => redhatFam_cmp v w
  refl := fun v _ => cmpRH_isCmp.refl v
  swap := fun v w _ _ => cmpRH_isCmp.swap v w

end Scalibr.Semantic
