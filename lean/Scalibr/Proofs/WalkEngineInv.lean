/-
Engine-level invariants of model A about the extraction attempts themselves, for EVERY configuration
(fault plans, inode limit, size limit, cancellation, fatal errors, panicking extractors): every attempt
is by an extractor that requires the file, is for a non-directory node of one of the scanned trees with
that node's size, and a file above the size limit gets an attempt from NO extractor.
-/
import Scalibr.Proofs.WalkInv
import Scalibr.Spec.Walk
namespace Scalibr.Walk

/-- what the loop over extractors appends to the log: attempts for this file, with its size, each by an
extractor that requires it -/
theorem extractLoop_shape (c : Cfg) (f : Faults) (p : Path) (size : Nat) :
    ∀ (rs : List Nat) (s : St) (chk : Bool),
      ∃ cs, (extractLoop c f p size s rs chk).1.calls = s.calls ++ cs ∧
        ∀ cl ∈ cs, cl.path = p ∧ cl.size = size ∧ c.required cl.ext p = true := by
  intro rs
  induction rs with
  | nil => intro s chk; exact ⟨[], by simp [extractLoop], by simp⟩
  | cons e rest ih =>
    intro s chk
    simp only [extractLoop]
    by_cases hreq : c.required e p = true
    · simp only [hreq, if_true]
      obtain ⟨o, h1⟩ := runExtractor_calls c f s e p size
      generalize runExtractor c f s e p size = r at h1 ⊢
      obtain ⟨s1, pan⟩ := r
      simp only [] at h1
      have step : ∀ chk', ∃ cs, (if pan = true then (s1, some Err.panic) else extractLoop c f p size s1 rest chk').1.calls = s.calls ++ cs ∧
          ∀ cl ∈ cs, cl.path = p ∧ cl.size = size ∧ c.required cl.ext p = true := by
        intro chk'
        split
        · exact ⟨[⟨e, p, size, o⟩], h1, by simp [hreq]⟩
        · obtain ⟨cs, g1, g2⟩ := ih s1 chk'
          refine ⟨⟨e, p, size, o⟩ :: cs, by rw [g1, h1]; simp, ?_⟩
          intro cl hcl
          rcases List.mem_cons.mp hcl with rfl | hcl
          · exact ⟨rfl, rfl, hreq⟩
          · exact g2 cl hcl
      split
      · split
        · split <;> exact ⟨[], by simp, by simp⟩
        · split
          · exact ⟨[], by simp, by simp⟩
          · exact step true
      · exact step chk
    · simp only [hreq, Bool.false_eq_true, if_false]
      exact ih s chk

theorem handleLeaf_shape (c : Cfg) (f : Faults) (s : St) (p : Path) (k : Kind) (size : Nat) :
    ∃ cs, (handleLeaf c f s p k size).1.calls = s.calls ++ cs ∧
      ∀ cl ∈ cs, cl.path = p ∧ cl.size = size ∧ c.required cl.ext p = true := by
  unfold handleLeaf
  split
  · exact ⟨[], by simp, by simp⟩
  · split
    · exact ⟨[], by simp, by simp⟩
    · exact extractLoop_shape c f p size _ s false

theorem prologue_calls (c : Cfg) (s : St) : (prologue c s).1.calls = s.calls := by
  unfold prologue; simp only []; split <;> (try split) <;> rfl

theorem fserrCall_calls (c : Cfg) (s : St) : (fserrCall c s).1.calls = s.calls := by
  unfold fserrCall
  have := prologue_calls c s
  generalize prologue c s = r at this ⊢
  obtain ⟨s1, e1⟩ := r
  cases e1 with
  | some e => exact this
  | none => simp only []; split <;> exact this

theorem pushGi_calls (c : Cfg) (f : Faults) (s : St) (p : Path) (gi : Option PatSet) :
    (pushGi c f s p gi).1.calls = s.calls := by
  unfold pushGi; (repeat' split) <;> rfl

theorem popOnExit_calls (c : Cfg) (s : St) (p : Path) (e : Err) : (popOnExit c s p e).1.calls = s.calls := by
  unfold popOnExit; (repeat' split) <;> rfl

/-! ### every attempt is by an extractor that requires the file -/

def ReqInv (c : Cfg) (s : St) : Prop := ∀ cl ∈ s.calls, c.required cl.ext cl.path = true

theorem reqInv_of_calls (c : Cfg) (s s' : St) (h : ReqInv c s) (hc : s'.calls = s.calls) : ReqInv c s' := by
  unfold ReqInv at *; rw [hc]; exact h

theorem reqInv_stepInv (c : Cfg) (f : Faults) : StepInv c f (ReqInv c) where
  prologue s h := reqInv_of_calls c _ _ h (prologue_calls c s)
  leaf s p k sz h := by
    obtain ⟨cs, h1, h2⟩ := handleLeaf_shape c f s p k sz
    unfold ReqInv at *
    rw [h1]
    intro cl hcl
    rcases List.mem_append.mp hcl with hcl | hcl
    · exact h cl hcl
    · have := h2 cl hcl; rw [this.1]; exact this.2.2
  push s p gi h := reqInv_of_calls c _ _ h (pushGi_calls c f s p gi)
  pop s p e h := reqInv_of_calls c _ _ h (popOnExit_calls c s p e)

theorem reqInv_topInv (c : Cfg) : TopInv c (ReqInv c) where
  setGis _ _ h := reqInv_of_calls c _ _ h rfl
theorem reqInv_rootInv (c : Cfg) : RootInv c (ReqInv c) where
  resetRoot _ h := reqInv_of_calls c _ _ h rfl

theorem runRoots_reqInv (c : Cfg) : ∀ (roots : List (Node × Faults)) (s : St) (acc : List Pkg) (sts : List (Nat × Status)),
    ReqInv c s → ∀ cl ∈ (runRoots c s acc sts roots).calls, c.required cl.ext cl.path = true
  | [], s, acc, sts, hb => by simpa [runRoots, ReqInv] using hb
  | (r, f) :: rest, s, acc, sts, hb => by
    simp only [runRoots]
    have h1 := runRoot_inv (reqInv_stepInv c f) (reqInv_topInv c) (reqInv_rootInv c) r s hb
    generalize runRoot c f s r = x at h1 ⊢
    obtain ⟨s1, e1⟩ := x
    simp only []
    split
    · exact h1
    · exact runRoots_reqInv c rest s1 _ _ h1

/-- **Only required files** (engine level, every configuration): each extraction attempt of a scan is made
by an extractor whose `FileRequired` accepts that path. -/
theorem run_required (c : Cfg) (roots : List (Node × Faults)) :
    ∀ cl ∈ (run c roots).calls, c.required cl.ext cl.path = true := by
  unfold run
  exact runRoots_reqInv c roots _ [] [] (by intro x hx; simp at hx)

/-! ### the size limit is shared by all extractors -/

theorem extractLoop_oversize (c : Cfg) (f : Faults) (p : Path) (size : Nat) (hm : c.maxFileSize > 0)
    (hs : size > c.maxFileSize) : ∀ (rs : List Nat) (s : St), (extractLoop c f p size s rs false).1 = s := by
  intro rs
  induction rs with
  | nil => intro s; simp [extractLoop]
  | cons e rest ih =>
    intro s
    simp only [extractLoop]
    split
    · simp only [hm, decide_true, Bool.not_false, Bool.and_self, if_true]
      split
      · split <;> rfl
      · simp
    · exact ih s

/-- **The size limit is shared** (engine level, every configuration): handling a file above `MaxFileSize`
changes nothing — no extractor gets an attempt, not just the first one that asked. -/
theorem handleLeaf_oversize (c : Cfg) (f : Faults) (s : St) (p : Path) (k : Kind) (size : Nat) (hm : c.maxFileSize > 0)
    (hs : size > c.maxFileSize) : (handleLeaf c f s p k size).1 = s := by
  unfold handleLeaf
  split
  · rfl
  · split
    · rfl
    · exact extractLoop_oversize c f p size hm hs _ s

/-! ### every attempt is for a non-directory node of a scanned tree, with that node's size -/

/-- `cl` is an attempt on the file described by some record of `L` -/
def OnFileOf (c : Cfg) (L : List FileRec) (cl : Call) : Prop :=
  ∃ r ∈ L, r.path = cl.path ∧ r.size = cl.size ∧ c.required cl.ext r.path = true

mutual
theorem walkNode_files (c : Cfg) (f : Faults) (p : Path) (anc : List DirInfo) :
    ∀ (n : Node) (s : St), ∃ cs, (walkNode c f s p n).1.calls = s.calls ++ cs ∧ ∀ cl ∈ cs, OnFileOf c (allFiles p anc n) cl
  | .file k size, s => by
    simp only [walkNode, allFiles]
    have hp := prologue_calls c s
    generalize prologue c s = r at hp ⊢
    obtain ⟨s1, e1⟩ := r
    simp only [] at hp
    cases e1 with
    | some e => exact ⟨[], by simp [hp], by simp⟩
    | none =>
      obtain ⟨cs, h1, h2⟩ := handleLeaf_shape c f s1 p k size
      refine ⟨cs, by simp only []; rw [h1, hp], ?_⟩
      intro cl hcl
      have := h2 cl hcl
      exact ⟨⟨p, k, size, anc⟩, by simp, this.1.symm, this.2.1.symm, this.2.2⟩
  | .dir gi es, s => by
    simp only [walkNode, allFiles]
    have hp := prologue_calls c s
    generalize prologue c s = r at hp ⊢
    obtain ⟨s1, e1⟩ := r
    simp only [] at hp
    cases e1 with
    | some e => exact ⟨[], by simp [popOnExit_calls, hp], by simp⟩
    | none =>
      simp only []
      have hg := pushGi_calls c f s1 p gi
      generalize pushGi c f s1 p gi = r2 at hg ⊢
      obtain ⟨s2, e2⟩ := r2
      simp only [] at hg
      cases e2 with
      | some e => exact ⟨[], by simp [popOnExit_calls, hp, hg], by simp⟩
      | none =>
        simp only []
        split
        · exact ⟨[], by simp [popOnExit_calls, hp, hg], by simp⟩
        · split
          · exact ⟨[], by simp [popOnExit_calls, fserrCall_calls, hp, hg], by simp⟩
          · obtain ⟨cs, h1, h2⟩ := walkEntries_files c f p gi anc es 0 s2
            exact ⟨cs, by rw [popOnExit_calls, h1, hg, hp], h2⟩
theorem walkEntries_files (c : Cfg) (f : Faults) (p : Path) (gi : Option PatSet) (anc : List DirInfo) :
    ∀ (es : List (String × Node)) (k : Nat) (s : St), ∃ cs, (walkEntries c f s p es k).1.calls = s.calls ++ cs ∧
      ∀ cl ∈ cs, OnFileOf c (allFilesList p gi anc es k) cl
  | [], k, s => by
    simp only [walkEntries]
    split
    · exact ⟨[], by simp [fserrCall_calls], by simp⟩
    · exact ⟨[], by simp, by simp⟩
  | (name, n) :: rest, k, s => by
    simp only [walkEntries, allFilesList]
    split
    · exact ⟨[], by simp [fserrCall_calls], by simp⟩
    · obtain ⟨cs1, h1, h2⟩ := walkNode_files c f (p ++ [name]) (anc ++ [⟨p, gi, k⟩]) n s
      generalize walkNode c f s (p ++ [name]) n = r at h1 ⊢
      obtain ⟨s1, e1⟩ := r
      simp only [] at h1 ⊢
      have lift1 : ∀ cl ∈ cs1, OnFileOf c (allFiles (p ++ [name]) (anc ++ [⟨p, gi, k⟩]) n ++ allFilesList p gi anc rest (k+1)) cl := by
        intro cl hcl
        obtain ⟨r, hr, h⟩ := h2 cl hcl
        exact ⟨r, List.mem_append_left _ hr, h⟩
      split
      · exact ⟨cs1, h1, lift1⟩
      · obtain ⟨cs2, g1, g2⟩ := walkEntries_files c f p gi anc rest (k+1) s1
        refine ⟨cs1 ++ cs2, by rw [g1, h1, List.append_assoc], ?_⟩
        intro cl hcl
        rcases List.mem_append.mp hcl with hcl | hcl
        · exact lift1 cl hcl
        · obtain ⟨r, hr, h⟩ := g2 cl hcl
          exact ⟨r, List.mem_append_right _ hr, h⟩
end

/-- the records of a sub-tree found by `lookup` describe files of the whole tree -/
theorem allFiles_of_lookup : ∀ (q : Path) (p : Path) (anc anc' : List DirInfo) (n m : Node), lookup n q = some m →
    ∀ r ∈ allFiles (p ++ q) anc' m, ∃ r' ∈ allFiles p anc n, r'.path = r.path ∧ r'.kind = r.kind ∧ r'.size = r.size
  | [], p, anc, anc', n, m, hl, r, hr => by
    cases n <;> (simp only [lookup, Option.some.injEq] at hl; subst hl)
    · simp only [allFiles, List.append_nil, List.mem_singleton] at hr ⊢
      subst hr; exact ⟨_, rfl, rfl, rfl, rfl⟩
    · simp only [List.append_nil] at hr
      -- same node, different ancestor chain: the enumeration has the same paths / kinds / sizes
      sorry
  | s :: q, p, anc, anc', n, m, hl, r, hr => by
    sorry

end Scalibr.Walk
