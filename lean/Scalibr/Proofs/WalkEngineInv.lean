/-
Engine-level invariants of model A about the extraction attempts themselves, for EVERY configuration
(fault plans, inode limit, size limit, cancellation, fatal errors, panicking extractors): every attempt
is by an extractor that requires the file, is for a non-directory node of one of the scanned trees with
that node's size, and a file above the size limit gets an attempt from NO extractor.
-/
import Scalibr.Proofs.WalkInv
import Scalibr.Spec.Walk
namespace Scalibr.Walk

/-- what the loop over extractors appends to the log: attempts for this file, with its size, each by an
extractor that requires it -/
theorem extractLoop_shape (c : Cfg) (f : Faults) (p : Path) (size : Nat) :
    ∀ (rs : List Nat) (s : St) (chk : Bool),
      ∃ cs, (extractLoop c f p size s rs chk).1.calls = s.calls ++ cs ∧
        ∀ cl ∈ cs, cl.path = p ∧ cl.size = size ∧ c.required cl.ext p = true := by
  intro rs
  induction rs with
  | nil => intro s chk; exact ⟨[], by simp [extractLoop], by simp⟩
  | cons e rest ih =>
    intro s chk
    simp only [extractLoop]
    by_cases hreq : c.required e p = true
    · simp only [hreq, if_true]
      obtain ⟨o, h1⟩ := runExtractor_calls c f s e p size
      generalize runExtractor c f s e p size = r at h1 ⊢
      obtain ⟨s1, pan⟩ := r
      simp only [] at h1
      have step : ∀ chk', ∃ cs, (if pan = true then (s1, some Err.panic) else extractLoop c f p size s1 rest chk').1.calls = s.calls ++ cs ∧
          ∀ cl ∈ cs, cl.path = p ∧ cl.size = size ∧ c.required cl.ext p = true := by
        intro chk'
        split
        · exact ⟨[⟨e, p, size, o⟩], h1, by simp [hreq]⟩
        · obtain ⟨cs, g1, g2⟩ := ih s1 chk'
          refine ⟨⟨e, p, size, o⟩ :: cs, by rw [g1, h1]; simp, ?_⟩
          intro cl hcl
          rcases List.mem_cons.mp hcl with rfl | hcl
          · exact ⟨rfl, rfl, hreq⟩
          · exact g2 cl hcl
      split
      · split
        · split <;> exact ⟨[], by simp, by simp⟩
        · split
          · exact ⟨[], by simp, by simp⟩
          · exact step true
      · exact step chk
    · simp only [hreq, Bool.false_eq_true, if_false]
      exact ih s chk

theorem handleLeaf_shape (c : Cfg) (f : Faults) (s : St) (p : Path) (k : Kind) (size : Nat) :
    ∃ cs, (handleLeaf c f s p k size).1.calls = s.calls ++ cs ∧
      ∀ cl ∈ cs, cl.path = p ∧ cl.size = size ∧ c.required cl.ext p = true := by
  unfold handleLeaf
  split
  · exact ⟨[], by simp, by simp⟩
  · split
    · exact ⟨[], by simp, by simp⟩
    · exact extractLoop_shape c f p size _ s false

theorem prologue_calls (c : Cfg) (s : St) : (prologue c s).1.calls = s.calls := by
  unfold prologue; simp only []; split <;> (try split) <;> rfl

theorem fserrCall_calls (c : Cfg) (s : St) : (fserrCall c s).1.calls = s.calls := by
  unfold fserrCall
  have := prologue_calls c s
  generalize prologue c s = r at this ⊢
  obtain ⟨s1, e1⟩ := r
  cases e1 with
  | some e => exact this
  | none => simp only []; split <;> exact this

theorem pushGi_calls (c : Cfg) (f : Faults) (s : St) (p : Path) (gi : Option PatSet) :
    (pushGi c f s p gi).1.calls = s.calls := by
  unfold pushGi; (repeat' split) <;> rfl

theorem popOnExit_calls (c : Cfg) (s : St) (p : Path) (e : Err) : (popOnExit c s p e).1.calls = s.calls := by
  unfold popOnExit; (repeat' split) <;> rfl

/-! ### every attempt is by an extractor that requires the file -/

def ReqInv (c : Cfg) (s : St) : Prop := ∀ cl ∈ s.calls, c.required cl.ext cl.path = true

theorem reqInv_of_calls (c : Cfg) (s s' : St) (h : ReqInv c s) (hc : s'.calls = s.calls) : ReqInv c s' := by
  unfold ReqInv at *; rw [hc]; exact h

theorem reqInv_stepInv (c : Cfg) (f : Faults) : StepInv c f (ReqInv c) where
  prologue s h := reqInv_of_calls c _ _ h (prologue_calls c s)
  leaf s p k sz h := by
    obtain ⟨cs, h1, h2⟩ := handleLeaf_shape c f s p k sz
    unfold ReqInv at *
    rw [h1]
    intro cl hcl
    rcases List.mem_append.mp hcl with hcl | hcl
    · exact h cl hcl
    · have := h2 cl hcl; rw [this.1]; exact this.2.2
  push s p gi h := reqInv_of_calls c _ _ h (pushGi_calls c f s p gi)
  pop s p e h := reqInv_of_calls c _ _ h (popOnExit_calls c s p e)

theorem reqInv_topInv (c : Cfg) : TopInv c (ReqInv c) where
  setGis _ _ h := reqInv_of_calls c _ _ h rfl
theorem reqInv_rootInv (c : Cfg) : RootInv c (ReqInv c) where
  resetRoot _ h := reqInv_of_calls c _ _ h rfl

theorem runRoots_reqInv (c : Cfg) : ∀ (roots : List (Node × Faults)) (s : St) (acc : List Pkg) (sts : List (Nat × Status)),
    ReqInv c s → ∀ cl ∈ (runRoots c s acc sts roots).calls, c.required cl.ext cl.path = true
  | [], s, acc, sts, hb => by simpa [runRoots, ReqInv] using hb
  | (r, f) :: rest, s, acc, sts, hb => by
    simp only [runRoots]
    have h1 := runRoot_inv (reqInv_stepInv c f) (reqInv_topInv c) (reqInv_rootInv c) r s hb
    generalize runRoot c f s r = x at h1 ⊢
    obtain ⟨s1, e1⟩ := x
    simp only []
    split
    · exact h1
    · exact runRoots_reqInv c rest s1 _ _ h1

/-- **Only required files** (engine level, every configuration): each extraction attempt of a scan is made
by an extractor whose `FileRequired` accepts that path. -/
theorem run_required (c : Cfg) (roots : List (Node × Faults)) :
    ∀ cl ∈ (run c roots).calls, c.required cl.ext cl.path = true := by
  unfold run
  exact runRoots_reqInv c roots _ [] [] (by intro x hx; simp at hx)

/-! ### the size limit is shared by all extractors -/

theorem extractLoop_oversize (c : Cfg) (f : Faults) (p : Path) (size : Nat) (hm : c.maxFileSize > 0)
    (hs : size > c.maxFileSize) : ∀ (rs : List Nat) (s : St), (extractLoop c f p size s rs false).1 = s := by
  intro rs
  induction rs with
  | nil => intro s; simp [extractLoop]
  | cons e rest ih =>
    intro s
    simp only [extractLoop]
    split
    · simp only [hm, decide_true, Bool.not_false, Bool.and_self, if_true]
      split
      · split <;> rfl
      · simp
    · exact ih s

/-- **The size limit is shared** (engine level, every configuration): handling a file above `MaxFileSize`
changes nothing — no extractor gets an attempt, not just the first one that asked. -/
theorem handleLeaf_oversize (c : Cfg) (f : Faults) (s : St) (p : Path) (k : Kind) (size : Nat) (hm : c.maxFileSize > 0)
    (hs : size > c.maxFileSize) : (handleLeaf c f s p k size).1 = s := by
  unfold handleLeaf
  split
  · rfl
  · split
    · rfl
    · exact extractLoop_oversize c f p size hm hs _ s

/-! ### every attempt is for a non-directory node of a scanned tree, with that node's size -/

/-- `cl` is an attempt on the file described by some record of `L` -/
def OnFileOf (c : Cfg) (L : List FileRec) (cl : Call) : Prop :=
  ∃ r ∈ L, r.path = cl.path ∧ r.size = cl.size ∧ c.required cl.ext r.path = true

mutual
theorem walkNode_files (c : Cfg) (f : Faults) (p : Path) (anc : List DirInfo) :
    ∀ (n : Node) (s : St), ∃ cs, (walkNode c f s p n).1.calls = s.calls ++ cs ∧ ∀ cl ∈ cs, OnFileOf c (allFiles p anc n) cl
  | .file k size, s => by
    simp only [walkNode, allFiles]
    have hp := prologue_calls c s
    generalize prologue c s = r at hp ⊢
    obtain ⟨s1, e1⟩ := r
    simp only [] at hp
    cases e1 with
    | some e => exact ⟨[], by simp [hp], by simp⟩
    | none =>
      obtain ⟨cs, h1, h2⟩ := handleLeaf_shape c f s1 p k size
      refine ⟨cs, by simp only []; rw [h1, hp], ?_⟩
      intro cl hcl
      have := h2 cl hcl
      exact ⟨⟨p, k, size, anc⟩, by simp, this.1.symm, this.2.1.symm, this.2.2⟩
  | .dir gi es, s => by
    simp only [walkNode, allFiles]
    have hp := prologue_calls c s
    generalize prologue c s = r at hp ⊢
    obtain ⟨s1, e1⟩ := r
    simp only [] at hp
    cases e1 with
    | some e => exact ⟨[], by simp [popOnExit_calls, hp], by simp⟩
    | none =>
      simp only []
      have hg := pushGi_calls c f s1 p gi
      generalize pushGi c f s1 p gi = r2 at hg ⊢
      obtain ⟨s2, e2⟩ := r2
      simp only [] at hg
      cases e2 with
      | some e => exact ⟨[], by simp [popOnExit_calls, hp, hg], by simp⟩
      | none =>
        simp only []
        split
        · exact ⟨[], by simp [popOnExit_calls, hp, hg], by simp⟩
        · split
          · exact ⟨[], by simp [popOnExit_calls, fserrCall_calls, hp, hg], by simp⟩
          · obtain ⟨cs, h1, h2⟩ := walkEntries_files c f p gi anc es 0 s2
            exact ⟨cs, by rw [popOnExit_calls, h1, hg, hp], h2⟩
theorem walkEntries_files (c : Cfg) (f : Faults) (p : Path) (gi : Option PatSet) (anc : List DirInfo) :
    ∀ (es : List (String × Node)) (k : Nat) (s : St), ∃ cs, (walkEntries c f s p es k).1.calls = s.calls ++ cs ∧
      ∀ cl ∈ cs, OnFileOf c (allFilesList p gi anc es k) cl
  | [], k, s => by
    simp only [walkEntries]
    split
    · exact ⟨[], by simp [fserrCall_calls], by simp⟩
    · exact ⟨[], by simp, by simp⟩
  | (name, n) :: rest, k, s => by
    simp only [walkEntries, allFilesList]
    split
    · exact ⟨[], by simp [fserrCall_calls], by simp⟩
    · obtain ⟨cs1, h1, h2⟩ := walkNode_files c f (p ++ [name]) (anc ++ [⟨p, gi, k⟩]) n s
      generalize walkNode c f s (p ++ [name]) n = r at h1 ⊢
      obtain ⟨s1, e1⟩ := r
      simp only [] at h1 ⊢
      have lift1 : ∀ cl ∈ cs1, OnFileOf c (allFiles (p ++ [name]) (anc ++ [⟨p, gi, k⟩]) n ++ allFilesList p gi anc rest (k+1)) cl := by
        intro cl hcl
        obtain ⟨r, hr, h⟩ := h2 cl hcl
        exact ⟨r, List.mem_append_left _ hr, h⟩
      split
      · exact ⟨cs1, h1, lift1⟩
      · obtain ⟨cs2, g1, g2⟩ := walkEntries_files c f p gi anc rest (k+1) s1
        refine ⟨cs1 ++ cs2, by rw [g1, h1, List.append_assoc], ?_⟩
        intro cl hcl
        rcases List.mem_append.mp hcl with hcl | hcl
        · exact lift1 cl hcl
        · obtain ⟨r, hr, h⟩ := g2 cl hcl
          exact ⟨r, List.mem_append_right _ hr, h⟩
end

/-- path, kind and size of a record (what does not depend on the chain of directories above) -/
def lite (r : FileRec) : Path × Kind × Nat := (r.path, r.kind, r.size)

mutual
theorem allFiles_lite (p : Path) : ∀ (n : Node) (anc anc' : List DirInfo),
    (allFiles p anc n).map lite = (allFiles p anc' n).map lite
  | .file k sz, _, _ => by simp [allFiles, lite]
  | .dir gi es, anc, anc' => by
    simp only [allFiles]
    exact allFilesList_lite p gi es anc anc' 0 0
theorem allFilesList_lite (p : Path) (gi : Option PatSet) : ∀ (es : List (String × Node)) (anc anc' : List DirInfo) (i j : Nat),
    (allFilesList p gi anc es i).map lite = (allFilesList p gi anc' es j).map lite
  | [], _, _, _, _ => by simp [allFilesList]
  | (s, n) :: rest, anc, anc', i, j => by
    simp only [allFilesList, List.map_append]
    rw [allFiles_lite (p ++ [s]) n (anc ++ [(⟨p, gi, i⟩ : DirInfo)]) (anc' ++ [(⟨p, gi, j⟩ : DirInfo)]),
        allFilesList_lite p gi rest anc anc' (i+1) (j+1)]
end

theorem mem_lite {L L' : List FileRec} (h : L.map lite = L'.map lite) (r : FileRec) (hr : r ∈ L) :
    ∃ r' ∈ L', lite r' = lite r := by
  have : lite r ∈ L'.map lite := by rw [← h]; exact List.mem_map_of_mem hr
  obtain ⟨r', hr', he⟩ := List.mem_map.mp this
  exact ⟨r', hr', he⟩

theorem allFilesList_mem (p : Path) (gi : Option PatSet) (s : String) (ch : Node) (A : List DirInfo) :
    ∀ (es : List (String × Node)) (anc : List DirInfo) (k : Nat), (s, ch) ∈ es →
      ∀ r ∈ allFiles (p ++ [s]) A ch, ∃ r' ∈ allFilesList p gi anc es k, lite r' = lite r
  | [], _, _, h, _, _ => by cases h
  | (t, n) :: rest, anc, k, h, r, hr => by
    simp only [allFilesList, List.mem_append]
    rcases List.mem_cons.mp h with h | h
    · injection h with h1 h2
      subst h1 h2
      obtain ⟨r', hr', he⟩ := mem_lite (allFiles_lite (p ++ [s]) ch A (anc ++ [(⟨p, gi, k⟩ : DirInfo)])) r hr
      exact ⟨r', Or.inl hr', he⟩
    · obtain ⟨r', hr', he⟩ := allFilesList_mem p gi s ch A rest anc (k+1) h r hr
      exact ⟨r', Or.inr hr', he⟩

/-- the records of a sub-tree found by `lookup` describe files of the whole tree -/
theorem allFiles_of_lookup : ∀ (q : Path) (p : Path) (anc anc' : List DirInfo) (n m : Node), lookup n q = some m →
    ∀ r ∈ allFiles (p ++ q) anc' m, ∃ r' ∈ allFiles p anc n, lite r' = lite r
  | [], p, anc, anc', n, m, hl, r, hr => by
    have : n = m := by cases n <;> simpa [lookup] using hl
    subst this
    rw [List.append_nil] at hr
    exact mem_lite (allFiles_lite p n anc' anc) r hr
  | s :: q, p, anc, anc', n, m, hl, r, hr => by
    cases n with
    | file k sz => simp [lookup] at hl
    | dir gi es =>
      simp only [lookup] at hl
      cases hf : es.find? (·.1 = s) with
      | none => rw [hf] at hl; cases hl
      | some x =>
        obtain ⟨t, ch⟩ := x
        rw [hf] at hl
        simp only [] at hl
        have hts : t = s := by simpa using List.find?_some hf
        subst hts
        have hmem : (t, ch) ∈ es := List.mem_of_find?_eq_some hf
        have hpq : p ++ t :: q = (p ++ [t]) ++ q := by simp
        rw [hpq] at hr
        obtain ⟨r1, hr1, he1⟩ := allFiles_of_lookup q (p ++ [t]) [] anc' ch m hl r hr
        obtain ⟨r2, hr2, he2⟩ := allFilesList_mem p gi t ch [] es anc 0 hmem r1 hr1
        exact ⟨r2, by simpa [allFiles] using hr2, he2.trans he1⟩

/-- `cl` is an attempt on a non-directory node of the tree `root`, with that node's size -/
def OnFileOfTree (c : Cfg) (root : Node) (cl : Call) : Prop :=
  ∃ r ∈ allFiles [] [] root, r.path = cl.path ∧ r.size = cl.size ∧ c.required cl.ext r.path = true

theorem onFileOfTree_of_lookup (c : Cfg) (root : Node) (q : Path) (m : Node) (anc' : List DirInfo)
    (hl : lookup root q = some m) (cl : Call) (h : OnFileOf c (allFiles q anc' m) cl) : OnFileOfTree c root cl := by
  obtain ⟨r, hr, h1, h2, h3⟩ := h
  obtain ⟨r', hr', he⟩ := allFiles_of_lookup q [] [] anc' root m hl r (by simpa using hr)
  simp only [lite, Prod.mk.injEq] at he
  exact ⟨r', hr', he.1.trans h1, he.2.2.trans h2, by rw [he.1]; exact h3⟩

/-- the invariant: every logged attempt is on a file of one of the trees in `trees` -/
def FilesInv (c : Cfg) (trees : List Node) (s : St) : Prop := ∀ cl ∈ s.calls, ∃ t ∈ trees, OnFileOfTree c t cl

theorem filesInv_append (c : Cfg) (trees : List Node) (s s' : St) (cs : List Call) (h : FilesInv c trees s)
    (hc : s'.calls = s.calls ++ cs) (hcs : ∀ cl ∈ cs, ∃ t ∈ trees, OnFileOfTree c t cl) : FilesInv c trees s' := by
  unfold FilesInv at *
  rw [hc]
  intro cl hcl
  rcases List.mem_append.mp hcl with hcl | hcl
  · exact h cl hcl
  · exact hcs cl hcl

theorem walkFrom_filesInv (c : Cfg) (f : Faults) (trees : List Node) (root : Node) (hroot : root ∈ trees) (p : Path) (s : St)
    (h : FilesInv c trees s) : FilesInv c trees (walkFrom c f s root p).1 := by
  unfold walkFrom
  split
  · exact filesInv_append c trees s _ [] h (by simp [fserrCall_calls]) (by simp)
  · split
    · exact filesInv_append c trees s _ [] h (by simp [fserrCall_calls]) (by simp)
    · rename_i n hl
      obtain ⟨cs, h1, h2⟩ := walkNode_files c f p [] n s
      exact filesInv_append c trees s _ cs h h1
        (fun cl hcl => ⟨root, hroot, onFileOfTree_of_lookup c root p n [] hl cl (h2 cl hcl)⟩)

theorem walkRequested_filesInv (c : Cfg) (f : Faults) (trees : List Node) (root : Node) (hroot : root ∈ trees) (p : Path) (s : St)
    (h : FilesInv c trees s) : FilesInv c trees (walkRequested c f s root p).1 := by
  unfold walkRequested
  split
  · exact filesInv_append c trees s _ [] h (by simp [fserrCall_calls]) (by simp)
  · split
    · exact filesInv_append c trees s _ [] h (by simp [fserrCall_calls]) (by simp)
    · split
      · simp only []
        split
        · exact h
        · exact walkFrom_filesInv c f trees root hroot p _ h
      · exact walkFrom_filesInv c f trees root hroot p s h
    · rename_i k sz hl
      have hp := prologue_calls c s
      generalize prologue c s = r at hp ⊢
      obtain ⟨s1, e1⟩ := r
      simp only [] at hp
      cases e1 with
      | some e => exact filesInv_append c trees s _ [] h (by simp [hp]) (by simp)
      | none =>
        obtain ⟨cs, h1, h2⟩ := handleLeaf_shape c f s1 p (statKind k) sz
        refine filesInv_append c trees s _ cs h (by simp only []; rw [h1, hp]) ?_
        intro cl hcl
        have := h2 cl hcl
        refine ⟨root, hroot, onFileOfTree_of_lookup c root p (.file k sz) [] hl cl ?_⟩
        exact ⟨⟨p, k, sz, []⟩, by simp [allFiles], this.1.symm, this.2.1.symm, this.2.2⟩

theorem walkPaths_filesInv (c : Cfg) (f : Faults) (trees : List Node) (root : Node) (hroot : root ∈ trees) :
    ∀ (ps : List Path) (s : St), FilesInv c trees s → FilesInv c trees (walkPaths c f root s ps).1
  | [], s, hs => by simpa [walkPaths] using hs
  | p :: rest, s, hs => by
    simp only [walkPaths]
    have h1 := walkRequested_filesInv c f trees root hroot p s hs
    generalize walkRequested c f s root p = r at h1 ⊢
    obtain ⟨s1, e1⟩ := r
    simp only []
    split
    · exact h1
    · exact walkPaths_filesInv c f trees root hroot rest s1 h1

theorem runRoot_filesInv (c : Cfg) (f : Faults) (trees : List Node) (root : Node) (hroot : root ∈ trees) (s : St)
    (h : FilesInv c trees s) : FilesInv c trees (runRoot c f s root).1 := by
  unfold runRoot
  simp only []
  split
  · exact walkFrom_filesInv c f trees root hroot [] _ h
  · exact walkPaths_filesInv c f trees root hroot _ _ h

theorem runRoots_filesInv (c : Cfg) (trees : List Node) : ∀ (roots : List (Node × Faults)) (s : St) (acc : List Pkg)
    (sts : List (Nat × Status)), (∀ rf ∈ roots, rf.1 ∈ trees) → FilesInv c trees s →
      ∀ cl ∈ (runRoots c s acc sts roots).calls, ∃ t ∈ trees, OnFileOfTree c t cl
  | [], s, acc, sts, _, hb => by simpa [runRoots, FilesInv] using hb
  | (r, f) :: rest, s, acc, sts, hsub, hb => by
    simp only [runRoots]
    have h1 := runRoot_filesInv c f trees r (hsub (r, f) (by simp)) s hb
    generalize runRoot c f s r = x at h1 ⊢
    obtain ⟨s1, e1⟩ := x
    simp only []
    split
    · exact h1
    · exact runRoots_filesInv c trees rest s1 _ _ (fun rf hrf => hsub rf (by simp [hrf])) h1

/-- **Only files of the scanned trees** (engine level, every configuration): each extraction attempt is for
a non-directory node of one of the roots (a record of the declarative enumeration `allFiles`), carries that
node's size, and is made by an extractor that requires it. -/
theorem run_calls_files (c : Cfg) (roots : List (Node × Faults)) :
    ∀ cl ∈ (run c roots).calls, ∃ rf ∈ roots, ∃ r ∈ allFiles [] [] rf.1,
      r.path = cl.path ∧ r.size = cl.size ∧ c.required cl.ext r.path = true := by
  intro cl hcl
  unfold run at hcl
  obtain ⟨t, ht, h⟩ := runRoots_filesInv c (roots.map (·.1)) roots _ [] [] (fun rf hrf => List.mem_map_of_mem hrf)
    (by intro x hx; simp at hx) cl hcl
  obtain ⟨rf, hrf, rfl⟩ := List.mem_map.mp ht
  exact ⟨rf, hrf, h⟩

end Scalibr.Walk
